#!/bin/sh
# Run the repository's pinned test suite (guard OFF) and compare with /root/.vp/BASELINE.json.
# usage: tools/baseline.sh [repo-dir]
repo="${1:-/repo}"
out="$(mktemp -d)"
cd "$repo" && env -u OFXTOOLS_VERIF /venv/bin/python -m pytest -ra -q -p no:cacheprovider --timeout=900 \
  --continue-on-collection-errors --junitxml="$out/junit.xml" >"$out/log" 2>&1
tail -3 "$out/log"
python3 - "$out/junit.xml" <<'PY'
import json, sys, xml.etree.ElementTree as ET
base = set(json.load(open('/root/.vp/BASELINE.json'))['stable_pass'])
ok = set()
for tc in ET.parse(sys.argv[1]).getroot().iter('testcase'):
    if not any(ch.tag in ('failure', 'error', 'skipped') for ch in tc):
        ok.add(f"{tc.get('classname')}::{tc.get('name')}")
missing = sorted(base - ok)
print(f"baseline {len(base)}  passed-now {len(ok)}  baseline-tests-not-passing {len(missing)}")
for m in missing[:20]:
    print("  MISSING", m)
sys.exit(1 if missing else 0)
PY
rc=$?
rm -rf "$out"
exit $rc
