#!/bin/sh
# run every claimed check (quick) and summarise: tools/run_all.sh [tier]
cd "$(dirname "$0")/.."
tier="${1:-quick}"
for p in $(python3 -c "import json;print(' '.join(c['property_id'] for c in json.load(open('MANIFEST.json'))['checks']))"); do
  s=$(date +%s)
  out=$(./check $p --tier $tier 2>/tmp/run_all_$p.err); rc=$?
  e=$(date +%s)
  echo "$p rc=$rc $((e-s))s $(echo "$out" | grep -c '^KNOWN-FINDING') known $(echo "$out" | grep '^VIOLATION' | head -3 | tr '\n' ';') $(tail -1 /tmp/run_all_$p.err | cut -c1-160)"
done
