#!/usr/bin/env python3
"""
Mechanical mutation sweep (a complement of the hand-written seeded changes).

  tools/mutate.py gen   [--out .work/mut/mutants.json]            enumerate mutants of the anchored source files
  tools/mutate.py suite [--jobs 12]                               which mutants does the repository's own suite kill?
  tools/mutate.py check [--copies 6] [--limit N] [--only-file F]  run the property checks of the file against each survivor
  tools/mutate.py report                                          table of survivors vs. checks -> seeded/mutation/REPORT.md

Mutants are single-token AST edits (comparison operators, boolean operators, integer constants +-1, `not`
removal, True/False swap, slicing bounds, string-constant corruption of single characters inside regexes excluded).
Nothing here decides a property: the sweep measures which realistic one-token changes the *checks* notice that the
*suite* does not, and survivors of both are inspected by hand (equivalent mutant, outside every property, or a gap).
/repo is never modified: each mutant lives in its own scratch copy under $MUT_TMP (default /tmp/mut), removed afterwards.
"""
import argparse
import ast
import concurrent.futures as cf
import json
import os
import shutil
import subprocess
import sys
import time

ROOT = os.path.dirname(os.path.dirname(os.path.abspath(__file__)))
REPO = os.environ.get("OFX_REPO_BASE", "/repo")
TMP = os.environ.get("MUT_TMP", "/tmp/mut")
WORK = os.path.join(ROOT, ".work", "mut")

#: file -> properties whose anchors name it (the checks run against a mutant of that file)
FILE_PROPS = {
    "ofxtools/Types.py": ["C10", "C11", "C09", "C03", "C04", "C01"],
    "ofxtools/Parser.py": ["C02", "C08", "C07", "C01", "C03"],
    "ofxtools/header.py": ["C05", "C12", "C01"],
    "ofxtools/utils.py": ["C20", "C11", "C09", "C01", "C06"],
    "ofxtools/models/base.py": ["C04", "C13", "C16", "C07", "C03", "C01"],
    "ofxtools/Client.py": ["C06", "C14", "C15", "C11"],
    "ofxtools/scripts/ofxget.py": ["C18", "C19"],
}

CMP = {ast.Lt: "<=", ast.LtE: "<", ast.Gt: ">=", ast.GtE: ">", ast.Eq: "!=", ast.NotEq: "==",
       ast.Is: "is not", ast.IsNot: "is", ast.In: "not in", ast.NotIn: "in"}
CMP_SRC = {ast.Lt: "<", ast.LtE: "<=", ast.Gt: ">", ast.GtE: ">=", ast.Eq: "==", ast.NotEq: "!=",
           ast.Is: "is", ast.IsNot: "is not", ast.In: "in", ast.NotIn: "not in"}


def line_offsets(src):
    offs, o = [0], 0
    for ln in src.splitlines(keepends=True):
        o += len(ln.encode("utf-8"))
        offs.append(o)
    return offs


class Finder(ast.NodeVisitor):
    def __init__(self, src):
        self.src = src
        self.b = src.encode("utf-8")
        self.offs = line_offsets(src)
        self.out = []
        self.in_doc = set()

    def span(self, node):
        return (self.offs[node.lineno - 1] + node.col_offset, self.offs[node.end_lineno - 1] + node.end_col_offset)

    def text(self, s, e):
        return self.b[s:e].decode("utf-8")

    def add(self, kind, s, e, new, lineno):
        old = self.text(s, e)
        if old != new:
            self.out.append({"kind": kind, "start": s, "end": e, "old": old, "new": new, "line": lineno})

    def visit_Compare(self, node):
        # operator text lies between the end of the left operand and the start of the right one
        left = node.left
        for op, right in zip(node.ops, node.comparators):
            s = self.span(left)[1]
            e = self.span(right)[0]
            gap = self.text(s, e)
            tok = CMP_SRC.get(type(op))
            if tok and gap.count(tok.split()[0]) >= 1 and type(op) in CMP:
                i = gap.find(tok if " " not in tok else tok.split()[0])
                if i >= 0:
                    # replace the whole gap, keeping one blank on either side
                    self.add("cmp", s, e, " " + CMP[type(op)] + " ", node.lineno)
            left = right
        self.generic_visit(node)

    def visit_BoolOp(self, node):
        for a, b in zip(node.values, node.values[1:]):
            s = self.span(a)[1]
            e = self.span(b)[0]
            gap = self.text(s, e)
            if isinstance(node.op, ast.And) and "and" in gap and "#" not in gap:
                self.add("boolop", s, e, gap.replace("and", "or", 1), node.lineno)
            elif isinstance(node.op, ast.Or) and "or" in gap and "#" not in gap:
                self.add("boolop", s, e, gap.replace("or", "and", 1), node.lineno)
        self.generic_visit(node)

    def visit_UnaryOp(self, node):
        if isinstance(node.op, ast.Not):
            s, e = self.span(node)
            os_, oe = self.span(node.operand)
            self.add("not", s, e, self.text(os_, oe) if isinstance(node.operand, (ast.Name, ast.Attribute, ast.Call)) else "(" + self.text(os_, oe) + ")", node.lineno)
        self.generic_visit(node)

    def visit_Constant(self, node):
        s, e = self.span(node)
        v = node.value
        if isinstance(v, bool):
            self.add("bool", s, e, "False" if v else "True", node.lineno)
        elif isinstance(v, int) and self.text(s, e).isdigit():
            self.add("int+1", s, e, str(v + 1), node.lineno)
            if v > 0:
                self.add("int-1", s, e, str(v - 1), node.lineno)

    def visit_BinOp(self, node):
        s = self.span(node.left)[1]
        e = self.span(node.right)[0]
        gap = self.text(s, e)
        swap = {ast.Add: ("+", "-"), ast.Sub: ("-", "+"), ast.Mult: ("*", "//"), ast.FloorDiv: ("//", "*"), ast.Mod: ("%", "//")}
        t = swap.get(type(node.op))
        if t and gap.count(t[0]) == 1 and "#" not in gap and not isinstance(node.left, ast.Constant) or (t and isinstance(node.left, ast.Constant) and not isinstance(node.left.value, str) and gap.count(t[0]) == 1):
            if not (isinstance(node.left, ast.Constant) and isinstance(node.left.value, str)):
                self.add("arith", s, e, gap.replace(t[0], t[1], 1), node.lineno)
        self.generic_visit(node)

    def visit_If(self, node):
        # drop an `else`-less guard that only raises/returns/continues: replace test by False is too blunt;
        # we negate nothing here (covered by cmp/not/boolop)
        self.generic_visit(node)

    def visit_Expr(self, node):
        if isinstance(node.value, ast.Constant) and isinstance(node.value.value, str):
            return  # docstring
        self.generic_visit(node)

    def visit_Subscript(self, node):
        sl = node.slice
        if isinstance(sl, ast.Slice):
            for part in (sl.lower, sl.upper):
                if isinstance(part, ast.Constant) and isinstance(part.value, int) and not isinstance(part.value, bool):
                    pass  # covered by visit_Constant
        self.generic_visit(node)


def gen(args):
    muts = []
    for rel in FILE_PROPS:
        src = open(os.path.join(REPO, rel), encoding="utf-8").read()
        f = Finder(src)
        f.visit(ast.parse(src))
        seen = set()
        for m in f.out:
            key = (m["start"], m["end"], m["new"])
            if key in seen:
                continue
            seen.add(key)
            b = src.encode("utf-8")
            new_src = (b[:m["start"]] + m["new"].encode("utf-8") + b[m["end"]:]).decode("utf-8")
            try:
                ast.parse(new_src)
            except SyntaxError:
                continue
            m["file"] = rel
            muts.append(m)
    for i, m in enumerate(muts):
        m["id"] = f"M{i:04d}"
    os.makedirs(WORK, exist_ok=True)
    json.dump(muts, open(os.path.join(WORK, "mutants.json"), "w"), indent=0)
    by = {}
    for m in muts:
        by[m["file"]] = by.get(m["file"], 0) + 1
    print(len(muts), "mutants", by)


def make_copy(m, dst):
    """scratch copy of the repo's working tree (no .git), mutant applied"""
    if os.path.exists(dst):
        shutil.rmtree(dst)
    os.makedirs(dst)
    subprocess.run(["rsync", "-a", "--exclude", ".git", "--exclude", "__pycache__", "--exclude", ".pytest_cache",
                    REPO + "/", dst + "/"], check=True)
    p = os.path.join(dst, m["file"])
    b = open(p, "rb").read()
    st, en, old = m["start"], m["end"], m["old"].encode("utf-8")
    if b[st:en] != old:
        # the file changed since `gen` (a fix: commit): the same token on the same line, nearest to the old offset
        cands = [i for i in range(max(0, st - 400), min(len(b), st + 400)) if b[i:i + len(old)] == old
                 and b[:i].count(b"\n") + 1 == m["line"]]
        assert cands, ("cannot re-locate", m)
        st = min(cands, key=lambda i: abs(i - m["start"]))
        en = st + len(old)
    open(p, "wb").write(b[:st] + m["new"].encode("utf-8") + b[en:])


def suite_one(m):
    dst = os.path.join(TMP, "s-" + m["id"])
    try:
        make_copy(m, dst)
        t0 = time.time()
        r = subprocess.run(["/venv/bin/python", "-m", "pytest", "-q", "-x", "-p", "no:cacheprovider", "--timeout=300"],
                           cwd=dst, capture_output=True, text=True, timeout=1500,
                           env=dict(os.environ, PYTHONDONTWRITEBYTECODE="1"))
        tail = (r.stdout + r.stderr).strip().splitlines()[-1:] or [""]
        return m["id"], r.returncode == 0, tail[0][:200], round(time.time() - t0, 1)
    except Exception as e:   # noqa
        return m["id"], False, "error: " + repr(e)[:150], 0
    finally:
        shutil.rmtree(dst, ignore_errors=True)


def suite(args):
    muts = json.load(open(os.path.join(WORK, "mutants.json")))
    resf = os.path.join(WORK, "suite.json")
    res = json.load(open(resf)) if os.path.exists(resf) else {}
    todo = [m for m in muts if m["id"] not in res]
    if args.only_file:
        todo = [m for m in todo if m["file"] == args.only_file]
    print(len(todo), "to run")
    with cf.ThreadPoolExecutor(args.jobs) as ex:
        for n, (mid, ok, tail, dt) in enumerate(ex.map(suite_one, todo)):
            res[mid] = {"survives_suite": ok, "tail": tail, "s": dt}
            if n % 10 == 0:
                json.dump(res, open(resf, "w"), indent=0)
                print(n, sum(1 for v in res.values() if v["survives_suite"]), "survivors so far", flush=True)
    json.dump(res, open(resf, "w"), indent=0)
    print("survivors", sum(1 for v in res.values() if v["survives_suite"]), "of", len(res))


def check_worker(copy_dir, jobs, resf_lock, res, resf, tier):
    for m in jobs:
        dst = os.path.join(TMP, "c-" + m["id"])
        out = {}
        try:
            make_copy(m, dst)
            for p in FILE_PROPS[m["file"]]:
                t0 = time.time()
                env = dict(os.environ, OFX_REPO=dst, VERIF_EVIDENCE_DIR=os.path.join(copy_dir, ".work", "mut_evidence"))
                try:
                    r = subprocess.run([os.path.join(copy_dir, "check"), p, "--tier", tier], cwd=copy_dir, env=env,
                                       capture_output=True, text=True, timeout=2400)
                    viol = [l for l in r.stdout.splitlines() if l.startswith("VIOLATION")]
                    tags = []
                    for l in viol:
                        for tok in l.split():
                            if tok.startswith("replay="):
                                try:
                                    d = json.load(open(os.path.join(copy_dir, tok[7:])))
                                    tags.append(str(d.get("tag") or d.get("kind")))
                                except Exception:   # noqa
                                    pass
                    out[p] = {"rc": r.returncode, "tags": tags[:6], "nfi": any("no-failing-input-found" in l for l in viol),
                              "s": round(time.time() - t0, 1)}
                except subprocess.TimeoutExpired:
                    out[p] = {"rc": 2, "tags": ["timeout"], "s": 2400}
                if out[p]["rc"] == 1 and not args_global.all_props:
                    break   # one detecting check is enough
        except Exception as e:   # noqa
            out["error"] = repr(e)[:200]
        finally:
            shutil.rmtree(dst, ignore_errors=True)
            # the copy's replay files are scratch
            shutil.rmtree(os.path.join(copy_dir, "replays"), ignore_errors=True)
            os.makedirs(os.path.join(copy_dir, "replays"), exist_ok=True)
        with resf_lock:
            if m["id"] in res and isinstance(res[m["id"]], dict):
                merged = dict(res[m["id"]]); merged.update(out); out = merged
            res[m["id"]] = out
            json.dump(res, open(resf, "w"), indent=0)
        print(m["id"], m["file"], m["line"], m["old"].strip(), "->", m["new"].strip(), {k: v.get("rc") for k, v in out.items() if isinstance(v, dict)}, flush=True)


args_global = None


def check(args):
    import threading
    global args_global
    args_global = args
    muts = json.load(open(os.path.join(WORK, "mutants.json")))
    sres = json.load(open(os.path.join(WORK, "suite.json")))
    resf = os.path.join(WORK, "check.json")
    res = json.load(open(resf)) if os.path.exists(resf) else {}
    todo = [m for m in muts if sres.get(m["id"], {}).get("survives_suite") and m["id"] not in res]
    if args.only_file:
        todo = [m for m in todo if m["file"] == args.only_file]
    if args.recheck_props:
        # second pass: mutants of --only-file that no check of the first pass reported, against further properties
        extra = args.recheck_props.split(",")
        FILE_PROPS[args.only_file] = extra
        todo = [m for m in muts if m["file"] == args.only_file and m["id"] in res
                and not any(isinstance(v, dict) and v.get("rc") == 1 for v in res[m["id"]].values())
                and not all(p in res[m["id"]] for p in extra)]
    if args.limit:
        todo = todo[:args.limit]
    print(len(todo), "survivors to check")
    # independent copies of /verif (checks against different trees must not share generated files)
    copies = []
    for k in range(args.copies):
        c = os.path.join(TMP, f"verif{k}")
        subprocess.run(["rsync", "-a", "--delete", "--exclude", ".git", "--exclude", ".work/mut", "--exclude", "replays/*",
                        ROOT + "/", c + "/"], check=True)
        copies.append(c)
    lock = threading.Lock()
    ths = []
    for k, c in enumerate(copies):
        t = threading.Thread(target=check_worker, args=(c, todo[k::args.copies], lock, res, resf, args.tier))
        t.start()
        ths.append(t)
    for t in ths:
        t.join()
    if not args.keep:
        for c in copies:
            shutil.rmtree(c, ignore_errors=True)


def report(args):
    muts = {m["id"]: m for m in json.load(open(os.path.join(WORK, "mutants.json")))}
    sres = json.load(open(os.path.join(WORK, "suite.json")))
    cres = json.load(open(os.path.join(WORK, "check.json"))) if os.path.exists(os.path.join(WORK, "check.json")) else {}
    rows = []
    for mid, m in muts.items():
        s = sres.get(mid)
        if not s or not s["survives_suite"]:
            continue
        c = cres.get(mid)
        if c is None:
            verdict = "not run"
        else:
            caught = [p for p, v in c.items() if isinstance(v, dict) and v.get("rc") == 1]
            infra = [p for p, v in c.items() if isinstance(v, dict) and v.get("rc") == 2]
            verdict = ("caught by " + ",".join(f"{p}({'/'.join(c[p]['tags'][:2])})" for p in caught)) if caught else ("INFRA " + ",".join(infra) if infra else "SURVIVES all of " + ",".join(k for k in c if k != "error"))
        rows.append((m["file"], m["line"], mid, m["kind"], m["old"].strip(), m["new"].strip(), verdict))
    rows.sort()
    tot = len(muts)
    surv = sum(1 for v in sres.values() if v["survives_suite"])
    caught = sum(1 for r in rows if r[6].startswith("caught"))
    lines = [f"# Mutation sweep", "",
             f"{tot} single-token mutants of the anchored files; {len(sres)} run against the repository's suite, {surv} survive it; "
             f"of those, {caught} are reported as a VIOLATION by a property check, {sum(1 for r in rows if r[6].startswith('SURVIVES'))} by none "
             f"(inspected by hand: see DESIGN.md 13.7).", "",
             "| file | line | id | kind | old | new | verdict |", "|---|---|---|---|---|---|---|"]
    for r in rows:
        lines.append("| " + " | ".join(str(x).replace("|", "\\|") for x in r) + " |")
    os.makedirs(os.path.join(ROOT, "seeded", "mutation"), exist_ok=True)
    open(os.path.join(ROOT, "seeded", "mutation", "REPORT.md"), "w").write("\n".join(lines) + "\n")
    print("\n".join(lines[:4]))
    for r in rows:
        if not r[6].startswith("caught"):
            print(r)


if __name__ == "__main__":
    ap = argparse.ArgumentParser()
    ap.add_argument("cmd", choices=["gen", "suite", "check", "report"])
    ap.add_argument("--jobs", type=int, default=12)
    ap.add_argument("--copies", type=int, default=6)
    ap.add_argument("--limit", type=int, default=0)
    ap.add_argument("--only-file", default=None)
    ap.add_argument("--tier", default="quick")
    ap.add_argument("--keep", action="store_true")
    ap.add_argument("--all-props", action="store_true")
    ap.add_argument("--recheck-props", default=None)
    a = ap.parse_args()
    {"gen": gen, "suite": suite, "check": check, "report": report}[a.cmd](a)
