#!/bin/sh
# tools/seed_batch.sh <copy-dir> <seed-name>... : import seeds from /tmp/seedout into seeded/, test each in an
# independent copy of /verif (so that /verif's generated files are never those of a patched tree), copy result.json back
here="$(cd "$(dirname "$0")/.." && pwd)"
copy="$1"; shift
mkdir -p "$copy"
rsync -a --delete --exclude .git --exclude '.work/mut' --exclude 'replays/*' "$here/" "$copy/"
for s in "$@"; do
  if [ -d "/tmp/seedout/$s" ] && [ ! -d "$here/seeded/$s" ]; then
    mkdir -p "$here/seeded/$s"; cp /tmp/seedout/$s/patch.diff /tmp/seedout/$s/demo.py /tmp/seedout/$s/meta.json "$here/seeded/$s/"
  fi
  rsync -a "$here/seeded/$s/" "$copy/seeded/$s/"
  python3 "$copy/tools/seed_test.py" "$copy/seeded/$s" $SEED_TEST_ARGS
  cp "$copy/seeded/$s/result.json" "$here/seeded/$s/result.json"
done
