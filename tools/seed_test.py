#!/usr/bin/env python3
"""
Confirm a seeded change and run checks against it.

  tools/seed_test.py <seed_dir> [--props C01,C03] [--tier quick] [--no-suite]

<seed_dir> holds patch.diff, demo.py, meta.json (property, summary, needs, ...).
Steps: scratch worktree of /repo HEAD (outside /repo and /verif) -> demo passes on the clean tree ->
apply patch -> demo fails -> (unless --no-suite) the repo's pinned suite still passes -> run the listed
checks with OFX_REPO pointing at the patched worktree -> write <seed_dir>/result.json -> remove the worktree.
/repo itself is never modified.
"""
import argparse
import json
import os
import shutil
import subprocess
import sys
import time

ROOT = os.path.dirname(os.path.dirname(os.path.abspath(__file__)))
REPO = os.environ.get("OFX_REPO_BASE", "/repo")


def sh(cmd, cwd=None, env=None, timeout=3600):
    r = subprocess.run(cmd, cwd=cwd, env=env, shell=isinstance(cmd, str), capture_output=True, text=True, timeout=timeout)
    return r.returncode, r.stdout, r.stderr


def main():
    ap = argparse.ArgumentParser()
    ap.add_argument("seed")
    ap.add_argument("--props", default=None)
    ap.add_argument("--tier", default="quick")
    ap.add_argument("--no-suite", action="store_true")
    a = ap.parse_args()
    seed = os.path.abspath(a.seed)
    meta = json.load(open(os.path.join(seed, "meta.json")))
    props = (a.props.split(",") if a.props else [meta["property"]])
    name = os.path.basename(seed.rstrip("/"))
    wt = f"/tmp/seedtest/{name}-{os.getpid()}"
    os.makedirs("/tmp/seedtest", exist_ok=True)
    res = {"seed": name, "property": meta["property"], "summary": meta.get("summary"), "needs": meta.get("needs"),
           "checks": {}, "at": time.strftime("%Y-%m-%dT%H:%M:%SZ", time.gmtime())}
    rc, o, e = sh(["git", "-C", REPO, "worktree", "add", "-q", "--detach", wt, "HEAD"])
    if rc != 0:
        print("cannot create worktree", e)
        return 2
    try:
        demo = os.path.join(seed, "demo.py")
        rc0, o0, e0 = sh(["/venv/bin/python", demo], cwd=wt, timeout=600)
        res["demo_clean_rc"] = rc0
        rc, o, e = sh(["git", "apply", os.path.join(seed, "patch.diff")], cwd=wt)
        res["patch_applies"] = (rc == 0)
        if rc != 0:
            res["error"] = e[-500:]
            return finish(seed, res, 2)
        rc1, o1, e1 = sh(["/venv/bin/python", demo], cwd=wt, timeout=600)
        res["demo_patched_rc"] = rc1
        res["demo_patched_tail"] = (o1 + e1)[-400:]
        if a.no_suite:
            # keep the verdict of the last run that did include the suite
            try:
                prev = json.load(open(os.path.join(seed, "result.json")))
                if prev.get("suite_passes") is not None:
                    res["suite_passes"] = prev["suite_passes"]
                    res["suite_tail"] = prev.get("suite_tail")
                    res["suite_checked_at"] = prev.get("suite_checked_at") or prev.get("at")
            except Exception:   # noqa
                pass
        if not a.no_suite:
            rc2, o2, e2 = sh([os.path.join(ROOT, "tools", "baseline.sh"), wt], timeout=1800)
            res["suite_passes"] = (rc2 == 0)
            res["suite_tail"] = o2[-200:]
        env = dict(os.environ, OFX_REPO=wt, VERIF_EVIDENCE_DIR=os.path.join(ROOT, ".work", "seed_evidence"))
        for p in props:
            t0 = time.time()
            rc3, o3, e3 = sh([os.path.join(ROOT, "check"), p, "--tier", a.tier], cwd=ROOT, env=env, timeout=7200)
            viol = [l for l in o3.splitlines() if l.startswith("VIOLATION")]
            replays = {}
            for l in viol:
                for tok in l.split():
                    if tok.startswith("replay="):
                        rp = os.path.join(ROOT, tok[7:])
                        try:
                            d = json.load(open(rp))
                            replays[tok[7:]] = {"kind": d.get("kind"), "tag": d.get("tag"), "what": str(d.get("what"))[:300]}
                        except Exception:
                            pass
            res["checks"][p] = {"rc": rc3, "violations": viol, "replays": replays, "wall_s": round(time.time() - t0, 1),
                                "stderr_tail": e3[-300:]}
        return finish(seed, res, 0)
    finally:
        sh(["git", "-C", REPO, "worktree", "remove", "--force", wt])
        shutil.rmtree(wt, ignore_errors=True)
        # restore generated files for the real tree (under the checks' lock: another seed test may be running)
        import fcntl
        os.makedirs(os.path.join(ROOT, ".work"), exist_ok=True)
        with open(os.path.join(ROOT, ".work", "lock"), "w") as lf:
            fcntl.flock(lf, fcntl.LOCK_EX)
            sh([sys.executable, os.path.join(ROOT, "harness", "translate.py")], cwd=ROOT)
            fcntl.flock(lf, fcntl.LOCK_UN)


def finish(seed, res, rc):
    with open(os.path.join(seed, "result.json"), "w") as f:
        json.dump(res, f, indent=1, sort_keys=True)
    caught = [p for p, c in res["checks"].items() if c["rc"] == 1]
    print(json.dumps({"seed": res["seed"], "demo_clean_rc": res.get("demo_clean_rc"), "demo_patched_rc": res.get("demo_patched_rc"),
                      "suite_passes": res.get("suite_passes"), "caught_by": caught,
                      "rcs": {p: c["rc"] for p, c in res["checks"].items()}}))
    return rc


if __name__ == "__main__":
    sys.exit(main())
