#!/usr/bin/env python3
"""
Union, over the evidence files of all checks, of the implementation lines the correspondence executed
(evidence/Cnn.json -> coverage.implementation_lines), and the function-body lines of the anchored files that no
check executed.  Usage: tools/impl_coverage.py [evidence-dir] ; writes nothing, prints a report.
"""
import json, os, sys
ROOT = os.path.dirname(os.path.dirname(os.path.abspath(__file__)))
sys.path.insert(0, os.path.join(ROOT, "harness"))
from framework import ImplCoverage, REPO   # noqa: E402

def expand(r):
    out = set()
    for tok in r.split():
        a, _, b = tok.partition("-")
        out.update(range(int(a), int(b or a) + 1))
    return out

evdir = sys.argv[1] if len(sys.argv) > 1 else os.path.join(ROOT, "evidence")
hit = {}
per = {}
for fn in sorted(os.listdir(evdir)):
    if not fn.endswith(".json"):
        continue
    il = json.load(open(os.path.join(evdir, fn)))["coverage"].get("implementation_lines") or {}
    for rel, v in il.items():
        if isinstance(v, dict) and "executed_lines" in v:
            ls = expand(v["executed_lines"])
            hit.setdefault(rel, set()).update(ls)
            per.setdefault(rel, {})[fn[:-5]] = len(ls)
for rel in ImplCoverage.FILES:
    path = os.path.join(REPO, "ofxtools", rel)
    ex = ImplCoverage._executable(path)
    h = hit.get(rel, set()) & ex
    missed = sorted(ex - h)
    print(f"== {rel}: {len(h)}/{len(ex)} function-body lines executed by some check; per check: {per.get(rel)}")
    src = open(path, encoding="utf-8").read().splitlines()
    for ln in missed:
        print(f"   {ln:5d}  {src[ln-1].rstrip()[:110]}")
