#!/usr/bin/env python3
"""Write seeded/README.md from seeded/*/meta.json, result.json and seeded/history.json."""
import glob
import json
import os

ROOT = os.path.dirname(os.path.dirname(os.path.abspath(__file__)))


def main():
    hist = json.load(open(os.path.join(ROOT, "seeded", "history.json")))["initially_missed"]
    rows, caught, total = [], 0, 0
    for d in sorted(glob.glob(os.path.join(ROOT, "seeded", "C*-*"))):
        name = os.path.basename(d)
        try:
            meta = json.load(open(os.path.join(d, "meta.json")))
        except Exception:
            continue
        res = {}
        rp = os.path.join(d, "result.json")
        if os.path.exists(rp):
            res = json.load(open(rp))
        checks = res.get("checks", {})
        verdicts = []
        for p, c in sorted(checks.items()):
            tags = sorted({(r.get("tag") or r.get("kind") or "?") for r in c.get("replays", {}).values()})
            verdicts.append(f"{p}: " + ("VIOLATION (" + ", ".join(tags)[:120] + ")" if c["rc"] == 1 else
                                        ("passed (missed)" if c["rc"] == 0 else f"exit {c['rc']}")))
        ok = any(c["rc"] == 1 for c in checks.values())
        total += 1
        caught += ok
        rows.append((name, meta.get("property"), (meta.get("summary") or "").replace("|", "/").replace("\n", " ")[:260],
                     (meta.get("needs") or "").replace("|", "/").replace("\n", " ")[:220],
                     "; ".join(verdicts) or "not run", res.get("suite_passes"), res.get("demo_patched_rc"), hist.get(name)))
    out = ["# Seeded changes", "",
           "Each directory holds one realistic change to csingley/ofxtools that breaks the property named in its",
           "`meta.json` while the library still imports and the repository's 3592 tests still pass: `patch.diff`",
           "(`git apply` at the repo root), `demo.py` (exits 0 on the clean tree, non-zero with the change), `meta.json`",
           "(what was changed, what it needs to manifest, why the tests do not notice) and `result.json` (written by",
           "`tools/seed_test.py`: demo on the clean and on the patched tree, suite on the patched tree, and the verdict of",
           "the property's check run with `OFX_REPO=<patched scratch worktree>`).  The changes were written by independent",
           "agents that saw only the text of one property and a scratch worktree — nothing of /verif.  None of them is",
           "ever applied to /repo.",
           "",
           f"Current state: **{caught} of {total}** seeds are reported as a VIOLATION of their property by that property's",
           "quick check (last column of the first table).  The second table lists the seeds that a check missed when it was",
           "first run against them and what was strengthened in the machinery as a result (the seeds themselves are never",
           "edited to fit the checks).",
           "",
           "Re-run one: `python3 tools/seed_test.py seeded/C01-A`; all: `for d in seeded/C*-*; do python3 tools/seed_test.py $d; done`.",
           "",
           "| seed | property | change | needs | suite passes / demo fails | verdict of the check |",
           "|---|---|---|---|---|---|"]
    for name, prop, summ, needs, verd, suite, demo, h in rows:
        out.append(f"| {name} | {prop} | {summ} | {needs} | {suite} / {demo == 1} | {verd} |")
    out += ["", "## Seeds a check missed at first, and what was strengthened", "",
            "| seed | what the check lacked → what was changed |", "|---|---|"]
    for name in sorted(hist):
        out.append(f"| {name} | {hist[name]} |")
    with open(os.path.join(ROOT, "seeded", "README.md"), "w") as f:
        f.write("\n".join(out) + "\n")
    print(f"{caught}/{total} caught")


if __name__ == "__main__":
    main()
