#!/usr/bin/env python3
"""Regenerate MANIFEST.json from tools/manifest_table.json (kept by hand)."""
import json, os
root = os.path.dirname(os.path.dirname(os.path.abspath(__file__)))
tab = json.load(open(os.path.join(root, "tools", "manifest_table.json")))
props = [json.loads(l)["id"] for l in open(os.path.join(root, "properties.jsonl")) if l.strip()]
checks, na = [], []
for pid in props:
    t = tab["checks"].get(pid)
    if t is None:
        na.append({"property_id": pid, "reason": tab["not_applicable"].get(pid, "check not built yet in this session; see DESIGN.md")})
        continue
    checks.append({
        "property_id": pid,
        "quick_cmd": f"./check {pid} --tier quick",
        "thorough_cmd": f"./check {pid} --tier thorough",
        "evidence_file": f"evidence/{pid}.json",
        "replay_cmd_template": f"./check {pid} --replay {{path}}",
        "engine": "lean-proofs+correspondence",
        "level_claimed": {"category": "proof", "text": t["text"], "design_ref": t["design_ref"]},
        "level_note": t["note"],
        "technique": t["technique"],
    })
m = {
    "version": 1,
    "setup_cmd": "./setup.sh",
    "hooks": {"guard": "OFXTOOLS_VERIF", "enable": "no hooks are needed: the harness observes ofxtools in-process (module attributes replaced by the harness, never in /repo)",
              "baseline_off_cmd": "cd /repo && /venv/bin/python -m pytest -ra -q -p no:cacheprovider --timeout=900 --continue-on-collection-errors",
              "source_commits": [], "add_only": True},
    "engines": [
        {"name": "lean-proofs", "path": "lean/OfxProofs", "serves_properties": [c["property_id"] for c in checks],
         "kind_free_text": "Lean 4 theorems about a hand-written + generated model (lake build, #print axioms audit, leanchecker in the thorough tier)"},
        {"name": "correspondence", "path": "harness", "serves_properties": [c["property_id"] for c in checks],
         "kind_free_text": "translator (data) + differential execution of the compiled Lean model against the real ofxtools functions (logic); spec oracles search for failing inputs"},
    ],
    "checks": checks,
    "not_applicable": na,
    "notes": tab.get("notes", ""),
}
json.dump(m, open(os.path.join(root, "MANIFEST.json"), "w"), indent=1)
print(f"{len(checks)} checks, {len(na)} not claimed")
