#!/bin/sh
# tools/harmless_test.sh H1..H7 : every check must pass on a harmless change (see seeded/harmless/README.md)
root="$(cd "$(dirname "$0")/.." && pwd)"
wt="/tmp/seedtest/harmless-$1-$$"
mkdir -p /tmp/seedtest
git -C "${OFX_REPO_BASE:-/repo}" worktree add -q --detach "$wt" HEAD || exit 2
( cd "$wt" && git apply "$root/seeded/harmless/$1.diff" ) || { git -C "${OFX_REPO_BASE:-/repo}" worktree remove --force "$wt"; exit 2; }
cd "$root"
bad=0
for p in $(python3 -c "import json;print(' '.join(c['property_id'] for c in json.load(open('MANIFEST.json'))['checks']))"); do
  out=$(OFX_REPO="$wt" VERIF_EVIDENCE_DIR="$root/.work/seed_evidence" ./check $p --tier quick 2>&1); rc=$?
  [ $rc -ne 0 ] && bad=1
  echo "$1 $p rc=$rc $(echo "$out" | grep '^VIOLATION' | head -2 | tr '\n' ';') $(echo "$out" | grep 'note: witness' | head -1 | cut -c1-100)"
done
git -C "${OFX_REPO_BASE:-/repo}" worktree remove --force "$wt"
python3 harness/translate.py >/dev/null
exit $bad
