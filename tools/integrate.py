#!/usr/bin/env python3
"""Merge handoff/*.json (from the layer builders) into the shared registration files.
Idempotent: shared files are regenerated from tools/base_registry.json + all handoffs."""
import json, os, glob, sys
root = os.path.dirname(os.path.dirname(os.path.abspath(__file__)))
base = json.load(open(os.path.join(root, "tools", "base_registry.json")))
model_imports = list(base["model_imports"]); proofs_imports = list(base["proofs_imports"])
drv_imports = list(base["drv_imports"]); drv_handlers = list(base["drv_handlers"])
import copy as _copy
index = _copy.deepcopy(base["proofs_index"]); manifest = dict(base["manifest"]); findings = list(base["findings"])
skip = set(base.get("skip_handoffs", []))
notes = {}
for path in sorted(glob.glob(os.path.join(root, "handoff", "*.json"))):
    name = os.path.basename(path)[:-5]
    if name in skip or name in base.get("extension_handoffs", []):
        continue
    try:
        h = json.load(open(path))
    except Exception as e:
        print("cannot read", path, e); continue
    missing = [f for f in h.get("files", []) if not os.path.exists(os.path.join(root, f))]
    if missing:
        print(f"{name}: missing files {missing}")
    for k, dst in (("model_imports", model_imports), ("proofs_imports", proofs_imports),
                   ("drv_imports", drv_imports), ("drv_handlers", drv_handlers)):
        for x in h.get(k, []):
            if x not in dst and x not in base.get("exclude", []):
                dst.append(x)
    for k, v in h.get("proofs_index", {}).items():
        if k in base["proofs_index"]:
            # the integrator owns this entry: merge only declared extras
            e = index[k]
            for t in v.get(f"{k}_extra_theorems", []):
                if t not in e["theorems"]:
                    e["theorems"].append(t)
            for m in v.get(f"{k}_extra_modules", []):
                tgt = e["gen_modules"] if ".Gen." in m else e["modules"]
                if m not in tgt:
                    tgt.append(m)
            for a_ in v.get(f"{k}_extra_assumptions", []):
                if a_ not in e.setdefault("assumptions", []):
                    e["assumptions"].append(a_)
            continue
        index[k] = v
    for k, v in h.get("manifest", {}).items():
        if k not in base.get("manifest_override", {}):
            manifest[k] = v
    base_keys = {(f["property"], f["id"]) for f in base["findings"]}
    for f in h.get("findings", []):
        key = (f["property"], f["id"])
        if key in base_keys:
            continue
        f = dict(f); f.pop("fix_patch", None); f.pop("fix_note", None)
        findings[:] = [g for g in findings if (g["property"], g["id"]) != key]
        findings.append(f)
    notes[name] = h.get("design_notes", "")
index.update(base.get("index_override", {})); manifest.update(base.get("manifest_override", {}))

# ---- extension handoffs (session 3): ADD to an existing property's entry instead of replacing it --------------------
EXTENSIONS = base.get("extension_handoffs", [])
_note_replaced = set()
for name in EXTENSIONS:
    path = os.path.join(root, "handoff", name + ".json")
    if not os.path.exists(path):
        print("extension handoff missing:", name); continue
    h = json.load(open(path))
    missing = [f for f in h.get("files", []) if not os.path.exists(os.path.join(root, f))]
    if missing:
        print(f"{name}: missing files {missing}")
    for k, dst in (("model_imports", model_imports), ("proofs_imports", proofs_imports),
                   ("drv_imports", drv_imports), ("drv_handlers", drv_handlers)):
        for x in h.get(k, []):
            if x not in dst:
                dst.append(x)
    for k, v in h.get("proofs_index", {}).items():
        e = index[k] = _copy.deepcopy(index[k])
        for fld in ("modules", "gen_modules", "theorems", "witness_modules", "witness_theorems", "trusted_extra"):
            for x in v.get(fld, []):
                if x not in e.setdefault(fld, []):
                    e[fld].append(x)
        for x in v.get("theorems_add", []):
            if x not in e["theorems"]:
                e["theorems"].append(x)
        if v.get("assumptions_remove"):
            e["assumptions"] = [a_ for a_ in e.get("assumptions", []) if a_ not in set(v["assumptions_remove"])]
        for a_ in v.get("assumptions_add", []):
            if a_ not in e.setdefault("assumptions", []):
                e["assumptions"].append(a_)
        if isinstance(v.get("assumptions_replace"), dict):
            e["assumptions"] = [a_ if not any(o in a_ for o in v["assumptions_replace"]) else
                                [a_.replace(o, n_) for o, n_ in v["assumptions_replace"].items() if o in a_][0]
                                for a_ in e.get("assumptions", [])]
        elif v.get("assumptions_replace"):
            e["assumptions"] = list(v.get("assumptions", []))
        else:
            drop = set(v.get("assumptions_to_drop", []))
            e["assumptions"] = [a_ for a_ in e.get("assumptions", []) if a_ not in drop]
            for a_ in v.get("assumptions", []):
                if a_ not in e["assumptions"]:
                    e["assumptions"].append(a_)
    for k, v in h.get("manifest", {}).items():
        m = manifest[k] = dict(manifest[k])
        if v.get("text"):
            m["text"] = v["text"]
        if v.get("note") and v.get("text"):
            m["note"] = v["note"]
        for o, n_ in (v.get("note_replace") or {}).items():
            m["note"] = m.get("note", "").replace(o, n_)
        add = v.get("text_add") or v.get("text_addition")
        if add and add not in m.get("text", ""):
            m["text"] = m.get("text", "").rstrip() + " EXTENSION: " + add
        if v.get("note") and not v.get("text"):
            # the first extension of a property replaces the base note (which described the state before the extensions);
            # later ones append
            if k not in _note_replaced:
                m["note"] = v["note"]; _note_replaced.add(k)
            elif v["note"] not in m.get("note", ""):
                m["note"] = m["note"].rstrip() + " | " + v["note"]
        if v.get("note_addition") and v["note_addition"] not in m.get("note", ""):
            m["note"] = (m.get("note", "").rstrip() + " | " + v["note_addition"]).strip(" |")
        if v.get("technique"):
            m["technique"] = v["technique"]
    for f in h.get("findings", []):
        if f.get("status") not in ("known", "fixed"):
            continue
        key = (f["property"], f["id"])
        f = dict(f); f.pop("fix_patch", None); f.pop("fix_note", None)
        findings[:] = [g for g in findings if (g["property"], g["id"]) != key]
        findings.append(f)
    notes[name] = h.get("design_notes", "")

for k, note in base.get("note_override", {}).items():
    if k in manifest:
        manifest[k] = dict(manifest[k]); manifest[k]["note"] = note

def write(p, s):
    p = os.path.join(root, p)
    old = open(p).read() if os.path.exists(p) else None
    if old != s:
        open(p, "w").write(s); print("updated", os.path.relpath(p, root))

write("lean/OfxModel.lean", "".join(f"import {m}\n" for m in model_imports + ["OfxModel.Drv.All"]))
write("lean/OfxProofs.lean", "".join(f"import {m}\n" for m in proofs_imports))
write("lean/OfxModel/Drv/All.lean", "".join(f"import {m}\n" for m in drv_imports)
      + "\nnamespace Ofx.Drv\ndef handlers : List Handler := [" + ", ".join(drv_handlers) + "]\nend Ofx.Drv\n")
write("lean/proofs_index.json", json.dumps(index, indent=1, sort_keys=True) + "\n")
tab = {"notes": base["notes"], "not_applicable": base.get("not_applicable", {}),
       "checks": {k: manifest[k] for k in sorted(manifest) if k in index and k.startswith("C")}}
write("tools/manifest_table.json", json.dumps(tab, indent=1, sort_keys=True) + "\n")
write("known_findings.json", json.dumps({"comment": base["findings_comment"], "findings": findings}, indent=1) + "\n")
os.makedirs(os.path.join(root, "handoff"), exist_ok=True)
write("handoff/NOTES.md", "\n\n".join(f"## {k}\n\n{v}" for k, v in sorted(notes.items())) + "\n")
