#!/bin/sh
# tools/sweep.sh 1 2 3 4 5 : every quick check on the unchanged tree with each VERIF_SEED; prints only failures
cd "$(dirname "$0")/.."
for sd in "$@"; do
  for p in $(python3 -c "import json;print(' '.join(c['property_id'] for c in json.load(open('MANIFEST.json'))['checks']))"); do
    out=$(VERIF_SEED=$sd ./check $p --tier quick 2>&1); rc=$?
    v=$(echo "$out" | grep -c '^VIOLATION')
    if [ $rc -ne 0 ] || [ $v -ne 0 ]; then echo "seed=$sd $p rc=$rc"; echo "$out" | grep "^VIOLATION" | head -3; fi
  done
  echo "seed $sd done"
done
