/-
Tie audit: which code-model definitions (modules OfxModel.Ofx.*, OfxModel.Py.*, OfxModel.Generated.*) does the STATEMENT of a
property theorem talk about (directly or through spec / proof-side definitions), and is each of them executed by the
compiled driver (the transitive closure of `main` through definition bodies) — i.e. compared with the implementation by the
correspondence?  A definition a statement mentions but the driver never runs is a part of the model that no differential
execution ties to /repo.  Used by harness/framework.py (`tie_audit`); prints one JSON object per theorem.
-/
import Lean
import Driver
open Lean

namespace TieAudit

def modOf (env : Environment) (n : Name) : Name :=
  match env.getModuleIdxFor? n with
  | some i => env.header.moduleNames[i.toNat]!
  | none => `_here

/-- modules holding the model of the code (and the data generated from it); `OfxModel.Ofx.WF` holds decidable premises about
    the generated data (evaluated by the kernel, not a model of code) and counts as specification -/
def isCodeModel (m : Name) : Bool :=
  ((`OfxModel.Ofx).isPrefixOf m || (`OfxModel.Py).isPrefixOf m || (`OfxModel.Generated).isPrefixOf m) && m != `OfxModel.Ofx.WF

def isOurs (m : Name) : Bool :=
  (`OfxModel).isPrefixOf m || (`OfxProofs).isPrefixOf m || m == `Driver || m == `_here

/-- constants a declaration refers to: its type, and for definitions / inductives also the body / constructors -/
def refs (ci : ConstantInfo) : Array Name :=
  let t := ci.type.getUsedConstants
  match ci with
  | .defnInfo v => t ++ v.value.getUsedConstants ++ v.all.toArray   -- `all`: the other members of a mutual block
  | .opaqueInfo v => t ++ v.value.getUsedConstants
  | .ctorInfo v => t.push v.induct
  | .inductInfo v => t ++ v.ctors.toArray
  | _ => t

/-- everything the compiled driver can execute: closure of `main` through definition bodies -/
partial def driverClosure (env : Environment) : NameSet := Id.run do
  let mut seen : NameSet := {}
  let mut todo : Array Name := #[`main]
  while !todo.isEmpty do
    let n := todo.back!
    todo := todo.pop
    if seen.contains n then continue
    seen := seen.insert n
    if !isOurs (modOf env n) then continue
    match env.find? n with
    | some ci => for r in refs ci do if !seen.contains r then todo := todo.push r
    | none => pure ()
    -- a `partial def` is an opaque constant in the kernel; its executable body is `<name>._unsafe_rec`
    let u := n ++ `_unsafe_rec
    if (env.find? u).isSome && !seen.contains u then todo := todo.push u
  return seen

def plainDef (env : Environment) (n : Name) : Bool :=
  match env.find? n with
  | some (.defnInfo _) =>
      !n.isInternalDetail && !(env.isProjectionFn n) && !(n.components.any fun c => match c with
        | .str _ s => s.startsWith "inst" || s.startsWith "match_" || s == "casesOn" || s == "recOn" || s == "below"
                      || s == "brecOn" || s.startsWith "noConfusion" || s.startsWith "sizeOf" || s == "rec" || s.startsWith "ctorIdx"
                      || s.startsWith "_" || s == "toCtorIdx" || s == "ofNat" || s.startsWith "eq_" || s.startsWith "injEq"
        | _ => false)
  | _ => false

/-- the code-model definitions a theorem's STATEMENT talks about (through spec / proof-side definitions) -/
partial def mentioned (env : Environment) (thm : Name) : NameSet := Id.run do
  let some ci := env.find? thm | return {}
  let mut seen : NameSet := {}
  let mut out : NameSet := {}
  let mut todo : Array Name := ci.type.getUsedConstants
  while !todo.isEmpty do
    let n := todo.back!
    todo := todo.pop
    if seen.contains n then continue
    seen := seen.insert n
    let m := modOf env n
    if isCodeModel m then
      if plainDef env n then out := out.insert n
    else if isOurs m then
      match env.find? n with
      | some (.thmInfo _) => pure ()
      | some c => for r in refs c do if !seen.contains r then todo := todo.push r
      | none => pure ()
  return out

/-- an untied definition that is a (non-recursive) composition of executed definitions only -/
partial def isComposition (env : Environment) (drv : NameSet) (n : Name) (depth : Nat := 0) : Bool :=
  if depth > 6 then false else
  match env.find? n with
  | some (.defnInfo v) =>
      (v.all.length ≤ 1) && !(v.value.getUsedConstants.contains n) &&
      v.value.getUsedConstants.all fun r =>
        let m := modOf env r
        if !isCodeModel m then true
        else if drv.contains r then true
        else if !plainDef env r then true
        else isComposition env drv r (depth + 1)
  | _ => false

def run (thms : List Name) : CoreM Unit := do
  let env ← getEnv
  let drv := driverClosure env
  for t in thms do
    let ms := mentioned env t
    let all := ms.toList.map toString |>.toArray.qsort (· < ·)
    let untN := ms.toList.filter fun n => !drv.contains n
    let comp := (untN.filter (isComposition env drv)).map toString |>.toArray.qsort (· < ·)
    let unt := (untN.filter fun n => !isComposition env drv n).map toString |>.toArray.qsort (· < ·)
    IO.println (Json.compress (Json.mkObj [("theorem", toString t), ("known", (env.find? t).isSome),
      ("mentions", toJson all), ("compositions", toJson comp), ("untied", toJson unt)]))

end TieAudit

