import OfxModel.Drv.Util
import OfxModel.Ofx.CopyProto
import OfxModel.Generated.Schema
import OfxModel.Generated.PropsTable

/-! Driver ops of the copy / deepcopy / pickle model (C16, last clause). -/
namespace Ofx.Drv.CopyProto
open Ofx Ofx.Drv Ofx.Getattr Ofx.CopyProto

def S : Schema := Ofx.Generated.schema
def P : Props := Ofx.Generated.propsTable

def encDict (d : Dict) : SExp := .list (d.map (fun kv => SExp.list [encStr kv.1, kv.2.enc]))
def encNodes (l : List Node) : SExp := .list (l.map Node.enc)

/-- replies repeat the instance many times: what is (by its encoding) the instance's own dict / member list / the
    instance itself is answered as the atom `same` -/
def rel (orig e : SExp) : SExp := if e.toStr == orig.toStr then .atom "same" else e

/-- `(func cls base state listitems)` -/
def encReduced (i : Node) (r : Reduced) : SExp :=
  .list [.atom (match r.func with | .newobj => "newobj" | .reconstructor => "reconstructor"), encNat r.cls,
    rel (encNodes i.items) (encNodes r.base), encOpt (fun d => rel (encDict i.fields) (encDict d)) r.state,
    encOpt (fun l => rel (encNodes i.items) (encNodes l)) r.listitems]

def encRes (f : α → SExp) : PyM α → SExp
  | .ok a => .list [.atom "ok", f a]
  | .error e => .list [.atom "err", .atom e.name]

def encClone (i : Node) : PyM Node → SExp := encRes (fun r => rel i.enc r.enc)

def protos : List Nat := [0, 1, 2, 3, 4, 5]

def handle : Handler := fun op args =>
  match op, args with
  | "copy.all", [i] => do
      -- (reduce_ex 0..5) copy deepcopy (pickle 0..5) premise instQuiet
      let i ← Node.dec? i
      let G : GA := getattr S P
      pure (replyOk [
        .list (protos.map (fun p => encRes (encReduced i) (reduceEx G p i))),
        encClone i (copyNode G i),
        encClone i (deepcopyNode G i),
        .list (protos.map (fun p => encClone i (pickleRoundtrip G p i))),
        encBool (probesUndefined S P i && dictsWF i),
        encBool (instQuiet S i)])
  | "copy.pinned", [i] => do
      -- the attribute access of the tree before 0f0930a: copy deepcopy pickle0 pickle2
      let i ← Node.dec? i
      let G : GA := getattrPinned S P
      pure (replyOk [
        encClone i (copyNode G i),
        encClone i (deepcopyNode G i),
        encClone i (pickleRoundtrip G 0 i),
        encClone i (pickleRoundtrip G 2 i)])
  | "copy.schemaquiet", [] => some (replyOk [encBool (schemaQuiet S P)])
  | _, _ => none

end Ofx.Drv.CopyProto
