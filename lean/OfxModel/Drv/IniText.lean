import OfxModel.Drv.Util
import OfxModel.Ofx.IniText

/-
Driver ops of the INI text layer (C18, persistence through the file).

  ini.write    <sect> <sections>          -> (ok <text>)                          ConfigParser.write
  ini.read     <sect> <sections> <text>   -> (ok <sect> <sections>) | (err k)     read_string on a parser holding the given content
  ini.readfile <sect> <sections> <text>   -> (ok <sect> <sections>) | (err k)     read(path): universal newlines first
  ini.clean    <sect> <sections>          -> (ok T|F (T|F))                        the guards `iniClean`, `noCR`
  ini.lines    <text>                     -> (ok (<line> …))                      line iteration

Encodings: `<sect>` = `((xkey xvalue) …)` (the DEFAULT section); `<sections>` = `((xname <sect>) …)`;
error kinds `dupsection | dupoption | missingheader | parsing | internal`.
-/
namespace Ofx.Drv.IniText
open Ofx Ofx.Drv Ofx.Ofxget Ofx.IniText

def decPair (f : SExp → Option β) : SExp → Option (Str × β)
  | .list [k, v] => do pure (← decStr k, ← f v)
  | _ => none

def decSect : SExp → Option Sect := decList (decPair decStr)
def decSections : SExp → Option (List (Str × Sect)) := decList (decPair decSect)
def encSect (s : Sect) : SExp := .list (s.map fun kv => .list [encStr kv.1, encStr kv.2])
def encSections (l : List (Str × Sect)) : SExp := .list (l.map fun s => .list [encStr s.1, encSect s.2])

def replyIni : Except IniErr Ini → String
  | .ok c => replyOk [encSect c.defaults, encSections c.sections]
  | .error e => replyErr e.name

def handle : Handler := fun op args =>
  match op, args with
  | "ini.write", [d, s] => do
      let c : Ini := ⟨← decSect d, ← decSections s⟩
      pure (replyOk [encStr (iniWrite c)])
  | "ini.read", [d, s, t] => do
      let c : Ini := ⟨← decSect d, ← decSections s⟩
      pure (replyIni (iniReadInto c (← decStr t)))
  | "ini.readfile", [d, s, t] => do
      let c : Ini := ⟨← decSect d, ← decSections s⟩
      pure (replyIni (iniReadFile c (← decStr t)))
  | "ini.clean", [d, s] => do
      let c : Ini := ⟨← decSect d, ← decSections s⟩
      pure (replyOk [encBool (iniClean c), encBool (noCR c)])
  | "ini.lines", [t] => do
      pure (replyOk [.list ((splitLines (← decStr t)).map encStr)])
  | _, _ => none

end Ofx.Drv.IniText
