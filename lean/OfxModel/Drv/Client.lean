/-
Driver ops for the client state machine (C14) and the profile cache (C15).

  cache.run   <disk> <hist>                  → per call: result, DTPROFUP sent, disk after
  cache.sched <disk> <behs> <sched>          → per action: disk after; then per process: result, sent, has-a-temp-file
  cache.key   <org?> <fid?>                  → file name
  spec.cache  <abs> <hist>                   → per call: abstract state after, required result, required DTPROFUP
  client.run  <clients> <adv> <script> <history>   → per operation: result, requests, cache file after
  client.consts                              → AUTH_PLACEHOLDER, content type, Accept, default user agent
  spec.c14    <clients> <ops>                → the five C14 statements evaluated on an observed trace

Encodings
  profile   (date body pad)
  disk      absent | (cells (date body pad idx) ...)
  beh       (p date body pad) | u | e | n | g | t
  view      absent | (complete date body pad) | empty | torn
  act       (s i) | (c i)
  client    (host path userid? org? fid? useragent? persist)
  reply     ((cookie (name value)...) httpError behForProfile behForMain)
  op        (who kind mode pass)         kind: profile|statements|accounts|tax   mode: dryrun|skip|normal
  request   (method host path useragent contenttype accept kind user pass dtprofup ((name value)...))
-/
import OfxModel.Drv.Util
import OfxModel.Ofx.Cache
import OfxModel.Ofx.ClientSM
import OfxModel.Spec.CacheSpec

namespace Ofx.Drv.Client
open Ofx Ofx.Drv Ofx.Cache Ofx.ClientSM

/-! ### decoders -/

def decProfile : SExp → Option Profile
  | .list [d, b, p] => do pure ⟨← decNat d, ← decNat b, ← decNat p⟩
  | _ => none

def decCell : SExp → Option Cell
  | .list [d, b, p, i] => do pure ⟨⟨← decNat d, ← decNat b, ← decNat p⟩, ← decNat i⟩
  | _ => none

def decDisk : SExp → Option Disk
  | .atom "absent" => some none
  | .list (.atom "cells" :: cs) => (cs.mapM decCell).map some
  | _ => none

def decBeh : SExp → Option Beh
  | .list [.atom "p", d, b, p] => do pure (.profile ⟨← decNat d, ← decNat b, ← decNat p⟩)
  | .atom "u" => some .upToDate
  | .atom "e" => some .errorStatus
  | .atom "n" => some .noProfrs
  | .atom "g" => some .garbage
  | .atom "t" => some .transportError
  | _ => none

def decAct : SExp → Option Act
  | .list [.atom "s", i] => (decNat i).map .step
  | .list [.atom "c", i] => (decNat i).map .crash
  | _ => none

def decAbs : SExp → Option (Option Profile) := decOpt decProfile

def decPair : SExp → Option (Nat × Nat)
  | .list [a, b] => do pure (← decNat a, ← decNat b)
  | _ => none

def decUrl2 (h p : SExp) : Option Url := do pure ⟨← decNat h, ← decNat p⟩

def decUrl : SExp → Option Url
  | .list [h, p] => decUrl2 h p
  | _ => none

def decCfg : SExp → Option Cfg
  | .list [h, p, uid, org, fid, ua, persist] => do
    pure { url := ← decUrl2 h p, userid := ← decOpt decStr uid, org := ← decOpt decStr org,
           fid := ← decOpt decStr fid, useragent := ← decOpt decStr ua, persistCookies := ← decBool persist }
  | _ => none

def decReply : SExp → Option (List (Nat × Nat) × Bool × Beh × Beh)
  | .list [.list cs, he, bp, bm] => do
    pure (← cs.mapM decPair, ← decBool he, ← decBeh bp, ← decBeh bm)
  | _ => none

def decKind : SExp → Option Kind
  | .atom "profile" => some .profile
  | .atom "statements" => some .statements
  | .atom "accounts" => some .accounts
  | .atom "tax" => some .tax
  | _ => none

def decMode : SExp → Option Mode
  | .atom "dryrun" => some .dryrun
  | .atom "skip" => some .skipProfile
  | .atom "normal" => some .normal
  | _ => none

def decOp : SExp → Option (Nat × Op)
  | .list [who, k, m, pw] => do pure (← decNat who, ⟨← decKind k, ← decMode m, ← decStr pw⟩)
  | _ => none

def decAdv : SExp → Option (Nat × List Url)
  | .list [b, .list us] => do pure (← decNat b, ← us.mapM decUrl)
  | _ => none

/-! ### encoders -/

def encProfile (p : Profile) : List SExp := [encNat p.date, encNat p.body, encNat p.pad]

def encView : DiskView → SExp
  | .absent => .atom "absent"
  | .complete p => .list (.atom "complete" :: encProfile p)
  | .empty => .atom "empty"
  | .torn => .atom "torn"

def encSent (s : Option (Option Nat)) : SExp := encOpt (encOpt encNat) s

def encRet : Except Err Ret → SExp
  | .ok (.prof p) => .list (.atom "ok" :: .atom "prof" :: encProfile p)
  | .ok .dryRequest => .list [.atom "ok", .atom "dry"]
  | .error e => .list [.atom "err", .atom e.name]

def encOut : Except Err Out → SExp
  | .ok (.prof p) => .list (.atom "ok" :: .atom "prof" :: encProfile p)
  | .ok .dryRequest => .list [.atom "ok", .atom "dry"]
  | .ok (.raw _) => .list [.atom "ok", .atom "raw"]
  | .error e => .list [.atom "err", .atom e.name]

def kindName : Kind → String
  | .profile => "profile" | .statements => "statements" | .accounts => "accounts" | .tax => "tax"

def encReq (r : HttpReq) : SExp :=
  .list [.atom (match r.method with | .POST => "POST" | .GET => "GET"),
         encNat r.url.host, encNat r.url.path,
         encStr r.headers.userAgent, encStr r.headers.contentType, encStr r.headers.accept,
         .atom (kindName r.body.kind), encStr r.body.user, encStr r.body.pass, encSent r.body.dtprofup,
         .list (r.cookies.map fun nv => .list [encNat nv.1, encNat nv.2])]

/-! ### decoding an observed request (for the spec oracles) -/

def decSent : SExp → Option (Option (Option Nat)) := decOpt (decOpt decNat)

def decMethod : SExp → Option Method
  | .atom "POST" => some .POST
  | .atom "GET" => some .GET
  | _ => none

def decReq : SExp → Option HttpReq
  | .list [m, h, p, ua, ct, acc, k, u, pw, dt, .list cs] => do
    pure { method := ← decMethod m, url := ← decUrl2 h p,
           headers := ⟨← decStr ua, ← decStr ct, ← decStr acc⟩,
           body := ⟨← decKind k, ← decStr u, ← decStr pw, ← decSent dt⟩,
           cookies := ← cs.mapM decPair }
  | _ => none

/-- an observed operation: (who mode allowedUrl? ((request (set-cookie pairs))...)) -/
structure ObsOp where
  who : Nat
  mode : Mode
  allowed : Option Url
  evs : List Ev

def decEv (who : Nat) : SExp → Option Ev
  | .list [r, .list cs] => do pure ⟨who, ← decReq r, ← cs.mapM decPair⟩
  | _ => none

def decObsOp : SExp → Option ObsOp
  | .list [who, m, allowed, .list evs] => do
    let who ← decNat who
    pure ⟨who, ← decMode m, ← decOpt decUrl allowed, ← evs.mapM (decEv who)⟩
  | _ => none

/-! ### handlers -/

def lookupD (xs : List α) (i : Nat) (d : α) : α := match xs[i]? with | some x => x | none => d

def mkWorld (script : List (List (Nat × Nat) × Bool × Beh × Beh)) (adv : List (Nat × List Url)) : World :=
  { net := fun n req =>
      match script[n]? with
      | some (cs, he, bp, bm) => ⟨cs, he, if req.body.kind = .profile then bp else bm⟩
      | none => ⟨[], false, .garbage⟩,
    adv := fun b => match adv.find? (·.1 = b) with | some (_, us) => us | none => [] }

def defaultCfg : Cfg := ⟨⟨0, 0⟩, none, none, none, none, true⟩

def handle : Handler := fun op args =>
  match op, args with
  | "cache.run", [d, .list hist] => do
    let d ← decDisk d
    let hist ← hist.mapM decBeh
    let recs := runSeq d hist
    pure (replyOk (recs.map fun r => .list [encRet r.res, encSent r.sent, encView (view r.disk)]))
  | "cache.sched", [d, .list behs, .list sched] => do
    let d ← decDisk d
    let behs ← behs.mapM decBeh
    let sched ← sched.mapM decAct
    let s0 : Cache.Sys := ⟨d, behs.map (Proc.init ·)⟩
    -- disk view after every action
    let (sN, views) := sched.foldl (fun (acc : Cache.Sys × List SExp) a =>
      let s' := acc.1.act a; (s', acc.2 ++ [encView (view s'.disk)])) (s0, [])
    let procs := sN.procs.map fun p =>
      SExp.list [match p.result with | some r => encRet r | none => .atom "running", encSent p.sent,
                 encBool p.tmp.isSome]
    pure (replyOk [.list views, .list procs])
  | "cache.key", [org, fid] => do
    let org ← decOpt decStr org
    let fid ← decOpt decStr fid
    pure (replyOk [encStr (cacheKey org fid)])
  | "spec.cache", [h, .list hist] => do
    let h ← decAbs h
    let hist ← hist.mapM decBeh
    let rs := Spec.Cache.specRun h hist
    pure (replyOk (rs.map fun (h', r, s) =>
      .list [encOpt (fun p => .list (encProfile p)) h', encOpt (fun p => .list (encProfile p)) r, encOpt encNat s]))
  | "client.consts", [] =>
    some (replyOk [encStr authPlaceholder, encStr ofxMime, encStr acceptValue, encStr defaultUseragent])
  | "client.run", [.list clients, .list adv, .list script, .list hist] => do
    let clients ← clients.mapM decCfg
    let adv ← adv.mapM decAdv
    let script ← script.mapM decReply
    let hist ← hist.mapM decOp
    let w := mkWorld script adv
    let s0 : ClientSM.Sys := ⟨fun i => ⟨lookupD clients i defaultCfg, []⟩, FS.empty, 0⟩
    let recs := ClientSM.Sys.run w s0 hist
    pure (replyOk (recs.map fun r =>
      let cfg := lookupD clients r.who defaultCfg
      .list [encOut r.res, .list (r.evs.map (encReq ·.req)), encView (view (r.fsAfter (cacheKey cfg.org cfg.fid)))]))
  | "spec.c14", [.list clients, .list ops] => do
    let clients ← clients.mapM decCfg
    let ops ← ops.mapM decObsOp
    let cfgOf := fun i => lookupD clients i defaultCfg
    let trace := ops.flatMap (·.evs)
    let dry := ops.all fun o => o.mode ≠ .dryrun || o.evs.isEmpty
    let shape := trace.all fun e => Spec.Client.shapeOk (cfgOf e.who).effUseragent e.req
    let prof := trace.all fun e => Spec.Client.profileOk (cfgOf e.who).url e.req
    let creds := ops.all fun o => o.evs.all fun e => Spec.Client.credsOk o.allowed e.req
    let origin := Spec.Client.originOk [] trace
    let replay := Spec.Client.replayOk (fun i => (cfgOf i).persistCookies) trace
    pure (replyOk [encBool dry, encBool shape, encBool prof, encBool creds, encBool origin, encBool replay])
  | _, _ => none

end Ofx.Drv.Client
