import OfxModel.Drv.Util
import OfxModel.Ofx.Getattr
import OfxModel.Spec.Getattr
import OfxModel.Generated.Schema
import OfxModel.Generated.PropsTable

/-! Driver ops of the attribute-access layer (C16). -/
namespace Ofx.Drv.Getattr
open Ofx Ofx.Drv Ofx.Getattr

def S : Schema := Ofx.Generated.schema
def P : Props := Ofx.Generated.propsTable

def encRes : Res → SExp
  | .node n => .list [.atom "node", n.enc]
  | .list l => .list (.atom "list" :: l.map Node.enc)

def encPath (p : List Str) : SExp := .list (p.map encStr)

def handle : Handler := fun op args =>
  match op, args with
  | "getattr", [i, n] => do
      let i ← Node.dec? i
      let n ← decStr n
      pure (replyPy (fun r => [encRes r]) (getattr S P i n))
  | "getattrs", [i, ns] => do           -- several names on one instance: (ok r1 r2 …), r = (ok res) | (err kind)
      let i ← Node.dec? i
      let ns ← decList decStr ns
      pure (replyOk (ns.map (fun n => match getattr S P i n with
        | .ok r => SExp.list [.atom "ok", encRes r]
        | .error e => SExp.list [.atom "err", .atom e.name])))
  | "spec.lookups", [i, ns] => do       -- per name: (definers first-value clean undefined)
      let i ← Node.dec? i
      let ns ← decList decStr ns
      pure (replyOk (ns.map (fun n =>
        let ds := Spec.Getattr.definers S i n
        let v := match ds with
          | p :: _ => Spec.Getattr.valueAt S i p n
          | [] => none
        SExp.list [.list (ds.map encPath), encOpt Node.enc v, encBool (Spec.Getattr.clean S P i n),
                   encBool (Spec.Getattr.undefined S P i n)])))
  | "getattr.pinned", [i, n] => do      -- `__getattr__` as it was before 0f0930a (witness replay only)
      let i ← Node.dec? i
      let n ← decStr n
      match i with
      | .agg ci fields _ =>
        match S.cls? ci with
        | some c => pure (replyPy (fun r => [encRes r]) (getattrLoopPinned (fieldSubs S P fields) n c.spec))
        | none => none
      | _ => none
  | "hasattr", [i, n] => do
      let i ← Node.dec? i
      let n ← decStr n
      pure (replyPy (fun b => [encBool b]) (hasattr S P i n))
  | "probes", [i] => do
      let i ← Node.dec? i
      pure (replyOk [encBool (probesClean S P i)])
  | "shortcut", [i, n] => do           -- a property of the instance's own class only
      let i ← Node.dec? i
      let n ← decStr n
      match i with
      | .agg ci _ _ =>
        match P.find ci n with
        | some _ => pure (replyPy (fun r => [encRes r]) (getattr S P i n))
        | none => pure (replyErr "noprop")
      | _ => pure (replyErr "noprop")
  | "spec.shortcut", [i, n] => do      -- the documented path walk
      let i ← Node.dec? i
      let n ← decStr n
      pure (replyOk [encOpt encRes (Spec.Getattr.documentedWalk S i n)])
  | "spec.definers", [i, n] => do      -- all definers in depth-first spec order + value at the first
      let i ← Node.dec? i
      let n ← decStr n
      let ds := Spec.Getattr.definers S i n
      let v := match ds with
        | p :: _ => Spec.Getattr.valueAt S i p n
        | [] => none
      pure (replyOk [.list (ds.map encPath), encOpt Node.enc v, encBool (Spec.Getattr.clean S P i n)])
  | "spec.undefined", [i, n] => do
      let i ← Node.dec? i
      let n ← decStr n
      pure (replyOk [encBool (Spec.Getattr.undefined S P i n)])
  | "spec.propsagree", [] =>
      some (replyOk [encBool (Spec.Getattr.propsAgree S P Ofx.Generated.propsClassNames)])
  | _, _ => none

end Ofx.Drv.Getattr
