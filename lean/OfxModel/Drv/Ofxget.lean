import OfxModel.Drv.Util
import OfxModel.Ofx.Ofxget
import OfxModel.Spec.Ofxget
import OfxModel.Generated.OfxgetTables

/-
Driver ops of the ofxget layer.

  cfg.merge <ns> <fidb> <user> <oh>            -> (ok <eff>) | (err k)         merge_config
  cfg.run   <ns> <fidb> <user> <oh> <uuid>     -> (ok <eff> <written>) | (err k)  merge_config, then write_config if args["write"]
  stmt.plan <kind> <maps> <baddates> <acct>    -> (ok (<rq>…) <client> ) | (err k)
  spec.first <maps> <key>                      -> (ok <optval>)
  spec.stmt <kind> <accounts> <opts>           -> (ok (<rq>…))
  spec.active <kind> <infos>                   -> (ok (<acctkey>…))
  ofxget.conv <ty> <str> / ofxget.ser <ty> <val> / ofxget.scheme <str>

Encodings: value `n | (s x..) | (i n) | (b T|F) | (l (x.. …))`; map `((xkey val) …)`;
file `((xsection ((xkey xvalue) …)) …)`; OFX Home table `((xid none|(some (url org fid brokerid))) …)`.
-/
namespace Ofx.Drv.Ofxget
open Ofx Ofx.Drv Ofx.Ofxget

def T : Tables := Ofx.Generated.ofxgetTables

def encVal : CfgVal → SExp
  | .null => .atom "n"
  | .str s => .list [.atom "s", encStr s]
  | .int i => .list [.atom "i", encInt i]
  | .bool b => .list [.atom "b", encBool b]
  | .list l => .list [.atom "l", .list (l.map encStr)]

def decVal : SExp → Option CfgVal
  | .atom "n" => some .null
  | .list [.atom "s", s] => (decStr s).map .str
  | .list [.atom "i", i] => (decInt i).map .int
  | .list [.atom "b", b] => (decBool b).map .bool
  | .list [.atom "l", l] => (decList decStr l).map .list
  | _ => none

def decPair (f : SExp → Option β) : SExp → Option (Str × β)
  | .list [k, v] => do pure (← decStr k, ← f v)
  | _ => none

def decMap : SExp → Option Map := decList (decPair decVal)
def encMap (m : Map) : SExp := .list (m.map fun kv => .list [encStr kv.1, encVal kv.2])
def decFile : SExp → Option FileC := decList (decPair (decList (decPair decStr)))
/-- a section as a reader of the written file sees it (values stripped) -/
def encSect (s : Sect) : SExp := .list (s.map fun kv => .list [encStr kv.1, encStr (strip kv.2)])
def encIni (c : Ini) : SExp :=
  .list (c.toFile.map fun sec => .list [encStr sec.1, encSect sec.2])

def decOh : SExp → Option (List (Str × Option OhRec)) :=
  decList (decPair (decOpt fun
    | .list [u, o, f, b] => do
      pure ⟨← decOpt decStr u, ← decOpt decStr o, ← decOpt decStr f, ← decOpt decStr b⟩
    | _ => none))

def ohLookup (t : List (Str × Option OhRec)) (id : Str) : Option OhRec := (t.lookup id).join

def effKeys (ns : Map) : List Name :=
  let d := T.defaults.map (·.1)
  d ++ ((ns.map (·.1)).filter fun k => !d.contains k).eraseDups

def encEff (ns : Map) (c : Chain) : SExp :=
  .list ((effKeys ns).map fun k => .list [encStr k, encOpt encVal (effective c k)])

def decTy : SExp → Option CfgTy
  | .atom "str" => some .str
  | .atom "int" => some .int
  | .atom "bool" => some .bool
  | .atom "list" => some .list
  | _ => none

def decInfo : SExp → Option AcctInfo
  | .list [.atom "bank", b, a, t, s] => do pure (.bank (← decStr b) (← decStr a) (← decStr t) (← decStr s))
  | .list [.atom "cc", a, s] => do pure (.cc (← decStr a) (← decStr s))
  | .list [.atom "inv", b, a, s] => do pure (.inv (← decStr b) (← decStr a) (← decStr s))
  | .list [.atom "other", n] => do pure (.other (← decStr n))
  | _ => none

def errOfName (s : String) : Err :=
  match s with
  | "spec" => .spec | "type" => .type | "value" => .value | "key" => .key | "index" => .index
  | "attr" => .attr | "assert" => .assert | "header" => .header | "parse" => .parse
  | "unicode" => .unicode | "overflow" => .overflow | "decimal" => .decimal | "syntax" => .syntax
  | _ => .other

def decAcct : SExp → Option (PyM (List AcctInfo))
  | .atom "none" => some (.ok [])
  | .list [.atom "err", .atom k] => some (.error (errOfName k))
  | .list [.atom "ok", l] => (decList decInfo l).map .ok
  | _ => none

def encD (d : Option Str) : SExp := encOpt encStr d

def encRq : Rq Str → SExp
  | .stmt id ty s e t => .list [.atom "stmt", encStr id, encStr ty, encD s, encD e, encVal t]
  | .ccstmt id s e t => .list [.atom "ccstmt", encStr id, encD s, encD e, encVal t]
  | .invstmt id s e a t oo pos bal =>
    .list [.atom "invstmt", encStr id, encD s, encD e, encD a, encVal t, encVal oo, encVal pos, encVal bal]
  | .stmtend id ty s e => .list [.atom "stmtend", encStr id, encStr ty, encD s, encD e]
  | .ccstmtend id s e => .list [.atom "ccstmtend", encStr id, encD s, encD e]

def encKey : Spec.Ofxget.AcctKey → SExp
  | .bank id ty => .list [.atom "bank", encStr id, encStr ty]
  | .cc id => .list [.atom "cc", encStr id]
  | .inv id => .list [.atom "inv", encStr id]

/-- `DateTime().convert` stands for itself: texts in `bad` raise, every other text is passed on -/
def dconv (bad : List (Str × Err)) : Option Str → PyM (Option Str)
  | none => .ok none
  | some s => match bad.lookup s with
    | some e => .error e
    | none => .ok (some s)

def decBad : SExp → Option (List (Str × Err)) :=
  decList (decPair fun | .atom k => some (errOfName k) | _ => none)

def decAccounts : SExp → Option Spec.Ofxget.Accounts
  | .list [a, b, c, d, e, f] => do
    let l := decList decStr
    pure ⟨← l a, ← l b, ← l c, ← l d, ← l e, ← l f⟩
  | _ => none

def decOpts : SExp → Option (Spec.Ofxget.StmtOpts Str)
  | .list [s, e, a, t, oo, pos, bal] => do
    pure ⟨← decOpt decStr s, ← decOpt decStr e, ← decOpt decStr a, ← decVal t, ← decVal oo, ← decVal pos, ← decVal bal⟩
  | _ => none

def encWritten : Option (PyM Ini) → SExp
  | none => .atom "none"
  | some (.ok ini) => .list [.atom "ok", encIni ini]
  | some (.error e) => .list [.atom "err", .atom e.name]

def handle : Handler := fun op args =>
  match op, args with
  | "cfg.merge", [ns, fidb, user, oh] => do
    let ns ← decMap ns
    let fidb ← decFile fidb
    let user ← decFile user
    let oh ← decOh oh
    pure (replyPy (fun c => [encEff ns c]) (mergeConfig T (ohLookup oh) ns (loadUser fidb user)))
  | "cfg.run", [ns, fidb, user, oh, uuid] => do
    let ns ← decMap ns
    let fidb ← decFile fidb
    let user ← decFile user
    let oh ← decOh oh
    let uuid ← decStr uuid
    pure (replyPy (fun (r : RunResult) => [encEff ns r.args, encWritten r.written])
      (runOnce T (ohLookup oh) ns fidb user uuid))
  | "stmt.plan", [.atom kind, maps, bad, acct] => do
    let maps ← decList decMap maps
    let bad ← decBad bad
    let acct ← decAcct acct
    let r := if kind == "stmtend" then requestStmtend (dconv bad) maps acct else requestStmt (dconv bad) maps acct
    pure (replyPy (fun (p : Plan Str) => [.list (p.requests.map encRq), encMap p.client]) r)
  | "stmt.acctinfo", [infos] => do
    let infos ← decList decInfo infos
    pure (replyPy (fun m => [encMap m]) (parsedAcctinfo infos))
  | "spec.first", [maps, k] => do
    let maps ← decList decMap maps
    let k ← decStr k
    pure (replyOk [encOpt encVal (Spec.Ofxget.firstSetter maps k)])
  | "spec.stmt", [.atom kind, accts, opts] => do
    let a ← decAccounts accts
    let o ← decOpts opts
    let r := if kind == "stmtend" then Spec.Ofxget.specStmtend a o else Spec.Ofxget.specStmt a o
    pure (replyOk [.list (r.map encRq)])
  | "spec.active", [.atom kind, infos] => do
    let infos ← decList decInfo infos
    pure (replyOk [.list ((Spec.Ofxget.specActive (kind == "stmtend") infos).map encKey)])
  | "ofxget.conv", [ty, s] => do
    let ty ← decTy ty
    let s ← decStr s
    pure (replyPy (fun v => [encVal v]) (typedOfStr T ty s))
  | "ofxget.ser", [ty, v] => do
    let ty ← decTy ty
    let v ← decVal v
    pure (replyPy (fun s => [encStr s]) (arg2config ty v))
  | "ofxget.scheme", [s] => do
    let s ← decStr s
    pure (replyOk [encBool (hasScheme s)])
  | _, _ => none

end Ofx.Drv.Ofxget
