import OfxModel.Drv.Util
import OfxModel.Ofx.Lexer
import OfxModel.Ofx.Builder
import OfxModel.Spec.Renders

namespace Ofx.Drv.Parser
open Ofx Ofx.Drv Ofx.Lexer Ofx.Builder Ofx.Spec

def encMatch (pm : Nat × Match) : SExp :=
  let (pos, m) := pm
  .list [encStr m.tag, encOpt encStr m.cdata, encOpt encStr m.text, encOpt encStr m.closetag,
         encOpt encStr m.tail, encNat pos, encNat (pos + m.len)]

partial def decRTree : SExp → Option RTree
  | .list [.atom "l", t, d, w1, w2, cl, a] => do
    pure (.leaf (← decStr t) (← decStr d) (← decStr w1) (← decStr w2) (← decBool cl) (← decStr a))
  | .list [.atom "c", t, d, w, cl, a] => do
    pure (.cdata (← decStr t) (← decStr d) (← decStr w) (← decBool cl) (← decStr a))
  | .list [.atom "a", t, w0, .list kids, a] => do
    pure (.agg (← decStr t) (← decStr w0) (← kids.mapM decRTree) (← decStr a))
  | _ => none

def handle : Handler := fun op args =>
  match op, args with
  | "lex", [s] => (decStr s).map fun s => replyOk [.list ((lex s).map encMatch)]
  | "build", [s] => (decStr s).map fun s => replyPy (fun r => [encOpt Tree.enc r]) (parse s)
  | "spec.balanced", [s] => (decStr s).map fun s => replyOk [encBool (balanced (toks s))]
  | "spec.render", [r] => (decRTree r).map fun r =>
      replyOk [encStr r.str, Tree.enc r.tree, encBool (r.ok false), encBool (r.ok true)]
  | _, _ => none

end Ofx.Drv.Parser
