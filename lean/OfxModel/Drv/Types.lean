/-
Driver ops of the element-converter layer (C10, C11 leaf part, C03 type part).

Kind protocol encoding (mirrored by `harness/corr/types_common.py: enc_kind`):
  bool | (string <optnat> <T|F strict>) | (oneof (<tok> …)) | (enum <idx into the generated tables>)
  | (integer <optnat>) | (decimal <optint quantum exponent>) | datetime | time
  | (list <kind> <T|F inner required>) | (sub n) | (listagg n) | unsupported
`(oneof …)` carries its token list inline: it is decoded to `Kind.oneOf 0` over the one-entry table.
-/
import OfxModel.Drv.Util
import OfxModel.Ofx.Types
import OfxModel.Spec.Lex
import OfxModel.Spec.Denote
import OfxModel.Generated.Schema

namespace Ofx.Drv.Types
open Ofx Ofx.Drv

/-- decode a kind together with the enumeration table it refers to -/
partial def decKind : SExp → Option (Kind × List (List Str))
  | .atom "bool" => some (.bool, [])
  | .atom "datetime" => some (.datetime, [])
  | .atom "time" => some (.time, [])
  | .atom "unsupported" => some (.unsupported, [])
  | .list [.atom "string", l, st] => do pure (.string (← decOpt decNat l) (← decBool st), [])
  | .list [.atom "oneof", toks] => do pure (.oneOf 0, [← decList decStr toks])
  | .list [.atom "enum", i] => do pure (.oneOf (← decNat i), Ofx.Generated.schema.enums)
  | .list [.atom "integer", l] => do pure (.integer (← decOpt decNat l), [])
  | .list [.atom "decimal", q] => do pure (.decimal (← decOpt decInt q), [])
  | .list [.atom "list", k, r] => do
    let (k, en) ← decKind k
    pure (.listElem k (← decBool r), en)
  | .list [.atom "sub", n] => do pure (.sub (← decNat n), [])
  | .list [.atom "listagg", n] => do pure (.listAgg (← decNat n), [])
  | _ => none

def encKind : Kind → SExp
  | .bool => .atom "bool"
  | .string l st => .list [.atom "string", encOpt encNat l, encBool st]
  | .oneOf e => .list [.atom "enum", encNat e]
  | .integer l => .list [.atom "integer", encOpt encNat l]
  | .decimal q => .list [.atom "decimal", encOpt encInt q]
  | .datetime => .atom "datetime"
  | .time => .atom "time"
  | .listElem k r => .list [.atom "list", encKind k, encBool r]
  | .sub n => .list [.atom "sub", encNat n]
  | .listAgg n => .list [.atom "listagg", encNat n]
  | .unsupported => .atom "unsupported"

def one (v : Val) : List SExp := [v.enc]

def handle : Handler := fun op args =>
  match op, args with
  | "conv", [k, r, v] => do
    let (k, en) ← decKind k
    let r ← decBool r
    let v ← Val.dec? v
    pure (replyPy one (Ofx.Types.conv.convert en k r v))
  | "unconv", [k, r, v] => do
    let (k, en) ← decKind k
    let r ← decBool r
    let v ← Val.dec? v
    pure (replyPy one (Ofx.Types.conv.unconvert en k r v))
  | "quantum", [n] => do
    let n ← decNat n
    pure (replyOk [encOpt Dec.enc (some (Ofx.Types.quantumOfScale n))])
  | "spec.lex", [k, s] => do
    let (k, en) ← decKind k
    let s ← decStr s
    pure (replyOk [encBool (Ofx.Spec.Lex Ofx.Spec.LexExt.none en k s)])
  | "spec.denote", [k, s] => do
    let (k, en) ← decKind k
    let s ← decStr s
    pure (replyOk [encOpt Val.enc (Ofx.Spec.denote Ofx.Spec.DenoteExt.none en k s)])
  -- primitives, compared one to one with CPython
  | "py.int", [s] => (decStr s).map fun s => replyOk [encOpt encInt (pyIntParse s)]
  | "py.dec", [s] => (decStr s).map fun s => replyOk [encOpt Dec.enc (decParse s)]
  | "py.decstr", [d] => (Dec.dec? d).map fun d => replyOk [encStr (decToStr d)]
  | "py.decfmt", [d] => (Dec.dec? d).map fun d => replyOk [encStr (decFormatF d)]
  | "py.quantize", [d, q] => do
    let d ← Dec.dec? d
    let q ← decInt q
    pure (replyPy (fun x => [x.enc]) (quantize d q))
  | "py.samequantum", [d, q] => do
    let d ← Dec.dec? d
    let q ← decInt q
    pure (replyOk [encBool (sameQuantum d q)])
  | "py.decint", [d] => (Dec.dec? d).map fun d => replyPy (fun i => [encInt i]) (decToInt d)
  | "py.strint", [i] => (decInt i).map fun i => replyOk [encStr (pyStrInt i)]
  | "py.unescape", [s] => (decStr s).map fun s => replyOk [encStr (unescape s)]
  | "py.escape", [s] => (decStr s).map fun s => replyOk [encStr (escapeCdata s)]
  | "spec.decode", [s] => (decStr s).map fun s => replyOk [encStr (Ofx.Spec.decodeEntities s)]
  | _, _ => none

end Ofx.Drv.Types
