/-
Driver ops for the whole-document form of C03 (`Spec/DocValues.lean`):

  spec.docvalues  t   → the addressed data elements of the document `t` relative to the generated schema:
                        ((path text) …), path = ((a name) | (i position)) …
  spec.instvalues t   → the addressed leaf values of `from_etree(t)` (model): ((path value) …), or the error
-/
import OfxModel.Drv.Util
import OfxModel.Drv.Agg
import OfxModel.Spec.DocValues

namespace Ofx.Drv.DocValues
open Ofx Ofx.Drv Ofx.Spec

def handle : Handler := fun op args =>
  match op, args with
  | "spec.docvalues", [t] => do
      let t ← Tree.dec t
      pure (replyOk [.list ((docValues Ofx.Drv.Agg.S t).map (fun pv => SExp.list [encPath pv.1, encStr pv.2]))])
  | "spec.instvalues", [t] => do
      let t ← Tree.dec t
      pure (replyPy (fun n => [SExp.list ((instValues n).map (fun pv => SExp.list [encPath pv.1, pv.2.enc]))])
        (Ofx.Agg.fromEtree Ofx.Drv.Agg.S Ofx.Drv.Agg.cv t))
  | _, _ => none

end Ofx.Drv.DocValues
