import OfxModel.Drv.Util
import OfxModel.Ofx.SecId
import OfxModel.Spec.SecId
import OfxModel.Generated.Tables

namespace Ofx.Drv.SecId
open Ofx Ofx.Drv Ofx.SecId

def ag : List Str := Ofx.Generated.numberingAgencies

def ch (c : Char) : List SExp := [encStr [c]]

def handle : Handler := fun op args =>
  match op, args with
  | "cusip", [b] => (decStr b).map fun b => replyPy ch (cusipChecksum b)
  | "sedol", [b] => (decStr b).map fun b => replyPy ch (sedolChecksum b)
  | "isin", [b] => (decStr b).map fun b => replyPy ch (isinChecksum ag b)
  | "vcusip", [b] => (decStr b).map fun b => replyPy (fun x => [encBool x]) (validateCusip b)
  | "visin", [b] => (decStr b).map fun b => replyPy (fun x => [encBool x]) (validateIsin ag b)
  | "cusip2isin", [b, n] => do
      let b ← decStr b
      let n ← decOpt decStr n
      pure (replyPy (fun x => [encStr x]) (cusip2isin ag b n))
  | "sedol2isin", [b, n] => do
      let b ← decStr b
      let n ← decOpt decStr n
      pure (replyPy (fun x => [encStr x]) (sedol2isin ag b n))
  -- spec oracles: argument is the list of character values
  | "spec.cusip", [vs] => (decList decNat vs).map fun vs => replyOk [encNat (Spec.SecId.cusipSpec vs)]
  | "spec.sedol", [vs] => (decList decNat vs).map fun vs => replyOk [encNat (Spec.SecId.sedolSpec vs)]
  | "spec.isin", [vs] => (decList decNat vs).map fun vs => replyOk [encNat (Spec.SecId.isinSpec vs)]
  | _, _ => none

end Ofx.Drv.SecId
