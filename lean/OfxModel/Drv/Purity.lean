/-
Driver ops of the shared-state model (C17).

  pur.run   (<op> …)                      run a history on the model registry from the initial state, uninterrupted
  pur.sched ((<op> …) …) (<thread#> …)     the thread machine: programs and a schedule of atomic actions

op      ::= (conv <id> <T|F time> <T|F required> <val>) | (unconv <id> <time> <required> <val>)
          | (set <obj#> <name> <val>) | (get <obj#> <name>)
reply   ::= (ok (<result> …) <state> <T|F inertB>)                      for pur.run
          | (ok ((<T|F finished> (<result> …)) …) <state> <T|F inertB>)  for pur.sched
result  ::= (ok <val>) | (err <kind>)
state   ::= (<disp dt> <disp tm>)
disp    ::= (<handler dflt> ((<ty> <handler>) …registry) ((<ty> <handler>) …cache) ((<ty> <handler>) …dispatch of every class))
handler ::= (<fn> none) | (<fn> (some <id>))
-/
import OfxModel.Drv.Util
import OfxModel.Ofx.Registry
import OfxModel.Spec.Purity
import OfxModel.Generated.Tables

namespace Ofx.Drv.Purity
open Ofx Ofx.Drv Ofx.Registry

def tzs : List (Str × Int) := Ofx.Generated.tzs

def decInst (i t r : SExp) : Option ConvInst := do pure ⟨← decNat i, ← decBool t, ← decBool r⟩

def decOp : SExp → Option Op
  | .list [.atom "conv", i, t, r, v] => do pure (.convert (← decInst i t r) (← Val.dec? v))
  | .list [.atom "unconv", i, t, r, v] => do pure (.unconvert (← decInst i t r) (← Val.dec? v))
  | .list [.atom "set", o, n, v] => do pure (.setAttr (← decNat o) (← decStr n) (← Val.dec? v))
  | .list [.atom "get", o, n] => do pure (.getAttr (← decNat o) (← decStr n))
  | _ => none

def encRes : PyM Val → SExp
  | .ok v => .list [.atom "ok", v.enc]
  | .error e => .list [.atom "err", .atom e.name]

def Ty.name : Ty → String
  | .none => "NoneType" | .bool => "bool" | .int => "int" | .str => "str" | .dec => "Decimal"
  | .datetime => "datetime" | .date => "date" | .time => "time" | .other => "other"

def Fn.name : Fn → String
  | .dtDefault => "DateTime.unconvert" | .dtDatetime => "DateTime._unconvert_datetime"
  | .dtNone => "DateTime._unconvert_none" | .tmDefault => "Time.unconvert"
  | .tmTime => "Time._unconvert_time" | .tmNone => "Time._unconvert_none"

def allTys : List Ty := [.none, .bool, .int, .str, .dec, .datetime, .date, .time, .other]

def encHandler (h : Registry.Handler) : SExp :=
  .list [.atom (Fn.name h.fn), encOpt (fun (c : ConvInst) => encNat c.id) h.bound]

def encDict (d : Dict) : SExp := .list (d.map fun e => .list [.atom (Ty.name e.1), encHandler e.2])

def encDisp (d : Disp) : SExp :=
  .list [encHandler d.dflt, encDict d.registry, encDict d.cache,
         .list (allTys.map fun t => .list [.atom (Ty.name t), encHandler (d.dispatch t)])]

def encState (R : Registry) : SExp := .list [encDisp R.dt, encDisp R.tm]

def handle : Ofx.Drv.Handler := fun op args =>
  match op, args with
  | "pur.run", [ops] => do
      let ops ← decList decOp ops
      let (R, outs) := runOps tzs init ops
      pure (replyOk [.list (outs.map encRes), encState R, encBool (Spec.Purity.inertB R)])
  | "pur.sched", [progs, sched] => do
      let progs ← decList (decList decOp) progs
      let sched ← decList decNat sched
      let S := (Sys.start init progs).run tzs sched
      pure (replyOk [.list (S.threads.map fun T => .list [encBool T.finished, .list (T.out.map encRes)]),
                     encState S.reg, encBool (Spec.Purity.inertB S.reg)])
  | _, _ => none

end Ofx.Drv.Purity
