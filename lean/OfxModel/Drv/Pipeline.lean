import OfxModel.Drv.Util
import OfxModel.Drv.Header
import OfxModel.Drv.Agg
import OfxModel.Ofx.Pipeline

namespace Ofx.Drv.Pipeline
open Ofx Ofx.Drv Ofx.Pipeline

def env : Env :=
  { S := Ofx.Generated.schema, cv := Ofx.Types.conv, htmlEmpty := Ofx.Generated.htmlEmpty,
    p1 := Ofx.Drv.Header.genV1P, p2 := Ofx.Drv.Header.genV2P, cp1252 := Ofx.Generated.cp1252High }

def handle : Handler := fun op args =>
  match op, args with
  | "pipe.write", [v, old, new, pretty, close, inst] => do
      let v ← decNat v
      let old ← decOpt decStr old
      let new ← decOpt decStr new
      let pretty ← decBool pretty
      let close ← decBool close
      let inst ← Node.dec? inst
      pure (replyPy (fun b => [encBytes b]) (writeFile env v old new pretty close inst))
  | "pipe.read", [b] => do
      let b ← decBytes b
      pure (replyPy (fun (h, i) => [Ofx.Drv.Header.encHdr h, i.enc]) (readFile env b))
  | "pipe.parse", [b] => do
      let b ← decBytes b
      pure (replyPy (fun (h, t) => [Ofx.Drv.Header.encHdr h, encOpt Tree.enc t]) (parseFile env b))
  | "pipe.roundtrip", [v, old, new, pretty, close, inst] => do
      let v ← decNat v
      let old ← decOpt decStr old
      let new ← decOpt decStr new
      let pretty ← decBool pretty
      let close ← decBool close
      let inst ← Node.dec? inst
      pure (replyPy (fun (h, i) => [Ofx.Drv.Header.encHdr h, i.enc])
        (do let b ← writeFile env v old new pretty close inst; readFile env b))
  | _, _ => none

end Ofx.Drv.Pipeline
