/-
Driver ops for the cookie policy (C14, cookie clauses).

  cookie.run <clients> <posts>   → per post: the items of the Cookie header, in order; then per client: the jar, in
                                   iteration order
  cookie.mk <req> <now> <setcookie>   → what `_cookie_from_cookie_tuple` makes of one header, and `set_ok`
  cookie.path <path>             → `escape_path`

Encodings
  clients    (persist ...)
  post       (who req tReq reply)
  req        (https host path)
  reply      none | (tResp (setcookie ...))
  setcookie  (name value (attr ...))
  attr       (d str) | (p str) | s | (m int) | (e none|(some int)) | o
  cookie     (name value domain domainSpecified path pathSpecified secure expires?)
-/
import OfxModel.Drv.Util
import OfxModel.Ofx.CookieJar

namespace Ofx.Drv.CookieJar
open Ofx Ofx.Drv Ofx.CookieJar

def decAttr : SExp → Option Attr
  | .list [.atom "d", v] => (decStr v).map .domain
  | .list [.atom "p", v] => (decStr v).map .path
  | .atom "s" => some .secure
  | .list [.atom "m", v] => (decInt v).map .maxAge
  | .list [.atom "e", v] => (decOpt decInt v).map .expires
  | .atom "o" => some .other
  | _ => none

def decSetCookie : SExp → Option SetCookie
  | .list [n, v, .list attrs] => do pure ⟨← decStr n, ← decStr v, ← attrs.mapM decAttr⟩
  | _ => none

def decReq : SExp → Option Req
  | .list [s, h, p] => do pure ⟨← decBool s, ← decStr h, ← decStr p⟩
  | _ => none

def decReply : SExp → Option (Option (Int × List SetCookie))
  | .atom "none" => some none
  | .list [t, .list scs] => do pure (some (← decInt t, ← scs.mapM decSetCookie))
  | _ => none

structure Post where
  who : Nat
  req : Req
  tReq : Int
  reply : Option (Int × List SetCookie)

def decPost : SExp → Option Post
  | .list [who, r, t, rep] => do pure ⟨← decNat who, ← decReq r, ← decInt t, ← decReply rep⟩
  | _ => none

def encCookie (c : Cookie) : SExp :=
  .list [encStr c.name, encStr c.value, encStr c.domain, encBool c.domainSpecified, encStr c.path,
         encBool c.pathSpecified, encBool c.secure, encOpt encInt c.expires]

def encHeader (h : List (Str × Str)) : SExp := .list (h.map fun nv => .list [encStr nv.1, encStr nv.2])

/-- the scripted network: the n-th request is answered by the n-th post's reply, whatever is on the wire -/
def mkNet (posts : List Post) : Net :=
  { tReq := fun n => match posts[n]? with | some p => p.tReq | none => 0,
    reply := fun n _ _ =>
      match posts[n]? with
      | some p => (match p.reply with | some (t, scs) => ⟨t, some scs⟩ | none => ⟨0, none⟩)
      | none => ⟨0, none⟩ }

def handle : Handler := fun op args =>
  match op, args with
  | "cookie.run", [.list clients, .list posts] => do
    let clients ← clients.mapM decBool
    let posts ← posts.mapM decPost
    let s0 : Sys := fun i => ⟨match clients[i]? with | some b => b | none => false, []⟩
    let hist := posts.map fun p => (p.who, p.req)
    let net := mkNet posts
    let evs := run net s0 0 hist
    let sN := after net s0 0 hist
    pure (replyOk [.list (evs.map fun e => encHeader e.header),
                   .list ((List.range clients.length).map fun i => .list ((cookies (sN i).jar).map encCookie))])
  | "cookie.mk", [r, now, sc] => do
    let r ← decReq r
    let now ← decInt now
    let sc ← decSetCookie sc
    match mkCookie r now sc with
    | .cookie c => pure (replyOk [.atom "cookie", encCookie c, encBool (setOk r c)])
    | .expired k => pure (replyOk [.atom "expired", encStr k.domain, encStr k.path, encStr k.name])
  | "cookie.path", [p] => do
    let p ← decStr p
    pure (replyOk [encStr (escapePath p)])
  | _, _ => none

end Ofx.Drv.CookieJar
