/-
Driver ops of the header layer (C05, C12).

  hdr.parse <bytes>                                   -> (ok <hdr> <body>) | (err kind)
  hdr.make <arg> <opt str> <opt str> <opt str>        -> (ok <hdr> <text>) | (err kind)
  hdr.ctor1 <arg version> <arg ofxheader> <opt data> <opt security> <opt encoding> <opt charset>
            <opt compression> <opt old> <opt new>     -> (ok <hdr>) | (err kind)
  hdr.ctor2 <arg version> <arg ofxheader> <opt security> <opt old> <opt new> -> (ok <hdr>) | (err kind)
  hdr.str <hdr>                                       -> (ok <text>)
  hdr.re v1|v2|xml search|match <str>                 -> (ok none) | (ok (some (<opt str>…) <end>))
  hdr.decode <codecname> <bytes>                      -> (ok <str>) | (err unicode)
  hdr.encode <codecname> <str>                        -> (ok <bytes>) | (err unicode)
  spec.renderfile <filespec> <bodybytes>              -> (ok <bytes> <tolerated>)

  <arg>  = none | (int n) | (str x…)
  <hdr>  = (v1 oh data ver sec enc cs comp old new) | (v2 ver oh sec old new)
  <filespec> = (v1 (<leading>…) indent (blank sep)×8 newblank gap <v1 hdr> withCompression)
             | (v2 (<leading>…) (optq optq optq) (xs1 xs2 xs3 xs4) afterXml (s0 s1 s2 s3 s4) (q0 q1 q2 q3 q4)
                   beforeClose gap <v2 hdr>)
-/
import OfxModel.Drv.Util
import OfxModel.Ofx.Header
import OfxModel.Spec.HeaderLayout
import OfxModel.Generated.Tables

namespace Ofx.Drv.Header
open Ofx Ofx.Drv Ofx.Header Ofx.Codec Ofx.Spec.HeaderLayout Ofx.Generated

/-! ### parameters from the generated tables -/

def oneOfOf (fs : List (Str × HField)) (name : String) : List Str :=
  match fs.lookup name.toList with
  | some (.oneOf v _) => v
  | _ => []

def intLenOf (fs : List (Str × HField)) (name : String) : Option Nat :=
  match fs.lookup name.toList with
  | some (.integer l _) => l
  | _ => none

def strLenOf (fs : List (Str × HField)) (name : String) : Option Nat :=
  match fs.lookup name.toList with
  | some (.string l _) => l
  | _ => none

/-- the shape the hand model assumes of a header class: which validator kind each attribute has -/
def kindsOf (fs : List (Str × HField)) : List (Str × Nat) :=
  fs.map fun (n, f) => (n, match f with | .oneOf .. => 0 | .integer .. => 1 | .string .. => 2)

def genV1P : V1P :=
  { ofxheader := oneOfOf headerV1Fields "ofxheader", data := oneOfOf headerV1Fields "data",
    versionLen := intLenOf headerV1Fields "version", security := oneOfOf headerV1Fields "security",
    encoding := oneOfOf headerV1Fields "encoding", charset := oneOfOf headerV1Fields "charset",
    compression := oneOfOf headerV1Fields "compression", oldLen := strLenOf headerV1Fields "oldfileuid",
    newLen := strLenOf headerV1Fields "newfileuid", codecs := v1Codecs }

def genV2P : V2P :=
  { ofxheader := oneOfOf headerV2Fields "ofxheader", version := oneOfOf headerV2Fields "version",
    security := oneOfOf headerV2Fields "security", oldLen := strLenOf headerV2Fields "oldfileuid",
    newLen := strLenOf headerV2Fields "newfileuid" }

/-! ### encodings -/

def encHdr : Hdr → SExp
  | .v1 h => .list [.atom "v1", encInt h.ofxheader, encStr h.data, encInt h.version, encStr h.security,
      encStr h.encoding, encStr h.charset, encStr h.compression, encStr h.oldfileuid, encStr h.newfileuid]
  | .v2 h => .list [.atom "v2", encInt h.version, encInt h.ofxheader, encStr h.security, encStr h.oldfileuid,
      encStr h.newfileuid]

def decV1 : SExp → Option V1
  | .list [.atom "v1", oh, data, ver, sec, enc, cs, comp, old, new] => do
    pure { ofxheader := ← decInt oh, data := ← decStr data, version := ← decInt ver, security := ← decStr sec,
           encoding := ← decStr enc, charset := ← decStr cs, compression := ← decStr comp,
           oldfileuid := ← decStr old, newfileuid := ← decStr new }
  | _ => none

def decV2 : SExp → Option V2
  | .list [.atom "v2", ver, oh, sec, old, new] => do
    pure { version := ← decInt ver, ofxheader := ← decInt oh, security := ← decStr sec,
           oldfileuid := ← decStr old, newfileuid := ← decStr new }
  | _ => none

def decHdr (e : SExp) : Option Hdr :=
  match decV1 e with
  | some h => some (.v1 h)
  | none => (decV2 e).map .v2

def decArg : SExp → Option Arg
  | .atom "none" => some .none
  | .list [.atom "int", i] => (decInt i).map .int
  | .list [.atom "str", s] => (decStr s).map .str
  | _ => none

def decSep : SExp → Option Sep
  | .atom "crlf" => some .crlf
  | .atom "lf" => some .lf
  | .atom "cr" => some .cr
  | .atom "none" => some .none
  | _ => none

def decQuote : SExp → Option Quote
  | .atom "dq" => some .dq
  | .atom "sq" => some .sq
  | _ => none

def decFieldLay : SExp → Option FieldLay
  | .list [b, s] => do pure { blank := ← decStr b, sep := ← decSep s }
  | _ => none

def decFileSpec : SExp → Option FileSpec
  | .list [.atom "v1", leading, indent, f1, f2, f3, f4, f5, f6, f7, f8, nb, gap, h, wc] => do
    let lay : V1Lay :=
      { leading := ← decList decStr leading, indent := ← decStr indent, ofxheader := ← decFieldLay f1,
        data := ← decFieldLay f2, version := ← decFieldLay f3, security := ← decFieldLay f4,
        encoding := ← decFieldLay f5, charset := ← decFieldLay f6, compression := ← decFieldLay f7,
        oldfileuid := ← decFieldLay f8, newBlank := ← decStr nb, gap := ← decStr gap }
    pure (.v1 lay { h := ← decV1 h, withCompression := ← decBool wc })
  | .list [.atom "v2", leading, .list [xv, xe, xs], .list [xs1, xs2, xs3, xs4], afterXml,
           .list [s0, s1, s2, s3, s4], .list [q0, q1, q2, q3, q4], bc, gap, h] => do
    let lay : V2Lay :=
      { leading := ← decList decStr leading, xmlVersion := ← decOpt decQuote xv, xmlEncoding := ← decOpt decQuote xe,
        xmlStandalone := ← decOpt decQuote xs, xs1 := ← decStr xs1, xs2 := ← decStr xs2, xs3 := ← decStr xs3,
        xs4 := ← decStr xs4, afterXml := ← decStr afterXml, s0 := ← decStr s0, s1 := ← decStr s1,
        s2 := ← decStr s2, s3 := ← decStr s3, s4 := ← decStr s4, q0 := ← decQuote q0, q1 := ← decQuote q1,
        q2 := ← decQuote q2, q3 := ← decQuote q3, q4 := ← decQuote q4, beforeClose := ← decStr bc,
        gap := ← decStr gap }
    pure (.v2 lay (← decV2 h))
  | _ => none

def regexOf : String → Option (List Seg)
  | "v1" => some v1Regex
  | "v2" => some v2Regex
  | "xml" => some xmlRegex
  | _ => none

def encRes (total : Nat) : Option Res → String
  | none => replyOk [.atom "none"]
  | some (caps, rest) =>
    replyOk [.list [.atom "some", .list (caps.map (encOpt encStr)), encNat (total - rest.length)]]

def codecOf (e : SExp) : Option Name := (decStr e).bind Name.ofPy

def handle : Handler := fun op args =>
  match op, args with
  | "hdr.parse", [b] => (decBytes b).map fun b =>
      replyPy (fun (h, body) => [encHdr h, encStr body]) (parseHeader genV1P genV2P cp1252High b)
  | "hdr.make", [v, sec, old, new] => do
      let v ← decArg v
      let sec ← decOpt decStr sec
      let old ← decOpt decStr old
      let new ← decOpt decStr new
      pure (replyPy (fun h => [encHdr h, encStr (strHdr h)]) (makeHeader genV1P genV2P v sec old new))
  | "hdr.ctor1", [v, oh, data, sec, enc, cs, comp, old, new] => do
      let r := ctorV1 genV1P (← decArg v) (← decArg oh) (← decOpt decStr data) (← decOpt decStr sec)
        (← decOpt decStr enc) (← decOpt decStr cs) (← decOpt decStr comp) (← decOpt decStr old) (← decOpt decStr new)
      pure (replyPy (fun h => [encHdr (.v1 h)]) r)
  | "hdr.ctor2", [v, oh, sec, old, new] => do
      let r := ctorV2 genV2P (← decArg v) (← decArg oh) (← decOpt decStr sec) (← decOpt decStr old)
        (← decOpt decStr new)
      pure (replyPy (fun h => [encHdr (.v2 h)]) r)
  | "hdr.str", [h] => (decHdr h).map fun h => replyOk [encStr (strHdr h)]
  | "hdr.re", [.atom which, .atom mode, s] => do
      let segs ← regexOf which
      let s ← decStr s
      match mode with
      | "search" => pure (encRes s.length (reSearch segs s))
      | "match" => pure (encRes s.length (reMatch segs s))
      | _ => none
  | "hdr.decode", [c, b] => do
      let c ← codecOf c
      let b ← decBytes b
      pure (replyPy (fun s => [encStr s]) (decode cp1252High c b))
  | "hdr.encode", [c, s] => do
      let c ← codecOf c
      let s ← decStr s
      pure (replyPy (fun b => [encBytes b]) (encode cp1252High c s))
  | "spec.renderfile", [fs, body] => do
      let fs ← decFileSpec fs
      let body ← decBytes body
      pure (replyOk [encBytes (renderFile fs body), encBool (tolerated fs)])
  | _, _ => none

end Ofx.Drv.Header
