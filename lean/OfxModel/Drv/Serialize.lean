import OfxModel.Drv.Util
import OfxModel.Ofx.Serialize
import OfxModel.Spec.Wire
import OfxModel.Generated.Tables

namespace Ofx.Drv.Serialize
open Ofx Ofx.Drv Ofx.Serialize

def he : List Str := Ofx.Generated.htmlEmpty

/-- a string argument: one atom, or a list of chunk atoms to be concatenated (long atoms are slow to tokenise) -/
def decChunks : SExp → Option Str
  | .list xs => (xs.mapM decStr).map List.flatten
  | e => decStr e

def handle : Handler := fun op args =>
  match op, args with
  | "ser.html", [t] => (Tree.dec t).map fun t => replyOk [encStr (toStringHtml he t)]
  | "ser.indent", [t] => (Tree.dec t).map fun t => replyOk [Tree.enc (indent t 0)]
  | "ser.indentl", [t, l] => do
      let t ← Tree.dec t
      let l ← decNat l
      pure (replyOk [Tree.enc (indent t l)])
  | "ser.unclosed", [t] => (Tree.dec t).map fun t => replyOk [encStr (toStringUnclosed t)]
  | "ser.body", [c, p, t] => do
      let c ← decBool c
      let p ← decBool p
      let t ← Tree.dec t
      pure (replyOk [encStr (serializeBody he c p t)])
  | "ser.serialize", [h, v, c, p, t] => do
      let h ← decStr h
      let v ← decNat v
      let c ← decBool c
      let p ← decBool p
      let t ← Tree.dec t
      pure (replyPy (fun s => [encStr s]) (serialize he h v c p t))
  | "spec.wirelex", [s] => (decChunks s).map fun s => replyOk [encBool (Spec.Wire.wireLex s)]
  | "spec.dataok", [s] => (decChunks s).map fun s => replyOk [encBool (Spec.Wire.dataOk s)]
  | "spec.wiretree", [t] => (Tree.dec t).map fun t => replyOk [encBool (Spec.Wire.wireTree t)]
  | "spec.escapetree", [t] => (Tree.dec t).map fun t => replyOk [Tree.enc (Spec.Wire.escapeTree t)]
  | _, _ => none

end Ofx.Drv.Serialize
