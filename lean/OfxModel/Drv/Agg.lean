import OfxModel.Drv.Util
import OfxModel.Ofx.Agg
import OfxModel.Ofx.WF
import OfxModel.Ofx.Types
import OfxModel.Generated.Schema
import OfxModel.Generated.Tables

namespace Ofx.Drv.Agg
open Ofx Ofx.Drv Ofx.Agg

def S : Schema := Ofx.Generated.schema
def cv : Conv := Ofx.Types.conv
def special : List Str := Ofx.Generated.htmlEmpty ++ ["script".toList, "style".toList]

def decKw : SExp → Option (List (Str × Node))
  | .list xs => xs.mapM (fun e => match e with
    | .list [n, v] => do pure (← decStr n, ← Node.dec? v)
    | _ => none)
  | _ => none

def handle : Handler := fun op args =>
  match op, args with
  | "construct", [ci, as, kw] => do
      let ci ← decNat ci
      let as ← decList Node.dec? as
      let kw ← decKw kw
      pure (replyPy (fun n => [n.enc]) (construct S cv ci as kw))
  | "fromtree", [t] => do
      let t ← Tree.dec t
      pure (replyPy (fun n => [n.enc]) (fromEtree S cv t))
  | "totree", [n] => do
      let n ← Node.dec? n
      pure (replyPy (fun t => [t.enc]) (toEtree S cv n))
  | "roundtrip", [n] => do      -- from_etree(to_etree(n))
      let n ← Node.dec? n
      pure (replyPy (fun m => [m.enc]) (do let t ← toEtree S cv n; fromEtree S cv t))
  | "wf.report", [] =>
      let rep := (List.range S.classes.length).flatMap fun i =>
        match S.classes[i]? with
        | some c => (WF.failing S special i c).map (fun f => SExp.list [encStr c.name, .atom f])
        | none => []
      some (replyOk [.list rep, encBool (WF.enumsOk S), encBool (WF.namesSorted (S.classes.map (·.name)))])
  | "cls.index", [n] => do
      let n ← decStr n
      pure (replyOk [encOpt encNat (S.findIdx? n)])
  | _, _ => none

end Ofx.Drv.Agg
