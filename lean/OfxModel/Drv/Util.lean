/- Helpers shared by the driver handlers. -/
import OfxModel.Proto
import OfxModel.Py.Err

namespace Ofx.Drv

open Ofx

/-- A handler gets the op name and its arguments; `none` = not mine. -/
abbrev Handler := String → List SExp → Option String

def replyPy (f : α → List SExp) : PyM α → String
  | .ok a => replyOk (f a)
  | .error e => replyErr e.name

end Ofx.Drv
