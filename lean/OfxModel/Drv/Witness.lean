/-
Driver ops for the C13 constructibility witness (`Spec/Witness.lean`):

  witness.with ci name   ->  (ok (some desc) (ok inst))      the description `mkWith` gives for the child `name` of class
                             (ok (some desc) (err kind))      `ci`, and what the model's constructors make of it
                             (ok none none)                   no description (no such class / child, fuel exhausted)
  witness.pairs          ->  (ok ((ci name) …))               the (class, child) pairs the obligation ranges over
-/
import OfxModel.Drv.Util
import OfxModel.Spec.Witness
import OfxModel.Ofx.Types
import OfxModel.Generated.Schema

namespace Ofx.Drv.Witness
open Ofx Ofx.Drv Ofx.Agg Ofx.Spec.Witness

def S : Schema := Ofx.Generated.schema
def cv : Conv := Ofx.Types.conv

def encBuilt : PyM Node → SExp
  | .ok n => .list [.atom "ok", n.enc]
  | .error e => .list [.atom "err", .atom e.name]

def handle : Handler := fun op args =>
  match op, args with
  | "witness.with", [ci, name] => do
      let ci ← decNat ci
      let name ← decStr name
      let desc := do
        let c ← S.cls? ci
        let a ← c.attr? name
        mkWith S defaultFuel ci a
      pure (match desc with
        | some d => replyOk [encOpt Node.enc (some d), encBuilt (build S cv d)]
        | none => replyOk [.atom "none", .atom "none"])
  | "witness.pairs", [] =>
      some (replyOk [.list ((pairs S).map (fun p => SExp.list [encNat p.1, encStr p.2.name]))])
  | _, _ => none

end Ofx.Drv.Witness
