import OfxModel.Drv.Util
import OfxModel.Drv.Ofxget
import OfxModel.Drv.Compose
import OfxModel.Ofx.OfxgetWire

/-
Driver ops of the command-line-to-wire composition (C19 with C06).

  wire.stmt <kind> <maps> <acct> <typed> <uuidprefix> <dtclient>   -> (ok <text>) | (err k)
        `request_stmt(args)` / `request_stmtend(args)` (kind = stmt | stmtend) up to the request text;
        `DateTime().convert` is the model of `Types.DateTime`; the uuid stream is  i ↦ uuidprefix ++ str(i)
  wire.cfg <maps>                                                  -> (ok <cfg>) | (err k)       `init_client(args)`
  wire.passwd <maps> <typed>                                       -> (ok <text>) | (err k)      `get_passwd(args)`
  wire.date <opt text>                                             -> (ok <opt dt>) | (err k)    `DateTime().convert(text or None)`
  wire.reqs <kind> <maps> <acct>                                   -> (ok (<req>…)) | (err k)    the typed request records

Encodings as in Drv/Ofxget.lean (maps, account infos) and Drv/Compose.lean (`<cfg>`, `<req>`).
-/
namespace Ofx.Drv.OfxgetWire
open Ofx Ofx.Drv Ofx.Ofxget Ofx.OfxgetWire

def encOS := encOpt encStr
def encOD := encOpt DT.enc
def encOB := encOpt encBool

def encReq : Compose.Req → SExp
  | .stmt a t s e i => .list [.atom "stmt", encOS a, encOS t, encOD s, encOD e, encOB i]
  | .ccStmt a s e i => .list [.atom "ccstmt", encOS a, encOD s, encOD e, encOB i]
  | .invStmt a s e asof i oo pos bal =>
    .list [.atom "invstmt", encOS a, encOD s, encOD e, encOD asof, encOB i, encOB oo, encOB pos, encOB bal]
  | .stmtEnd a t s e => .list [.atom "stmtend", encOS a, encOS t, encOD s, encOD e]
  | .ccStmtEnd a s e => .list [.atom "ccstmtend", encOS a, encOD s, encOD e]

def handle : Handler := fun op args =>
  match op, args with
  | "wire.stmt", [.atom kind, maps, acct, typed, pre, dtc] => do
    let maps ← decList Ofx.Drv.Ofxget.decMap maps
    let acct ← Ofx.Drv.Ofxget.decAcct acct
    let typed ← decStr typed
    let pre ← decStr pre
    let dtc ← DT.dec? dtc
    let x : Ext := ⟨acct, typed, Ofx.Drv.Compose.uuidStream pre, dtc⟩
    let r := if kind == "stmtend" then stmtendBytes Ofx.Drv.Compose.S Ofx.Drv.Compose.cv Ofx.Drv.Compose.env maps x
      else stmtBytes Ofx.Drv.Compose.S Ofx.Drv.Compose.cv Ofx.Drv.Compose.env maps x
    pure (replyPy (fun s => [encStr s]) r)
  | "wire.cfg", [maps] => do
    let maps ← decList Ofx.Drv.Ofxget.decMap maps
    pure (replyPy (fun c => [Ofx.Drv.Compose.encCfg c]) (clientCfg maps))
  | "wire.passwd", [maps, typed] => do
    let maps ← decList Ofx.Drv.Ofxget.decMap maps
    let typed ← decStr typed
    pure (replyPy (fun s => [encStr s]) (getPasswd maps typed))
  | "wire.date", [t] => do
    let t ← decOpt decStr t
    pure (replyPy (fun d => [encOD d]) (dateConvert t))
  | "wire.reqs", [.atom kind, maps, acct] => do
    let maps ← decList Ofx.Drv.Ofxget.decMap maps
    let acct ← Ofx.Drv.Ofxget.decAcct acct
    let plan := if kind == "stmtend" then requestStmtend dateConvert maps acct else requestStmt dateConvert maps acct
    pure (replyPy (fun l => [.list (l.map encReq)]) (do let p ← plan; toReqs p.requests))
  | _, _ => none

end Ofx.Drv.OfxgetWire
