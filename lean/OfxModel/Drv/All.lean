import OfxModel.Drv.SecId

namespace Ofx.Drv
def handlers : List Handler := [SecId.handle]
end Ofx.Drv
