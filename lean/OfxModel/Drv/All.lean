import OfxModel.Drv.SecId
import OfxModel.Drv.Agg
import OfxModel.Drv.Pipeline
import OfxModel.Drv.Client
import OfxModel.Drv.Compose
import OfxModel.Drv.DateTime
import OfxModel.Drv.Getattr
import OfxModel.Drv.Header
import OfxModel.Drv.Ofxget
import OfxModel.Drv.Parser
import OfxModel.Drv.Purity
import OfxModel.Drv.Serialize
import OfxModel.Drv.Types
import OfxModel.Drv.DocValues
import OfxModel.Drv.IniText
import OfxModel.Drv.CookieJar
import OfxModel.Drv.CopyProto
import OfxModel.Drv.OfxgetWire
import OfxModel.Drv.OfxgetPersist
import OfxModel.Drv.Witness

namespace Ofx.Drv
def handlers : List Handler := [SecId.handle, Ofx.Drv.Agg.handle, Ofx.Drv.Pipeline.handle, Ofx.Drv.Client.handle, Ofx.Drv.Compose.handle, Ofx.Drv.DateTime.handle, Ofx.Drv.Getattr.handle, Ofx.Drv.Header.handle, Ofx.Drv.Ofxget.handle, Ofx.Drv.Parser.handle, Ofx.Drv.Purity.handle, Ofx.Drv.Serialize.handle, Ofx.Drv.Types.handle, Ofx.Drv.DocValues.handle, Ofx.Drv.IniText.handle, Ofx.Drv.CookieJar.handle, Ofx.Drv.CopyProto.handle, Ofx.Drv.OfxgetWire.handle, Ofx.Drv.OfxgetPersist.handle, Ofx.Drv.Witness.handle]
end Ofx.Drv
