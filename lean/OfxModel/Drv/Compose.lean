/-
Driver ops of the request-composition layer (C06).

  compose.init <initargs>                                              -> (ok <cfg>) | (err kind)
  compose.stmt <cfg> <pw> <dtclient> <uuidprefix> (<req>…)             -> (ok <inst> <ser>) | (err kind)
  compose.acct <cfg> <pw> <dtclient> <uuidprefix> <opt dt>             -> (ok <inst> <ser>) | (err kind)
  compose.prof <cfg> <dtclient> <uuidprefix> <opt dt> <opt nat> <opt bool> <opt bool>
                                                                       -> (ok <inst> <ser>) | (err kind)
  compose.tax  <cfg> <pw> <dtclient> <uuidprefix> (<year>…) <opt acctnum> <opt recid>
                                                                       -> (ok <inst> <ser>) | (err kind)
  compose.readback <bytes>                                             -> (ok <hdrversion> <inst>) | (err kind)
  spec.request stmt <cfg> <pw> <dtclient> (<req>…) <hdrversion> <inst> -> (ok T|F (<clause>…))
  spec.request acct <cfg> <pw> <dtclient> <opt dt> <hdrversion> <inst>
  spec.request prof <cfg> <dtclient> <opt dt> <opt nat> <hdrversion> <inst>
  spec.request tax  <cfg> <pw> <dtclient> (<year>…) <opt acctnum> <opt recid> <hdrversion> <inst>

  <ser>  = (ok <text>) | (err kind)            what `serialize` returns for the composed instance
  <cfg>  = (cfg url userid <opt clientuid> <opt org> <opt fid> version appid appver language pretty close
                <opt bankid> <opt brokerid>)
  <initargs> = (init url <opt userid> <opt clientuid> <opt org> <opt fid> <opt version> <opt appid> <opt appver>
                <opt language> <opt pretty> <opt close> <opt bankid> <opt brokerid>)
  <req>  = (stmt <opt acctid> <opt accttype> <opt dtstart> <opt dtend> <opt inctran>)
         | (ccstmt <opt acctid> <opt dtstart> <opt dtend> <opt inctran>)
         | (invstmt <opt acctid> <opt dtstart> <opt dtend> <opt dtasof> <opt inctran> <opt incoo> <opt incpos> <opt incbal>)
         | (stmtend <opt acctid> <opt accttype> <opt dtstart> <opt dtend>)
         | (ccstmtend <opt acctid> <opt dtstart> <opt dtend>)
  the uuid stream is  i ↦ uuidprefix ++ str(i)
-/
import OfxModel.Drv.Util
import OfxModel.Drv.Header
import OfxModel.Ofx.Compose
import OfxModel.Ofx.Types
import OfxModel.Ofx.Builder
import OfxModel.Spec.Request
import OfxModel.Generated.Schema
import OfxModel.Generated.Tables

namespace Ofx.Drv.Compose
open Ofx Ofx.Drv Ofx.Compose

def S : Schema := Ofx.Generated.schema
def cv : Conv := Ofx.Types.conv
def env : Env := { p1 := Ofx.Drv.Header.genV1P, p2 := Ofx.Drv.Header.genV2P, htmlEmpty := Ofx.Generated.htmlEmpty }

def uuidStream (pre : Str) (i : Nat) : Str := pre ++ pyStrNat i

def decCfg : SExp → Option Cfg
  | .list [.atom "cfg", url, userid, clientuid, org, fid, version, appid, appver, language, pretty, close,
           bankid, brokerid] => do
    pure { url := ← decStr url, userid := ← decStr userid, clientuid := ← decOpt decStr clientuid,
           org := ← decOpt decStr org, fid := ← decOpt decStr fid, version := ← decNat version,
           appid := ← decStr appid, appver := ← decStr appver, language := ← decStr language,
           prettyprint := ← decBool pretty, closeElements := ← decBool close,
           bankid := ← decOpt decStr bankid, brokerid := ← decOpt decStr brokerid }
  | _ => none

def encCfg (c : Cfg) : SExp :=
  .list [.atom "cfg", encStr c.url, encStr c.userid, encOpt encStr c.clientuid, encOpt encStr c.org,
         encOpt encStr c.fid, encNat c.version, encStr c.appid, encStr c.appver, encStr c.language,
         encBool c.prettyprint, encBool c.closeElements, encOpt encStr c.bankid, encOpt encStr c.brokerid]

def decInit : SExp → Option InitArgs
  | .list [.atom "init", url, userid, clientuid, org, fid, version, appid, appver, language, pretty, close,
           bankid, brokerid] => do
    pure { url := ← decStr url, userid := ← decOpt decStr userid, clientuid := ← decOpt decStr clientuid,
           org := ← decOpt decStr org, fid := ← decOpt decStr fid, version := ← decOpt decNat version,
           appid := ← decOpt decStr appid, appver := ← decOpt decStr appver, language := ← decOpt decStr language,
           prettyprint := ← decOpt decBool pretty, closeElements := ← decOpt decBool close,
           bankid := ← decOpt decStr bankid, brokerid := ← decOpt decStr brokerid }
  | _ => none

def oS := decOpt decStr
def oD := decOpt DT.dec?
def oB := decOpt decBool

def decReq : SExp → Option Req
  | .list [.atom "stmt", a, t, s, e, i] => do pure (.stmt (← oS a) (← oS t) (← oD s) (← oD e) (← oB i))
  | .list [.atom "ccstmt", a, s, e, i] => do pure (.ccStmt (← oS a) (← oD s) (← oD e) (← oB i))
  | .list [.atom "invstmt", a, s, e, asof, i, oo, pos, bal] => do
    pure (.invStmt (← oS a) (← oD s) (← oD e) (← oD asof) (← oB i) (← oB oo) (← oB pos) (← oB bal))
  | .list [.atom "stmtend", a, t, s, e] => do pure (.stmtEnd (← oS a) (← oS t) (← oD s) (← oD e))
  | .list [.atom "ccstmtend", a, s, e] => do pure (.ccStmtEnd (← oS a) (← oD s) (← oD e))
  | _ => none

def encSer (r : PyM Str) : SExp :=
  match r with
  | .ok s => .list [.atom "ok", encStr s]
  | .error e => .list [.atom "err", .atom e.name]

/-- reply for a composed instance together with what `serialize` makes of it -/
def replyComposed (inst : PyM Node) (ser : Node → PyM Str) : String :=
  replyPy (fun n => [n.enc, encSer (ser n)]) inst

/-- `OFXTree().parse(BytesIO(bytes)); convert()` with the model's header parser, lexer, builder and `from_etree` -/
def readback (b : List UInt8) : PyM (Int × Node) := do
  let (h, body) ← Header.parseHeader env.p1 env.p2 Ofx.Generated.cp1252High b
  let version := match h with
    | .v1 h => h.version
    | .v2 h => h.version
  match ← Builder.parse body with
  | none => .error .value
  | some t =>
    let n ← Agg.fromEtree S cv t
    pure (version, n)

def replyClauses (cs : List String) : String :=
  replyOk [encBool cs.isEmpty, .list (cs.map encString)]

def handle : Handler := fun op args =>
  match op, args with
  | "compose.init", [a] => do
      let a ← decInit a
      pure (replyPy (fun c => [encCfg c]) (init a))
  | "compose.stmt", [cfg, pw, dtc, pre, reqs] => do
      let cfg ← decCfg cfg
      let pw ← decStr pw
      let dtc ← DT.dec? dtc
      let us := uuidStream (← decStr pre)
      let reqs ← decList decReq reqs
      pure (replyComposed (requestStatements S cv cfg pw reqs us dtc)
        (fun n => serializeReq S cv env cfg n none none (some (us reqs.length)) none none))
  | "compose.acct", [cfg, pw, dtc, pre, dtacctup] => do
      let cfg ← decCfg cfg
      let pw ← decStr pw
      let dtc ← DT.dec? dtc
      let us := uuidStream (← decStr pre)
      let dtacctup ← oD dtacctup
      pure (replyComposed (requestAccounts S cv cfg pw dtacctup us dtc)
        (fun n => serializeReq S cv env cfg n none none (some (us 1)) none none))
  | "compose.prof", [cfg, dtc, pre, dtprofup, version, pretty, close] => do
      let cfg ← decCfg cfg
      let dtc ← DT.dec? dtc
      let us := uuidStream (← decStr pre)
      let dtprofup ← oD dtprofup
      let version ← decOpt decNat version
      let pretty ← oB pretty
      let close ← oB close
      pure (replyComposed (requestProfile S cv cfg dtprofup us dtc)
        (fun n => serializeReq S cv env cfg n version none (some (us 1)) pretty close))
  | "compose.tax", [cfg, pw, dtc, pre, years, acctnum, recid] => do
      let cfg ← decCfg cfg
      let pw ← decStr pw
      let dtc ← DT.dec? dtc
      let us := uuidStream (← decStr pre)
      let years ← decList decStr years
      let acctnum ← oS acctnum
      let recid ← oS recid
      pure (replyComposed (requestTax S cv cfg pw years acctnum recid us dtc)
        (fun n => serializeReq S cv env cfg n none none (some (us 1)) none none))
  | "compose.readback", [b] => do
      let b ← decBytes b
      pure (replyPy (fun (v, n) => [encInt v, n.enc]) (readback b))
  | "spec.request", [.atom "stmt", cfg, pw, dtc, reqs, hv, inst] => do
      let cfg ← decCfg cfg
      let pw ← decStr pw
      let dtc ← DT.dec? dtc
      let reqs ← decList decReq reqs
      let hv ← decInt hv
      let inst ← Node.dec? inst
      pure (replyClauses (Spec.Request.check S cfg pw dtc reqs hv inst))
  | "spec.request", [.atom "acct", cfg, pw, dtc, dtacctup, hv, inst] => do
      let cfg ← decCfg cfg
      let pw ← decStr pw
      let dtc ← DT.dec? dtc
      let dtacctup ← oD dtacctup
      let hv ← decInt hv
      let inst ← Node.dec? inst
      pure (replyClauses (Spec.Request.checkAccounts S cfg pw dtc dtacctup hv inst))
  | "spec.request", [.atom "prof", cfg, dtc, dtprofup, version, hv, inst] => do
      let cfg ← decCfg cfg
      let dtc ← DT.dec? dtc
      let dtprofup ← oD dtprofup
      let version ← decOpt decNat version
      let hv ← decInt hv
      let inst ← Node.dec? inst
      pure (replyClauses (Spec.Request.checkProfile S cfg dtc dtprofup version hv inst))
  | "spec.request", [.atom "tax", cfg, pw, dtc, years, acctnum, recid, hv, inst] => do
      let cfg ← decCfg cfg
      let pw ← decStr pw
      let dtc ← DT.dec? dtc
      let years ← decList decStr years
      let acctnum ← oS acctnum
      let recid ← oS recid
      let hv ← decInt hv
      let inst ← Node.dec? inst
      pure (replyClauses (Spec.Request.checkTax S cfg pw dtc years acctnum recid hv inst))
  | _, _ => none

end Ofx.Drv.Compose
