import OfxModel.Drv.Util
import OfxModel.Drv.Ofxget
import OfxModel.Spec.PersistOk

/-
Driver op of the persistence characterisation (C18, `Spec/PersistOk.lean`).

  persist.ok <ns> <fidb> <user> <oh> <uuid>
      -> (ok none)                    the saving run is outside the domain of `C18_persist_iff`: `merge_config` or the
                                      save fails, nothing is written (no `write`, dry run), the nickname is `DEFAULT`,
                                      or the next run fails
       | (ok ((xopt T|F outcome loss T|F) …))
                                      per CONFIGURABLE option: `PersistOk` of its view; which test of `test_cfg_val`
                                      decided; `ok` or the way the setting is lost (`lossClass`); and — the model's own
                                      two runs — whether the value in effect is the same at the next run
                                      `ofxget stmt <nick> --dryrun`
       | (err k)                      `merge_config` raised

Encodings as in Drv/Ofxget.lean.
-/
namespace Ofx.Drv.OfxgetPersist
open Ofx Ofx.Drv Ofx.Ofxget Ofx.Spec.Persist Ofx.Drv.Ofxget

/-- the command line of "running again without those options" -/
def probeNs (server : Str) : Map :=
  [("request".toList, .str "stmt".toList), ("verbose".toList, .int 0), ("server".toList, .str server),
   ("dryrun".toList, .bool true)]

def outcomeName : Outcome → String
  | .written => "written"
  | .writtenStored => "writtenStored"
  | .skipEmpty => "skipEmpty"
  | .skipGlobalUid => "skipGlobalUid"
  | .skipDefault => "skipDefault"

/-- one row per CONFIGURABLE option, `none` outside the domain -/
def rows (lookup : Str → Option OhRec) (ns : Map) (fidb user : FileC) (uuid : Str) : PyM (Option (List SExp)) := do
  let r ← runOnce T lookup ns fidb user uuid
  match r.written with
  | some (.ok ini) =>
    match serverNick r.args, (do
        let s ← serverNick r.args
        readConfig T (loadLib fidb) s) with
    | .ok s, .ok libCfg =>
      if s == defaultSect then pure none
      else
        match mergeConfig T lookup (probeNs s) (loadUser fidb ini.toFile) with
        | .error _ => pure none
        | .ok c2 =>
          let out := T.configurable.filterMap fun kt =>
            match effective r.args kt.1, T.defaults.lookup kt.1 with
            | some v, some d =>
              let w := viewOf ns fidb user uuid s kt.1 kt.2 v ((libCfg.lookup kt.1).getD d)
                (lowOf T lookup (effective r.args "ofxhome".toList) kt.1)
                (lowOf T lookup (effective c2 "ofxhome".toList) kt.1)
              let loss := match lossClass T w with
                | none => "ok"
                | some l => l.name
              some (SExp.list [encStr kt.1, encBool (PersistOk T w), .atom (outcomeName (outcome w)), .atom loss,
                encBool (effective c2 kt.1 == effective r.args kt.1)])
            | _, _ => none
          pure (some out)
    | _, _ => pure none
  | _ => pure none

def handle : Handler := fun op args =>
  match op, args with
  | "persist.ok", [ns, fidb, user, oh, uuid] => do
    let ns ← decMap ns
    let fidb ← decFile fidb
    let user ← decFile user
    let oh ← decOh oh
    let uuid ← decStr uuid
    pure (replyPy (fun (o : Option (List SExp)) =>
        match o with
        | none => [.atom "none"]
        | some l => [.list l])
      (rows (ohLookup oh) ns fidb user uuid))
  | _, _ => none

end Ofx.Drv.OfxgetPersist
