import OfxModel.Drv.Util
import OfxModel.Ofx.DateTime
import OfxModel.Spec.Instant

namespace Ofx.Drv.DateTime
open Ofx Ofx.Drv Ofx.DateTime

def encGroups (g : Groups) : List SExp :=
  [g.year, g.month, g.day, g.hour, g.minute, g.second, g.ms, g.offH, g.offM, g.name].map (encOpt encStr)

def replyGroups : Option Groups → String
  | none => replyOk [.atom "none"]
  | some g => replyOk [.list (.atom "some" :: encGroups g)]

def val1 (v : Val) : List SExp := [v.enc]

def handle : Handler := fun op args =>
  match op, args with
  | "dt.conv", [r, v] => do
      let r ← decBool r; let v ← Val.dec? v
      pure (replyPy val1 (dtConvert r v))
  | "dt.unconv", [r, v] => do
      let r ← decBool r; let v ← Val.dec? v
      pure (replyPy val1 (dtUnconvert r v))
  | "tm.conv", [r, v] => do
      let r ← decBool r; let v ← Val.dec? v
      pure (replyPy val1 (tmConvert r v))
  | "tm.unconv", [r, v] => do
      let r ← decBool r; let v ← Val.dec? v
      pure (replyPy val1 (tmUnconvert r v))
  | "dt.regex", [s] => (decStr s).map fun s => replyGroups (dtRegex s)
  | "tm.regex", [s] => (decStr s).map fun s => replyGroups (tmRegex s)
  | "dt.gmtoffset", [h, m] => do
      let h ← decInt h; let m ← decNat m
      pure (replyPy (fun x => [encInt x]) (gmtOffset h m))
  -- specification side
  | "spec.instant", [y, m, d, h, mi, s, ms, off] => do
      let y ← decNat y; let m ← decNat m; let d ← decNat d; let h ← decNat h; let mi ← decNat mi
      let s ← decNat s; let ms ← decNat ms; let off ← decInt off
      pure (replyOk [encBool (Spec.Instant.validDate y m d && Spec.Instant.validTod h mi s && ms < 1000),
                     encInt (Spec.Instant.instantOf y m d h mi s ms off)])
  | "spec.innotation", [t, s] => do
      let t ← decBool t; let s ← decStr s
      pure (replyOk [encOpt (fun (p : Spec.Instant.Parts) => encInt p.instant) (Spec.Instant.parse t s)])
  | "spec.valinstant", [v] => do
      match ← Val.dec? v with
      | .dt d => pure (replyOk [encBool (Spec.Instant.dtValid d), encOpt encInt (Spec.Instant.dtInstantUs d)])
      | .tm t => pure (replyOk [encBool (Spec.Instant.tmValid t), encOpt encInt (Spec.Instant.tmInstantUs t)])
      | _ => pure (replyErr "type")
  | _, _ => none

end Ofx.Drv.DateTime
