/-
Python integer <-> text primitives the code relies on.
-/
import OfxModel.Proto
import OfxModel.Py.Err

namespace Ofx

/-- Decimal digits of `str(n)`, most significant first (as numbers 0..9). -/
def natDigitsAux : Nat → Nat → List Nat → List Nat
  | 0, _, acc => acc
  | fuel + 1, n, acc =>
    if n < 10 then n :: acc else natDigitsAux fuel (n / 10) (n % 10 :: acc)

def natDigits (n : Nat) : List Nat := natDigitsAux (n + 1) n []

def digitChar (d : Nat) : Char := Char.ofNat (48 + d)

/-- `str(n)` for a non-negative int. -/
def pyStrNat (n : Nat) : Str := (natDigits n).map digitChar

/-- `str(i)` for an int. -/
def pyStrInt (i : Int) : Str :=
  if i < 0 then '-' :: pyStrNat i.natAbs else pyStrNat i.natAbs

/-- value of an ASCII decimal digit -/
def digitVal (c : Char) : Option Nat :=
  if '0' ≤ c ∧ c ≤ '9' then some (c.toNat - 48) else none

/-- `int(c, 36)` for a one-character ASCII string (`None` = ValueError). -/
def b36 (c : Char) : Option Nat :=
  if '0' ≤ c ∧ c ≤ '9' then some (c.toNat - 48)
  else if 'A' ≤ c ∧ c ≤ 'Z' then some (c.toNat - 55)
  else if 'a' ≤ c ∧ c ≤ 'z' then some (c.toNat - 87)
  else none

end Ofx
