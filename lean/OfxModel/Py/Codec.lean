/-
Python `bytes.decode(codec)` (errors="strict") and `str.encode(codec)` for the four codecs the header
layer uses: `ascii`, `latin_1`, `cp1252`, `utf_8`.  Only *ok value* vs *UnicodeDecodeError /
UnicodeEncodeError* is modelled (no positions, no messages).

The cp1252 table for bytes 0x80..0x9F is a parameter (`Ofx.Generated.cp1252High` has this shape:
32 entries, `none` = undefined byte).  Model strings are lists of Unicode scalar values, so lone
surrogates cannot occur in a `Str`; UTF-8 sequences that would decode to one are rejected, as CPython does.
-/
import OfxModel.Proto
import OfxModel.Py.Err

namespace Ofx.Codec
open Ofx

abbrev Bytes := List UInt8

inductive Name where
  | ascii | latin1 | cp1252 | utf8
  deriving DecidableEq, Repr, Inhabited

/-- Python codec names used by `ofxtools.header` (`OFXHeaderV1.codecs` values, `OFXHeaderV2.codec`, `"ascii"`) -/
def Name.ofPy (s : Str) : Option Name :=
  if s = "ascii".toList then some .ascii
  else if s = "latin_1".toList then some .latin1
  else if s = "cp1252".toList then some .cp1252
  else if s = "utf_8".toList then some .utf8
  else none

/-- `chr(n)` when `n` is a Unicode scalar value -/
def chr? (n : Nat) : Option Char :=
  if h : n.isValidChar then some (Char.ofNatAux n h) else none

/-- the character with the code point of a byte (always a scalar value) -/
def byteChar (b : UInt8) : Char := Char.ofNat b.toNat

def byteOf (n : Nat) : UInt8 := UInt8.ofNat n

/-! ### decode -/

def decodeAscii : Bytes → PyM Str
  | [] => pure []
  | b :: bs =>
    if b.toNat < 128 then do
      let r ← decodeAscii bs
      pure (byteChar b :: r)
    else throw .unicode

/-- `bs.decode("ascii", errors="replace")`: one U+FFFD per byte ≥ 0x80, so offsets stay byte-exact -/
def decodeAsciiReplace (bs : Bytes) : Str :=
  bs.map fun b => if b.toNat < 128 then byteChar b else '\uFFFD'

def decodeLatin1 : Bytes → PyM Str
  | [] => pure []
  | b :: bs => do
    let r ← decodeLatin1 bs
    pure (byteChar b :: r)

/-- one cp1252 byte -/
def cp1252Char (tbl : List (Option Nat)) (b : UInt8) : Option Char :=
  if b.toNat < 0x80 ∨ 0xA0 ≤ b.toNat then some (byteChar b)
  else
    match tbl[b.toNat - 0x80]? with
    | some (some n) => chr? n
    | _ => none

def decodeCp1252 (tbl : List (Option Nat)) : Bytes → PyM Str
  | [] => pure []
  | b :: bs =>
    match cp1252Char tbl b with
    | some c => do
      let r ← decodeCp1252 tbl bs
      pure (c :: r)
    | none => throw .unicode

/-- `chr(n)`, refusing what is not a scalar value -/
def chrM (n : Nat) : PyM Char :=
  match chr? n with
  | some c => pure c
  | none => throw .unicode

/-- strict UTF-8: shortest form only, no surrogates (U+D800..U+DFFF), nothing above U+10FFFF,
    truncated sequences rejected.  One byte at a time; `pending = some (need, acc, lo, hi)` while inside a
    multi-byte sequence: `need` continuation bytes are still expected, the next one within `lo..hi`. -/
def decodeUtf8Go : Bytes → Option (Nat × Nat × Nat × Nat) → PyM Str
  | [], none => pure []
  | [], some _ => throw .unicode
  | b :: bs, none =>
    if b.toNat < 0x80 then do
      let r ← decodeUtf8Go bs none
      pure (byteChar b :: r)
    else if 0xC2 ≤ b.toNat ∧ b.toNat ≤ 0xDF then decodeUtf8Go bs (some (1, b.toNat - 0xC0, 0x80, 0xBF))
    else if 0xE0 ≤ b.toNat ∧ b.toNat ≤ 0xEF then
      decodeUtf8Go bs (some (2, b.toNat - 0xE0, if b.toNat = 0xE0 then 0xA0 else 0x80,
                             if b.toNat = 0xED then 0x9F else 0xBF))
    else if 0xF0 ≤ b.toNat ∧ b.toNat ≤ 0xF4 then
      decodeUtf8Go bs (some (3, b.toNat - 0xF0, if b.toNat = 0xF0 then 0x90 else 0x80,
                             if b.toNat = 0xF4 then 0x8F else 0xBF))
    else throw .unicode
  | b :: bs, some (need, acc, lo, hi) =>
    if lo ≤ b.toNat ∧ b.toNat ≤ hi then
      if need ≤ 1 then do
        let c ← chrM (acc * 64 + (b.toNat - 0x80))
        let r ← decodeUtf8Go bs none
        pure (c :: r)
      else decodeUtf8Go bs (some (need - 1, acc * 64 + (b.toNat - 0x80), 0x80, 0xBF))
    else throw .unicode

def decodeUtf8 (bs : Bytes) : PyM Str := decodeUtf8Go bs none

def decode (tbl : List (Option Nat)) : Name → Bytes → PyM Str
  | .ascii => decodeAscii
  | .latin1 => decodeLatin1
  | .cp1252 => decodeCp1252 tbl
  | .utf8 => decodeUtf8

/-! ### encode -/

/-- position of code point `n` in the cp1252 high table, counting from `i` -/
def cpIndex (n : Nat) : List (Option Nat) → Nat → Option Nat
  | [], _ => none
  | e :: es, i => if e = some n then some i else cpIndex n es (i + 1)

def encodeCharAscii (c : Char) : Option Bytes :=
  if c.toNat < 128 then some [byteOf c.toNat] else none

def encodeCharLatin1 (c : Char) : Option Bytes :=
  if c.toNat < 256 then some [byteOf c.toNat] else none

def encodeCharCp1252 (tbl : List (Option Nat)) (c : Char) : Option Bytes :=
  if c.toNat < 0x80 ∨ (0xA0 ≤ c.toNat ∧ c.toNat < 0x100) then some [byteOf c.toNat]
  else
    match cpIndex c.toNat tbl 0 with
    | some i => if i < 32 then some [byteOf (0x80 + i)] else none
    | none => none

def encodeCharUtf8 (c : Char) : Option Bytes :=
  let n := c.toNat
  if n < 0x80 then some [byteOf n]
  else if n < 0x800 then some [byteOf (0xC0 + n / 64), byteOf (0x80 + n % 64)]
  else if n < 0x10000 then some [byteOf (0xE0 + n / 4096), byteOf (0x80 + n / 64 % 64), byteOf (0x80 + n % 64)]
  else some [byteOf (0xF0 + n / 262144), byteOf (0x80 + n / 4096 % 64), byteOf (0x80 + n / 64 % 64),
             byteOf (0x80 + n % 64)]

def encodeChar (tbl : List (Option Nat)) : Name → Char → Option Bytes
  | .ascii => encodeCharAscii
  | .latin1 => encodeCharLatin1
  | .cp1252 => encodeCharCp1252 tbl
  | .utf8 => encodeCharUtf8

/-- `s.encode(codec)` (strict) -/
def encode (tbl : List (Option Nat)) (cs : Name) : Str → PyM Bytes
  | [] => pure []
  | c :: rest =>
    match encodeChar tbl cs c with
    | some bs => do
      let r ← encode tbl cs rest
      pure (bs ++ r)
    | none => throw .unicode

/-- ASCII text as bytes (header text is ASCII) -/
def asciiBytes (s : Str) : Bytes := s.map fun c => byteOf c.toNat

end Ofx.Codec
