/-
Python `decimal.Decimal` (C `_decimal`, default context) and `int(str)` as far as `ofxtools.Types` uses them.

* `pyIntParse`   — `int(s)` for a `str` (base 10): Unicode white space stripped the way
                   `_PyUnicode_TransformDecimalAndSpaceToASCII` + `PyLong_FromString` do it, optional sign,
                   digits with single underscores between digits.  Non-ASCII decimal digits are **not**
                   modelled (they are rejected here, accepted by CPython): outside the compared domain.
* `decParse`     — `decimal.Decimal(s)`: `numeric_as_ascii(strip_ws=1, ignore_underscores=1)` followed by
                   libmpdec's `mpd_qset_string` grammar (sign, `inf|infinity`, `nan|snan` + payload digits,
                   digits with an optional point, optional exponent; case-insensitive).  Exponent limits of the
                   exact conversion (|exp| ≤ 10^18) are not modelled.
* `decToStr`     — `str(d)`: to-scientific-string;  `decFormatF` — `format(d, "f")`: plain notation.
* `quantize`     — `d.quantize(q)` for a finite quantum `q` of exponent `qe` under the default context
                   (prec 28, ROUND_HALF_EVEN, InvalidOperation trapped).
* `sameQuantum`  — `d.same_quantum(q)` for a finite `q`.
* `decToInt`     — `int(d)`, `decOfInt` — `Decimal(i)`.
-/
import OfxModel.Py.Int
import OfxModel.Py.Str
import OfxModel.Ofx.Value

namespace Ofx

/-! ### digit scanning -/

/-- longest prefix of ASCII digits (as values) and the rest -/
def spanDigits : Str → List Nat × Str
  | [] => ([], [])
  | c :: cs =>
    match digitVal c with
    | some d => (d :: (spanDigits cs).1, (spanDigits cs).2)
    | none => ([], c :: cs)

/-- positional value of a list of digits, most significant first -/
def digitsVal (ds : List Nat) : Nat := ds.foldl (fun a d => 10 * a + d) 0

/-- optional sign -/
def takeSign : Str → Bool × Str
  | '-' :: r => (true, r)
  | '+' :: r => (false, r)
  | s => (false, s)

/-! ### `int(str)` -/

/-- white space as `int()` sees it: the transform maps every non-ASCII `isspace` character to a blank, ASCII
    characters are kept, and `PyLong_FromString` skips C `isspace` (9–13, 32) only — so U+001C–U+001F, which
    `str.isspace` accepts, are *not* skipped. -/
def intSpace (c : Char) : Bool := isSpace c && !(28 ≤ c.toNat && c.toNat ≤ 31)

def lstripBy (p : Char → Bool) : Str → Str
  | [] => []
  | c :: cs => if p c then lstripBy p cs else c :: cs

def stripBy (p : Char → Bool) (s : Str) : Str := (lstripBy p (lstripBy p s).reverse).reverse

/-- `digit (_? digit)*` : value of the digits, `none` if the shape is wrong.  `prevDigit` says whether the
    previous character was a digit (an underscore is only legal between two digits). -/
def intBody : Bool → Nat → Str → Option Nat
  | prevDigit, acc, [] => if prevDigit then some acc else none
  | prevDigit, acc, c :: cs =>
    match digitVal c with
    | some d => intBody true (10 * acc + d) cs
    | none => if c = '_' ∧ prevDigit then intBody false acc cs else none

/-- `int(s)`; `none` = ValueError -/
def pyIntParse (s : Str) : Option Int :=
  let t := stripBy intSpace s
  let (neg, body) := takeSign t
  match intBody false 0 body with
  | some n => some (if neg then -(n : Int) else (n : Int))
  | none => none

/-! ### `Decimal(str)` -/

/-- `numeric_as_ascii` after stripping: drop underscores, keep ASCII, blanks for other white space,
    anything else (non-ASCII; NUL) makes the conversion fail -/
def decCleanBody : Str → Option Str
  | [] => some []
  | c :: cs =>
    if c = '_' then decCleanBody cs
    else if 0 < c.toNat ∧ c.toNat ≤ 127 then (decCleanBody cs).map (c :: ·)
    else if isSpace c then (decCleanBody cs).map (' ' :: ·)
    else none

def decClean (s : Str) : Option Str := decCleanBody (strip s)

/-- the numeric part: digits, optional point, optional exponent (lower-cased input) -/
def decNumeric (neg : Bool) (s : Str) : Option Dec :=
  let ip := (spanDigits s).1
  let r1 := (spanDigits s).2
  let fp : List Nat := match r1 with
    | '.' :: r => (spanDigits r).1
    | _ => []
  let r2 : Str := match r1 with
    | '.' :: r => (spanDigits r).2
    | _ => r1
  if ip = [] ∧ fp = [] then none
  else
    let coeff := digitsVal (ip ++ fp)
    match r2 with
    | [] => some (.fin neg coeff (-(fp.length : Int)))
    | 'e' :: r3 =>
      let eneg := (takeSign r3).1
      let ed := (spanDigits (takeSign r3).2).1
      let r5 := (spanDigits (takeSign r3).2).2
      if ed = [] ∨ r5 ≠ [] then none
      else
        let ev : Int := if eneg then -(digitsVal ed : Int) else (digitsVal ed : Int)
        some (.fin neg coeff (ev - (fp.length : Int)))
    | _ => none

/-- `nan`/`snan` payload: digits only (possibly none) -/
def decPayload (neg sig : Bool) (r : Str) : Option Dec :=
  if (spanDigits r).2 = [] then some (.nan neg sig (digitsVal (spanDigits r).1)) else none

/-- `mpd_qset_string` on the cleaned ASCII text -/
def decParseAscii (s : Str) : Option Dec :=
  let neg := (takeSign s).1
  let l := lower (takeSign s).2
  if l = "inf".toList ∨ l = "infinity".toList then some (.inf neg)
  else match l with
    | 'n' :: 'a' :: 'n' :: r => decPayload neg false r
    | 's' :: 'n' :: 'a' :: 'n' :: r => decPayload neg true r
    | _ => decNumeric neg l

/-- `decimal.Decimal(s)` for a `str`; `none` = InvalidOperation (ConversionSyntax) -/
def decParse (s : Str) : Option Dec :=
  match decClean s with
  | some a => decParseAscii a
  | none => none

/-! ### `str(Decimal)` -/

def signStr (neg : Bool) : Str := if neg then ['-'] else []

/-- to-scientific-string (`capitals=1`) -/
def decToStr : Dec → Str
  | .inf neg => signStr neg ++ "Infinity".toList
  | .nan neg sig p =>
    signStr neg ++ (if sig then "sNaN".toList else "NaN".toList) ++ (if p = 0 then [] else pyStrNat p)
  | .fin neg c e =>
    let ds := pyStrNat c
    let left : Int := e + (ds.length : Int)
    if e ≤ 0 ∧ left > -6 then
      if left ≤ 0 then signStr neg ++ '0' :: '.' :: (List.replicate (-left).toNat '0' ++ ds)
      else if left.toNat ≥ ds.length then signStr neg ++ ds ++ List.replicate (left.toNat - ds.length) '0'
      else signStr neg ++ ds.take left.toNat ++ '.' :: ds.drop left.toNat
    else
      signStr neg ++ ds.take 1 ++ (if 1 ≥ ds.length then [] else '.' :: ds.drop 1)
        ++ (if left = 1 then [] else 'E' :: (if left - 1 < 0 then '-' else '+') :: pyStrNat (left - 1).natAbs)

/-- `format(d, "f")` (no precision): plain notation.  Exponent ≥ 0: the digits followed by `exp` zeros (just
    `0` for a zero coefficient); exponent < 0: the point is placed `-exp` digits from the right, with leading
    `0.` and zeros where needed.  Non-finite values are written as `str` writes them. -/
def decFormatF : Dec → Str
  | .inf neg => signStr neg ++ "Infinity".toList
  | .nan neg sig p =>
    signStr neg ++ (if sig then "sNaN".toList else "NaN".toList) ++ (if p = 0 then [] else pyStrNat p)
  | .fin neg c e =>
    let ds := pyStrNat c
    if e ≥ 0 then
      if c = 0 then signStr neg ++ ['0'] else signStr neg ++ (ds ++ List.replicate e.toNat '0')
    else
      let left : Int := e + (ds.length : Int)
      if left ≤ 0 then signStr neg ++ '0' :: '.' :: (List.replicate (-left).toNat '0' ++ ds)
      else signStr neg ++ (ds.take left.toNat ++ '.' :: ds.drop left.toNat)

def Dec.isFinite : Dec → Bool
  | .fin .. => true
  | _ => false

/-! ### arithmetic under the default context -/

/-- `context.prec` of the default context -/
def defaultPrec : Nat := 28

/-- number of decimal digits of the coefficient (`len(self._int)`; 1 for zero) -/
def ndigits (c : Nat) : Nat := (natDigits c).length

/-- `c / 10^shift` rounded half-even -/
def roundHalfEven (c shift : Nat) : Nat :=
  let p := 10 ^ shift
  let q := c / p
  let r := c % p
  if 2 * r > p ∨ (2 * r = p ∧ q % 2 = 1) then q + 1 else q

/-- `d.quantize(Decimal((0, (1,), qe)))` under the default context; error = InvalidOperation -/
def quantize (d : Dec) (qe : Int) : PyM Dec :=
  match d with
  | .nan _ true _ => .error .decimal
  | .nan neg false p => .ok (.nan neg false (p % 10 ^ defaultPrec))
  | .inf _ => .error .decimal
  | .fin neg c e =>
    if c = 0 then .ok (.fin neg 0 qe)
    else if e + (ndigits c : Int) - qe > (defaultPrec : Int) then .error .decimal
    else
      let c' := if e ≥ qe then c * 10 ^ (e - qe).toNat else roundHalfEven c (qe - e).toNat
      if ndigits c' > defaultPrec then .error .decimal else .ok (.fin neg c' qe)

/-- `d.same_quantum(q)` for a finite `q` of exponent `qe` -/
def sameQuantum (d : Dec) (qe : Int) : Bool :=
  match d with
  | .fin _ _ e => e == qe
  | _ => false

/-- `Decimal(i)` for an `int` -/
def decOfInt (i : Int) : Dec := .fin (decide (i < 0)) i.natAbs 0

/-- `int(d)`: truncation towards zero; NaN → ValueError, Infinity → OverflowError -/
def decToInt : Dec → PyM Int
  | .nan .. => .error .value
  | .inf _ => .error .overflow
  | .fin neg c e =>
    let m : Nat := if e ≥ 0 then c * 10 ^ e.toNat else c / 10 ^ (-e).toNat
    .ok (if neg then -(m : Int) else (m : Int))

end Ofx
