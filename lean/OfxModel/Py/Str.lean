/-
Python `str` primitives the code relies on, on `Str = List Char`.
-/
import OfxModel.Proto

namespace Ofx

/-- code points for which `str.isspace()` is true (checked against the running interpreter by
    `OfxProofs/Gen/Tables.lean`) -/
def pySpaceCodepoints : List Nat :=
  [9, 10, 11, 12, 13, 28, 29, 30, 31, 32, 133, 160, 5760, 8192, 8193, 8194, 8195, 8196, 8197, 8198,
   8199, 8200, 8201, 8202, 8232, 8233, 8239, 8287, 12288]

/-- `c.isspace()` -/
def isSpace (c : Char) : Bool := pySpaceCodepoints.contains c.toNat

/-- `s.lstrip()` -/
def lstrip : Str → Str
  | [] => []
  | c :: cs => if isSpace c then lstrip cs else c :: cs

/-- `s.rstrip()` -/
def rstrip (s : Str) : Str := (lstrip s.reverse).reverse

/-- `s.strip()` -/
def strip (s : Str) : Str := rstrip (lstrip s)

/-- `s.startswith(p)` -/
def startsWith (p : Str) (s : Str) : Bool := p.isPrefixOf s

/-- worker for `replace`: `skip` characters of a just-replaced occurrence remain to be dropped -/
def replaceGo (old new : Str) : Nat → Str → Str
  | _, [] => []
  | skip + 1, _ :: cs => replaceGo old new skip cs
  | 0, c :: cs =>
    if old.isPrefixOf (c :: cs) then new ++ replaceGo old new (old.length - 1) cs
    else c :: replaceGo old new 0 cs

/-- `s.replace(old, new)` for non-empty `old`: leftmost, non-overlapping occurrences -/
def replace (old new : Str) (s : Str) : Str := replaceGo old new 0 s

/-- `xml.sax.saxutils.unescape(data, {"&nbsp;": " ", "&apos;": "'", "&quot;": '"'})`:
    five sequential `replace` calls, `&amp;` last -/
def unescape (s : Str) : Str :=
  let s := replace "&lt;".toList "<".toList s
  let s := replace "&gt;".toList ">".toList s
  let s := replace "&nbsp;".toList " ".toList s
  let s := replace "&apos;".toList "'".toList s
  let s := replace "&quot;".toList "\"".toList s
  replace "&amp;".toList "&".toList s

/-- `xml.etree.ElementTree._escape_cdata`: `&`, `<`, `>` in that order -/
def escapeCdata (s : Str) : Str :=
  let s := replace "&".toList "&amp;".toList s
  let s := replace "<".toList "&lt;".toList s
  replace ">".toList "&gt;".toList s

/-- `c.lower()` / `c.upper()` on ASCII letters (tags and attribute names are ASCII) -/
def asciiLower (c : Char) : Char := if 'A' ≤ c ∧ c ≤ 'Z' then Char.ofNat (c.toNat + 32) else c
def asciiUpper (c : Char) : Char := if 'a' ≤ c ∧ c ≤ 'z' then Char.ofNat (c.toNat - 32) else c
def lower (s : Str) : Str := s.map asciiLower
def upper (s : Str) : Str := s.map asciiUpper

/-- `sep.join(parts)` -/
def join (sep : Str) : List Str → Str
  | [] => []
  | [p] => p
  | p :: ps => p ++ sep ++ join sep ps

/-- `s.split(c)` for a one-character separator -/
def splitOn (sep : Char) (s : Str) : List Str :=
  let rec go (cur : Str) : Str → List Str
    | [] => [cur.reverse]
    | c :: cs => if c = sep then cur.reverse :: go [] cs else go (c :: cur) cs
  go [] s

/-- `sub in s` -/
def containsSub (sub : Str) : Str → Bool
  | [] => sub.isEmpty
  | c :: cs => sub.isPrefixOf (c :: cs) || containsSub sub cs

end Ofx
