/-
Python exceptions, as far as the properties distinguish them.
-/
namespace Ofx

inductive Err where
  | spec      -- OFXSpecError (a ValueError)
  | type      -- TypeError
  | value     -- ValueError (other)
  | key       -- KeyError
  | index     -- IndexError
  | attr      -- AttributeError
  | assert    -- AssertionError
  | header    -- OFXHeaderError
  | parse     -- ParseError
  | unicode   -- UnicodeDecodeError / UnicodeEncodeError
  | overflow  -- OverflowError
  | decimal   -- decimal.InvalidOperation and friends
  | syntax    -- SyntaxError
  | other
  deriving DecidableEq, Repr, Inhabited

def Err.name : Err → String
  | .spec => "spec" | .type => "type" | .value => "value" | .key => "key"
  | .index => "index" | .attr => "attr" | .assert => "assert" | .header => "header"
  | .parse => "parse" | .unicode => "unicode" | .overflow => "overflow"
  | .decimal => "decimal" | .syntax => "syntax" | .other => "other"

abbrev PyM := Except Err

end Ofx
