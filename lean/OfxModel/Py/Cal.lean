/-
Python's `datetime` module as far as ofxtools relies on it: the proleptic Gregorian calendar
(`_days_before_year`, `_days_in_month`, `_ymd2ord`, `_ord2ymd` — same algorithms as CPython's
`Lib/_pydatetime.py` / `_datetimemodule.c`), constructor validation, `datetime ± timedelta`
(microsecond arithmetic with `OverflowError` outside ordinal 1..3652059) and
`strftime("%Y%m%d%H%M%S")` / `strftime("%H%M%S")` (glibc: `%Y` is *not* zero padded).
-/
import OfxModel.Py.Err
import OfxModel.Py.Int

namespace Ofx.Cal

/-- `_is_leap(year)` -/
def isLeap (y : Nat) : Bool := y % 4 == 0 && (y % 100 != 0 || y % 400 == 0)

/-- `_days_before_year(year)`: number of days before January 1st of `year` (year ≥ 1) -/
def daysBeforeYear (y : Nat) : Nat :=
  let y := y - 1
  y * 365 + y / 4 - y / 100 + y / 400

/-- `_DAYS_IN_MONTH[month]` -/
def dimTable : Nat → Nat
  | 1 => 31 | 2 => 28 | 3 => 31 | 4 => 30 | 5 => 31 | 6 => 30
  | 7 => 31 | 8 => 31 | 9 => 30 | 10 => 31 | 11 => 30 | 12 => 31
  | _ => 0

/-- `_DAYS_BEFORE_MONTH[month]` -/
def dbmTable : Nat → Nat
  | 1 => 0 | 2 => 31 | 3 => 59 | 4 => 90 | 5 => 120 | 6 => 151
  | 7 => 181 | 8 => 212 | 9 => 243 | 10 => 273 | 11 => 304 | 12 => 334
  | _ => 0

/-- `_days_in_month(year, month)` -/
def daysInMonth (y m : Nat) : Nat :=
  if m == 2 && isLeap y then 29 else dimTable m

/-- `_days_before_month(year, month)` -/
def daysBeforeMonth (y m : Nat) : Nat :=
  dbmTable m + (if m > 2 && isLeap y then 1 else 0)

/-- `_ymd2ord(year, month, day)`: 0001-01-01 is day 1 -/
def ymd2ord (y m d : Nat) : Nat := daysBeforeYear y + daysBeforeMonth y m + d

def DI400Y : Nat := 146097
def DI100Y : Nat := 36524
def DI4Y : Nat := 1461

/-- second half of `_ord2ymd`: zero-based day of the year `n` (< 365, or < 366 in the callers' leap case)
    ↦ (month, day); `month = (n + 50) >> 5` is an estimate that is corrected downwards when too large -/
def monthDay (leapyear : Bool) (n : Nat) : Nat × Nat :=
  let month := (n + 50) / 32
  let preceding := dbmTable month + (if month > 2 && leapyear then 1 else 0)
  if preceding > n then
    let month := month - 1
    let preceding := preceding - (dimTable month + (if month == 2 && leapyear then 1 else 0))
    (month, n - preceding + 1)
  else (month, n - preceding + 1)

/-- `_ord2ymd(n)` (n ≥ 1) -/
def ord2ymd (n : Nat) : Nat × Nat × Nat :=
  let n := n - 1
  let n400 := n / 146097
  let n := n % 146097
  let n100 := n / 36524
  let n := n % 36524
  let n4 := n / 1461
  let n := n % 1461
  let n1 := n / 365
  let n := n % 365
  let year := n400 * 400 + 1 + n100 * 100 + n4 * 4 + n1
  if n1 == 4 || n100 == 4 then (year - 1, 12, 31)
  else
    let leapyear := n1 == 3 && (n4 != 24 || n100 == 3)
    let (month, day) := monthDay leapyear n
    (year, month, day)

/-- `_MAXORDINAL` = ordinal of 9999-12-31 -/
def maxOrdinal : Nat := 3652059

/-- the date checks of `datetime.datetime(...)` / `datetime.date(...)` (`ValueError` otherwise) -/
def validDate (y m d : Nat) : Bool :=
  1 ≤ y && y ≤ 9999 && 1 ≤ m && m ≤ 12 && 1 ≤ d && d ≤ daysInMonth y m

/-- the time checks of `datetime.datetime(...)` / `datetime.time(...)` -/
def validTime (h mi s us : Nat) : Bool := h < 24 && mi < 60 && s < 60 && us < 1000000

/-! ### microsecond arithmetic -/

def usPerDay : Int := 86400000000

/-- naive fields → microseconds since the (fictitious) midnight of ordinal 0 -/
def toUs (y m d h mi s us : Nat) : Int :=
  (((ymd2ord y m d : Nat) : Int) * 86400 + (h * 3600 + mi * 60 + s : Nat)) * 1000000 + (us : Nat)

/-- naive calendar fields of a datetime -/
structure Fields where
  year : Nat
  month : Nat
  day : Nat
  hour : Nat
  minute : Nat
  second : Nat
  us : Nat
  deriving Repr, DecidableEq, Inhabited

/-- microseconds → fields; `OverflowError: date value out of range` outside 0001-01-01 … 9999-12-31 -/
def fromUs (t : Int) : PyM Fields :=
  let days := t / usPerDay
  let rem := (t % usPerDay).toNat
  if days < 1 ∨ days > (maxOrdinal : Int) then .error .overflow
  else
    let (y, m, d) := ord2ymd days.toNat
    let secs := rem / 1000000
    .ok ⟨y, m, d, secs / 3600, secs / 60 % 60, secs % 60, rem % 1000000⟩

/-- time of day only (what `(dt ± delta).time()` keeps when `dt` is far from the range ends) -/
def todOfUs (t : Int) : Nat × Nat × Nat × Nat :=
  let rem := (t % usPerDay).toNat
  let secs := rem / 1000000
  (secs / 3600, secs / 60 % 60, secs % 60, rem % 1000000)

/-! ### formatting -/

/-- `"%02d" % n` for n < 100 -/
def pad2 (n : Nat) : Str := [digitChar (n / 10 % 10), digitChar (n % 10)]

/-- `"%03d" % n` for n < 1000 -/
def pad3 (n : Nat) : Str := [digitChar (n / 100 % 10), digitChar (n / 10 % 10), digitChar (n % 10)]

/-- `"%04d" % n` for n < 10000 -/
def pad4 (n : Nat) : Str :=
  [digitChar (n / 1000 % 10), digitChar (n / 100 % 10), digitChar (n / 10 % 10), digitChar (n % 10)]

/-- `strftime("%H%M%S")` -/
def strftimeHMS (f : Fields) : Str := pad2 f.hour ++ pad2 f.minute ++ pad2 f.second

/-- `strftime("%Y%m%d%H%M%S")` with glibc's `%Y` (no padding: year 999 gives `999`) -/
def strftimeYmdHMS (f : Fields) : Str :=
  pyStrNat f.year ++ pad2 f.month ++ pad2 f.day ++ strftimeHMS f

end Ofx.Cal
