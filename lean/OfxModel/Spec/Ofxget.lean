/-
Declarative specifications for the ofxget layer.

C18: "the value in effect is the one from the highest-ranking place that sets it, independently
for each option"; persistence: "saving and running again without those command-line options
yields the same effective values".
C19: "exactly one statement request per configured account, with that account's type, the given
dates and flags, none missing, duplicated or of another type"; with `--all`: "exactly the accounts
the account-information response lists as ACTIVE (of those types)".

Written without reference to `ChainMap`, `configparser` or the loops of `request_stmt`.
-/
import OfxModel.Ofx.Ofxget

namespace Ofx.Spec.Ofxget
open Ofx Ofx.Ofxget

/-! ### C18 -/

/-- `v` is what the first member of `ranked` that sets `k` says -/
def IsFirstSetter (ranked : List Map) (k : Name) (v : CfgVal) : Prop :=
  ∃ pre m post, ranked = pre ++ m :: post ∧ (∀ p ∈ pre, p.lookup k = none) ∧ m.lookup k = some v

/-- no member of `ranked` sets `k` -/
def NoSetter (ranked : List Map) (k : Name) : Prop := ∀ m ∈ ranked, m.lookup k = none

/-- executable twin of `IsFirstSetter` / `NoSetter` -/
def firstSetter : List Map → Name → Option CfgVal
  | [], _ => none
  | m :: ms, k =>
    match m.lookup k with
    | some v => some v
    | none => firstSetter ms k

/-- the places an option can be set.  `dflt` is the DEFAULT section of the configuration files (where
    the generated CLIENTUID lives); it is visible in every section and ranks below both named sections. -/
structure Sources where
  cli : Map
  user : Map
  fidb : Map
  dflt : Map
  ofxhome : Map
  defaults : Map
  deriving Repr

/-- command line, then the user's section, then the FI database, (then DEFAULT,) then OFX Home, then the
    built-in defaults -/
def Sources.ranked (s : Sources) : List Map := [s.cli, s.user, s.fidb, s.dflt, s.ofxhome, s.defaults]

def specEffective (s : Sources) (k : Name) : Option CfgVal := firstSetter s.ranked k

/-! ### C19 -/

/-- the configured account numbers per account type -/
structure Accounts where
  checking : List Str
  savings : List Str
  moneymrkt : List Str
  creditline : List Str
  creditcard : List Str
  investment : List Str
  deriving Repr, DecidableEq

/-- dates and inclusion options of a statement request -/
structure StmtOpts (δ : Type) where
  dtstart : Option δ
  dtend : Option δ
  dtasof : Option δ
  inctran : CfgVal
  incoo : CfgVal
  incpos : CfgVal
  incbal : CfgVal

/-- one bank statement request per id, of the given type -/
def bankStmts (o : StmtOpts δ) (ty : String) (ids : List Str) : List (Rq δ) :=
  ids.map fun id => Rq.stmt id ty.toList o.dtstart o.dtend o.inctran

/-- `ofxget stmt`: one request per configured account, bank types first, then credit cards, then investment -/
def specStmt (a : Accounts) (o : StmtOpts δ) : List (Rq δ) :=
  bankStmts o "CHECKING" a.checking ++ bankStmts o "SAVINGS" a.savings ++
  bankStmts o "MONEYMRKT" a.moneymrkt ++ bankStmts o "CREDITLINE" a.creditline ++
  a.creditcard.map (fun id => Rq.ccstmt id o.dtstart o.dtend o.inctran) ++
  a.investment.map (fun id => Rq.invstmt id o.dtstart o.dtend o.dtasof o.inctran o.incoo o.incpos o.incbal)

def bankStmtends (o : StmtOpts δ) (ty : String) (ids : List Str) : List (Rq δ) :=
  ids.map fun id => Rq.stmtend id ty.toList o.dtstart o.dtend

/-- `ofxget stmtend`: bank and credit-card accounts only -/
def specStmtend (a : Accounts) (o : StmtOpts δ) : List (Rq δ) :=
  bankStmtends o "CHECKING" a.checking ++ bankStmtends o "SAVINGS" a.savings ++
  bankStmtends o "MONEYMRKT" a.moneymrkt ++ bankStmtends o "CREDITLINE" a.creditline ++
  a.creditcard.map (fun id => Rq.ccstmtend id o.dtstart o.dtend)

/-- which account a request is for -/
inductive AcctKey where
  | bank (acctid accttype : Str)
  | cc (acctid : Str)
  | inv (acctid : Str)
  deriving Repr, DecidableEq

def rqAcct : Rq δ → AcctKey
  | .stmt id ty _ _ _ => .bank id ty
  | .ccstmt id _ _ _ => .cc id
  | .invstmt id .. => .inv id
  | .stmtend id ty _ _ => .bank id ty
  | .ccstmtend id _ _ => .cc id

/-- bank account types `ofxget` can ask statements for -/
def requestableBankTypes : List Str :=
  ["CHECKING".toList, "SAVINGS".toList, "MONEYMRKT".toList, "CREDITLINE".toList]

/-- the account an `*ACCTINFO` designates, if it is ACTIVE and of a type the command can request
    (`closing` = `stmtend`, which has no investment statements) -/
def requestable (closing : Bool) : AcctInfo → Option AcctKey
  | .bank _ acctid accttype st =>
    if st = "ACTIVE".toList ∧ accttype ∈ requestableBankTypes then some (.bank acctid accttype) else none
  | .cc acctid st => if st = "ACTIVE".toList then some (.cc acctid) else none
  | .inv _ acctid st => if st = "ACTIVE".toList ∧ closing = false then some (.inv acctid) else none
  | .other _ => none

/-- the ACTIVE accounts of requestable types, in document order -/
def specActive (closing : Bool) (infos : List AcctInfo) : List AcctKey := infos.filterMap (requestable closing)

/-- an account the response lists with another status -/
def listedInactive (infos : List AcctInfo) (a : AcctKey) : Bool :=
  infos.any fun inf =>
    match inf, a with
    | .bank _ acctid accttype st, .bank id ty => acctid == id && accttype == ty && st != "ACTIVE".toList
    | .cc acctid st, .cc id => acctid == id && st != "ACTIVE".toList
    | .inv _ acctid st, .inv id => acctid == id && st != "ACTIVE".toList
    | _, _ => false

end Ofx.Spec.Ofxget
