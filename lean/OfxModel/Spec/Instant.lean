/-
Specification side of C09, written without reference to the code's algorithms.

* the calendar by *counting*: the ordinal of a date is the number of days in all earlier years
  (365 or 366 each) plus the days in the earlier months of its year plus the day of the month;
* `instantOf`: the instant (milliseconds since the midnight that starts 0001-01-01 minus one day, i.e.
  ordinal 0) denoted by civil fields read at an offset east of Greenwich;
* the OFX notations as a grammar over structured `Parts` (`render`), `InNotation` = "is the rendering of
  well-formed parts", and an executable strict recogniser `parse` (the `Bool` twin);
* what a `datetime`/`time` *value* denotes (`dtInstantUs`, `tmInstantUs`), rounding to milliseconds.
-/
import OfxModel.Ofx.Value

namespace Ofx.Spec.Instant
open Ofx

/-! ### calendar by counting -/

def leap (y : Nat) : Bool := (y % 4 == 0 && y % 100 != 0) || y % 400 == 0

def yearLen (y : Nat) : Nat := if leap y then 366 else 365

def monthLen (y m : Nat) : Nat :=
  match m with
  | 1 => 31 | 2 => if leap y then 29 else 28 | 3 => 31 | 4 => 30 | 5 => 31 | 6 => 30
  | 7 => 31 | 8 => 31 | 9 => 30 | 10 => 31 | 11 => 30 | 12 => 31
  | _ => 0

/-- days in the years 1 … k -/
def daysInYearsUpTo : Nat → Nat
  | 0 => 0
  | k + 1 => daysInYearsUpTo k + yearLen (k + 1)

/-- days in the months 1 … k of year y -/
def daysInMonthsUpTo (y : Nat) : Nat → Nat
  | 0 => 0
  | k + 1 => daysInMonthsUpTo y k + monthLen y (k + 1)

/-- ordinal day number: 0001-01-01 ↦ 1 -/
def ordinal (y m d : Nat) : Nat := daysInYearsUpTo (y - 1) + daysInMonthsUpTo y (m - 1) + d

def validDate (y m d : Nat) : Bool := 1 ≤ y && y ≤ 9999 && 1 ≤ m && m ≤ 12 && 1 ≤ d && d ≤ monthLen y m
def validTod (h mi s : Nat) : Bool := h < 24 && mi < 60 && s < 60

/-- The instant, in milliseconds, denoted by civil fields at `offMin` minutes east of Greenwich. -/
def instantOf (y m d h mi s ms : Nat) (offMin : Int) : Int :=
  (((ordinal y m d : Nat) : Int) * 86400 + (h * 3600 + mi * 60 + s : Nat)) * 1000 + (ms : Nat) - offMin * 60000

/-- the same for a time of day (instants taken modulo 24 h) -/
def todInstantOf (h mi s ms : Nat) (offMin : Int) : Int :=
  ((((h * 3600 + mi * 60 + s : Nat) : Int) * 1000 + (ms : Nat)) - offMin * 60000) % 86400000

/-- first and one-past-last representable instant (0001-01-01T00:00 … 9999-12-31T24:00), ms -/
def minInstant : Int := 86400000
def endInstant : Int := 3652060 * 86400000

/-! ### values -/

def dtValid (d : DT) : Bool :=
  validDate d.year d.month d.day && validTod d.hour d.minute d.second && d.us < 1000000

def tmValid (t : TM) : Bool := validTod t.hour t.minute t.second && t.us < 1000000

/-- the instant (microseconds) an aware datetime denotes -/
def dtInstantUs (d : DT) : Option Int :=
  d.tz.map fun tz =>
    (((ordinal d.year d.month d.day : Nat) : Int) * 86400 + (d.hour * 3600 + d.minute * 60 + d.second : Nat)) * 1000000
      + (d.us : Nat) - tz.offUs

/-- the instant modulo 24 h (microseconds) an aware time denotes -/
def tmInstantUs (t : TM) : Option Int :=
  t.tz.map fun tz =>
    ((((t.hour * 3600 + t.minute * 60 + t.second : Nat) : Int) * 1000000 + (t.us : Nat)) - tz.offUs) % 86400000000

/-- round microseconds to the nearest millisecond, halves up (result in ms) -/
def roundMs (us : Int) : Int := (us + 500) / 1000

/-- `UTC` as the library's values carry it -/
def utc : Tz := ⟨0, some "UTC".toList⟩

/-! ### the notation -/

/-- `[offset[:name]]`: sign, hours as decimal digits (most significant first), optional `.MM`, optional name -/
structure OffText where
  sign : Option Bool          -- `some true` = '-', `some false` = '+', `none` = unsigned
  hdigits : List Nat
  minutes : Option Nat
  name : Option Str
  deriving Repr, DecidableEq

/-- A text of the notation, structurally.  `date = none` is the time notation `HHMMSS…`. -/
structure Parts where
  date : Option (Nat × Nat × Nat)
  tod : Option (Nat × Nat × Nat)
  ms : Option Nat
  off : Option OffText
  deriving Repr, DecidableEq

def dch (n : Nat) : Char := Char.ofNat (48 + n % 10)
def d2 (n : Nat) : Str := [dch (n / 10), dch n]
def d3 (n : Nat) : Str := [dch (n / 100), dch (n / 10), dch n]
def d4 (n : Nat) : Str := [dch (n / 1000), dch (n / 100), dch (n / 10), dch n]

def hoursVal (ds : List Nat) : Nat := ds.foldl (fun a d => 10 * a + d) 0

def OffText.render (o : OffText) : Str :=
  (match o.sign with | some true => ['-'] | some false => ['+'] | none => [])
  ++ o.hdigits.map dch
  ++ (match o.minutes with | some m => '.' :: d2 m | none => [])
  ++ (match o.name with | some n => ':' :: n | none => [])

/-- total offset in minutes east of Greenwich.  Well-formed offsets (`wf` below) have hours −12 … +14 — every
    whole-minute offset from −12:00 to +14:00 is among them (and a few more: up to −12:59 / +14:59) -/
def OffText.minutesEast (o : OffText) : Int :=
  let mag : Int := (60 * hoursVal o.hdigits + o.minutes.getD 0 : Nat)
  if o.sign = some true then -mag else mag

def OffText.wf (o : OffText) : Bool :=
  !o.hdigits.isEmpty && o.hdigits.all (· < 10)
  && (match o.minutes with | some m => m < 60 | none => true)
  && (match o.name with | some n => !n.contains '\n' | none => true)
  && (if o.sign = some true then hoursVal o.hdigits ≤ 12 else hoursVal o.hdigits ≤ 14)

def Parts.render (p : Parts) : Str :=
  (match p.date with | some (y, m, d) => d4 y ++ d2 m ++ d2 d | none => [])
  ++ (match p.tod with | some (h, mi, s) => d2 h ++ d2 mi ++ d2 s | none => [])
  ++ (match p.ms with | some ms => '.' :: d3 ms | none => [])
  ++ (match p.off with | some o => '[' :: o.render ++ [']'] | none => [])

/-- well-formed parts: the date-time notations (`isTime = false`) have a date, the time notation has none and
    always a time of day; milliseconds and offset only after a time of day; all fields in range. -/
def Parts.wf (isTime : Bool) (p : Parts) : Bool :=
  (match p.date with | some (y, m, d) => !isTime && validDate y m d | none => isTime)
  && (match p.tod with | some (h, mi, s) => validTod h mi s | none => !isTime && p.ms.isNone && p.off.isNone)
  && (match p.ms with | some ms => ms < 1000 | none => true)
  && (match p.off with | some o => o.wf | none => true)

/-- the text is in the OFX date-time (`isTime = false`) resp. time notation -/
def InNotation (isTime : Bool) (s : Str) : Prop := ∃ p : Parts, p.wf isTime = true ∧ p.render = s

/-- the instant (ms) a well-formed text denotes: missing parts mean midnight, zero ms, GMT -/
def Parts.instant (p : Parts) : Int :=
  let (h, mi, s) := p.tod.getD (0, 0, 0)
  let ms := p.ms.getD 0
  let off : Int := match p.off with | some o => o.minutesEast | none => 0
  match p.date with
  | some (y, m, d) => instantOf y m d h mi s ms off
  | none => todInstantOf h mi s ms off

/-! ### executable recogniser (the `Bool` twin of `InNotation`) -/

def dval (c : Char) : Option Nat := if '0' ≤ c ∧ c ≤ '9' then some (c.toNat - 48) else none

/-- exactly `n` ASCII digits: their value and the rest -/
def takeNum : Nat → Nat → Str → Option (Nat × Str)
  | 0, acc, s => some (acc, s)
  | n + 1, acc, c :: cs => match dval c with
    | some d => takeNum n (10 * acc + d) cs
    | none => none
  | _ + 1, _, [] => none

/-- a maximal run of ASCII digits -/
def spanDigits : Str → List Nat × Str
  | [] => ([], [])
  | c :: cs => match dval c with
    | some d => let (ds, r) := spanDigits cs; (d :: ds, r)
    | none => ([], c :: cs)

/-- optional `.MM` -/
def takeMinutes (t : Str) : Option (Option Nat × Str) :=
  match t with
  | '.' :: r => match takeNum 2 0 r with
    | some (m, r) => some (some m, r)
    | none => none
  | r => some (none, r)

/-- optional `:name` up to the end -/
def offName (sign : Option Bool) (ds : List Nat) (m : Option Nat) (t : Str) : Option OffText :=
  match t with
  | [] => some ⟨sign, ds, m, none⟩
  | ':' :: n => some ⟨sign, ds, m, some n⟩
  | _ => none

def parseOffBody (sign : Option Bool) (t : Str) : Option OffText :=
  match takeMinutes (spanDigits t).2 with
  | none => none
  | some (m, t') => offName sign (spanDigits t).1 m t'

/-- the text between `[` and the closing `]` -/
def parseOff (t : Str) : Option OffText :=
  match t with
  | '-' :: r => parseOffBody (some true) r
  | '+' :: r => parseOffBody (some false) r
  | r => parseOffBody none r

/-- optional `.XXX` -/
def takeMs (t : Str) : Option (Option Nat × Str) :=
  match t with
  | '.' :: r => match takeNum 3 0 r with
    | some (m, r) => some (some m, r)
    | none => none
  | r => some (none, r)

/-- optional `[ … ]` up to the end -/
def takeOff (t : Str) : Option (Option OffText) :=
  match t with
  | [] => some none
  | '[' :: r =>
    match r.reverse with
    | ']' :: b => (parseOff b.reverse).map some
    | _ => none
  | _ => none

/-- after the seconds: `(.XXX)? ([ … ])?` -/
def parseTail (t : Str) : Option (Option Nat × Option OffText) :=
  match takeMs t with
  | none => none
  | some (ms, t') => (takeOff t').map (fun off => (ms, off))

def parseTod (t : Str) : Option ((Nat × Nat × Nat) × Str) := do
  let (h, t) ← takeNum 2 0 t
  let (mi, t) ← takeNum 2 0 t
  let (s, t) ← takeNum 2 0 t
  pure ((h, mi, s), t)

/-- structure of a text, if it has the shape of the notation (fields not yet range-checked) -/
def parseShape (isTime : Bool) (s : Str) : Option Parts :=
  if isTime then do
    let (tod, t) ← parseTod s
    let (ms, off) ← parseTail t
    pure ⟨none, some tod, ms, off⟩
  else do
    let (y, t) ← takeNum 4 0 s
    let (m, t) ← takeNum 2 0 t
    let (d, t) ← takeNum 2 0 t
    match t with
    | [] => pure ⟨some (y, m, d), none, none, none⟩
    | t =>
      let (tod, t) ← parseTod t
      let (ms, off) ← parseTail t
      pure ⟨some (y, m, d), some tod, ms, off⟩

/-- recogniser: the parts of `s` if `s` is in the notation -/
def parse (isTime : Bool) (s : Str) : Option Parts :=
  match parseShape isTime s with
  | some p => if p.wf isTime then some p else none
  | none => none

def inNotationB (isTime : Bool) (s : Str) : Bool := (parse isTime s).isSome

end Ofx.Spec.Instant
