/-
C17, specification side: when are two states of the shared dispatch tables *observationally equal*?

`h₁ ≈[t] h₂` : the two handlers return the same result for every receiver object and every value of class `t`
(the bound instance may differ — `_unconvert_datetime` reads nothing from `self`).
`R₁ ≈ R₂`   : `obj.unconvert(v)` gives the same result in both states for every converter instance and value.
The pure reference is `Registry.init`, whose `unconvert` is `dtUnconvert` / `tmUnconvert` of `Ofx/DateTime.lean`
(proved in `OfxProofs/Lemmas/Registry.lean`).

`≈` quantifies over all values, so it is not decidable as such; `inertB` is a decidable *sufficient* condition
on the representation (every entry carries the function the initial table dispatches that class to, and only
`_unconvert_datetime` may be bound to an instance), evaluated by the driver on the model state and by the
harness on the real `dispatcher.registry` read back from the running interpreter.
-/
import OfxModel.Ofx.Registry

namespace Ofx.Spec.Purity
open Ofx Ofx.Registry

/-- same result for every receiver and every value of class `t` -/
def HandlerEq (t : Ty) (h₁ h₂ : Handler) : Prop :=
  ∀ (obj : ConvInst) (v : Val), tyOf v = t → h₁.call obj v = h₂.call obj v

/-- observational equality of states: every `unconvert` call has the same result -/
def ObsEq (R₁ R₂ : Registry) : Prop :=
  ∀ (obj : ConvInst) (v : Val), R₁.unconvert obj v = R₂.unconvert obj v

scoped infix:50 " ≈ " => ObsEq

/-- the functions that do not read their `self`: these may be bound to any instance -/
def Fn.selfFree : Fn → Bool
  | .dtDatetime | .tmTime | .dtDefault | .tmDefault => true
  | .dtNone | .tmNone => false

/-- `h` is an acceptable handler for class `t` in the generic function whose initial state is `d₀`:
    it is the function `d₀` dispatches `t` to, bound to an instance only if that function ignores `self` -/
def handlerOk (d₀ : Disp) (t : Ty) (h : Handler) : Bool :=
  h.fn == (d₀.findImpl t).fn && (h.bound.isNone || Fn.selfFree h.fn)

def dictOk (d₀ : Disp) (d : Dict) : Bool := d.all fun e => handlerOk d₀ e.1 e.2

/-- keys of the registry, as a set -/
def sameKeys (d₀ d : Dict) : Bool :=
  d₀.all (fun e => (d.lookup e.1).isSome) && d.all (fun e => (d₀.lookup e.1).isSome)

def dispOk (d₀ d : Disp) : Bool :=
  d.dflt == d₀.dflt && sameKeys d₀.registry d.registry && dictOk d₀ d.registry && dictOk d₀ d.cache

/-- decidable sufficient condition for `R ≈ init` -/
def inertB (R : Registry) : Bool := dispOk init.dt R.dt && dispOk init.tm R.tm

/-! ### threads work on disjoint model instances -/

/-- the model instance an operation reads or writes -/
def Op.obj? : Op → Option Nat
  | .setAttr o _ _ => some o
  | .getAttr o _ => some o
  | _ => none

def Op.writes? : Op → Option Nat
  | .setAttr o _ _ => some o
  | _ => none

def touches (p : List Op) (o : Nat) : Prop := ∃ op ∈ p, Op.obj? op = some o
def writes (p : List Op) (o : Nat) : Prop := ∃ op ∈ p, Op.writes? op = some o

/-- no thread reads or writes an instance another thread writes (converters may be shared freely) -/
def DisjointInstances (progs : List (List Op)) : Prop :=
  ∀ (i j : Nat) (p q : List Op), i ≠ j → progs[i]? = some p → progs[j]? = some q → ∀ o, writes p o → ¬ touches q o

end Ofx.Spec.Purity
