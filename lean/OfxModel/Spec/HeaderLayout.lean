/-
Declarative side of C05: an executable renderer of every file layout the property lists.

v1: nine `NAME:value` fields (COMPRESSION optional), each followed by CRLF, LF, CR or nothing, blanks after each
colon, leading blank lines, whitespace on the header line before `OFXHEADER`, and any whitespace gap (including
none) between the NEWFILEUID value and the body.
v2: an XML declaration whose three pseudo-attributes are each optional and quoted with `"` or `'`, any
whitespace (or none) after it, the OFX declaration with per-attribute quote style and whitespace, any whitespace
(or none) before the body.

The renderer is written independently of `parse_header`: it only concatenates text.
-/
import OfxModel.Py.Str
import OfxModel.Py.Int
import OfxModel.Py.Codec
import OfxModel.Ofx.Header

namespace Ofx.Spec.HeaderLayout
open Ofx Ofx.Codec Ofx.Header

inductive Sep where
  | crlf | lf | cr | none
  deriving DecidableEq, Repr, Inhabited

def Sep.str : Sep → Str
  | .crlf => ['\r', '\n']
  | .lf => ['\n']
  | .cr => ['\r']
  | .none => []

def Sep.hasLF : Sep → Bool
  | .crlf => true
  | .lf => true
  | _ => false

/-- layout of one v1 field: blanks after the colon, separator after the value -/
structure FieldLay where
  blank : Str := []
  sep : Sep := .crlf
  deriving DecidableEq, Repr, Inhabited

structure V1Lay where
  leading : List Str        -- blank lines before the header: content of each line, without its LF
  indent : Str              -- whitespace before `OFXHEADER` on the header line
  ofxheader : FieldLay
  data : FieldLay
  version : FieldLay
  security : FieldLay
  encoding : FieldLay
  charset : FieldLay
  compression : FieldLay
  oldfileuid : FieldLay
  newBlank : Str            -- blanks after `NEWFILEUID:`
  gap : Str                 -- between the NEWFILEUID value and the body
  deriving DecidableEq, Repr, Inhabited

/-- what is written into a v1 file: the field values, and whether the COMPRESSION field is written -/
structure V1File where
  h : V1
  withCompression : Bool
  deriving DecidableEq, Repr, Inhabited

def fieldText (name : String) (v : Str) (l : FieldLay) : Str :=
  name.toList ++ ':' :: (l.blank ++ (v ++ l.sep.str))

def leadingText : List Str → Str
  | [] => []
  | l :: ls => l ++ '\n' :: leadingText ls

/-- the text of a v1 header from the first field name through the gap -/
def v1Fields (lay : V1Lay) (f : V1File) : Str :=
  fieldText "OFXHEADER" (pyStrInt f.h.ofxheader) lay.ofxheader ++
  (fieldText "DATA" f.h.data lay.data ++
  (fieldText "VERSION" (pyStrInt f.h.version) lay.version ++
  (fieldText "SECURITY" f.h.security lay.security ++
  (fieldText "ENCODING" f.h.encoding lay.encoding ++
  (fieldText "CHARSET" f.h.charset lay.charset ++
  ((if f.withCompression then fieldText "COMPRESSION" f.h.compression lay.compression else []) ++
  (fieldText "OLDFILEUID" f.h.oldfileuid lay.oldfileuid ++
  ("NEWFILEUID:".toList ++ (lay.newBlank ++ (f.h.newfileuid ++ lay.gap))))))))))

def v1Text (lay : V1Lay) (f : V1File) : Str :=
  leadingText lay.leading ++ (lay.indent ++ v1Fields lay f)

/-- the v1 file: ASCII header text followed by the encoded body -/
def renderV1 (lay : V1Lay) (f : V1File) (body : Bytes) : Bytes :=
  asciiBytes (v1Text lay f) ++ body

inductive Quote where
  | dq | sq
  deriving DecidableEq, Repr, Inhabited

def Quote.ch : Quote → Char
  | .dq => '"'
  | .sq => '\''

structure V2Lay where
  leading : List Str
  xmlVersion : Option Quote
  xmlEncoding : Option Quote
  xmlStandalone : Option Quote
  xs1 : Str                 -- after `<?xml` (non-empty)
  xs2 : Str
  xs3 : Str
  xs4 : Str
  afterXml : Str            -- between `?>` of the XML declaration and `<?OFX`
  s0 : Str                  -- after `<?OFX` (non-empty); s1..s4 between attributes (non-empty)
  s1 : Str
  s2 : Str
  s3 : Str
  s4 : Str
  q0 : Quote
  q1 : Quote
  q2 : Quote
  q3 : Quote
  q4 : Quote
  beforeClose : Str
  gap : Str                 -- between `?>` of the OFX declaration and the body
  deriving DecidableEq, Repr, Inhabited

def pseudo (name : String) (v : String) : Option Quote → Str
  | some q => name.toList ++ '=' :: q.ch :: (v.toList ++ [q.ch])
  | none => []

def qattr (name : String) (q : Quote) (v : Str) : Str :=
  name.toList ++ '=' :: q.ch :: (v ++ [q.ch])

def v2Xml (lay : V2Lay) : Str :=
  "<?xml".toList ++ (lay.xs1 ++ (pseudo "version" "1.0" lay.xmlVersion ++ (lay.xs2 ++
    (pseudo "encoding" "UTF-8" lay.xmlEncoding ++ (lay.xs3 ++ (pseudo "standalone" "no" lay.xmlStandalone ++
    (lay.xs4 ++ "?>".toList)))))))

def v2Ofx (lay : V2Lay) (h : V2) : Str :=
  "<?OFX".toList ++ (lay.s0 ++ (qattr "OFXHEADER" lay.q0 (pyStrInt h.ofxheader) ++ (lay.s1 ++
    (qattr "VERSION" lay.q1 (pyStrInt h.version) ++ (lay.s2 ++ (qattr "SECURITY" lay.q2 h.security ++ (lay.s3 ++
    (qattr "OLDFILEUID" lay.q3 h.oldfileuid ++ (lay.s4 ++ (qattr "NEWFILEUID" lay.q4 h.newfileuid ++
    (lay.beforeClose ++ ("?>".toList ++ lay.gap))))))))))))

def v2Text (lay : V2Lay) (h : V2) : Str :=
  leadingText lay.leading ++ (v2Xml lay ++ (lay.afterXml ++ v2Ofx lay h))

def renderV2 (lay : V2Lay) (h : V2) (body : Bytes) : Bytes :=
  asciiBytes (v2Text lay h) ++ body

/-- a file of either kind -/
inductive FileSpec where
  | v1 (lay : V1Lay) (f : V1File)
  | v2 (lay : V2Lay) (h : V2)
  deriving Repr, Inhabited

/-- `renderFile layout fields body`: the body arrives already encoded in the declared character set
    (`Codec.encode tbl cs body = .ok bytes` is the theorem's encodability hypothesis) -/
def renderFile : FileSpec → Bytes → Bytes
  | .v1 lay f, body => renderV1 lay f body
  | .v2 lay h, body => renderV2 lay h body

def hdrOf : FileSpec → Hdr
  | .v1 _ f => .v1 f.h
  | .v2 _ h => .v2 h

/-! ### which layouts are in the property's list -/

/-- ASCII whitespace (`str.isspace` below 128) -/
def isAsciiSpace (c : Char) : Bool := isSpace c && c.toNat < 128

/-- blank or tab -/
def isBlank (c : Char) : Bool := c = ' ' || c = '\t'

def wsNoLF (s : Str) : Bool := s.all fun c => isAsciiSpace c && c != '\n'

def FieldLay.ok (l : FieldLay) : Bool := l.blank.all isBlank

/-- the v1 layouts listed by the property -/
def V1Lay.tolerated (lay : V1Lay) : Bool :=
  decide (lay.leading.length ≤ 7) && lay.leading.all wsNoLF && wsNoLF lay.indent &&
  lay.ofxheader.ok && lay.data.ok && lay.version.ok && lay.security.ok && lay.encoding.ok && lay.charset.ok &&
  lay.compression.ok && lay.oldfileuid.ok && lay.newBlank.all isBlank && lay.gap.all isAsciiSpace

def nonEmptyWs (s : Str) : Bool := !s.isEmpty && s.all isAsciiSpace

/-- the v2 layouts listed by the property (the XML declaration must sit on one line: the code looks for it on
    the first non-blank line only) -/
def V2Lay.tolerated (lay : V2Lay) : Bool :=
  decide (lay.leading.length ≤ 7) && lay.leading.all wsNoLF &&
  !lay.xs1.isEmpty && wsNoLF lay.xs1 && wsNoLF lay.xs2 && wsNoLF lay.xs3 && wsNoLF lay.xs4 &&
  lay.afterXml.all isAsciiSpace &&
  nonEmptyWs lay.s0 && nonEmptyWs lay.s1 && nonEmptyWs lay.s2 && nonEmptyWs lay.s3 && nonEmptyWs lay.s4 &&
  lay.beforeClose.all isAsciiSpace && lay.gap.all isAsciiSpace

/-- the first `n` lines (each through its LF) of a byte string -/
def firstLines : Nat → Bytes → Bytes
  | 0, _ => []
  | n + 1, bs =>
    let l := splitLine bs
    l ++ firstLines n (bs.drop l.length)

def tolerated : FileSpec → Bool
  | .v1 lay _ => lay.tolerated
  | .v2 lay _ => lay.tolerated

end Ofx.Spec.HeaderLayout
