/-
Declarative OFX wire grammar (DESIGN 6.2) and token-level well-nestedness (DESIGN 6.8).

`Renders strict t s` — the string `s` is a rendering of the tree `t`:

    leaf t d   ::=  <t> ws d                              (SGML: no end tag)
                 |  <t> ws d ws </t>                      (XML)
                 |  <t><![CDATA[d]]>                      (CDATA directly after the start tag; d CDATA-able)
                 |  <t><![CDATA[d]]> ws </t>
    agg  t cs  ::=  <t> ws (r₁ ws … rₙ ws) </t>

`ws` over the `str.isspace` set; tags over `[A-Z0-9._]+`; `d` non-empty, trimmed, free of `<`;
CDATA-able: no `&`, no `]]>`, no `\n`.

`strict = false` is the full grammar of DESIGN 6.2.  `strict = true` adds the one local side condition
the parser needs (C02 finding):
  (G3) the last child of an aggregate is not a data element bearing the aggregate's own tag.
(Two more guards are gone: G1 — at most one `]]>` per line — was needed while the CDATA group was greedy; repaired in
/repo by `fix: CDATA element data ends at the first ]]>`.  G2 — no whitespace between `]]>` and the element's own end
tag — was needed while the end tag had to follow the CDATA section immediately; repaired in /repo by
`fix: white space may follow a CDATA section`: the `ws` of the two CDATA productions is in both grammars.)
-/
import OfxModel.Ofx.Lexer
import OfxModel.Ofx.Tree

namespace Ofx.Spec
open Ofx Ofx.Lexer

/-! ### side conditions (decidable) -/

def ws (w : Str) : Bool := w.all isSpace
def tagOk (t : Str) : Bool := !t.isEmpty && t.all isNameChar

/-- first and last character are not whitespace -/
def trimmed (d : Str) : Bool :=
  (match d.head? with | some c => !isSpace c | none => true) &&
  (match d.getLast? with | some c => !isSpace c | none => true)

def dataOk (d : Str) : Bool := !d.isEmpty && d.all notLt && trimmed d

def cdataOk (d : Str) : Bool :=
  d.all (fun c => c != '&') && d.all notNl && !containsSub cdataClose d

/-- the tag of a data element -/
def leafTag : Tree → Option Str
  | .node t (some _) _ [] => some t
  | _ => none

def startTag (t : Str) : Str := '<' :: (t ++ ['>'])
def endTag (t : Str) : Str := '<' :: '/' :: (t ++ ['>'])
def cdataOf (d : Str) : Str := cdataOpen ++ (d ++ cdataClose)

/-! ### the grammar -/

mutual
  inductive Renders (strict : Bool) : Tree → Str → Prop
    | leafOpen (t d w1 : Str) : tagOk t = true → dataOk d = true → ws w1 = true →
        Renders strict (Tree.leaf t d) (startTag t ++ (w1 ++ d))
    | leafClosed (t d w1 w2 : Str) : tagOk t = true → dataOk d = true → ws w1 = true → ws w2 = true →
        Renders strict (Tree.leaf t d) (startTag t ++ (w1 ++ (d ++ (w2 ++ endTag t))))
    | cdataOpen (t d : Str) : tagOk t = true → dataOk d = true → cdataOk d = true →
        Renders strict (Tree.leaf t d) (startTag t ++ cdataOf d)
    | cdataClosed (t d w : Str) : tagOk t = true → dataOk d = true → cdataOk d = true → ws w = true →
        Renders strict (Tree.leaf t d) (startTag t ++ (cdataOf d ++ (w ++ endTag t)))
    | agg (t w0 : Str) (cs : List Tree) (body : Str) : tagOk t = true → ws w0 = true →
        RendersList strict cs body →
        (strict = true → ∀ c, cs.getLast? = some c → leafTag c ≠ some t) →
        Renders strict (Tree.agg t cs) (startTag t ++ (w0 ++ (body ++ endTag t)))
  inductive RendersList (strict : Bool) : List Tree → Str → Prop
    | nil : RendersList strict [] []
    | cons (c : Tree) (cs : List Tree) (s w s' : Str) : Renders strict c s → ws w = true →
        RendersList strict cs s' → RendersList strict (c :: cs) (s ++ (w ++ s'))
end

/-- a whole body: optional whitespace around the root -/
def RendersDoc (strict : Bool) (t : Tree) (s : Str) : Prop :=
  ∃ w1 s0 w2, ws w1 = true ∧ ws w2 = true ∧ Renders strict t s0 ∧ s = w1 ++ (s0 ++ w2)

/-! ### executable renderer: a tree annotated with every choice the grammar leaves open -/

inductive RTree where
  /-- `<t> w1 d` or `<t> w1 d w2 </t>`, followed by `after` -/
  | leaf (t d w1 w2 : Str) (close : Bool) (after : Str)
  /-- `<t><![CDATA[d]]>` or `<t><![CDATA[d]]> w </t>`, followed by `after` -/
  | cdata (t d w : Str) (close : Bool) (after : Str)
  /-- `<t> w0 kids </t>`, followed by `after` -/
  | agg (t w0 : Str) (kids : List RTree) (after : Str)
  deriving Repr, Inhabited

namespace RTree

def after : RTree → Str
  | leaf _ _ _ _ _ a => a
  | cdata _ _ _ _ a => a
  | agg _ _ _ a => a

mutual
  /-- the tree rendered -/
  def tree : RTree → Tree
    | leaf t d _ _ _ _ => Tree.leaf t d
    | cdata t d _ _ _ => Tree.leaf t d
    | agg t _ kids _ => Tree.agg t (trees kids)
  def trees : List RTree → List Tree
    | [] => []
    | k :: ks => tree k :: trees ks
end

mutual
  /-- the rendering of the element itself (without `after`) -/
  def str : RTree → Str
    | leaf t d w1 w2 close _ => startTag t ++ (w1 ++ (if close then d ++ (w2 ++ endTag t) else d))
    | cdata t d w close _ => startTag t ++ (if close then cdataOf d ++ (w ++ endTag t) else cdataOf d)
    | agg t w0 kids _ => startTag t ++ (w0 ++ (strs kids ++ endTag t))
  /-- elements each followed by their `after` whitespace -/
  def strs : List RTree → Str
    | [] => []
    | k :: ks => str k ++ (after k ++ strs ks)
end

mutual
  /-- the side conditions of the grammar -/
  def ok (strict : Bool) : RTree → Bool
    | leaf t d w1 w2 _ a => tagOk t && dataOk d && ws w1 && ws w2 && ws a
    | cdata t d w _ a => tagOk t && dataOk d && cdataOk d && ws w && ws a
    | agg t w0 kids a => tagOk t && ws w0 && ws a && oks strict kids &&
        (!strict || (match (trees kids).getLast? with | some c => leafTag c != some t | none => true))
  def oks (strict : Bool) : List RTree → Bool
    | [] => true
    | k :: ks => ok strict k && oks strict ks
end

end RTree

/-! ### C08: token-level well-nestedness -/

def blank : Option Str → Bool
  | none => true
  | some s => s.all isSpace

/-- a non-empty string (Python truthiness) -/
def nonEmpty : Option Str → Bool
  | some (_ :: _) => true
  | _ => false

/-- the match carries element data: a CDATA section or text that is not all whitespace -/
def hasData (m : Match) : Bool := nonEmpty m.cdata || !blank m.text

/-- the name in an end tag `</NAME>` (tag group `/NAME`) -/
def endName : Str → Option Str
  | '/' :: n => some n
  | _ => none

/-- One token against the names of the open aggregates (`stack`, innermost first) and the flag "the root has been
    completed" (`done`); `none` = not well nested:
    * no text after a closed element (`tail`) or after an end tag;
    * an end tag must name the innermost open aggregate, and closes it;
    * a start tag may not follow the completed root; with data, or with its own end tag (`<T></T>`), the element is
      complete at once (data elements close themselves, OFXv1 style); otherwise it opens an aggregate. -/
def balStep (m : Match) (stack : List Str) (done : Bool) : Option (List Str × Bool) :=
  if !blank m.tail then none
  else match endName m.tag with
    | some name =>
      if hasData m then none
      else match stack with
        | top :: rest => if top = name then some (rest, rest.isEmpty) else none
        | [] => none
    | none =>
      if stack.isEmpty && done then none
      else if hasData m || m.closetag.isSome then some (stack, stack.isEmpty || done)
      else some (m.tag :: stack, done)

/-- `Balanced`: every start has its matching end, exactly one root, nothing after it -/
def balancedGo : List Match → List Str → Bool → Bool
  | [], stack, done => stack.isEmpty && done
  | m :: ms, stack, done =>
    match balStep m stack done with
    | some (s, d) => balancedGo ms s d
    | none => false

def balanced (ms : List Match) : Bool := balancedGo ms [] false

end Ofx.Spec
