/-
Declarative side of C15 and C14, written independently of the code's algorithm.

C15: the abstract cache is `Option Profile`; a profile is accepted only if it is at least as new as
the one held (`put`); `newest init sent` is the newest profile among the initial one and everything the
server has sent so far (later wins a tie).  `specStep` says what a call must return.

C14: predicates on the *observed* trace of requests (`Ev`), each with a `Bool` twin evaluated by the
driver on what the real client put on the wire.
-/
import OfxModel.Ofx.ClientSM

namespace Ofx.Spec.Cache
open Ofx Ofx.Cache

abbrev Abs := Option Profile

/-- `p` is at least as new as what is held -/
def accepts (h : Abs) (p : Profile) : Bool :=
  match h with
  | none => true
  | some q => q.date ≤ p.date

def put (h : Abs) (p : Profile) : Abs := if accepts h p then some p else h

/-- the newest profile among `init` and `sent` (in the order sent; a later one wins a tie) -/
def newest (init : Abs) (sent : List Profile) : Abs := sent.foldl put init

/-- the profiles a list of server behaviours contains -/
def sentOf : List Beh → List Profile
  | [] => []
  | .profile p :: bs => p :: sentOf bs
  | _ :: bs => sentOf bs

/-- What one call must do, given what is held: the new abstract state and `some p` when the call must
    succeed returning `p`, `none` when it must fail. -/
def specStep (h : Abs) : Beh → Abs × Option Profile
  | .profile p => if accepts h p then (some p, some p) else (h, none)
  | .upToDate => (h, h)
  | _ => (h, none)

/-- run of the specification: per call (state after, what is returned, DTPROFUP that must be sent) -/
def specRun : Abs → List Beh → List (Abs × Option Profile × Option Nat)
  | _, [] => []
  | h, b :: bs => let (h', r) := specStep h b; (h', r, h.map (·.date)) :: specRun h' bs

/-- abstraction of a disk: absent ↦ `none`, a complete file ↦ its profile, anything else has no abstraction -/
def absOf : Disk → Option Abs
  | none => some none
  | some c => (parse c).map some

/-- the disk that represents an abstract state -/
def toDisk : Abs → Disk
  | none => none
  | some p => some (ser p)

end Ofx.Spec.Cache

namespace Ofx.Spec.Client
open Ofx Ofx.Cache Ofx.ClientSM

/-- the media range of one element of an Accept header (`type/subtype` before any `;parameter`) -/
def mediaRange (item : Str) : Str := strip ((splitOn ';' item).headD [])

/-- does the range admit the mime type?  (`*/*`, `type/*`, or the type itself) -/
def rangeAdmits (range mime : Str) : Bool :=
  range = "*/*".toList || range = mime ||
    (match splitOn '/' range, splitOn '/' mime with
     | [t, s], [t', _] => s = ['*'] && t = t'
     | _, _ => false)

/-- an Accept header value admits `mime` -/
def acceptAdmits (accept mime : Str) : Bool :=
  (splitOn ',' accept).any fun item => rangeAdmits (mediaRange item) mime

def isPlaceholderCreds (b : Body) : Bool := b.user = authPlaceholder && b.pass = authPlaceholder

/-- C14 "shape": one POST, content type application/x-ofx, Accept admits it, the configured user agent -/
def shapeOk (useragent : Str) (r : HttpReq) : Bool :=
  r.method = .POST && r.headers.contentType = ofxMime && acceptAdmits r.headers.accept ofxMime &&
    r.headers.userAgent = useragent

/-- C14 "profile": a PROFRQ goes to the configured URL with the placeholder credentials -/
def profileOk (cfgUrl : Url) (r : HttpReq) : Bool :=
  r.body.kind ≠ .profile || (r.url = cfgUrl && isPlaceholderCreds r.body)

/-- C14 "creds": a request carrying something else than the placeholder pair goes to `allowed` -/
def credsOk (allowed : Option Url) (r : HttpReq) : Bool :=
  isPlaceholderCreds r.body || allowed = some r.url

/-- cookies (host-tagged) set by responses to `who`'s requests in `pre` -/
def setBy (who : Nat) : List Ev → List Cookie
  | [] => []
  | e :: es =>
    (if e.who = who then e.set.map (fun nv => Cookie.mk e.req.url.host nv.1 nv.2) else []) ++ setBy who es

/-- C14 "cookies, origin": every cookie in a request was set by a response to an earlier request of the
    same client at the same host.  `pre` = the events before, in order. -/
def originOk : List Ev → List Ev → Bool
  | _, [] => true
  | pre, e :: rest =>
    e.req.cookies.all (fun nv => (setBy e.who pre).contains ⟨e.req.url.host, nv.1, nv.2⟩) &&
      originOk (pre ++ [e]) rest

/-- C14 "cookies, replay": a cookie set in a response is present (by name) in every later request of the
    same client to the same host.  `persist who` = that client keeps cookies. -/
def replayOk (persist : Nat → Bool) : List Ev → Bool
  | [] => true
  | e :: rest =>
    (!persist e.who ||
      rest.all fun e' =>
        !(e'.who = e.who && e'.req.url.host = e.req.url.host) ||
          e.set.all fun nv => e'.req.cookies.any fun nv' => nv'.1 = nv.1) &&
      replayOk persist rest

end Ofx.Spec.Client
