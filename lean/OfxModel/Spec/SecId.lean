/-
Declarative specification of the three check-digit algorithms, written
arithmetically and independently of the code's string manipulation.
-/
import OfxModel.Py.Int

namespace Ofx.Spec.SecId

/-- digit sum of a number below 100 -/
def ds (n : Nat) : Nat := n / 10 + n % 10

/-- check digit from a weighted sum -/
def check (s : Nat) : Nat := (10 - s % 10) % 10

/-- CUSIP (mod-10 double-add-double): values `v i`, every second one (odd index) doubled,
    digit sums added. -/
def cusipSum : Nat → List Nat → Nat
  | _, [] => 0
  | i, v :: vs => ds (v * (1 + i % 2)) + cusipSum (i + 1) vs

def cusipSpec (vals : List Nat) : Nat := check (cusipSum 0 vals)

/-- SEDOL: weighted sum with weights 1,3,1,7,3,9 -/
def sedolSpec (vals : List Nat) : Nat :=
  check ((List.zipWith (· * ·) vals [1, 3, 1, 7, 3, 9]).sum)

/-- Luhn over a list of decimal digits given *rightmost first*: the rightmost digit is
    doubled, then every other one. -/
def luhnSumRev : Nat → List Nat → Nat
  | _, [] => 0
  | j, d :: dsr => (if j % 2 = 0 then ds (2 * d) else d) + luhnSumRev (j + 1) dsr

/-- base-36 expansion of the characters' values into decimal digits (most significant first) -/
def expand : List Nat → List Nat
  | [] => []
  | v :: vs => (if v < 10 then [v] else [v / 10, v % 10]) ++ expand vs

def isinSpec (vals : List Nat) : Nat := check (luhnSumRev 0 (expand vals).reverse)

end Ofx.Spec.SecId

namespace Ofx.Spec.SecId

/-- the values of a string's characters under `f`, when every character has one -/
def valsOf (f : Char → Option Nat) : Ofx.Str → Option (List Nat)
  | [] => some []
  | c :: cs =>
    match f c, valsOf f cs with
    | some v, some vs => some (v :: vs)
    | _, _ => none

end Ofx.Spec.SecId
