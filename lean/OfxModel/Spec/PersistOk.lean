/-
C18, persistence clause, as an exact characterisation: WHICH saved runs read back.

"Save with these command-line arguments, then run again without them": per persistable option the next run has
the same value in effect if and only if `PersistOk` holds of the option's `View` — what the saving run and the places
the next run consults look like for this one option.  Written without reference to `ChainMap`, `configparser`
or the loop of `mk_server_cfg`:

* an option is *saved* iff its value in effect is not empty, is not the global CLIENTUID, and either differs from the
  library default or ofxget.cfg already says something for it (`saves`);
* a saved option persists iff the text written for it reads back as the value (`savedReadsBack`);
* an option that is not saved persists iff the places the next run consults — the server's section of ofxget.cfg,
  the FI database's section, the DEFAULT sections, OFX Home, DEFAULTS — already say the value (`keptReads`).

`lossClass` names, for an option that does not persist, the way it is lost; `OfxProofs/Props/C18Persist.lean` proves
the iff against the model of `ofxget` and that inside the typed domain there is no further way.
-/
import OfxModel.Ofx.Ofxget
import OfxModel.Spec.Ofxget

namespace Ofx.Spec.Persist
open Ofx Ofx.Ofxget

/-- one persistable option as `--write` and the next run see it -/
structure View where
  /-- `CONFIGURABLE[opt]` -/
  ty : CfgTy
  /-- the value in effect at the saving run (`args[opt]`) -/
  v : CfgVal
  /-- the option is `clientuid` -/
  isUid : Bool
  /-- the CLIENTUID of the DEFAULT section of ofxget.cfg at the save (the freshly drawn one if there was none) -/
  globalUid : Option Str
  /-- what the library would use without ofxget.cfg: the fi.cfg entry for the server, else `DEFAULTS[opt]` -/
  libDefault : CfgVal
  /-- ofxget.cfg as re-read by the save: the server's own section -/
  sect : Option Str
  /-- ofxget.cfg as re-read by the save: the DEFAULT section (`clear()` keeps what fi.cfg's DEFAULT section put there) -/
  dflt : Option Str
  /-- fi.cfg: the server's section / the DEFAULT section -/
  fiSect : Option Str
  fiDflt : Option Str
  /-- what ranks below every file at the next run: the OFX Home record (looked up under the id in effect then), else
      `DEFAULTS[opt]` -/
  low : Option CfgVal
  /-- the same at the SAVING run: the OFX Home record under the id in effect then, else `DEFAULTS[opt]`
      (read by `lossClass` only, not by `PersistOk`) -/
  lowSave : Option CfgVal
  /-- the saving command line gave the option (read by `lossClass` only) -/
  cliSet : Bool
  /-- the nickname had a section in ofxget.cfg or fi.cfg before the save (read by `lossClass` only) -/
  known : Bool
  deriving Repr, DecidableEq

/-- `value == defaults["clientuid"]` for the option `clientuid` -/
def uidSkip (w : View) : Bool :=
  w.isUid && (match w.globalUid with | some u => pyEq w.v (.str u) | none => false)

/-- ofxget.cfg already says something for the option (server's section, or DEFAULT showing through) -/
def stored (w : View) : Bool := w.sect.isSome || w.dflt.isSome

/-- **is the option written into the server's section?** -/
def saves (w : View) : Bool :=
  !isNullArg w.v && !uidSkip w && (!pyEq w.v w.libDefault || stored w)

/-- the text written for `v`, passed through the INI reader (`strip`) and the typed getter, is `v` again -/
def savedReadsBack (T : Tables) (ty : CfgTy) (v : CfgVal) : Bool :=
  match arg2config ty v with
  | .ok s => (match typedOfStr T ty (strip s) with | .ok v' => v' == v | .error _ => false)
  | .error _ => false

/-- the text the next run finds for an option the save left alone: the server's section of ofxget.cfg, then of
    fi.cfg, then the DEFAULT section of ofxget.cfg, then of fi.cfg -/
def keptText (w : View) : Option Str :=
  ((w.sect.map strip).or w.fiSect).or ((w.dflt.map strip).or w.fiDflt)

/-- the places the next run consults already say `v` -/
def keptReads (T : Tables) (w : View) : Bool :=
  match keptText w with
  | some t => (match typedOfStr T w.ty t with | .ok tv => tv == w.v | .error _ => false)
  | none => w.low == some w.v

/-- **the option keeps its value across "save, then run again without it"** -/
def PersistOk (T : Tables) (w : View) : Bool :=
  if saves w then savedReadsBack T w.ty w.v else keptReads T w

/-- which test of `test_cfg_val` decided -/
inductive Outcome where
  | written           -- differs from the library default
  | writtenStored     -- equal to the library default, but ofxget.cfg already says something
  | skipEmpty         -- `value in NULL_ARGS`
  | skipGlobalUid     -- `--clientuid` equal to the global one
  | skipDefault       -- equal to the library default, nothing stored
  deriving Repr, DecidableEq

def outcome (w : View) : Outcome :=
  if isNullArg w.v then .skipEmpty
  else if uidSkip w then .skipGlobalUid
  else if !pyEq w.v w.libDefault then .written
  else if stored w then .writtenStored
  else .skipDefault

/-- the ways a setting is lost -/
inductive Loss where
  /-- known finding `cli-null-value-not-saved`: an empty command-line value overrides for this run, is never saved -/
  | cliNull
  /-- known finding `default-section-ignored-for-new-server`: the nickname had no section, so the DEFAULT section
      was not read at the saving run; the save creates the section and DEFAULT shows through afterwards -/
  | defaultSectionIgnored
  /-- by design: the first save draws the global CLIENTUID, in effect from the next run on -/
  | freshGlobalUid
  /-- an empty value (not from the command line, section known) and what ranks below the files differs between the
      two runs (`low ≠ lowSave`): only
      possible when another option they depend on (the OFX Home id) did not persist -/
  | emptyFollows
  /-- known finding `clientuid-equal-to-global-not-saved` -/
  | uidEqualsGlobal
  /-- known finding `string-edge-blanks-lost` -/
  | strEdgeBlank
  /-- known finding `list-member-characters-lost` -/
  | listMember
  /-- none of the above (excluded inside the typed domain: `C18_no_sixth_way`) -/
  | unexpected
  deriving Repr, DecidableEq

def Loss.name : Loss → String
  | .cliNull => "cliNull"
  | .defaultSectionIgnored => "defaultSectionIgnored"
  | .freshGlobalUid => "freshGlobalUid"
  | .emptyFollows => "emptyFollows"
  | .uidEqualsGlobal => "uidEqualsGlobal"
  | .strEdgeBlank => "strEdgeBlank"
  | .listMember => "listMember"
  | .unexpected => "unexpected"

/-- the next run reads the global CLIENTUID out of the DEFAULT section where the saving run had none in effect -/
def freshUid (w : View) : Bool :=
  w.isUid && w.sect.isNone && w.fiSect.isNone && w.dflt.isSome && w.dflt == w.globalUid

/-- `none` when the option persists, else the way it is lost.  Every label has a test of its own; what passes none of
    them is `unexpected` (excluded for the views of real runs by `C18_no_sixth_way`, by proof). -/
def lossClass (T : Tables) (w : View) : Option Loss :=
  if PersistOk T w then none
  else if saves w then
    (match w.ty with
     | .str => some .strEdgeBlank
     | .list => some .listMember
     | _ => some .unexpected)
  else if isNullArg w.v then
    (if w.cliSet then some .cliNull
     else if freshUid w then some .freshGlobalUid
     else if !w.known && w.dflt.isSome then some .defaultSectionIgnored
     else if w.low != w.lowSave then some .emptyFollows
     else some .unexpected)
  else if uidSkip w then some .uidEqualsGlobal
  else some .unexpected

/-! ### the view of one option in a concrete run -/

/-- the OFX Home record found under an id -/
def ohRecord (lookup : Str → Option OhRec) : Option CfgVal → Map
  | some (.str s) => if s.isEmpty then [] else (match lookup s with | some r => r.toMap | none => [])
  | _ => []

/-- what ranks below the files at a run whose OFX Home id in effect is `id` -/
def lowOf (T : Tables) (lookup : Str → Option OhRec) (id : Option CfgVal) (k : Name) : Option CfgVal :=
  Spec.Ofxget.firstSetter [ohRecord lookup id, T.defaults] k

/-- the view of option `k` when `ofxget … s --write` runs with command line `ns1` (the argparse namespace) on FI
    database `fidb` and user file `user` (`uuid`: what `OFXClient.uuid` would return), `v` being in effect;
    `lowSave` / `low`: what ranks below the files at the saving / at the next run -/
def viewOf (ns1 : Map) (fidb user : FileC) (uuid : Str) (s : Str) (k : Name) (ty : CfgTy) (v libDefault : CfgVal)
    (lowSave low : Option CfgVal) : View :=
  let r0 := reloadCfg (loadUser fidb user) user uuid
  let lib := loadLib fidb
  { ty := ty, v := v, isUid := k == "clientuid".toList,
    globalUid := r0.defaults.lookup "clientuid".toList,
    libDefault := libDefault,
    sect := (r0.sect s).lookup k, dflt := r0.defaults.lookup k,
    fiSect := (lib.sect s).lookup k, fiDflt := lib.defaults.lookup k,
    low := low, lowSave := lowSave,
    cliSet := ((extractns ns1).lookup k).isSome,
    known := (loadUser fidb user).hasSection s }

end Ofx.Spec.Persist
