/-
C03, whole-document part: the *addressed data elements* of a document relative to a schema, and the addressed
leaf values of a model instance — both written as plain structural walks, without reference to the reader's
accumulator (`update_args`), its ordering checks or the constructor.

A **path** is the list of steps from the root aggregate: the attribute name for a child the enclosing class
declares once, the position among the enclosing instance's list members for a child it declares as repeated.

Reading a node as class `c` (the class its tag names), every child falls in one slot:

* `skip`     its tag (after the class's one-off rename, `effTag`) is vendor-prefixed (contains `.`) or is not
             (the upper-case form of) an attribute the class declares — it addresses nothing;
* `unsup a`  the class declares it but does not support it (`Unsupported`) — it addresses nothing;
* `field a`  a child declared once: a data element when it carries text, a sub-aggregate otherwise;
* `member a` a repeated child: its position is the number of repeated children before it.

`docElems S t` lists the data elements with non-empty text, each with its path, the element kind and the
`required` flag the class declares for it (the kind is what the OFX type rule is chosen by), and its text.
`docValues` forgets the kind.  `instValues` lists the leaf values of an instance other than `None`.
-/
import OfxModel.Py.Str
import OfxModel.Ofx.Schema
import OfxModel.Ofx.Tree
import OfxModel.Ofx.Value

namespace Ofx.Spec
open Ofx

inductive Step where
  | attr (name : Str)
  | item (pos : Nat)
  deriving Repr, DecidableEq, Inhabited

abbrev Path := List Step

/-- an addressed data element: where it is, which element type the schema gives it, what it says -/
structure DocElem where
  path : Path
  kind : Kind
  required : Bool
  text : Str
  deriving Repr, DecidableEq, Inhabited

def DocElem.under (st : Step) (e : DocElem) : DocElem := { e with path := st :: e.path }

/-- the tag a child is read under: the class's rename (`YIELD→YLD`, `FROM→FRM`) applies to the first child
    carrying the source tag, once -/
def effTag (c : Cls) (renamed : Bool) (tag : Str) : Str × Bool :=
  match c.groom with
  | some r => if renamed = false ∧ tag = r.fromTag then (r.toTag, true) else (tag, renamed)
  | none => (tag, renamed)

/-- the attribute is declared as repeated in this class: a `ListElement`, or a `ListAggregate` of a class that
    is not an `ElementList` -/
def repeated (c : Cls) (a : Attr) : Bool :=
  a.kind.isListElem || (a.kind.isListAgg && !c.elementList)

inductive Slot where
  | skip
  | unsup (a : Attr)
  | field (a : Attr)
  | member (a : Attr)
  deriving Repr, Inhabited

/-- the slot of a child tagged `tag`, and whether the rename has been used up afterwards -/
def slotOf (c : Cls) (renamed : Bool) (tag : Str) : Slot × Bool :=
  let et := effTag c renamed tag
  if et.1.contains '.' then (.skip, et.2)
  else
    match c.spec.find? (fun a => a.name = lower et.1) with
    | none => (.skip, et.2)
    | some a =>
      if a.kind.isUnsupported then (.unsup a, et.2)
      else if repeated c a then (.member a, et.2)
      else (.field a, et.2)

/-- element kinds proper (everything that is converted from text) -/
def isElemKind : Kind → Bool
  | .bool | .string .. | .oneOf _ | .integer _ | .decimal _ | .datetime | .time => true
  | _ => false

/-- what a child declared once addresses, given the elements of its own subtree (`sub`) -/
def fieldElems (a : Attr) (ch : Tree) (sub : List DocElem) : List DocElem :=
  match ch.text with
  | some (x :: xs) => if isElemKind a.kind then [⟨[.attr a.name], a.kind, a.required, x :: xs⟩] else []
  | _ =>
    match a.kind with
    | .sub _ => sub.map (DocElem.under (.attr a.name))
    | _ => []

/-- what a repeated child at position `pos` addresses: in an `ElementList` a data element of the list's element
    type, elsewhere whatever its own subtree addresses -/
def memberElems (c : Cls) (pos : Nat) (a : Attr) (ch : Tree) (sub : List DocElem) : List DocElem :=
  match ch.text with
  | some (x :: xs) =>
    match a.kind with
    | .listElem inner ireq => if c.elementList then [⟨[.item pos], inner, ireq, x :: xs⟩] else []
    | _ => []
  | _ => if c.elementList then [] else sub.map (DocElem.under (.item pos))

mutual
  /-- the addressed data elements of the document `t`, read as the class its tag names -/
  def docElems (S : Schema) : Tree → List DocElem
    | .node tag _ _ children =>
      match S.findIdx? tag with
      | none => []
      | some ci =>
        match S.cls? ci with
        | none => []
        | some c => docElemsIn S c false 0 children
  /-- … of the children `ts` of a node read as class `c`, `pos` repeated children having gone before -/
  def docElemsIn (S : Schema) (c : Cls) : Bool → Nat → List Tree → List DocElem
    | _, _, [] => []
    | rn, pos, ch :: rest =>
      match slotOf c rn ch.tag with
      | (.skip, rn') => docElemsIn S c rn' pos rest
      | (.unsup _, rn') => docElemsIn S c rn' pos rest
      | (.field a, rn') => fieldElems a ch (docElems S ch) ++ docElemsIn S c rn' pos rest
      | (.member a, rn') => memberElems c pos a ch (docElems S ch) ++ docElemsIn S c rn' (pos + 1) rest
end

/-! ### the same list, one level at a time -/

/-- the children of a node read as class `c` that address something: step, attribute, child -/
def slots (c : Cls) : Bool → Nat → List Tree → List (Step × Attr × Tree)
  | _, _, [] => []
  | rn, pos, ch :: rest =>
    match slotOf c rn ch.tag with
    | (.skip, rn') => slots c rn' pos rest
    | (.unsup _, rn') => slots c rn' pos rest
    | (.field a, rn') => (.attr a.name, a, ch) :: slots c rn' pos rest
    | (.member a, rn') => (.item pos, a, ch) :: slots c rn' (pos + 1) rest

/-- what one addressed child contributes to the specification's element list -/
def slotElems (S : Schema) (c : Cls) : Step × Attr × Tree → List DocElem
  | (.attr _, a, ch) => fieldElems a ch (docElems S ch)
  | (.item pos, a, ch) => memberElems c pos a ch (docElems S ch)

/-- `(path, text)` of every addressed data element -/
def docValues (S : Schema) (t : Tree) : List (Path × Str) := (docElems S t).map (fun e => (e.path, e.text))

/-- the same, for a tree read as a given class (whatever its own tag says) -/
def docValuesAs (S : Schema) (c : Cls) (t : Tree) : List (Path × Str) :=
  (docElemsIn S c false 0 t.children).map (fun e => (e.path, e.text))

def underP (st : Step) (pv : Path × Val) : Path × Val := (st :: pv.1, pv.2)

mutual
  /-- every leaf value of an instance other than `None`, with its path -/
  def instValues : Node → List (Path × Val)
    | .val .none => []
    | .val v => [([], v)]
    | .agg _ fields items => fieldValues fields ++ itemValues 0 items
  def fieldValues : List (Str × Node) → List (Path × Val)
    | [] => []
    | (n, x) :: r => (instValues x).map (underP (.attr n)) ++ fieldValues r
  def itemValues : Nat → List Node → List (Path × Val)
    | _, [] => []
    | i, x :: r => (instValues x).map (underP (.item i)) ++ itemValues (i + 1) r
end

/-! ### protocol encodings (driver) -/

def Step.enc : Step → SExp
  | .attr n => .list [.atom "a", encStr n]
  | .item i => .list [.atom "i", encNat i]

def encPath (p : Path) : SExp := .list (p.map Step.enc)

end Ofx.Spec
