/-
Declarative side of C16 (written without reference to `__getattr__`'s loop or the getters' code):

  definers S i name   all aggregates among `i` and its non-repeated descendants (reached through sub-aggregate
                      fields only, never through list members) whose class declares `name` as a non-repeated spec
                      attribute — as paths of field names, in depth-first (pre-order) spec order = document order;
                      an aggregate whose class has a *repeated* child of that name contributes nothing and is not entered
  valueAt S i p name  the object stored under `name` in the aggregate at path `p`
  clean S P i name    no aggregate among them has a property called `name`, nor a stray instance attribute `name`
  undefined           `clean`, no definer, and not a spec attribute (of any kind) of the instance's own class
  walk S P b i        what a shortcut described by `b` denotes on `i`: the objects found by walking the full path,
                      list members in document order, each wrapped statement once
  documentedBody      the documented shortcuts, by class and property *name* (hand-written from the documentation
                      of the library, not from the getters)
  propsAgree          the table extracted from the getters' source says exactly what is documented
-/
import OfxModel.Ofx.Getattr

namespace Ofx.Spec.Getattr

open Ofx Ofx.Agg Ofx.Getattr

abbrev Path := List Str

/-- the class declares `name` as a non-repeated child (element, sub-aggregate or unsupported) -/
def definesNL (c : Cls) (name : Str) : Bool :=
  match c.attr? name with
  | some a => !a.kind.isList
  | none => false

/-- definers below the sub-aggregate fields, in spec order -/
def childDefiners : List Attr → List (Str × List Path) → List Path
  | [], _ => []
  | a :: rest, fd =>
    (if a.kind.isSub then
      match Agg.lookup a.name fd with
      | some ps => ps.map (a.name :: ·)
      | none => []
     else []) ++ childDefiners rest fd

mutual
  def definers (S : Schema) : Node → Str → List Path
    | .val _, _ => []
    | .agg ci fields _, name =>
      match S.cls? ci with
      | none => []
      | some c =>
        match c.attr? name with
        | some a =>
          -- a *repeated* child of that name is never stored under its name: the aggregate neither defines the
          -- name nor lets the search pass (the read fails inside it)
          if a.kind.isList then [] else [] :: childDefiners c.spec (fieldDefiners S fields name)
        | none => childDefiners c.spec (fieldDefiners S fields name)
  def fieldDefiners (S : Schema) : List (Str × Node) → Str → List (Str × List Path)
    | [], _ => []
    | (n, v) :: r, name => (n, definers S v name) :: fieldDefiners S r name
end

/-- the object stored under `name` in the aggregate at `path` (`None` for an unsupported attribute) -/
def valueAt (S : Schema) (i : Node) : Path → Str → Option Node
  | [], name =>
    match i with
    | .agg ci fields _ =>
      match S.cls? ci with
      | some c =>
        match c.attr? name with
        | some a => if a.kind.isUnsupported then some (.val .none) else Agg.lookup name fields
        | none => none
      | none => none
    | .val _ => none
  | k :: p, name =>
    match i with
    | .agg _ fields _ =>
      match Agg.lookup k fields with
      | some v => valueAt S v p name
      | none => none
    | .val _ => none

mutual
  def clean (S : Schema) (P : Props) : Node → Str → Bool
    | .val _, _ => true
    | .agg ci fields _, name =>
      match S.cls? ci with
      | none => false
      | some c =>
        (P.find ci name).isNone && (!hasKey name fields || definesNL c name) && cleanFields S P fields name
  def cleanFields (S : Schema) (P : Props) : List (Str × Node) → Str → Bool
    | [], _ => true
    | (_, v) :: r, name => clean S P v name && cleanFields S P r name
end

/-- nothing among the instance and its non-repeated descendants defines `name` -/
def undefined (S : Schema) (P : Props) (i : Node) (name : Str) : Bool :=
  clean S P i name && (definers S i name).isEmpty &&
    match i with
    | .agg ci _ _ => match S.cls? ci with
      | some c => (c.attr? name).isNone
      | none => false
    | .val _ => true

/-! ### path walks -/

def fieldOf (a : Str) : Node → Option Node
  | .agg _ fields _ => Agg.lookup a fields
  | .val _ => none

/-- a stored object other than `None` -/
def present : Option Node → Option Node
  | some (.val .none) => none
  | o => o

/-- the statement with the wrapper's attributes `f` added under the names `d` -/
def withAttrs (w : Node) : List (Str × Str) → Node → Option Node
  | [], s => some s
  | (d, f) :: r, s =>
    match fieldOf f w, s with
    | some v, .agg ci fs it => withAttrs w r (.agg ci (setField d v fs) it)
    | _, _ => none

/-- the statement a list member wraps, if it is one of the wrapper classes and holds one -/
def wrapped (S : Schema) (branches : List (Nat × Str)) (stp : List (Str × Str)) (w : Node) : Option Node :=
  match w with
  | .agg mi _ _ =>
    match branches.find? (fun b => isInstance S mi b.1) with
    | some (_, a) => (present (fieldOf a w)).bind (withAttrs w stp)
    | none => none
  | .val _ => none

def itemsOf : Node → List Node
  | .agg _ _ its => its
  | .val _ => []

def isA (S : Schema) (t : Nat) : Node → Bool
  | .agg mi _ _ => isInstance S mi t
  | .val _ => false

/-- shortcuts that stay inside one aggregate and its members -/
def walk1 (S : Schema) : Body → Node → Option Res
  | .alias a, i => (fieldOf a i).map .node
  | .path a b, i => ((present (fieldOf a i)).bind (fieldOf b)).map .node
  | .firstOrAssert a1 b1 a2 b2, i =>
    match present (fieldOf a1 i) with
    | some m => (fieldOf b1 m).map .node
    | none => ((present (fieldOf a2 i)).bind (fieldOf b2)).map .node
  | .members branches _ stp, i => some (.list ((itemsOf i).filterMap (wrapped S branches stp)))
  | .extendMembers t, i => some (.list (((itemsOf i).filter (isA S t)).flatMap itemsOf))
  | .cur a1 a2 sel, i =>
    match (present (fieldOf a1 i)).or (present (fieldOf a2 i)) with
    | none => some (.node (.val .none))
    | some cu =>
      match sel with
      | .clsName => some (.node (.val (.str (argClassName S cu))))
      | .attr b => (fieldOf b cu).map .node
  | _, _ => none

/-- the list a message set contributes: its own shortcut `p` -/
def subList (S : Schema) (find : Nat → Str → Option Body) (p : Str) (m : Node) : Option (List Node) :=
  match m with
  | .agg mi _ _ =>
    match find mi p with
    | some b => match walk1 S b m with
      | some (.list l) => some l
      | _ => none
    | none => none
  | .val _ => none

def concatWalk (S : Schema) (find : Nat → Str → Option Body) (p : Str) (i : Node) : List Str → Option (List Node)
  | [] => some []
  | n :: rest =>
    match fieldOf n i with
    | none => none
    | some m =>
      match present (some m) with
      | none => (concatWalk S find p i rest)
      | some m => do
        let here ← subList S find p m
        let more ← concatWalk S find p i rest
        pure (here ++ more)

/-- what a shortcut described by `b` denotes -/
def walk (S : Schema) (find : Nat → Str → Option Body) : Body → Node → Option Res
  | .optList a p, i =>
    match fieldOf a i with
    | none => none
    | some m =>
      match present (some m) with
      | none => some (.list [])
      | some m => (subList S find p m).map .list
  | .concat names p, i => (concatWalk S find p i names).map .list
  | b, i => walk1 S b i

/-! ### the documented shortcuts -/

def ch (s : String) : Str := s.toList

/-- classes that mix in `Origcurrency` -/
def origcurrencyClasses : List String :=
  ["CLOSING", "INCOME", "INVBUY", "INVEXPENSE", "INVSELL", "MARGININTEREST", "REINVEST", "RETOFCAP", "SPLIT",
   "STMTTRN", "STPCHKNUM"]

def stapleDoc : List (Str × Str) := [(ch "trnuid", ch "trnuid"), (ch "cltcookie", ch "cltcookie")]

/-- documented meaning of property `prop` of class `cls`; `r` resolves class names to schema indices -/
def documentedBody (r : String → Nat) (cls prop : String) : Option Body :=
  let cur := fun (sel : Sel) =>
    if origcurrencyClasses.contains cls then some (Body.cur (ch "currency") (ch "origcurrency") sel) else none
  match prop with
  | "curtype" => cur .clsName
  | "cursym" => cur (.attr (ch "cursym"))
  | "currate" => cur (.attr (ch "currate"))
  | _ =>
  match cls, prop with
  | "OFX", "signon" =>
    some (.firstOrAssert (ch "signonmsgsrqv1") (ch "sonrq") (ch "signonmsgsrsv1") (ch "sonrs"))
  | "OFX", "securities" => some (.optList (ch "seclistmsgsrsv1") (ch "securities"))
  | "OFX", "statements" =>
    some (.concat [ch "bankmsgsrqv1", ch "creditcardmsgsrqv1", ch "invstmtmsgsrqv1",
                   ch "bankmsgsrsv1", ch "creditcardmsgsrsv1", ch "invstmtmsgsrsv1"] (ch "statements"))
  | "BANKMSGSRQV1", "statements" =>
    some (.members [(r "STMTTRNRQ", ch "stmtrq"), (r "STMTENDTRNRQ", ch "stmtendrq")] false [])
  | "BANKMSGSRSV1", "statements" =>
    some (.members [(r "STMTTRNRS", ch "stmtrs"), (r "STMTENDTRNRS", ch "stmtendrs")] false stapleDoc)
  | "CREDITCARDMSGSRQV1", "statements" =>
    some (.members [(r "CCSTMTTRNRQ", ch "ccstmtrq"), (r "CCSTMTENDTRNRQ", ch "ccstmtendrq")] false [])
  | "CREDITCARDMSGSRSV1", "statements" =>
    some (.members [(r "CCSTMTTRNRS", ch "ccstmtrs"), (r "CCSTMTENDTRNRS", ch "ccstmtendrs")] true stapleDoc)
  | "INVSTMTMSGSRQV1", "statements" => some (.members [(r "INVSTMTTRNRQ", ch "invstmtrq")] false [])
  | "INVSTMTMSGSRSV1", "statements" => some (.members [(r "INVSTMTTRNRS", ch "invstmtrs")] false stapleDoc)
  | "SECLISTMSGSRSV1", "securities" => some (.extendMembers (r "SECLIST"))
  | "STMTRS", "account" => some (.alias (ch "bankacctfrom"))
  | "STMTRS", "transactions" => some (.alias (ch "banktranlist"))
  | "STMTRS", "balance" => some (.alias (ch "ledgerbal"))
  | "CCSTMTRS", "account" => some (.alias (ch "ccacctfrom"))
  | "CCSTMTRS", "transactions" => some (.alias (ch "banktranlist"))
  | "CCSTMTRS", "balance" => some (.alias (ch "ledgerbal"))
  | "INVSTMTRS", "account" => some (.alias (ch "invacctfrom"))
  | "INVSTMTRS", "transactions" => some (.alias (ch "invtranlist"))
  | "INVSTMTRS", "positions" => some (.alias (ch "invposlist"))
  | "INVSTMTRS", "balances" => some (.alias (ch "invbal"))
  | "STMTTRNRS", "statement" => some (.alias (ch "stmtrs"))
  | "CCSTMTTRNRS", "statement" => some (.alias (ch "ccstmtrs"))
  | "INVSTMTTRNRS", "statement" => some (.alias (ch "invstmtrs"))
  | "CCSTMTENDTRNRS", "statement" => some (.alias (ch "ccstmtendrs"))
  | "PROFTRNRS", "profile" => some (.alias (ch "profrs"))
  | "SONRS", "org" => some (.path (ch "fi") (ch "org"))
  | "SONRS", "fid" => some (.path (ch "fi") (ch "fid"))
  | _, _ => none

/-- the (class, property) pairs the documentation promises -/
def documentedPairs : List (String × String) :=
  [("OFX", "signon"), ("OFX", "securities"), ("OFX", "statements"),
   ("BANKMSGSRQV1", "statements"), ("BANKMSGSRSV1", "statements"), ("CREDITCARDMSGSRQV1", "statements"),
   ("CREDITCARDMSGSRSV1", "statements"), ("INVSTMTMSGSRQV1", "statements"), ("INVSTMTMSGSRSV1", "statements"),
   ("SECLISTMSGSRSV1", "securities"),
   ("STMTRS", "account"), ("STMTRS", "transactions"), ("STMTRS", "balance"),
   ("CCSTMTRS", "account"), ("CCSTMTRS", "transactions"), ("CCSTMTRS", "balance"),
   ("INVSTMTRS", "account"), ("INVSTMTRS", "transactions"), ("INVSTMTRS", "positions"), ("INVSTMTRS", "balances"),
   ("STMTTRNRS", "statement"), ("CCSTMTTRNRS", "statement"), ("INVSTMTTRNRS", "statement"),
   ("CCSTMTENDTRNRS", "statement"), ("PROFTRNRS", "profile"), ("SONRS", "org"), ("SONRS", "fid")] ++
  origcurrencyClasses.flatMap (fun c => [(c, "curtype"), (c, "cursym"), (c, "currate")])

/-- index of a class name in a (small) index ↦ name table; a name not in it resolves to an index no class has -/
def resolveIn (names : List (Nat × Str)) (n : String) : Nat :=
  match names.find? (fun p => p.2 = n.toList) with
  | some p => p.1
  | none => 1000000000

def nameIn (names : List (Nat × Str)) (i : Nat) : Option Str :=
  (names.find? (fun p => p.1 = i)).map (·.2)

/-- names the getters read on `self` -/
def selfReads : Body → List Str
  | .alias a => [a]
  | .path a _ => [a]
  | .firstOrAssert a1 _ a2 _ => [a1, a2]
  | .optList a _ => [a]
  | .concat names _ => names
  | .cur a1 a2 _ => [a1, a2]
  | _ => []

/-- the class declares `a` as a child that is stored in the instance dict under its name -/
def definesStored (c : Cls) (a : Str) : Bool :=
  match c.attr? a with
  | some x => !x.kind.isList && !x.kind.isUnsupported
  | none => false

/-- `name` is a supported spec attribute of the class of aggregate `m` (so `m.name` is a plain descriptor read) -/
def direct (S : Schema) (name : Str) : Node → Bool
  | .agg mi _ _ =>
    match S.cls? mi with
    | some cm =>
      match cm.attr? name with
      | some ab => !ab.kind.isUnsupported
      | none => false
    | none => false
  | .val _ => false

/-- every name a getter reads on `self` is a non-repeated spec attribute of that very class (so the read is the
    descriptor read the model performs), and the property does not shadow a spec attribute -/
def bodyOk (c : Cls) (e : PropEntry) : Bool :=
  (selfReads e.body).all (definesStored c) && (c.attr? e.name).isNone

/-- the table extracted from the getters agrees with the documentation -/
def propsAgree (S : Schema) (P : Props) (names : List (Nat × Str)) : Bool :=
  names.all (fun p => match S.cls? p.1 with
    | some c => c.name = p.2
    | none => false) &&
  P.all (fun e =>
    match nameIn names e.cls, S.cls? e.cls with
    | some cn, some c =>
      documentedBody (resolveIn names) (String.ofList cn) (String.ofList e.name) = some e.body && bodyOk c e
    | _, _ => false) &&
  documentedPairs.all (fun d =>
    P.any (fun e => nameIn names e.cls = some d.1.toList && e.name = d.2.toList))

/-- the documented walk for property `name` of instance `i` (driver oracle; names resolved in `S`) -/
def documentedWalk (S : Schema) (i : Node) (name : Str) : Option Res :=
  match i with
  | .agg ci _ _ =>
    match S.cls? ci with
    | some c =>
      let r := fun (n : String) => (S.classes.findIdx? (fun k => k.name = n.toList)).getD 1000000000
      let find := fun (mi : Nat) (p : Str) => match S.cls? mi with
        | some k => documentedBody r (String.ofList k.name) (String.ofList p)
        | none => none
      match documentedBody r (String.ofList c.name) (String.ofList name) with
      | some b => walk S find b i
      | none => none
    | none => none
  | .val _ => none

end Ofx.Spec.Getattr
