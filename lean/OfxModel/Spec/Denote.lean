/-
C03, type part: the value the OFX data-type rules assign to an element text, written independently of the
converters' algorithms.

* boolean       `Y ↦ True`, `N ↦ False`
* integer       `[+-]?[0-9]+` by positional value
* decimal       `[+-]?[0-9]*[.,]?[0-9]*` (≥ 1 digit, `,` ≡ `.`): sign, coefficient = the digits read as one
                number, exponent = −(number of fraction digits); with a declared scale the value is the nearest
                multiple of the quantum, ties to the even neighbour, and must fit 28 digits
* character     the six entities `&lt; &gt; &nbsp; &apos; &quot; &amp;` decoded in one left-to-right pass; a
                strict length limit applies to the decoded text
* enumeration   the token itself when it is one of the declared tokens
* date-time / time: supplied by the date-time layer through `DenoteExt`

The empty text denotes nothing (an element without data is no data element).
-/
import OfxModel.Ofx.Schema
import OfxModel.Ofx.Value
import OfxModel.Spec.Lex

namespace Ofx.Spec

/-! ### numbers -/

def digitOf (c : Char) : Nat := c.toNat - 48

/-- positional value: `Σ dᵢ · 10^(n-1-i)` -/
def positional : Str → Nat
  | [] => 0
  | c :: cs => digitOf c * 10 ^ cs.length + positional cs

def isNegative : Str → Bool
  | '-' :: _ => true
  | _ => false

def denoteInteger (s : Str) : Option Int :=
  if lexInteger s then
    let n := positional (dropSign s)
    some (if isNegative s then -(n : Int) else (n : Int))
  else none

/-- number of decimal digits of a positive number, 1 for 0 -/
def numDigits (n : Nat) : Nat :=
  let rec go : Nat → Nat → Nat → Nat
    | 0, _, k => k
    | fuel + 1, m, k => if m < 10 then k + 1 else go fuel (m / 10) (k + 1)
  go (n + 1) n 0

/-- nearest integer to `num / den` (`den > 0`), ties to even -/
def nearestEven (num den : Nat) : Nat :=
  let lo := num / den
  -- compare the remainder with half the denominator without fractions
  if 2 * (num - lo * den) < den then lo
  else if 2 * (num - lo * den) > den then lo + 1
  else if lo % 2 = 0 then lo else lo + 1

/-- value of the literal at the declared quantum exponent `qe` (`none` when it does not fit 28 digits) -/
def atQuantum (neg : Bool) (coeff : Nat) (exp qe : Int) : Option Dec :=
  if coeff = 0 then some (.fin neg 0 qe)
  else
    let c' : Nat := if exp ≥ qe then coeff * 10 ^ (exp - qe).toNat else nearestEven coeff (10 ^ (qe - exp).toNat)
    -- the default context refuses a result of more than 28 digits, judged before and after rounding
    if exp + (numDigits coeff : Int) - qe > 28 then none
    else if numDigits c' > 28 then none
    else some (.fin neg c' qe)

def denoteDecimal (q : Option Int) (s : Str) : Option Dec :=
  if lexDecimal s then
    let b := dropSign s
    let ip := b.takeWhile isDigitC
    let fp := (b.dropWhile isDigitC).drop 1
    let coeff := positional (ip ++ fp)
    let exp : Int := -(fp.length : Int)
    match q with
    | none => some (.fin (isNegative s) coeff exp)
    | some qe => atQuantum (isNegative s) coeff exp qe
  else none

/-! ### character data -/

def entities : List (Str × Char) :=
  [("&lt;".toList, '<'), ("&gt;".toList, '>'), ("&nbsp;".toList, ' '), ("&apos;".toList, '\''),
   ("&quot;".toList, '"'), ("&amp;".toList, '&')]

/-- the entity starting at the head of `s`, if any: decoded character and length of the spelling -/
def entityAt (s : Str) : Option (Char × Nat) :=
  (entities.find? (fun e => e.1.isPrefixOf s)).map (fun e => (e.2, e.1.length))

/-- one-pass left-to-right decoding (`skip`: characters of a just-decoded entity still to be dropped) -/
def decodeGo : Nat → Str → Str
  | _, [] => []
  | skip + 1, _ :: cs => decodeGo skip cs
  | 0, c :: cs =>
    match entityAt (c :: cs) with
    | some (ch, n) => ch :: decodeGo (n - 1) cs
    | none => c :: decodeGo 0 cs

def decodeEntities (s : Str) : Str := decodeGo 0 s

/-! ### the denotation -/

/-- denotations owned by other layers (date-time, time) -/
structure DenoteExt where
  datetime : Str → Option Val
  time : Str → Option Val

def denote (ext : DenoteExt) (enums : List (List Str)) : Kind → Str → Option Val
  | _, [] => none
  | .bool, s => if s = ['Y'] then some (.bool true) else if s = ['N'] then some (.bool false) else none
  | .string (some n) true, s =>
    let t := decodeEntities s
    if t.length ≤ n then some (.str t) else none
  | .string _ _, s => some (.str (decodeEntities s))
  | .oneOf e, s =>
    match enums[e]? with
    | some valid => if valid.contains s then some (.str s) else none
    | none => none
  | .integer none, s => (denoteInteger s).map .int
  | .integer (some n), s =>
    match denoteInteger s with
    | some i => if i.natAbs < 10 ^ n then some (.int i) else none                 -- at most `n` digits
    | none => none
  | .decimal q, s => (denoteDecimal q s).map .dec
  | .datetime, s => ext.datetime s
  | .time, s => ext.time s
  | .listElem k _, s => denote ext enums k s
  | .sub _, _ => none
  | .listAgg _, _ => none
  | .unsupported, _ => none

def DenoteExt.none : DenoteExt := { datetime := fun _ => Option.none, time := fun _ => Option.none }

end Ofx.Spec
