/-
Declarative side of the serializer theorems.

* `Rendering t s` — the OFX wire grammar of DESIGN 6.2 restricted to what the serializers produce (no CDATA):
    leaf `t d`      ::= `<t>` ws* d  |  `<t>` ws* d ws* `</t>`       d non-empty, trimmed, free of `<`
    aggregate `t cs` ::= `<t>` ws* (r₁ ws* … rₙ ws*) `</t>`
  tags over `[A-Z0-9._]+`, ws over Python's `str.isspace` set.  `RenderingDoc` allows trailing ws* after the root.
  Constructor for constructor it is the parser builder's `Ofx.Spec.Renders false` (lean/OfxModel/Spec/Renders.lean)
  minus the two CDATA alternatives, stated on parser-shaped trees (`Tree.leaf`, `Tree.agg`).
* `wireLex s`   — C11's wire clause as an executable predicate of the written string: every `<` starts a tag token
  `</?[A-Z0-9._]+>` (so no element data contains a raw `<`) and every `&` starts one of the entities
  `&amp; &lt; &gt; &nbsp; &apos; &quot;`.
* `dataOk d`    — the same clause on one element's written data: no `<`, every `&` starts an entity.
* `escapeTree`  — the tree whose leaf texts are what the html writer puts on the wire.
-/
import OfxModel.Py.Str
import OfxModel.Ofx.Tree

namespace Ofx.Spec.Wire
open Ofx

/-! ### lexical classes -/

/-- `[A-Z0-9._]` -/
def isTagChar (c : Char) : Bool :=
  ('A' ≤ c && c ≤ 'Z') || ('0' ≤ c && c ≤ '9') || c == '.' || c == '_'

/-- `[A-Z0-9._]+` -/
def tagOk (t : Str) : Bool := !t.isEmpty && t.all isTagChar

/-- Python whitespace only -/
def Ws (s : Str) : Prop := ∀ c ∈ s, isSpace c = true
def wsB (s : Str) : Bool := s.all isSpace

/-- no leading / trailing Python whitespace -/
def Trimmed (d : Str) : Prop :=
  (∀ c, d.head? = some c → isSpace c = false) ∧ (∀ c, d.getLast? = some c → isSpace c = false)

def trimmedB (d : Str) : Bool :=
  (match d.head? with | some c => !isSpace c | none => true) &&
  (match d.getLast? with | some c => !isSpace c | none => true)

/-- element data as the grammar admits it: non-empty, trimmed, free of `<` -/
def DataWF (d : Str) : Prop := d ≠ [] ∧ Trimmed d ∧ '<' ∉ d
def dataWFB (d : Str) : Bool := !d.isEmpty && trimmedB d && !d.contains '<'

/-! ### the wire grammar -/

def startTag (t : Str) : Str := '<' :: (t ++ ['>'])
def endTag (t : Str) : Str := '<' :: '/' :: (t ++ ['>'])

mutual
  inductive Rendering : Tree → Str → Prop
    /-- `<t>` ws* d   (SGML: no end tag) -/
    | leafOpen (t d w₁ : Str) :
        tagOk t = true → DataWF d → Ws w₁ →
        Rendering (.node t (some d) none []) (startTag t ++ (w₁ ++ d))
    /-- `<t>` ws* d ws* `</t>` -/
    | leafClosed (t d w₁ w₂ : Str) :
        tagOk t = true → DataWF d → Ws w₁ → Ws w₂ →
        Rendering (.node t (some d) none []) (startTag t ++ (w₁ ++ (d ++ (w₂ ++ endTag t))))
    /-- `<t>` ws* children `</t>` -/
    | agg (t : Str) (cs : List Tree) (w s : Str) :
        tagOk t = true → Ws w → RenderingList cs s →
        Rendering (.node t none none cs) (startTag t ++ (w ++ (s ++ endTag t)))
  /-- r₁ ws* … rₙ ws* -/
  inductive RenderingList : List Tree → Str → Prop
    | nil : RenderingList [] []
    | cons (c : Tree) (cs : List Tree) (s w ss : Str) :
        Rendering c s → Ws w → RenderingList cs ss → RenderingList (c :: cs) (s ++ (w ++ ss))
end

/-- a whole body: one rendering followed by ws* -/
def RenderingDoc (t : Tree) (s : Str) : Prop := ∃ r w, Rendering t r ∧ Ws w ∧ s = r ++ w

/-! ### trees -/

mutual
  /-- the tree as `Aggregate.to_etree` / the parser build it: leaves `node t (some d) none []`,
      aggregates `node t none none cs` -/
  def parserShaped : Tree → Bool
    | .node _ (some _) tl cs => tl.isNone && cs.isEmpty
    | .node _ none tl cs => tl.isNone && parserShapedList cs
  def parserShapedList : List Tree → Bool
    | [] => true
    | c :: cs => parserShaped c && parserShapedList cs
end

mutual
  /-- all tags are `[A-Z0-9._]+` -/
  def tagsOk : Tree → Bool
    | .node t _ _ cs => tagOk t && tagsOkList cs
  def tagsOkList : List Tree → Bool
    | [] => true
    | c :: cs => tagsOk c && tagsOkList cs
end

mutual
  /-- all tags, in document order -/
  def tags : Tree → List Str
    | .node t _ _ cs => t :: tagsList cs
  def tagsList : List Tree → List Str
    | [] => []
    | c :: cs => tags c ++ tagsList cs
end

mutual
  /-- texts of the elements that have a text, in document order -/
  def texts : Tree → List Str
    | .node _ (some d) _ cs => d :: textsList cs
    | .node _ none _ cs => textsList cs
  def textsList : List Tree → List Str
    | [] => []
    | c :: cs => texts c ++ textsList cs
end

mutual
  /-- is there an element without text and without children (an empty aggregate)? -/
  def hasEmptyAgg : Tree → Bool
    | .node _ x _ cs => (x.isNone && cs.isEmpty) || hasEmptyAggList cs
  def hasEmptyAggList : List Tree → Bool
    | [] => false
    | c :: cs => hasEmptyAgg c || hasEmptyAggList cs
end

mutual
  /-- `_escape_cdata` applied to every text: the element data the html writer puts on the wire -/
  def escapeTree : Tree → Tree
    | .node t x tl cs => .node t (x.map escapeCdata) tl (escapeTreeList cs)
  def escapeTreeList : List Tree → List Tree
    | [] => []
    | c :: cs => escapeTree c :: escapeTreeList cs
end

/-- the domain of the rendering theorems: parser-shaped, tags `[A-Z0-9._]+`, every leaf text non-empty and
    trimmed (what `Aggregate.to_etree` yields for a `WireSafe` instance) -/
def wireTree (t : Tree) : Bool :=
  parserShaped t && tagsOk t && (texts t).all (fun d => !d.isEmpty && trimmedB d)

/-! ### C11's wire clause -/

def entities : List Str :=
  [['a', 'm', 'p', ';'], ['l', 't', ';'], ['g', 't', ';'], ['n', 'b', 's', 'p', ';'], ['a', 'p', 'o', 's', ';'],
   ['q', 'u', 'o', 't', ';']]

/-- what follows an `&` is the rest of an entity -/
def entityAhead (cs : Str) : Bool := entities.any (fun e => e.isPrefixOf cs)

/-- `[A-Z0-9._]* >` -/
def tagRest : Str → Bool
  | [] => false
  | c :: cs => if c = '>' then true else isTagChar c && tagRest cs

/-- what follows a `<` is the rest of a tag token: `/? [A-Z0-9._]+ >` -/
def tagAhead : Str → Bool
  | [] => false
  | c :: cs =>
    if c = '/' then (match cs with | [] => false | d :: ds => isTagChar d && tagRest ds)
    else isTagChar c && tagRest cs

/-- element data: no `<`, every `&` starts an entity -/
def dataOk : Str → Bool
  | [] => true
  | c :: cs => (if c = '<' then false else if c = '&' then entityAhead cs else true) && dataOk cs

/-- a written body: every `<` starts a tag token, every `&` starts an entity -/
def wireLex : Str → Bool
  | [] => true
  | c :: cs => (if c = '<' then tagAhead cs else if c = '&' then entityAhead cs else true) && wireLex cs

end Ofx.Spec.Wire
