/-
C06 — what a composed request must say, written without reference to how `Client.py` builds it
(no sorting, no grouping, no constructors): a *checker* over a model instance (`Node`), so that the same
definition judges the model's composed instance (theorem `C06_compose`) and what the implementation's bytes
parse back to (driver op `spec.request`).

`RequestSpec S cfg password dtclient reqs hdrVersion n` holds iff `check … = []`; `check` returns the names of
the clauses that fail:

  header.version            the header carries `cfg.version`
  root.shape / root.extra   an `OFX` instance without list members; nothing set but the sign-on and the message sets
  signon.shape              `SIGNONMSGSRQV1` holding exactly one `SONRQ`
  signon.<field>            USERID / USERPASS / LANGUAGE / APPID / APPVER exactly as supplied; DTCLIENT the supplied
                            instant; FI iff ORG is set (non-empty), with ORG and FID as configured;
                            CLIENTUID iff configured ∧ version ≥ 103
  signon.extra              no other SONRQ content
  msgset.<m>.absent         no message set without a request for it
  msgset.<m>.shape/.foreign the message set holds wrappers of its own request kinds only
  wrappers.<K>              for request kind K: the wrappers of class K, in order, are exactly the requests of that
                            kind, in request order, each placed as `expWrapper` says (account ids, account type,
                            bank/broker id from the configuration, dates as instants, include flags) and nothing else
  trnuid.distinct           every wrapper has a transaction id and they are pairwise distinct

Reading conventions: an attribute that is not set reads `None` (`fieldVal`); an empty text is the same as no text
(neither can be written in OFX); dates are compared as instants rounded to the millisecond (the wire notation's
resolution) — identical values are of course the same instant.
-/
import OfxModel.Py.Int
import OfxModel.Ofx.Compose
import OfxModel.Spec.Instant

namespace Ofx.Spec.Request
open Ofx Ofx.Compose

/-! ### reading an instance -/

def getField (k : Str) : List (Str × Node) → Option Node
  | [] => none
  | (k', v) :: r => if k' = k then some v else getField k r

/-- `getattr(inst, name)`: `None` when nothing is stored -/
def fieldVal (n : Node) (k : String) : Node :=
  match getField k.toList n.fields with
  | some v => v
  | none => .val .none

/-- `type(n).__name__ == name` (classes are identified by their exported name) -/
def isCls (S : Schema) (name : String) (n : Node) : Bool :=
  match n.cls?, S.findIdx? name.toList with
  | some c, some i => c == i
  | _, _ => false

/-- every stored attribute outside `keep` is `None` -/
def othersNone (keep : List String) (n : Node) : Bool :=
  n.fields.all (fun p => keep.any (fun k => k.toList == p.1) || p.2.isNone)

/-! ### expectations -/

def emptyAsNone : Option Str → Option Str
  | some s => if s.isEmpty then none else some s
  | none => none

/-- same instant to the millisecond -/
def dtSame (a b : DT) : Bool :=
  decide (a = b) ||
    match Instant.dtInstantUs a, Instant.dtInstantUs b with
    | some x, some y => Instant.roundMs x == Instant.roundMs y
    | _, _ => false

/-- what is wanted of a data element -/
inductive Want where
  | str (s : Str)            -- exactly this text
  | ostr (s : Option Str)    -- this text; empty or `None` = absent
  | bool (b : Option Bool)
  | date (d : Option DT)     -- this instant; `None` = absent
  | year (s : Str)           -- the integer whose decimal text is `s`
  | anyStr                   -- some non-empty text (transaction ids)
  | absent
  deriving Repr, Inhabited

def Want.ok : Want → Node → Bool
  | .str s, .val (.str t) => decide (s = t)
  | .ostr o, n =>
    match emptyAsNone o, n with
    | none, .val .none => true
    | some s, .val (.str t) => decide (s = t)
    | _, _ => false
  | .bool (some b), .val (.bool c) => b == c
  | .bool none, .val .none => true
  | .date (some d), .val (.dt e) => dtSame d e
  | .date none, .val .none => true
  | .year s, .val (.int i) => decide (pyStrInt i = s)
  | .anyStr, .val (.str t) => !t.isEmpty
  | .absent, .val .none => true
  | _, _ => false

/-- what is wanted of an attribute: a data element, or an aggregate of the named class with the listed attributes,
    every other attribute unset, and the listed list members -/
inductive Exp where
  | leaf (w : Want)
  | agg (cls : String) (fields : List (String × Exp)) (items : List Want)
  deriving Inhabited

/-- pointwise check of two lists of equal length -/
def all2 (p : α → β → Bool) : List α → List β → Bool
  | [], [] => true
  | a :: as, b :: bs => p a b && all2 p as bs
  | _, _ => false

mutual
  def Exp.ok (S : Schema) : Exp → Node → Bool
    | .leaf w, n => w.ok n
    | .agg cls fs items, n =>
      isCls S cls n && all2 Want.ok items n.items && fieldsOk S fs n
        && othersNone (fieldNames fs) n
  def fieldsOk (S : Schema) : List (String × Exp) → Node → Bool
    | [], _ => true
    | (k, e) :: r, n => e.ok S (fieldVal n k) && fieldsOk S r n
  def fieldNames : List (String × Exp) → List String
    | [] => []
    | (k, _) :: r => k :: fieldNames r
end

/-! ### the sign-on -/

def wantClientuid (cfg : Cfg) : Want := if cfg.version ≥ 103 then .ostr cfg.clientuid else .absent

def wantFi (cfg : Cfg) : Exp :=
  if orgSet cfg then .agg "FI" [("org", .leaf (.ostr cfg.org)), ("fid", .leaf (.ostr cfg.fid))] []
  else .leaf .absent

/-- the content of the one `SONRQ` -/
def expSonrq (cfg : Cfg) (userid password : Str) (dtclient : DT) : List (String × Exp) :=
  [("dtclient", .leaf (.date (some dtclient))),
   ("userid", .leaf (.ostr (some userid))),
   ("userpass", .leaf (.ostr (some password))),
   ("language", .leaf (.ostr (some cfg.language))),
   ("fi", wantFi cfg),
   ("appid", .leaf (.ostr (some cfg.appid))),
   ("appver", .leaf (.ostr (some cfg.appver))),
   ("clientuid", .leaf (wantClientuid cfg))]

def clause (name : String) (ok : Bool) : List String := if ok then [] else [name]

/-- the sign-on message set `msgs` (a `SIGNONMSGSRQV1`) holds exactly the one `SONRQ` described by `expSonrq` -/
def signonClauses (S : Schema) (cfg : Cfg) (userid password : Str) (dtclient : DT) (msgs : Node) : List String :=
  let sonrq := fieldVal msgs "sonrq"
  let want := expSonrq cfg userid password dtclient
  clause "signon.shape"
      (isCls S "SIGNONMSGSRQV1" msgs && msgs.items.isEmpty && othersNone ["sonrq"] msgs
        && isCls S "SONRQ" sonrq && sonrq.items.isEmpty)
    ++ want.flatMap (fun p => clause ("signon." ++ p.1) (p.2.ok S (fieldVal sonrq p.1)))
    ++ clause "signon.extra" (othersNone (fieldNames want) sonrq)

/-! ### the wrappers -/

def expInctran (dtstart dtend : Option DT) (incl : Option Bool) : Exp :=
  .agg "INCTRAN" [("dtstart", .leaf (.date dtstart)), ("dtend", .leaf (.date dtend)),
                  ("include", .leaf (.bool incl))] []

def expBankAcct (cfg : Cfg) (acctid accttype : Option Str) : Exp :=
  .agg "BANKACCTFROM" [("bankid", .leaf (.ostr cfg.bankid)), ("acctid", .leaf (.ostr acctid)),
                       ("accttype", .leaf (.ostr accttype))] []

def expCcAcct (acctid : Option Str) : Exp := .agg "CCACCTFROM" [("acctid", .leaf (.ostr acctid))] []

/-- field placement of each request kind: what the wrapper of a request must contain -/
def expWrapper (cfg : Cfg) : Req → Exp
  | .stmt acctid accttype dtstart dtend inctran =>
    .agg "STMTTRNRQ" [("trnuid", .leaf .anyStr),
      ("stmtrq", .agg "STMTRQ" [("bankacctfrom", expBankAcct cfg acctid accttype),
                                ("inctran", expInctran dtstart dtend inctran)] [])] []
  | .stmtEnd acctid accttype dtstart dtend =>
    .agg "STMTENDTRNRQ" [("trnuid", .leaf .anyStr),
      ("stmtendrq", .agg "STMTENDRQ" [("bankacctfrom", expBankAcct cfg acctid accttype),
                                      ("dtstart", .leaf (.date dtstart)), ("dtend", .leaf (.date dtend))] [])] []
  | .ccStmt acctid dtstart dtend inctran =>
    .agg "CCSTMTTRNRQ" [("trnuid", .leaf .anyStr),
      ("ccstmtrq", .agg "CCSTMTRQ" [("ccacctfrom", expCcAcct acctid),
                                    ("inctran", expInctran dtstart dtend inctran)] [])] []
  | .ccStmtEnd acctid dtstart dtend =>
    .agg "CCSTMTENDTRNRQ" [("trnuid", .leaf .anyStr),
      ("ccstmtendrq", .agg "CCSTMTENDRQ" [("ccacctfrom", expCcAcct acctid),
                                          ("dtstart", .leaf (.date dtstart)), ("dtend", .leaf (.date dtend))] [])] []
  | .invStmt acctid dtstart dtend dtasof inctran incoo incpos incbal =>
    .agg "INVSTMTTRNRQ" [("trnuid", .leaf .anyStr),
      ("invstmtrq", .agg "INVSTMTRQ"
        [("invacctfrom", .agg "INVACCTFROM" [("brokerid", .leaf (.ostr cfg.brokerid)),
                                             ("acctid", .leaf (.ostr acctid))] []),
         -- transactions are asked for (with their date range) iff the flag is set
         ("inctran", if flagSet inctran then expInctran dtstart dtend inctran else .leaf .absent),
         ("incoo", .leaf (.bool incoo)),
         ("incpos", .agg "INCPOS" [("dtasof", .leaf (.date dtasof)), ("include", .leaf (.bool incpos))] []),
         ("incbal", .leaf (.bool incbal))] [])] []

/-- the request kinds carried by each message set -/
def kindsUnder : MsgSet → List RKind
  | .bank => [.stmt, .stmtEnd]
  | .creditcard => [.ccStmt, .ccStmtEnd]
  | .invstmt => [.invStmt]

def allMsgSets : List MsgSet := [.bank, .creditcard, .invstmt]

def isWrapper (S : Schema) (k : RKind) (n : Node) : Bool := isCls S k.wrapperName n

def msgsetClauses (S : Schema) (cfg : Cfg) (reqs : List Req) (m : MsgSet) (root : Node) : List String :=
  let node := fieldVal root m.attrName
  let asked := reqs.filter (fun r => decide (r.kind.msgset = m))
  if asked.isEmpty then clause ("msgset." ++ m.attrName ++ ".absent") node.isNone
  else
    clause ("msgset." ++ m.attrName ++ ".shape") (isCls S m.className node && othersNone [] node)
      ++ clause ("msgset." ++ m.attrName ++ ".foreign")
          (node.items.all (fun w => (kindsUnder m).any (fun k => isWrapper S k w)))
      ++ (kindsUnder m).flatMap (fun k =>
          clause ("wrappers." ++ k.wrapperName)
            (all2 (fun rq w => (expWrapper cfg rq).ok S w)
              (reqs.filter (fun r => decide (r.kind = k))) (node.items.filter (isWrapper S k))))

/-! ### transaction ids -/

def strOf : Node → Option Str
  | .val (.str s) => some s
  | _ => none

def nodupB [DecidableEq α] : List α → Bool
  | [] => true
  | a :: l => !l.contains a && nodupB l

/-- the TRNUID of every list member of the listed message sets -/
def trnuidsOf (attrs : List String) (root : Node) : List (Option Str) :=
  attrs.flatMap (fun a => (fieldVal root a).items.map (fun w => strOf (fieldVal w "trnuid")))

def trnuidClause (attrs : List String) (root : Node) : List String :=
  let ids := trnuidsOf attrs root
  clause "trnuid.distinct" (ids.all Option.isSome && nodupB ids)

/-! ### the whole request -/

def rootClauses (S : Schema) (attrs : List String) (root : Node) : List String :=
  clause "root.shape" (isCls S "OFX" root && root.items.isEmpty)
    ++ clause "root.extra" (othersNone ("signonmsgsrqv1" :: attrs) root)

def headerClause (cfgVersion : Nat) (hdrVersion : Int) : List String :=
  clause "header.version" (decide (hdrVersion = Int.ofNat cfgVersion))

/-- `request_statements(password, *reqs)` -/
def check (S : Schema) (cfg : Cfg) (password : Str) (dtclient : DT) (reqs : List Req) (hdrVersion : Int)
    (root : Node) : List String :=
  headerClause cfg.version hdrVersion
    ++ rootClauses S (allMsgSets.map (·.attrName)) root
    ++ signonClauses S cfg cfg.userid password dtclient (fieldVal root "signonmsgsrqv1")
    ++ allMsgSets.flatMap (fun m => msgsetClauses S cfg reqs m root)
    ++ trnuidClause (allMsgSets.map (·.attrName)) root

def RequestSpec (S : Schema) (cfg : Cfg) (password : Str) (dtclient : DT) (reqs : List Req) (hdrVersion : Int)
    (root : Node) : Prop :=
  check S cfg password dtclient reqs hdrVersion root = []

instance : Decidable (RequestSpec S cfg pw dt reqs hv root) := by unfold RequestSpec; infer_instance

/-- a request consisting of the sign-on and one message set holding one wrapper -/
def checkSingle (S : Schema) (cfg : Cfg) (userid password : Str) (dtclient : DT) (hdrVersion : Int)
    (cfgVersion : Nat) (attr msgCls label : String) (want : Exp) (root : Node) : List String :=
  let node := fieldVal root attr
  headerClause cfgVersion hdrVersion
    ++ rootClauses S [attr] root
    ++ signonClauses S cfg userid password dtclient (fieldVal root "signonmsgsrqv1")
    ++ clause ("msgset." ++ attr ++ ".shape") (isCls S msgCls node && othersNone [] node)
    ++ clause ("wrappers." ++ label) (all2 (fun (e : Exp) w => e.ok S w) [want] node.items)
    ++ trnuidClause [attr] root

/-- `request_accounts(password, dtacctup)` -/
def checkAccounts (S : Schema) (cfg : Cfg) (password : Str) (dtclient : DT) (dtacctup : Option DT)
    (hdrVersion : Int) (root : Node) : List String :=
  checkSingle S cfg cfg.userid password dtclient hdrVersion cfg.version "signupmsgsrqv1" "SIGNUPMSGSRQV1"
    "ACCTINFOTRNRQ"
    (.agg "ACCTINFOTRNRQ" [("trnuid", .leaf .anyStr),
      ("acctinforq", .agg "ACCTINFORQ" [("dtacctup", .leaf (.date dtacctup))] [])] []) root

/-- `_request_profile(dtprofup, version=…)`: anonymous sign-on; the header carries the version asked for in the
    call when one is given -/
def checkProfile (S : Schema) (cfg : Cfg) (dtclient : DT) (dtprofup : Option DT) (version : Option Nat)
    (hdrVersion : Int) (root : Node) : List String :=
  checkSingle S cfg authPlaceholder authPlaceholder dtclient hdrVersion (orDefault version cfg.version)
    "profmsgsrqv1" "PROFMSGSRQV1" "PROFTRNRQ"
    (.agg "PROFTRNRQ" [("trnuid", .leaf .anyStr),
      ("profrq", .agg "PROFRQ" [("clientrouting", .leaf (.str "NONE".toList)),
                                ("dtprofup", .leaf (.date (some (orDefault dtprofup defaultDtprofup))))] [])] []) root

/-- what `TAX1099RQ` must say: the account number and record id asked for, and the tax years in order -/
def expTaxRq (taxyears : List Str) (acctnum recid : Option Str) : Exp :=
  .agg "TAX1099RQ" [("acctnum", .leaf (.ostr acctnum)), ("recid", .leaf (.ostr recid))] (taxyears.map .year)

/-- `request_tax1099(password, *taxyears, acctnum=…, recid=…)` -/
def checkTax (S : Schema) (cfg : Cfg) (password : Str) (dtclient : DT) (taxyears : List Str)
    (acctnum recid : Option Str) (hdrVersion : Int) (root : Node) : List String :=
  checkSingle S cfg cfg.userid password dtclient hdrVersion cfg.version "tax1099msgsrqv1" "TAX1099MSGSRQV1"
    "TAX1099TRNRQ"
    (.agg "TAX1099TRNRQ" [("trnuid", .leaf .anyStr), ("tax1099rq", expTaxRq taxyears acctnum recid)] []) root

end Ofx.Spec.Request
