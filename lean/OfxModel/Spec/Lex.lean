/-
C11, leaf part: the OFX lexical rule of each element type, written without reference to the converters.

* boolean       `Y | N`
* integer       `[+-]?[0-9]+`
* decimal       `[+-]?[0-9]*[.,]?[0-9]*` with at least one digit (no exponent, `NaN`, `Infinity`)
* enumeration   one of the declared tokens
* string        `len ≤ length` when a (strict) limit is declared; warn-only strings (`NagString`) are kept whole
* date-time / time: supplied by the date-time layer through `LexExt`
-/
import OfxModel.Ofx.Schema

namespace Ofx.Spec

/-- ASCII digit -/
def isDigitC (c : Char) : Bool := decide ('0' ≤ c ∧ c ≤ '9')

def dropSign : Str → Str
  | '+' :: r => r
  | '-' :: r => r
  | s => s

/-- `[+-]?[0-9]+` -/
def lexInteger (s : Str) : Bool :=
  let b := dropSign s
  !b.isEmpty && b.all isDigitC

/-- `[0-9]*[.,]?[0-9]*` with at least one digit, on the unsigned part -/
def lexDecimalBody (b : Str) : Bool :=
  let ip := b.takeWhile isDigitC
  let r := b.dropWhile isDigitC
  match r with
  | [] => !ip.isEmpty
  | c :: fp => (c = '.' || c = ',') && fp.all isDigitC && (!ip.isEmpty || !fp.isEmpty)

/-- `[+-]?[0-9]*[.,]?[0-9]*` with at least one digit -/
def lexDecimal (s : Str) : Bool := lexDecimalBody (dropSign s)

/-- lexical rules owned by other layers (date-time, time) -/
structure LexExt where
  datetime : Str → Bool
  time : Str → Bool

/-- the lexical rule of an element kind; aggregates carry no text -/
def Lex (ext : LexExt) (enums : List (List Str)) : Kind → Str → Bool
  | .bool, s => s = ['Y'] || s = ['N']
  | .string (some n) true, s => decide (s.length ≤ n)
  | .string _ _, _ => true
  | .oneOf e, s =>
    match enums[e]? with
    | some valid => valid.contains s
    | none => false
  | .integer _, s => lexInteger s
  | .decimal _, s => lexDecimal s
  | .datetime, s => ext.datetime s
  | .time, s => ext.time s
  | .listElem k _, s => Lex ext enums k s
  | .sub _, _ => false
  | .listAgg _, _ => false
  | .unsupported, _ => false

/-- placeholder used by the driver until the date-time layer supplies its rules -/
def LexExt.none : LexExt := { datetime := fun _ => false, time := fun _ => false }

end Ofx.Spec
