/-
C13, constructibility: for every class and every declared child a *description* of a call
`Cls(*args, **kwargs)` (recursively: sub-aggregates and list members are descriptions themselves) whose
result holds that child.  Written from the class table alone (`spec`, the exclusivity groups, the hand-coded
`validate_args` rule of the class), independently of `Agg.construct`:

  * every required non-repeated child is given (sub-aggregates recursively, with fuel), plus the wanted child;
  * every exactly-one group gets the wanted child when it is a member, otherwise its first supported member
    (for `OFX`: the member of the same request/response family as the wanted child);
  * no other optional child is given, so at-most-one groups hold;
  * what the hand-coded rule of the class asks for in addition (`SONRQ`: user id and password unless the user key
    is wanted; `CONTRIBSECURITY`: a second keyword of the same family; `EXTDPMT`: the description; `EXTDPAYEE`:
    scope and name with the payee id; `TAX1099R_V100`: `IRASEPSIMP` with the amounts that need it; the
    "at least one member" classes: a member of the first list, for `TAX1099RS` of the first `TAX1099…` list).

A description is a `Node`: `.agg ci kwargs args` with *raw* keyword values (what the caller passes); `build` runs
the constructors bottom-up.
-/
import OfxModel.Ofx.Agg

namespace Ofx.Spec.Witness
open Ofx Ofx.Agg

def utc : Tz := ⟨0, some "UTC".toList⟩

/-- the canonical value of an element type, as the caller passes it -/
def canonVal (enums : List (List Str)) : Kind → Option Val
  | .bool => some (.bool true)
  | .string _ _ => some (.str ['A'])
  | .oneOf e =>
    match enums[e]? with
    | some (t :: _) => some (.str t)
    | _ => none
  | .integer _ => some (.int 1)
  | .decimal _ => some (.dec (.fin false 1 0))
  | .datetime => some (.dt ⟨2020, 1, 2, 3, 4, 5, 0, some utc⟩)
  | .time => some (.tm ⟨3, 4, 5, 0, some utc⟩)
  | .listElem k _ => canonVal enums k
  | .sub _ => none
  | .listAgg _ => none
  | .unsupported => none

/-- a non-repeated child the writer emits -/
def plain (a : Attr) : Bool := !a.kind.isList && !a.kind.isUnsupported

/-- a child C13 speaks about: declared and supported -/
def supported (a : Attr) : Bool := !a.kind.isUnsupported

def isPlainName (c : Cls) (m : Str) : Bool :=
  match c.attr? m with
  | some a => plain a
  | none => false

/-- the member of an exactly-one group that is given -/
def pickMember (c : Cls) (force : Option Str) (g : List Str) : Option Str :=
  let cands := g.filter (isPlainName c)
  match force with
  | some f =>
    if g.contains f then some f
    else match c.extra with
      | .ofx =>
        (match cands.find? (fun m => lastN 7 m = lastN 7 f) with
         | some m => some m
         | none => cands.head?)
      | _ => cands.head?
  | none => cands.head?

def s (x : String) : Str := x.toList

/-- the keywords the hand-coded rule of the class asks for in addition -/
def extraNames (c : Cls) (force : Option Str) : List Str :=
  match c.extra with
  | .sonrq => if force = some (s "userkey") then [] else [s "userid", s "userpass"]
  | .contribsecurity =>
    let other := ((c.spec.filter (fun a => plain a && !a.required)).map (·.name)).head?.toList
    (match force with
     | none => other
     | some f => if isPlainName c f && f ≠ s "secid" then [] else other)
  | .extdpmt => [s "extdpmtdsc"]
  | .extdpayee => if force = some (s "payeeid") then [s "idscope", s "name"] else []
  | .tax1099r =>
    (match force with
     | some f =>
       if [s "grossdist", s "taxamt", s "fedtaxwh", s "sttaxwh", s "lcltaxwh"].contains f then [s "irasepsimp"] else []
     | none => [])
  | _ => []

/-- names of the non-repeated children that are given -/
def presentNames (c : Cls) (force : Option Str) : List Str :=
  ((c.spec.filter (fun a => a.required)).map (·.name)) ++ force.toList ++
  (c.reqMutex.filterMap (pickMember c force)) ++ extraNames c force

/-- the hand-coded rules that ask for at least one member -/
def needMember : ExtraRule → Bool
  | .msgsetcore | .msgsetlist | .mfachallengers | .contribinfo
  | .tax1099msgsrqv1 | .tax1099msgsrsv1 | .tax1099msgsetv1 | .acctinfo | .tax1099rs => true
  | _ => false

/-- the repeated children of which one member is given -/
def memberAttrs (c : Cls) (force : Option Str) : List Attr :=
  let lists := c.spec.filter (fun a => a.kind.isList)
  let forced := lists.filter (fun a => some a.name = force)
  let isTax (a : Attr) : Bool := (s "tax1099").isPrefixOf a.name
  let more : List Attr :=
    match c.extra with
    | .tax1099rs => if forced.any isTax then [] else (lists.find? isTax).toList
    | r => if needMember r && forced.isEmpty then lists.head?.toList else []
  forced ++ more

/-- **the description** of an instance of class `ci` holding the child `force` (`none`: the minimal instance) -/
def mk (S : Schema) : Nat → Nat → Option Str → Option Node
  | 0, _, _ => none
  | fuel + 1, ci, force =>
    match S.cls? ci with
    | none => none
    | some c =>
      let names := presentNames c force
      let kwAttrs := c.spec.filter (fun a => plain a && names.contains a.name)
      match kwAttrs.mapM (fun a =>
          match a.kind with
          | .sub t => (mk S fuel t none).map (fun d => (a.name, d))
          | k => (canonVal S.enums k).map (fun v => (a.name, Node.val v))) with
      | none => none
      | some kw =>
        match (memberAttrs c force).mapM (fun a =>
            match a.kind with
            | .listAgg t => mk S fuel t none
            | k => (canonVal S.enums k).map Node.val) with
        | none => none
        | some args => some (.agg ci kw args)

/-- depth bound used for the generated schema -/
def defaultFuel : Nat := 12

/-- `mkWith S fuel ci a`: the description of an instance of class `ci` that holds the declared child `a` -/
def mkWith (S : Schema) (fuel ci : Nat) (a : Attr) : Option Node := mk S fuel ci (some a.name)

mutual
  /-- run the constructors of a description bottom-up: `Cls(*[build m …], **{k: build v …})` -/
  def build (S : Schema) (cv : Conv) : Node → PyM Node
    | .val v => .ok (.val v)
    | .agg ci kw args =>
      match buildKw S cv kw with
      | .error e => .error e
      | .ok kw' =>
        match buildArgs S cv args with
        | .error e => .error e
        | .ok args' => construct S cv ci args' kw'
  def buildKw (S : Schema) (cv : Conv) : List (Str × Node) → PyM (List (Str × Node))
    | [] => .ok []
    | (n, v) :: r =>
      match build S cv v with
      | .error e => .error e
      | .ok v' =>
        match buildKw S cv r with
        | .error e => .error e
        | .ok r' => .ok ((n, v') :: r')
  def buildArgs (S : Schema) (cv : Conv) : List Node → PyM (List Node)
    | [] => .ok []
    | v :: r =>
      match build S cv v with
      | .error e => .error e
      | .ok v' =>
        match buildArgs S cv r with
        | .error e => .error e
        | .ok r' => .ok (v' :: r')
end

/-- the instance holds the child `a` -/
def holds (a : Attr) : Node → Bool
  | .agg _ fields items =>
    (match a.kind with
     | .listAgg t => items.any (fun m => m.cls? == some t)
     | .listElem .. => !items.isEmpty
     | _ =>
       match lookup a.name fields with
       | some v => notNone v
       | none => false)
  | .val _ => false

/-- the tag the writer puts the child `a` of class `c` under (`ungroom` renames one) -/
def wireTag (c : Cls) (a : Attr) : Str :=
  match c.ungroom with
  | some u => if upper a.name = u.fromTag then u.toTag else upper a.name
  | none => upper a.name

/-! ### structural equality of instances (a `Bool`, for the kernel and the driver) -/

mutual
  def nodeBeq : Node → Node → Bool
    | .val a, .val b => decide (a = b)
    | .agg c f i, .agg c' f' i' => decide (c = c') && fieldsBeq f f' && itemsBeq i i'
    | _, _ => false
  def fieldsBeq : List (Str × Node) → List (Str × Node) → Bool
    | [], [] => true
    | (n, v) :: r, (n', v') :: r' => decide (n = n') && nodeBeq v v' && fieldsBeq r r'
    | _, _ => false
  def itemsBeq : List Node → List Node → Bool
    | [], [] => true
    | v :: r, v' :: r' => nodeBeq v v' && itemsBeq r r'
    | _, _ => false
end

/-- the (class, child) pairs of a schema C13 speaks about: concrete exported classes × supported attributes -/
def pairs (S : Schema) : List (Nat × Attr) :=
  (List.range S.classes.length).flatMap fun ci =>
    match S.classes[ci]? with
    | some c => if c.abstract || !c.exported then [] else (c.spec.filter supported).map (fun a => (ci, a))
    | none => []

/-- the description exists, the constructors accept it, and the result holds the child -/
def builtOk (S : Schema) (cv : Conv) (fuel ci : Nat) (a : Attr) : Bool :=
  match mkWith S fuel ci a with
  | none => false
  | some d =>
    match build S cv d with
    | .ok n => holds a n
    | .error _ => false

end Ofx.Spec.Witness
