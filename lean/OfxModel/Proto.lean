/-
Line protocol shared by the Lean driver and the Python harness.

One request per line, one reply per line.  A line is a sequence of S-expressions
separated by blanks; atoms are runs of characters other than blank and parentheses.
Strings travel as atoms `x<hex of UTF-8>` (the empty string is `x`), integers as
decimal atoms with an optional leading `-`.  No quoting rules exist.
-/

namespace Ofx

/-- Model strings are lists of characters; `String` appears only at the I/O boundary. -/
abbrev Str := List Char

inductive SExp where
  | atom (s : String)
  | list (xs : List SExp)
  deriving Repr, Inhabited, BEq

namespace SExp

partial def toStr : SExp → String
  | atom s => s
  | list xs => "(" ++ " ".intercalate (xs.map toStr) ++ ")"

/-- Tokenise a line into `(`, `)` and atoms. -/
def tokens (s : String) : List String :=
  let rec go (cs : List Char) (cur : List Char) (acc : List String) : List String :=
    let flush := fun (_ : Unit) => if cur.isEmpty then acc else (String.ofList cur.reverse) :: acc
    match cs with
    | [] => (flush ()).reverse
    | c :: cs =>
      if c = '(' then go cs [] ("(" :: flush ())
      else if c = ')' then go cs [] (")" :: flush ())
      else if c = ' ' || c = '\n' || c = '\r' || c = '\t' then go cs [] (flush ())
      else go cs (c :: cur) acc
  go s.toList [] []

/-- Parse a token list into a sequence of S-expressions. -/
partial def parseSeq : List String → List SExp → Option (List SExp × List String)
  | [], acc => some (acc.reverse, [])
  | ")" :: rest, acc => some (acc.reverse, ")" :: rest)
  | "(" :: rest, acc =>
    match parseSeq rest [] with
    | some (xs, ")" :: rest') => parseSeq rest' (list xs :: acc)
    | _ => none
  | t :: rest, acc => parseSeq rest (atom t :: acc)

def parseLine (s : String) : Option (List SExp) :=
  match parseSeq (tokens s) [] with
  | some (xs, []) => some xs
  | _ => none

end SExp

/-! ### hex / UTF-8 -/

def hexDigit (n : Nat) : Char :=
  if n < 10 then Char.ofNat (48 + n) else Char.ofNat (87 + n)

def hexVal (c : Char) : Option Nat :=
  if '0' ≤ c ∧ c ≤ '9' then some (c.toNat - 48)
  else if 'a' ≤ c ∧ c ≤ 'f' then some (c.toNat - 87)
  else if 'A' ≤ c ∧ c ≤ 'F' then some (c.toNat - 55)
  else none

def bytesToHex (b : ByteArray) : String :=
  String.ofList (b.toList.foldr (fun x acc => hexDigit (x.toNat / 16) :: hexDigit (x.toNat % 16) :: acc) [])

def hexToBytes (cs : List Char) : Option (List UInt8) :=
  match cs with
  | [] => some []
  | a :: b :: rest => do
    let x ← hexVal a
    let y ← hexVal b
    let r ← hexToBytes rest
    pure (UInt8.ofNat (16 * x + y) :: r)
  | _ => none

/-- Encode a model string as a protocol atom. -/
def encStr (s : Str) : SExp := .atom ("x" ++ bytesToHex (String.ofList s).toUTF8)

def encString (s : String) : SExp := .atom ("x" ++ bytesToHex s.toUTF8)

def encBytes (b : List UInt8) : SExp := .atom ("x" ++ bytesToHex ⟨b.toArray⟩)

def decBytes : SExp → Option (List UInt8)
  | .atom a =>
    match a.toList with
    | 'x' :: rest => hexToBytes rest
    | _ => none
  | _ => none

def decStr (e : SExp) : Option Str := do
  let bs ← decBytes e
  let s ← String.fromUTF8? ⟨bs.toArray⟩
  pure s.toList

def decInt : SExp → Option Int
  | .atom a => a.toInt?
  | _ => none

def decNat : SExp → Option Nat
  | .atom a => a.toNat?
  | _ => none

def encInt (i : Int) : SExp := .atom (toString i)
def encNat (n : Nat) : SExp := .atom (toString n)
def encBool (b : Bool) : SExp := .atom (if b then "T" else "F")

def decBool : SExp → Option Bool
  | .atom "T" => some true
  | .atom "F" => some false
  | _ => none

def decList (f : SExp → Option α) : SExp → Option (List α)
  | .list xs => xs.mapM f
  | _ => none

def encOpt (f : α → SExp) : Option α → SExp
  | none => .atom "none"
  | some a => .list [.atom "some", f a]

def decOpt (f : SExp → Option α) : SExp → Option (Option α)
  | .atom "none" => some none
  | .list [.atom "some", a] => (f a).map some
  | _ => none

/-- Reply helpers. -/
def replyOk (xs : List SExp) : String := (SExp.list (.atom "ok" :: xs)).toStr
def replyErr (kind : String) : String := (SExp.list [.atom "err", .atom kind]).toStr
def replyBad : String := "(bad-op)"

end Ofx
