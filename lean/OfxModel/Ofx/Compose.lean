/-
Model of the request-composition part of `ofxtools/Client.py`:

  `OFXClient.__init__`                       → `init`            (class defaults, the version/close_elements guard)
  `StmtRq, CcStmtRq, InvStmtRq, StmtEndRq, CcStmtEndRq`           → `Req`
  `signon`                                   → `signon`
  `stmttrnrq, stmtendtrnrq, ccstmttrnrq, ccstmtendtrnrq, invstmttrnrq` → the five builders
  `wrap_stmtrq` (singledispatch)             → `wrap`
  `request_statements`                       → `requestStatements`  (the `OFX` instance) / `statementsBytes`
  `request_accounts`, `_request_profile`, `request_tax1099`        → `requestAccounts`, `requestProfile`, `requestTax`
  `serialize`                                → `serializeReq`

Everything is generic in the schema `S` and the converters `cv`: instances are built by `Agg.construct` with the
class looked up *by name* (`mk`), exactly as the Python names are resolved in the module namespace.

External calls are parameters: `uuidStream : Nat → Str` (the n-th value `OFXClient.uuid` returns within one
request), `dtclient : DT` (what `self.dtclient()` returns).

`sorted(key=…)` is `sortBy` (stable insertion sort; the output of a stable sort is unique), `itertools.groupby`
is `groupBy` (runs of consecutive equal keys).
-/
import OfxModel.Py.Str
import OfxModel.Ofx.Agg
import OfxModel.Ofx.Header
import OfxModel.Ofx.Serialize

namespace Ofx.Compose
open Ofx Ofx.Agg

/-! ### `sorted` and `itertools.groupby` -/

/-- insert `a` in front of the first element whose key is not smaller (so `a`, which precedes all of `l` in the
    original order, stays in front of the elements with an equal key) -/
def insertBy (le : κ → κ → Bool) (key : α → κ) (a : α) : List α → List α
  | [] => [a]
  | b :: l => if le (key a) (key b) then a :: b :: l else b :: insertBy le key a l

/-- `sorted(l, key=key)` -/
def sortBy (le : κ → κ → Bool) (key : α → κ) : List α → List α
  | [] => []
  | a :: l => insertBy le key a (sortBy le key l)

/-- `[(k, list(g)) for k, g in itertools.groupby(l, key=key)]` -/
def groupBy [DecidableEq κ] (key : α → κ) : List α → List (κ × List α)
  | [] => []
  | a :: l =>
    match groupBy key l with
    | (k, g) :: rest => if key a = k then (k, a :: g) :: rest else (key a, [a]) :: (k, g) :: rest
    | [] => [(key a, [a])]

/-- `a <= b` on `str` (code-point lexicographic order) -/
def strLe : Str → Str → Bool
  | [], _ => true
  | _ :: _, [] => false
  | a :: as, b :: bs => if a.toNat < b.toNat then true else if b.toNat < a.toNat then false else strLe as bs

/-! ### configuration -/

/-- attribute values of an `OFXClient` instance after `__init__` -/
structure Cfg where
  url : Str
  userid : Str
  clientuid : Option Str
  org : Option Str
  fid : Option Str
  version : Nat
  appid : Str
  appver : Str
  language : Str
  prettyprint : Bool
  closeElements : Bool
  bankid : Option Str
  brokerid : Option Str
  deriving Repr, DecidableEq, Inhabited

/-- arguments of `OFXClient(...)`; `none` = not given (class default stays) -/
structure InitArgs where
  url : Str
  userid : Option Str := none
  clientuid : Option Str := none
  org : Option Str := none
  fid : Option Str := none
  version : Option Nat := none
  appid : Option Str := none
  appver : Option Str := none
  language : Option Str := none
  prettyprint : Option Bool := none
  closeElements : Option Bool := none
  bankid : Option Str := none
  brokerid : Option Str := none
  deriving Repr, Inhabited

/-- `AUTH_PLACEHOLDER = "{:0<32}".format("anonymous")` -/
def authPlaceholder : Str := "anonymous".toList ++ List.replicate 23 '0'

/-- `value if value is not None else class default` -/
def orDefault (v : Option α) (d : α) : α :=
  match v with
  | some x => x
  | none => d

/-- `OFXClient.__init__`: class defaults, then `(not close_elements) and version >= 200` → ValueError -/
def init (a : InitArgs) : PyM Cfg :=
  let cfg : Cfg :=
    { url := a.url
      userid := orDefault a.userid authPlaceholder
      clientuid := a.clientuid
      org := a.org
      fid := a.fid
      version := orDefault a.version 203
      appid := orDefault a.appid "QWIN".toList
      appver := orDefault a.appver "2700".toList
      language := orDefault a.language "ENG".toList
      prettyprint := orDefault a.prettyprint false
      closeElements := orDefault a.closeElements true
      bankid := a.bankid
      brokerid := a.brokerid }
  if !cfg.closeElements && cfg.version ≥ 200 then .error .value else .ok cfg

/-! ### requests -/

/-- the five NamedTuples (fields in declaration order) -/
inductive Req where
  | stmt (acctid accttype : Option Str) (dtstart dtend : Option DT) (inctran : Option Bool)
  | ccStmt (acctid : Option Str) (dtstart dtend : Option DT) (inctran : Option Bool)
  | invStmt (acctid : Option Str) (dtstart dtend dtasof : Option DT) (inctran incoo incpos incbal : Option Bool)
  | stmtEnd (acctid accttype : Option Str) (dtstart dtend : Option DT)
  | ccStmtEnd (acctid : Option Str) (dtstart dtend : Option DT)
  deriving Repr, DecidableEq, Inhabited

/-- the class of a request -/
inductive RKind where
  | ccStmtEnd | ccStmt | invStmt | stmtEnd | stmt
  deriving Repr, DecidableEq, Inhabited

def Req.kind : Req → RKind
  | .stmt .. => .stmt
  | .ccStmt .. => .ccStmt
  | .invStmt .. => .invStmt
  | .stmtEnd .. => .stmtEnd
  | .ccStmtEnd .. => .ccStmtEnd

/-- `rq.__class__.__name__` -/
def RKind.className : RKind → Str
  | .stmt => "StmtRq".toList
  | .ccStmt => "CcStmtRq".toList
  | .invStmt => "InvStmtRq".toList
  | .stmtEnd => "StmtEndRq".toList
  | .ccStmtEnd => "CcStmtEndRq".toList

/-- the order `sorted(requests, key=attrgetter("__class__.__name__"))` uses -/
def RKind.le (a b : RKind) : Bool := strLe a.className b.className

/-- the message-set classes `wrap_stmtrq` returns -/
inductive MsgSet where
  | bank | creditcard | invstmt
  deriving Repr, DecidableEq, Inhabited

def MsgSet.className : MsgSet → String
  | .bank => "BANKMSGSRQV1"
  | .creditcard => "CREDITCARDMSGSRQV1"
  | .invstmt => "INVSTMTMSGSRQV1"

/-- `msgcls.__name__.lower()` -/
def MsgSet.attrName : MsgSet → String
  | .bank => "bankmsgsrqv1"
  | .creditcard => "creditcardmsgsrqv1"
  | .invstmt => "invstmtmsgsrqv1"

/-- the order `trnrqs.sort(key=lambda pair: pair[0].__name__)` uses -/
def MsgSet.le (a b : MsgSet) : Bool := strLe a.className.toList b.className.toList

/-- which message set `wrap_stmtrq` dispatches a request class to -/
def RKind.msgset : RKind → MsgSet
  | .stmt => .bank
  | .stmtEnd => .bank
  | .ccStmt => .creditcard
  | .ccStmtEnd => .creditcard
  | .invStmt => .invstmt

/-- the `*TRNRQ` class wrapping a request of this kind -/
def RKind.wrapperName : RKind → String
  | .stmt => "STMTTRNRQ"
  | .stmtEnd => "STMTENDTRNRQ"
  | .ccStmt => "CCSTMTTRNRQ"
  | .ccStmtEnd => "CCSTMTENDTRNRQ"
  | .invStmt => "INVSTMTTRNRQ"

/-! ### building instances -/

def sv (s : Str) : Node := .val (.str s)

def osv : Option Str → Node
  | some s => .val (.str s)
  | none => .val .none

def odt : Option DT → Node
  | some d => .val (.dt d)
  | none => .val .none

def obv : Option Bool → Node
  | some b => .val (.bool b)
  | none => .val .none

/-- a keyword argument -/
def kv (k : String) (v : Node) : Str × Node := (k.toList, v)

/-- `NAME(*args, **kw)` with `NAME` resolved in `ofxtools.models` -/
def mk (S : Schema) (cv : Conv) (name : String) (args : List Node) (kw : List (Str × Node)) : PyM Node :=
  match S.findIdx? name.toList with
  | some ci => construct S cv ci args kw
  | none => .error .attr

/-- `if self.org:` -/
def orgSet (cfg : Cfg) : Bool :=
  match cfg.org with
  | some o => !o.isEmpty
  | none => false

/-- `FI(org=self.org, fid=self.fid) if self.org else None` -/
def fiNode (S : Schema) (cv : Conv) (cfg : Cfg) : PyM Node :=
  if orgSet cfg then mk S cv "FI" [] [kv "org" (osv cfg.org), kv "fid" (osv cfg.fid)]
  else pure (Node.val .none)

/-- `OFXClient.signon(userpass, userid=None)` -/
def signon (S : Schema) (cv : Conv) (cfg : Cfg) (userpass : Str) (userid : Option Str) (dtclient : DT) :
    PyM Node := do
  let fi ← fiNode S cv cfg
  let userid := orDefault userid cfg.userid
  let clientuid := if cfg.version < 103 then none else cfg.clientuid
  let sonrq ← mk S cv "SONRQ" []
    [kv "dtclient" (.val (.dt dtclient)), kv "userid" (sv userid), kv "userpass" (sv userpass),
     kv "language" (sv cfg.language), kv "fi" fi, kv "sesscookie" (.val .none), kv "appid" (sv cfg.appid),
     kv "appver" (sv cfg.appver), kv "clientuid" (osv clientuid)]
  mk S cv "SIGNONMSGSRQV1" [] [kv "sonrq" sonrq]

/-- `OFXClient.stmttrnrq` -/
def stmttrnrq (S : Schema) (cv : Conv) (bankid acctid accttype : Option Str) (dtstart dtend : Option DT)
    (inctran : Option Bool) (uuid : Str) : PyM Node := do
  let acct ← mk S cv "BANKACCTFROM" [] [kv "bankid" (osv bankid), kv "acctid" (osv acctid), kv "accttype" (osv accttype)]
  let inc ← mk S cv "INCTRAN" [] [kv "dtstart" (odt dtstart), kv "dtend" (odt dtend), kv "include" (obv inctran)]
  let rq ← mk S cv "STMTRQ" [] [kv "bankacctfrom" acct, kv "inctran" inc]
  mk S cv "STMTTRNRQ" [] [kv "trnuid" (sv uuid), kv "stmtrq" rq]

/-- `OFXClient.stmtendtrnrq` -/
def stmtendtrnrq (S : Schema) (cv : Conv) (bankid acctid accttype : Option Str) (dtstart dtend : Option DT)
    (uuid : Str) : PyM Node := do
  let acct ← mk S cv "BANKACCTFROM" [] [kv "bankid" (osv bankid), kv "acctid" (osv acctid), kv "accttype" (osv accttype)]
  let rq ← mk S cv "STMTENDRQ" [] [kv "bankacctfrom" acct, kv "dtstart" (odt dtstart), kv "dtend" (odt dtend)]
  mk S cv "STMTENDTRNRQ" [] [kv "trnuid" (sv uuid), kv "stmtendrq" rq]

/-- `OFXClient.ccstmttrnrq` -/
def ccstmttrnrq (S : Schema) (cv : Conv) (acctid : Option Str) (dtstart dtend : Option DT)
    (inctran : Option Bool) (uuid : Str) : PyM Node := do
  let acct ← mk S cv "CCACCTFROM" [] [kv "acctid" (osv acctid)]
  let inc ← mk S cv "INCTRAN" [] [kv "dtstart" (odt dtstart), kv "dtend" (odt dtend), kv "include" (obv inctran)]
  let rq ← mk S cv "CCSTMTRQ" [] [kv "ccacctfrom" acct, kv "inctran" inc]
  mk S cv "CCSTMTTRNRQ" [] [kv "trnuid" (sv uuid), kv "ccstmtrq" rq]

/-- `OFXClient.ccstmtendtrnrq` -/
def ccstmtendtrnrq (S : Schema) (cv : Conv) (acctid : Option Str) (dtstart dtend : Option DT) (uuid : Str) :
    PyM Node := do
  let acct ← mk S cv "CCACCTFROM" [] [kv "acctid" (osv acctid)]
  let rq ← mk S cv "CCSTMTENDRQ" [] [kv "ccacctfrom" acct, kv "dtstart" (odt dtstart), kv "dtend" (odt dtend)]
  mk S cv "CCSTMTENDTRNRQ" [] [kv "trnuid" (sv uuid), kv "ccstmtendrq" rq]

/-- `if inctran:` on an `Optional[bool]` -/
def flagSet : Option Bool → Bool
  | some b => b
  | none => false

/-- `INCTRAN(dtstart=…, dtend=…, include=inctran) if inctran else None` -/
def invInctran (S : Schema) (cv : Conv) (dtstart dtend : Option DT) (inctran : Option Bool) : PyM Node :=
  if flagSet inctran then
    mk S cv "INCTRAN" [] [kv "dtstart" (odt dtstart), kv "dtend" (odt dtend), kv "include" (obv inctran)]
  else pure (Node.val .none)

/-- `OFXClient.invstmttrnrq` -/
def invstmttrnrq (S : Schema) (cv : Conv) (acctid brokerid : Option Str) (dtstart dtend : Option DT)
    (inctran incoo : Option Bool) (dtasof : Option DT) (incpos incbal : Option Bool) (uuid : Str) : PyM Node := do
  let acct ← mk S cv "INVACCTFROM" [] [kv "acctid" (osv acctid), kv "brokerid" (osv brokerid)]
  let inc ← invInctran S cv dtstart dtend inctran
  let pos ← mk S cv "INCPOS" [] [kv "dtasof" (odt dtasof), kv "include" (obv incpos)]
  let rq ← mk S cv "INVSTMTRQ" []
    [kv "invacctfrom" acct, kv "inctran" inc, kv "incoo" (obv incoo), kv "incpos" pos, kv "incbal" (obv incbal)]
  mk S cv "INVSTMTTRNRQ" [] [kv "trnuid" (sv uuid), kv "invstmtrq" rq]

/-- one element of the list comprehension inside the `wrap_stmtrq` handler of the request's class:
    `client.<builder>(**dict(rq._asdict(), bankid=client.bankid))` etc. -/
def wrap (S : Schema) (cv : Conv) (cfg : Cfg) (rq : Req) (uuid : Str) : PyM Node :=
  match rq with
  | .stmt acctid accttype dtstart dtend inctran =>
    stmttrnrq S cv cfg.bankid acctid accttype dtstart dtend inctran uuid
  | .ccStmt acctid dtstart dtend inctran => ccstmttrnrq S cv acctid dtstart dtend inctran uuid
  | .invStmt acctid dtstart dtend dtasof inctran incoo incpos incbal =>
    invstmttrnrq S cv acctid cfg.brokerid dtstart dtend inctran incoo dtasof incpos incbal uuid
  | .stmtEnd acctid accttype dtstart dtend => stmtendtrnrq S cv cfg.bankid acctid accttype dtstart dtend uuid
  | .ccStmtEnd acctid dtstart dtend => ccstmtendtrnrq S cv acctid dtstart dtend uuid

/-- `wrap_stmtrq(cls(), rqs, self)` for one group: the message-set class and the wrappers; the request standing at
    position `i` of the sorted list consumes the `i`-th uuid -/
def wrapGroup (S : Schema) (cv : Conv) (cfg : Cfg) (uuidStream : Nat → Str) (g : RKind × List (Req × Nat)) :
    PyM (MsgSet × List Node) := do
  let ws ← g.2.mapM (fun p => wrap S cv cfg p.1 (uuidStream p.2))
  pure (g.1.msgset, ws)

/-- `msg_args(msgcls, _trnrqs)`: `(msgcls.__name__.lower(), msgcls(*chain(t[1] for t in _trnrqs)))` -/
def msgArgs (S : Schema) (cv : Conv) (g : MsgSet × List (MsgSet × List Node)) : PyM (Str × Node) := do
  let inst ← mk S cv g.1.className (g.2.flatMap (·.2)) []
  pure (kv g.1.attrName inst)

/-- the `OFX` instance `request_statements(password, *requests)` hands to `download` -/
def requestStatements (S : Schema) (cv : Conv) (cfg : Cfg) (password : Str) (reqs : List Req)
    (uuidStream : Nat → Str) (dtclient : DT) : PyM Node := do
  let sorted := sortBy RKind.le Req.kind reqs
  let groups := groupBy (fun p => p.1.kind) sorted.zipIdx
  let trnrqs ← groups.mapM (wrapGroup S cv cfg uuidStream)
  let trnrqs := sortBy MsgSet.le (·.1) trnrqs
  let msgs ← (groupBy (·.1) trnrqs).mapM (msgArgs S cv)
  let so ← signon S cv cfg password none dtclient
  mk S cv "OFX" [] (kv "signonmsgsrqv1" so :: msgs)

/-- the `OFX` instance of `request_accounts(password, dtacctup)` -/
def requestAccounts (S : Schema) (cv : Conv) (cfg : Cfg) (password : Str) (dtacctup : Option DT)
    (uuidStream : Nat → Str) (dtclient : DT) : PyM Node := do
  let so ← signon S cv cfg password none dtclient
  let rq ← mk S cv "ACCTINFORQ" [] [kv "dtacctup" (odt dtacctup)]
  let trn ← mk S cv "ACCTINFOTRNRQ" [] [kv "trnuid" (sv (uuidStream 0)), kv "acctinforq" rq]
  let msgs ← mk S cv "SIGNUPMSGSRQV1" [trn] []
  mk S cv "OFX" [] [kv "signonmsgsrqv1" so, kv "signupmsgsrqv1" msgs]

/-- `datetime.datetime(1990, 1, 1, tzinfo=UTC)` -/
def defaultDtprofup : DT := ⟨1990, 1, 1, 0, 0, 0, 0, some ⟨0, some "UTC".toList⟩⟩

/-- the `OFX` instance of `_request_profile(dtprofup)` -/
def requestProfile (S : Schema) (cv : Conv) (cfg : Cfg) (dtprofup : Option DT)
    (uuidStream : Nat → Str) (dtclient : DT) : PyM Node := do
  let dtprofup := orDefault dtprofup defaultDtprofup
  let rq ← mk S cv "PROFRQ" [] [kv "clientrouting" (sv "NONE".toList), kv "dtprofup" (.val (.dt dtprofup))]
  let trn ← mk S cv "PROFTRNRQ" [] [kv "trnuid" (sv (uuidStream 0)), kv "profrq" rq]
  let so ← signon S cv cfg authPlaceholder (some authPlaceholder) dtclient
  let msgs ← mk S cv "PROFMSGSRQV1" [trn] []
  mk S cv "OFX" [] [kv "signonmsgsrqv1" so, kv "profmsgsrqv1" msgs]

/-- `recid or None` -/
def orNone : Option Str → Option Str
  | some s => if s.isEmpty then none else some s
  | none => none

/-- the `OFX` instance of `request_tax1099(password, *taxyears, acctnum=…, recid=…)`:
    `TAX1099RQ(*taxyears, acctnum=acctnum or None, recid=recid or None)` -/
def requestTax (S : Schema) (cv : Conv) (cfg : Cfg) (password : Str) (taxyears : List Str)
    (acctnum recid : Option Str) (uuidStream : Nat → Str) (dtclient : DT) : PyM Node := do
  let so ← signon S cv cfg password none dtclient
  let rq ← mk S cv "TAX1099RQ" (taxyears.map sv)
    [kv "acctnum" (osv (orNone acctnum)), kv "recid" (osv (orNone recid))]
  let trn ← mk S cv "TAX1099TRNRQ" [] [kv "trnuid" (sv (uuidStream 0)), kv "tax1099rq" rq]
  let msgs ← mk S cv "TAX1099MSGSRQV1" [trn] []
  mk S cv "OFX" [] [kv "signonmsgsrqv1" so, kv "tax1099msgsrqv1" msgs]

/-! ### serialize -/

/-- everything `serialize` takes from outside the client: header validators, `HTML_EMPTY` -/
structure Env where
  p1 : Header.V1P
  p2 : Header.V2P
  htmlEmpty : List Str

/-- `OFXClient.serialize(ofx, version, oldfileuid, newfileuid, prettyprint, close_elements)` (decoded) -/
def serializeReq (S : Schema) (cv : Conv) (env : Env) (cfg : Cfg) (ofx : Node) (version : Option Nat)
    (oldfileuid newfileuid : Option Str) (prettyprint closeElements : Option Bool) : PyM Str := do
  let version := orDefault version cfg.version
  let pretty := orDefault prettyprint cfg.prettyprint
  let close := orDefault closeElements cfg.closeElements
  let hdr ← Header.makeHeader env.p1 env.p2 (.int version) none oldfileuid newfileuid
  let tree ← toEtree S cv ofx
  Serialize.serialize env.htmlEmpty (Header.strHdr hdr) version close pretty tree

/-- `request_statements(password, *requests, dryrun=True).read()` (decoded): the `n`-th uuid (n = number of
    requests) is the NEWFILEUID -/
def statementsBytes (S : Schema) (cv : Conv) (env : Env) (cfg : Cfg) (password : Str) (reqs : List Req)
    (uuidStream : Nat → Str) (dtclient : DT) : PyM Str := do
  let ofx ← requestStatements S cv cfg password reqs uuidStream dtclient
  serializeReq S cv env cfg ofx none none (some (uuidStream reqs.length)) none none

def accountsBytes (S : Schema) (cv : Conv) (env : Env) (cfg : Cfg) (password : Str) (dtacctup : Option DT)
    (uuidStream : Nat → Str) (dtclient : DT) : PyM Str := do
  let ofx ← requestAccounts S cv cfg password dtacctup uuidStream dtclient
  serializeReq S cv env cfg ofx none none (some (uuidStream 1)) none none

/-- `_request_profile(dtprofup, version, prettyprint, close_elements, dryrun=True)` -/
def profileBytes (S : Schema) (cv : Conv) (env : Env) (cfg : Cfg) (dtprofup : Option DT)
    (version : Option Nat) (prettyprint closeElements : Option Bool)
    (uuidStream : Nat → Str) (dtclient : DT) : PyM Str := do
  let ofx ← requestProfile S cv cfg dtprofup uuidStream dtclient
  serializeReq S cv env cfg ofx version none (some (uuidStream 1)) prettyprint closeElements

def taxBytes (S : Schema) (cv : Conv) (env : Env) (cfg : Cfg) (password : Str) (taxyears : List Str)
    (acctnum recid : Option Str) (uuidStream : Nat → Str) (dtclient : DT) : PyM Str := do
  let ofx ← requestTax S cv cfg password taxyears acctnum recid uuidStream dtclient
  serializeReq S cv env cfg ofx none none (some (uuidStream 1)) none none

end Ofx.Compose
