/-
L7 serializers: the three functions `OFXClient.serialize` (ofxtools/Client.py) composes.

* `toStringHtml`   — `xml.etree.ElementTree.tostring(tree, encoding="utf_8", method="html")`, i.e. CPython's
                     `_serialize_html` on elements without attributes/namespaces: `_escape_cdata` on text and tail,
                     no end tag when `tag.lower()` is in `HTML_EMPTY`, text written raw when `tag.lower()` is
                     `script`/`style` (the tail is always escaped).  `HTML_EMPTY` is generated from the running
                     interpreter (`Ofx.Generated.htmlEmpty`) and is a parameter here.
* `indent`         — `ofxtools.utils.indent`; the real function mutates, the model returns the new tree.  The loop
                     `for elem in elem:` rebinds `elem`, so the statement after the loop acts on the LAST CHILD
                     (`setLastTail`).
* `toStringUnclosed` — `ofxtools.utils.tostring_unclosed_elements` (as of the commit "fix: tostring_unclosed_elements
                     escapes element data"): a childless element is written `<TAG>escape(text) tail` with
                     `xml.sax.saxutils.escape` (`saxEscape`: `&`, `>`, `<` in that order) — no end tag, also for an empty
                     aggregate; the tail is written raw; for an element with children the TEXT is not written at all
                     and the TAIL is written twice (after the start tag and after the end tag), raw.
* `serializeBody` / `serialize` — the body assembly of `OFXClient.serialize`; the header string is an opaque parameter.

The output strings are `Str`; the real functions return their UTF-8 encoding (the driver's protocol atoms are the
UTF-8 bytes, so the correspondence compares bytes).
-/
import OfxModel.Py.Err
import OfxModel.Py.Str
import OfxModel.Ofx.Tree

namespace Ofx.Serialize
open Ofx

/-- `x or ""` -/
def orEmpty : Option Str → Str
  | none => []
  | some s => s

/-- `"<" + tag + ">"` -/
def startTag (tag : Str) : Str := '<' :: (tag ++ ['>'])
/-- `"</" + tag + ">"` -/
def endTag (tag : Str) : Str := '<' :: '/' :: (tag ++ ['>'])

/-- `ltag == "script" or ltag == "style"` -/
def isRaw (ltag : Str) : Bool := ltag == "script".toList || ltag == "style".toList

/-- text of an element as `_serialize_html` writes it -/
def htmlText (ltag : Str) (text : Option Str) : Str :=
  if isRaw ltag then orEmpty text else escapeCdata (orEmpty text)

/-- end tag as `_serialize_html` writes it: `if ltag not in HTML_EMPTY` -/
def htmlEnd (htmlEmpty : List Str) (ltag tag : Str) : Str :=
  if htmlEmpty.contains ltag then [] else endTag tag

mutual
  /-- `ET.tostring(elem, encoding="utf_8", method="html")` (decoded) -/
  def toStringHtml (htmlEmpty : List Str) : Tree → Str
    | .node tag text tail cs =>
      startTag tag ++ (htmlText (lower tag) text ++ (toStringHtmlList htmlEmpty cs
        ++ (htmlEnd htmlEmpty (lower tag) tag ++ escapeCdata (orEmpty tail))))
  def toStringHtmlList (htmlEmpty : List Str) : List Tree → Str
    | [] => []
    | c :: cs => toStringHtml htmlEmpty c ++ toStringHtmlList htmlEmpty cs
end

/-- `not s or not s.strip()` for `s : Optional[str]` -/
def blank : Option Str → Bool
  | none => true
  | some s => s.isEmpty || (strip s).isEmpty

/-- `level * "  "` -/
def spaces : Nat → Str
  | 0 => []
  | n + 1 => ' ' :: ' ' :: spaces n

/-- `"\n" + level * "  "` -/
def indentStr (level : Nat) : Str := '\n' :: spaces level

/-- `if not e.tail or not e.tail.strip(): e.tail = i` -/
def setTail (i : Str) : Tree → Tree
  | .node t x tl cs => .node t x (if blank tl then some i else tl) cs

/-- the statement after the loop of `indent`: it acts on the last child -/
def setLastTail (i : Str) : List Tree → List Tree
  | [] => []
  | [c] => [setTail i c]
  | c :: cs => c :: setLastTail i cs

mutual
  /-- `utils.indent(elem, level)`; returns the tree after the mutation -/
  def indent : Tree → Nat → Tree
    | .node tag text tail cs, level =>
      if cs.isEmpty then
        .node tag text (if level != 0 && blank tail then some (indentStr level) else tail) cs
      else
        .node tag (if blank text then some (indentStr level ++ [' ', ' ']) else text)
          (if blank tail then some (indentStr level) else tail)
          (setLastTail (indentStr level) (indentList cs (level + 1)))
  def indentList : List Tree → Nat → List Tree
    | [], _ => []
    | c :: cs, level => indent c level :: indentList cs level
end

/-- `xml.sax.saxutils.escape(data)` (no extra entities): `&` first, then `>`, then `<` -/
def saxEscape (s : Str) : Str :=
  let s := replace "&".toList "&amp;".toList s
  let s := replace ">".toList "&gt;".toList s
  replace "<".toList "&lt;".toList s

mutual
  /-- `utils.tostring_unclosed_elements(elem)` (decoded) -/
  def toStringUnclosed : Tree → Str
    | .node tag text tail cs =>
      if cs.isEmpty then startTag tag ++ (saxEscape (orEmpty text) ++ orEmpty tail)
      else startTag tag ++ (orEmpty tail ++ (toStringUnclosedList cs ++ (endTag tag ++ orEmpty tail)))
  def toStringUnclosedList : List Tree → Str
    | [] => []
    | c :: cs => toStringUnclosed c ++ toStringUnclosedList cs
end

/-- body part of `OFXClient.serialize`: `indent` when `prettyprint`, then one of the two writers -/
def serializeBody (htmlEmpty : List Str) (close pretty : Bool) (tree : Tree) : Str :=
  let t := if pretty then indent tree 0 else tree
  if close then toStringHtml htmlEmpty t else toStringUnclosed t

/-- `OFXClient.serialize` after the header has been built (`header` = `str(make_header(...))`, opaque here):
    `close_elements is False and version >= 200` raises `ValueError`; otherwise header + body. -/
def serialize (htmlEmpty : List Str) (header : Str) (version : Nat) (close pretty : Bool) (tree : Tree) : PyM Str :=
  if !close && version ≥ 200 then .error .value
  else .ok (header ++ serializeBody htmlEmpty close pretty tree)

end Ofx.Serialize
