/-
The interface between the element converters (`ofxtools.Types`) and the generic aggregate code
(`ofxtools.models.base`).  `Agg` is written against this structure; `Ofx.Types.conv` implements it.
-/
import OfxModel.Ofx.Schema
import OfxModel.Ofx.Value

namespace Ofx

/-- `converter.convert(value)` / `converter.unconvert(value)` for the element kinds
    (everything except `sub`, `listAgg`, `unsupported`).  `enums` is `Schema.enums`.
    `unconvert` returns `Val.str text` or `Val.none`. -/
structure Conv where
  convert : (enums : List (List Str)) → Kind → (required : Bool) → Val → PyM Val
  unconvert : (enums : List (List Str)) → Kind → (required : Bool) → Val → PyM Val

end Ofx
