/-
C14 — the network-facing control flow of `ofxtools/Client.py` as a state machine.

Mirrors, for the urllib branch of `post_request` (`requests` is not installed):
`request_statements / request_accounts / request_tax1099` (Client.py:332-423, 591-697)
→ `_get_service_urls` (425-470) → `request_profile` (472-547, the machine of `Ofx/Cache.lean`)
→ `_request_profile` (549-589) → `download` (820-868) → `post_request` (870-905), plus
`http_headers` (310-323) and the per-instance `CookieJar` of `__init__` (296-298).

What is abstracted
* The OFX body is reduced to what the property speaks about: request kind, the credentials in
  SONRQ (`USERID`, `USERPASS`) and, for a PROFRQ, the DTPROFUP sent (`Body`).  Composition itself is
  C06's subject.
* URLs are `{host, path}`; the cookie policy is "host-only session cookies with `Path=/`": a cookie
  set by a response to a request at host `h` is replayed on every later request of the same jar to
  host `h`, a later cookie of the same name at the same host replaces it.  `http.cookiejar`'s
  domain / path / secure / expiry / public-suffix rules are **not** modelled.
* The network is a parameter (`World.net`): any function from the global request number and the
  request to a reply (cookies set, HTTP error or not, what the body is); `World.adv` maps a profile's
  body id to the URLs of its BANKMSGSET / CREDITCARDMSGSET / INVSTMTMSGSET entries, in MSGSETLIST order
  (all that `_get_service_urls` reads).
-/
import OfxModel.Ofx.Cache
import OfxModel.Py.Str

namespace Ofx.ClientSM
open Ofx Ofx.Cache

/-! ### data -/

structure Url where
  host : Nat
  path : Nat
  deriving DecidableEq, Repr, Inhabited

/-- `AUTH_PLACEHOLDER = "{:0<32}".format("anonymous")` -/
def authPlaceholder : Str := "anonymous".toList ++ List.replicate 23 '0'

def ofxMime : Str := "application/x-ofx".toList

/-- `"*/*, {}, application/xml;q=0.9".format(mimetype)` -/
def acceptValue : Str := "*/*, ".toList ++ ofxMime ++ ", application/xml;q=0.9".toList

structure Cfg where
  url : Url
  userid : Option Str            -- `None` ⇒ the class default `AUTH_PLACEHOLDER`
  org : Option Str
  fid : Option Str
  useragent : Option Str         -- `None` ⇒ the class default "InetClntApp/3.0"
  persistCookies : Bool
  deriving Repr

def defaultUseragent : Str := "InetClntApp/3.0".toList

def Cfg.effUserid (c : Cfg) : Str := match c.userid with | some u => u | none => authPlaceholder
def Cfg.effUseragent (c : Cfg) : Str := match c.useragent with | some u => u | none => defaultUseragent

structure Cookie where
  host : Nat
  name : Nat
  value : Nat
  deriving DecidableEq, Repr

structure ClientSt where
  cfg : Cfg
  jar : List Cookie
  deriving Repr

inductive Kind where
  | profile | statements | accounts | tax
  deriving DecidableEq, Repr

inductive Mode where
  | dryrun | skipProfile | normal
  deriving DecidableEq, Repr

/-- one public call: `request_profile(dryrun=…)` or
    `request_statements/accounts/tax1099(password, …, dryrun=…, skip_profile=…)`.
    (`request_profile` has no `skip_profile`; for `kind = profile` that mode means `normal`.) -/
structure Op where
  kind : Kind
  mode : Mode
  pass : Str
  deriving Repr

inductive Method where
  | POST | GET
  deriving DecidableEq, Repr

structure Headers where
  userAgent : Str
  contentType : Str
  accept : Str
  deriving DecidableEq, Repr

structure Body where
  kind : Kind
  user : Str
  pass : Str
  dtprofup : Option (Option Nat)     -- only a PROFRQ has one: `some none` = the 1990 default
  deriving DecidableEq, Repr

structure HttpReq where
  method : Method
  url : Url
  headers : Headers
  body : Body
  cookies : List (Nat × Nat)         -- the Cookie header: (name, value)
  deriving DecidableEq, Repr

/-- what the network does with one request -/
structure Reply where
  setCookies : List (Nat × Nat)      -- Set-Cookie headers of the response
  httpError : Bool                   -- 4xx/5xx: cookies are extracted, then `HTTPError` is raised
  beh : Beh                          -- the body (`transportError`: no response at all)
  deriving Repr

structure World where
  net : Nat → HttpReq → Reply
  adv : Nat → List Url

/-- one request on the wire, as an observer sees it -/
structure Ev where
  who : Nat
  req : HttpReq
  set : List (Nat × Nat)             -- cookies the response set (empty when there was no response)
  deriving Repr

/-- what a public call returns -/
inductive Out where
  | prof (p : Profile)               -- request_profile: the profile
  | dryRequest                       -- any dry run: the serialised request
  | raw (b : Beh)                    -- statements/accounts/tax: the response body, unparsed
  deriving Repr

/-! ### `http_headers`, cookie jar, `post_request` -/

def httpHeaders (c : Cfg) : Headers :=
  { userAgent := c.effUseragent, contentType := ofxMime, accept := acceptValue }

/-- `CookieJar.add_cookie_header`: the cookies of this host -/
def jarFor (jar : List Cookie) (host : Nat) : List (Nat × Nat) :=
  (jar.filter (·.host = host)).map fun c => (c.name, c.value)

/-- `CookieJar.set_cookie`: replace a cookie of the same host and name -/
def jarSet (jar : List Cookie) (c : Cookie) : List Cookie :=
  jar.filter (fun d => ¬ (d.host = c.host ∧ d.name = c.name)) ++ [c]

/-- `CookieJar.extract_cookies` -/
def jarExtract (jar : List Cookie) (host : Nat) (set : List (Nat × Nat)) : List Cookie :=
  set.foldl (fun j nv => jarSet j ⟨host, nv.1, nv.2⟩) jar

structure PostOut where
  st : ClientSt
  ev : Ev
  res : Except Err Beh

/-- the `urllib.request.Request` as it leaves the opener: `Request(url, method="POST", data=body,
    headers=self.http_headers)` plus the Cookie header `HTTPCookieProcessor` adds iff `persist_cookies` -/
def mkReq (st : ClientSt) (url : Url) (body : Body) : HttpReq :=
  { method := .POST, url := url, headers := httpHeaders st.cfg, body := body,
    cookies := if st.cfg.persistCookies then jarFor st.jar url.host else [] }

/-- the jar after a response that set `set` -/
def jarAfter (st : ClientSt) (host : Nat) (set : List (Nat × Nat)) : List Cookie :=
  if st.cfg.persistCookies then jarExtract st.jar host set else st.jar

/-- `download(..., dryrun=False)` → `post_request(url, body, timeout)`: one POST through an opener
    built with `HTTPCookieProcessor(self.cookiejar)` iff `persist_cookies` -/
def post (w : World) (clock : Nat) (who : Nat) (st : ClientSt) (url : Url) (body : Body) : PostOut :=
  let req := mkReq st url body
  let rep := w.net clock req
  if rep.beh = .transportError then
    { st := st, ev := ⟨who, req, []⟩, res := .error .other }
  else
    { st := { st with jar := jarAfter st url.host rep.setCookies }, ev := ⟨who, req, rep.setCookies⟩,
      res := if rep.httpError then .error .other else .ok rep.beh }

/-! ### `request_profile` with the network in the middle -/

structure StepOut where
  st : ClientSt
  fs : FS
  evs : List Ev
  res : Except Err Out

def profileBody (heldDate : Option Nat) : Body :=
  { kind := .profile, user := authPlaceholder, pass := authPlaceholder, dtprofup := some heldDate }

/-- `request_profile(dryrun=dry)`: read the cache, POST a PROFRQ with the placeholder credentials and the
    date held to `self.url`, then the rest of the machine of `Cache.lean` on the reply. -/
def requestProfile (w : World) (clock : Nat) (who : Nat) (fs : FS) (st : ClientSt) (dry : Bool) : StepOut :=
  let key := cacheKey st.cfg.org st.cfg.fid
  match Cache.held (fs key) with
  | .error e => { st := st, fs := fs, evs := [], res := .error e }
  | .ok h =>
    if dry then { st := st, fs := fs, evs := [], res := .ok .dryRequest }
    else
      let p := post w clock who st st.cfg.url (profileBody (h.map Profile.date))
      let beh := match p.res with | .ok b => b | .error _ => Beh.transportError
      let o := Cache.call (fs key) beh
      { st := p.st, fs := fs.set key o.disk, evs := [p.ev],
        res := match o.res with
          | .ok (.prof q) => .ok (.prof q)
          | .ok .dryRequest => .ok .dryRequest
          | .error e => .error e }

/-- `_get_service_urls` + `urls = set(RqCls2url.values()); assert len(urls) == 1; url = urls.pop()`:
    the set has exactly one element iff there is a first URL and all others equal it -/
def serviceUrl (w : World) (p : Profile) : Except Err Url :=
  match w.adv p.body with
  | [] => .error .assert
  | u :: rest => if rest.all (· = u) then .ok u else .error .assert

def mainBody (st : ClientSt) (op : Op) : Body :=
  { kind := op.kind, user := st.cfg.effUserid, pass := op.pass, dtprofup := none }

def postMain (w : World) (clock : Nat) (who : Nat) (fs : FS) (st : ClientSt) (op : Op) (url : Url)
    (before : List Ev) : StepOut :=
  let p := post w clock who st url (mainBody st op)
  { st := p.st, fs := fs, evs := before ++ [p.ev],
    res := match p.res with | .ok b => .ok (.raw b) | .error e => .error e }

/-- one public call of client `who` -/
def step (w : World) (clock : Nat) (who : Nat) (fs : FS) (st : ClientSt) (op : Op) : StepOut :=
  match op.kind with
  | .profile => requestProfile w clock who fs st (op.mode = .dryrun)
  | _ =>
    match op.mode with
    | .dryrun => { st := st, fs := fs, evs := [], res := .ok .dryRequest }
    | .skipProfile => postMain w clock who fs st op st.cfg.url []
    | .normal =>
      let r := requestProfile w clock who fs st false
      match r.res with
      | .error e => { r with res := .error e }
      | .ok (.prof p) =>
        match serviceUrl w p with
        | .error e => { r with res := .error e }
        | .ok url => postMain w (clock + r.evs.length) who r.fs r.st op url r.evs
      | .ok _ => { r with res := .error .other }       -- unreachable: a non-dry request_profile returns a profile

/-! ### several client instances -/

structure Sys where
  clients : Nat → ClientSt
  fs : FS
  clock : Nat

structure OpRec where
  who : Nat
  op : Op
  evs : List Ev
  res : Except Err Out
  fsAfter : FS

def Sys.setClient (s : Sys) (who : Nat) (st : ClientSt) : Nat → ClientSt :=
  fun i => if i = who then st else s.clients i

def Sys.step (w : World) (s : Sys) (who : Nat) (op : Op) : Sys × OpRec :=
  let r := ClientSM.step w s.clock who s.fs (s.clients who) op
  ({ clients := s.setClient who r.st, fs := r.fs, clock := s.clock + r.evs.length },
   { who := who, op := op, evs := r.evs, res := r.res, fsAfter := r.fs })

/-- a history of whole operations of any clients -/
def Sys.run (w : World) : Sys → List (Nat × Op) → List OpRec
  | _, [] => []
  | s, (who, op) :: rest => let (s', r) := s.step w who op; r :: Sys.run w s' rest

/-- the final state after a history -/
def Sys.after (w : World) : Sys → List (Nat × Op) → Sys
  | s, [] => s
  | s, (who, op) :: rest => Sys.after w (s.step w who op).1 rest

/-- everything seen on the wire during a history -/
def Sys.trace (w : World) (s : Sys) (h : List (Nat × Op)) : List Ev :=
  (Sys.run w s h).flatMap (·.evs)

end Ofx.ClientSM
