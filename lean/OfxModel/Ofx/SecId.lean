/-
Model of the security-identifier utilities of `ofxtools/utils.py`
(`cusip_checksum … sedol2isin`).  Follows the code's own algorithm: decimal
strings are concatenated and their digit characters summed.
`agencies` (keys of `lib.NUMBERING_AGENCIES`) is a parameter; the generated table
is supplied by the driver and by `OfxProofs/Gen`.
-/
import OfxModel.Py.Int

namespace Ofx.SecId

open Ofx

/-- `{"*": 36, "@": 37, "#": 38}.get(char)`, falling back to `int(char, 36)`. -/
def cusipCharVal (c : Char) : Option Nat :=
  if c = '*' then some 36 else if c = '@' then some 37 else if c = '#' then some 38 else b36 c

/-- the inner `encode(index, char)` of `cusip_checksum` -/
def cusipEncode (index : Nat) (c : Char) : PyM Str :=
  match cusipCharVal c with
  | none => .error .value
  | some num => .ok (if index % 2 = 1 then pyStrNat (num * 2) else pyStrNat num)

/-- `[encode(index, char) for index, char in enumerate(base)]`, starting at `i`. -/
def cusipParts : Nat → Str → PyM (List Str)
  | _, [] => .ok []
  | i, c :: cs => do
    let p ← cusipEncode i c
    let ps ← cusipParts (i + 1) cs
    pure (p :: ps)

/-- `sum([int(digit) for digit in check])` -/
def sumDigitChars : Str → PyM Nat
  | [] => .ok 0
  | c :: cs =>
    match digitVal c with
    | none => .error .value
    | some d => do
      let r ← sumDigitChars cs
      pure (d + r)

/-- `str((10 - (n % 10)) % 10)` — always one character -/
def checkChar (n : Nat) : Char := digitChar ((10 - n % 10) % 10)

def cusipChecksum (base : Str) : PyM Char :=
  if base.length ≠ 8 then .error .assert else do
    let parts ← cusipParts 0 base
    let s ← sumDigitChars parts.flatten
    pure (checkChar s)

/-- `validate_cusip` -/
def validateCusip (cusip : Str) : PyM Bool :=
  if cusip.length = 9 then do
    let c ← cusipChecksum (cusip.take 8)
    pure ([c] == cusip.drop 8)
  else .ok false

def sedolWeights : List Nat := [1, 3, 1, 7, 3, 9]

/-- `sum([int(char, 36) * weights[n] for n, char in enumerate(base)])` -/
def sedolSum : Str → List Nat → PyM Nat
  | [], _ => .ok 0
  | _ :: _, [] => .error .index
  | c :: cs, w :: ws =>
    match b36 c with
    | none => .error .value
    | some v => do
      let r ← sedolSum cs ws
      pure (v * w + r)

def sedolChecksum (base : Str) : PyM Char :=
  if base.length ≠ 6 then .error .assert
  else if base.any (fun c => c = 'A' || c = 'E' || c = 'I' || c = 'O') then .error .assert
  else do
    let s ← sedolSum base sedolWeights
    pure (checkChar s)

/-- `"".join([str(int(char, 36)) for char in base])` -/
def isinExpand : Str → PyM Str
  | [] => .ok []
  | c :: cs =>
    match b36 c with
    | none => .error .value
    | some v => do
      let r ← isinExpand cs
      pure (pyStrNat v ++ r)

/-- `"".join([d if n % 2 else str(int(d) * 2) for n, d in enumerate(check)])`, from index `n` -/
def isinDouble : Nat → Str → PyM Str
  | _, [] => .ok []
  | n, d :: ds =>
    if n % 2 = 1 then do
      let r ← isinDouble (n + 1) ds
      pure (d :: r)
    else
      match digitVal d with
      | none => .error .value
      | some v => do
        let r ← isinDouble (n + 1) ds
        pure (pyStrNat (v * 2) ++ r)

def isinChecksum (agencies : List Str) (base : Str) : PyM Char :=
  if base.length ≠ 11 then .error .assert
  else if ¬ agencies.contains (base.take 2) then .error .assert
  else do
    let check ← isinExpand base
    let check := check.reverse
    let check ← isinDouble 0 check
    let s ← sumDigitChars check
    pure (checkChar s)

def validateIsin (agencies : List Str) (isin : Str) : PyM Bool :=
  if isin.length = 12 ∧ agencies.contains (isin.take 2) then do
    let c ← isinChecksum agencies (isin.take 11)
    pure ([c] == isin.drop 11)
  else .ok false

/-- `nation or dflt`; `none` is Python's `None` (`""` is falsy too). -/
def nationOr (dflt : Str) : Option Str → Str
  | none => dflt
  | some n => if n.isEmpty then dflt else n

/-- `cusip2isin(cusip, nation)` -/
def cusip2isin (agencies : List Str) (cusip : Str) (nation : Option Str) : PyM Str := do
  let v ← validateCusip cusip
  if ¬ v then .error .value else
  let nation := nationOr "US".toList nation
  if ¬ agencies.contains nation then .error .value else
  let base := nation ++ cusip
  let c ← isinChecksum agencies base
  pure (base ++ [c])

/-- `str.zfill(width)` for a string without a leading sign -/
def zfill (width : Nat) (s : Str) : Str := List.replicate (width - s.length) '0' ++ s

def sedol2isin (agencies : List Str) (sedol : Str) (nation : Option Str) : PyM Str :=
  let nation := nationOr "GB".toList nation
  if sedol.length ≠ 7 then .error .assert else do
  let c ← sedolChecksum (sedol.take 6)
  if [c] != sedol.drop 6 then .error .assert else
  -- a leading sign is impossible here: `sedolChecksum` succeeded, so every char is alphanumeric
  let base := nation ++ zfill 9 sedol
  let k ← isinChecksum agencies base
  pure (base ++ [k])

end Ofx.SecId
