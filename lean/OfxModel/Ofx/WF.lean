/-
Decidable well-formedness of a schema: what the generic aggregate code silently relies on.
Every clause is a `Bool` function per class, so the driver can name the class at fault and
`OfxProofs/Gen/WF.lean` can discharge `wf… generatedSchema = true` by kernel evaluation.
(DESIGN 6.13)
-/
import OfxModel.Ofx.Agg

namespace Ofx.WF

open Ofx Ofx.Agg

def isLowerIdentChar (c : Char) : Bool := ('a' ≤ c && c ≤ 'z') || ('0' ≤ c && c ≤ '9') || c = '_'

/-- attribute names: non-empty lower-case ASCII identifiers (so `upper`/`lower` are inverse on them
    and none contains `.`) -/
def nameOk (n : Str) : Bool := !n.isEmpty && n.all isLowerIdentChar

def namesOf (c : Cls) : List Str := c.spec.map (·.name)

/-- clause 1: a `SubAggregate`/`ListAggregate` attribute is named after its target class, which is
    exported under its own name (so `from_etree` finds it by tag and `_apply_args` admits it) -/
def subNamesOk (S : Schema) (c : Cls) : Bool :=
  c.spec.all fun a =>
    let target (t : Nat) : Bool :=
      match S.cls? t with
      | some tc => tc.exported && lower tc.name = a.name
      | none => false
    match a.kind with
    | .sub t => target t
    | .listAgg t => target t
    | _ => true

/-- clause 2: attribute names are lower-case identifiers, pairwise distinct, and none upper-cases
    into a tag that `ET.tostring(method="html")` treats specially -/
def attrNamesOk (special : List Str) (c : Cls) : Bool :=
  (namesOf c).all nameOk && (namesOf c).Nodup && (namesOf c).all (fun n => !special.contains n)

/-- a mutex group names existing, optional, non-repeated, supported attributes -/
def groupOk (c : Cls) (g : List Str) : Bool :=
  g.all fun m =>
    match c.attr? m with
    | some a => !a.required && !a.kind.isList && !a.kind.isUnsupported
    | none => false

/-- clause 3: every group (effective, and declared anywhere in the MRO) is well-formed, and every
    declared group is in force -/
def mutexOk (c : Cls) : Bool :=
  (c.optMutex ++ c.reqMutex ++ c.declOptMutex ++ c.declReqMutex).all (groupOk c) &&
  c.declOptMutex.all (fun g => c.optMutex.contains g) &&
  c.declReqMutex.all (fun g => c.reqMutex.contains g)

/-- positions of the list attributes in `spec` -/
def listPositions (c : Cls) : List Nat :=
  (List.range c.spec.length).filter fun i =>
    match c.spec[i]? with
    | some a => a.kind.isList
    | none => false

/-- clause 4: between the first and the last list attribute there is no attribute `to_etree` can
    emit (it writes all members at the first list attribute; the reader needs monotone indices) -/
def listBlockOk (c : Cls) : Bool :=
  match listPositions c with
  | [] => true
  | p :: ps =>
    let last := (p :: ps).foldl max p
    (List.range c.spec.length).all fun i =>
      if p < i && i < last then
        match c.spec[i]? with
        | some a => a.kind.isList || a.kind.isUnsupported
        | none => true
      else true

/-- clause 5: `ElementList` classes have exactly one `ListElement` attribute and no `ListAggregate`;
    plain aggregates have no `ListElement` -/
def elementListOk (c : Cls) : Bool :=
  if c.abstract then true
  else if c.elementList then
    (c.spec.filter (fun a => a.kind.isListElem)).length = 1 &&
    (c.spec.filter (fun a => a.kind.isListAgg)).length = 0
  else (c.spec.filter (fun a => a.kind.isListElem)).length = 0

def tokenOk (t : Str) : Bool :=
  match t with
  | [] => false
  | c :: _ =>
    !isSpace c && !(match t.getLast? with | some l => isSpace l | none => true) &&
    t.all (fun x => x ≠ '<' && x ≠ '>' && x ≠ '&')

/-- clause 7: enumerations contain no empty token and no token with markup or edge whitespace -/
def enumsOk (S : Schema) : Bool := S.enums.all (fun e => e.all tokenOk)

/-- every `oneOf` refers to an existing enumeration; list elements are not nested -/
def kindsOk (S : Schema) (c : Cls) : Bool :=
  c.spec.all fun a =>
    match a.kind with
    | .oneOf e => e < S.enums.length
    | .listElem inner _ =>
      (match inner with
       | .oneOf e => e < S.enums.length
       | .listElem .. => false
       | .sub _ => false
       | .listAgg _ => false
       | .unsupported => false
       | _ => true)
    | _ => true

/-- clause 8: the hooks a class overrides are the ones the model knows; `groom`/`ungroom` renames
    are inverse, the groomed name is an attribute and the wire name is not -/
def hooksOk (c : Cls) : Bool :=
  c.extra != .unknown &&
  match c.groom, c.ungroom with
  | none, none => true
  | some g, some u =>
    g.fromTag = u.toTag && g.toTag = u.fromTag && g.fromTag ≠ g.toTag &&
    !g.fromTag.contains '.' && !g.toTag.contains '.' &&
    (namesOf c).contains (lower g.toTag) && !(namesOf c).contains (lower g.fromTag) &&
    upper (lower g.toTag) = g.toTag &&
    (match c.attr? (lower g.toTag) with
     | some a => !a.kind.isList
     | none => false)
  | _, _ => false

/-- clause 9: concrete classes are exported under their own name (with pairwise distinct class
    names — `namesDistinct` — this makes `from_etree` find the class by its tag) -/
def exportOk (_S : Schema) (_i : Nat) (c : Cls) : Bool :=
  c.abstract || c.exported

def clsOk (S : Schema) (special : List Str) (i : Nat) (c : Cls) : Bool :=
  subNamesOk S c && attrNamesOk special c && mutexOk c && listBlockOk c && elementListOk c &&
  kindsOk S c && hooksOk c && exportOk S i c

/-- names of the clauses a class fails (for the driver's report) -/
def failing (S : Schema) (special : List Str) (i : Nat) (c : Cls) : List String :=
  (if subNamesOk S c then [] else ["subNames"]) ++
  (if attrNamesOk special c then [] else ["attrNames"]) ++
  (if mutexOk c then [] else ["mutex"]) ++
  (if listBlockOk c then [] else ["listBlock"]) ++
  (if elementListOk c then [] else ["elementList"]) ++
  (if kindsOk S c then [] else ["kinds"]) ++
  (if hooksOk c then [] else ["hooks"]) ++
  (if exportOk S i c then [] else ["export"])

def allClasses (S : Schema) (p : Nat → Cls → Bool) : Bool :=
  (List.range S.classes.length).all fun i =>
    match S.classes[i]? with
    | some c => p i c
    | none => true

/-- strict lexicographic order on strings by code point -/
def strLt : Str → Str → Bool
  | [], [] => false
  | [], _ :: _ => true
  | _ :: _, [] => false
  | a :: as, b :: bs => a.toNat < b.toNat || (a.toNat = b.toNat && strLt as bs)

/-- class names are strictly increasing (the translator sorts them), hence pairwise distinct -/
def namesSorted : List Str → Bool
  | [] => true
  | [_] => true
  | a :: b :: r => strLt a b && namesSorted (b :: r)

/-- the whole predicate -/
def wf (S : Schema) (special : List Str) : Bool :=
  enumsOk S && namesSorted (S.classes.map (·.name)) && allClasses S (clsOk S special)

end Ofx.WF

namespace Ofx.WF
open Ofx Ofx.Agg

def isListAt (c : Cls) (i : Nat) : Bool :=
  match c.spec[i]? with
  | some a => a.kind.isList
  | none => false

def emitAt (c : Cls) (j : Nat) : Bool :=
  match c.spec[j]? with
  | some a => !a.kind.isList && !a.kind.isUnsupported
  | none => false

/-- every enumeration a kind refers to exists -/
def enumRefOk (enums : List (List Str)) : Kind → Bool
  | .oneOf e => decide (e < enums.length)
  | .listElem k _ => enumRefOk enums k
  | _ => true

def subTargetOk (S : Schema) (a : Attr) (t : Nat) : Bool :=
  match S.cls? t with
  | some tc => lower tc.name == a.name && !tc.name.contains '.' && S.findIdx? tc.name == some t
  | none => false

/-- the class has no rename hooks, or `groom` / `ungroom` are inverse renames around a non-repeated data element
    whose source tag is no child's tag -/
def groomOkB (c : Cls) : Bool :=
  match c.groom, c.ungroom with
  | none, none => true
  | some r, some u =>
    u.fromTag == r.toTag && u.toTag == r.fromTag && !r.toTag.contains '.' &&
    !(c.spec.map (·.name)).contains (lower r.fromTag) &&
    c.spec.any (fun a => a.name == lower u.fromTag && !a.kind.isList &&
      (match a.kind with | .sub _ => false | _ => true))
  | _, _ => false

/-- an `ElementList` has exactly one `ListElement` attribute and no other repeated child -/
def elShapeOk (c : Cls) : Bool :=
  (match c.spec.filter (fun a => a.kind.isListElem) with
   | [a] => (match a.kind with | .listElem _ _ => true | _ => false)
   | _ => false) &&
  c.spec.all (fun b => !b.kind.isList || b.kind.isListElem)

/-- the class-level facts the aggregate round-trip theorem uses, in directly decidable form
    (`OfxProofs/Lemmas/WFBridge.lean` turns this into `Agg.ClsWF`) -/
def roundTripOk (S : Schema) (c : Cls) : Bool :=
  (!c.elementList || elShapeOk c) &&
  decide (namesOf c).Nodup &&
  c.spec.all (fun a => enumRefOk S.enums a.kind) &&
  c.spec.all (fun a => lower (upper a.name) == a.name && !(upper a.name).contains '.') &&
  c.spec.all (fun a =>
    match a.kind with
    | .sub t => subTargetOk S a t
    | .listAgg t => subTargetOk S a t
    | _ => true) &&
  (List.range c.spec.length).all fun j =>
     !emitAt c j || !((List.range j).any (isListAt c)) ||
       (List.range c.spec.length).all (fun q => !isListAt c q || decide (q < j))

end Ofx.WF
