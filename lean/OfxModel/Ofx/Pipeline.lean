/-
End to end: `OFXClient.serialize(model, version, oldfileuid, newfileuid, prettyprint, close_elements)`
(header + body bytes) and `OFXTree().parse(BytesIO(bytes)); .convert()` (header, model).
Composition of the layer models; nothing new is modelled here except the glue:
`bytes(str(header), "utf_8") + body bytes` and `convert()` raising `ValueError` when the parser
returned no root.
-/
import OfxModel.Ofx.Agg
import OfxModel.Ofx.Serialize
import OfxModel.Ofx.Header
import OfxModel.Ofx.Builder
import OfxModel.Py.Codec

namespace Ofx.Pipeline
open Ofx

structure Env where
  S : Schema
  cv : Conv
  htmlEmpty : List Str
  p1 : Header.V1P
  p2 : Header.V2P
  cp1252 : List (Option Nat)

/-- `client.serialize(inst, version=…, oldfileuid=…, newfileuid=…, prettyprint=…, close_elements=…)` -/
def writeFile (E : Env) (version : Nat) (old new : Option Str) (pretty close : Bool) (inst : Node) :
    PyM Codec.Bytes := do
  let hdr ← Header.makeHeader E.p1 E.p2 (.int version) none old new
  let tree ← Agg.toEtree E.S E.cv inst
  let text ← Serialize.serialize E.htmlEmpty (Header.strHdr hdr) version close pretty tree
  Codec.encode E.cp1252 .utf8 text

/-- `t = OFXTree(); t.parse(BytesIO(file)); (t.header, t.convert())` -/
def readFile (E : Env) (file : Codec.Bytes) : PyM (Header.Hdr × Node) := do
  let (hdr, body) ← Header.parseHeader E.p1 E.p2 E.cp1252 file
  let root ← Builder.parse body
  match root with
  | none => .error .value                       -- `convert()`: "Must first call parse()"
  | some t => do
    let inst ← Agg.fromEtree E.S E.cv t
    pure (hdr, inst)

/-- parse only: header and element tree (`OFXTree.parse`) -/
def parseFile (E : Env) (file : Codec.Bytes) : PyM (Header.Hdr × Option Tree) := do
  let (hdr, body) ← Header.parseHeader E.p1 E.p2 E.cp1252 file
  let root ← Builder.parse body
  pure (hdr, root)

end Ofx.Pipeline
