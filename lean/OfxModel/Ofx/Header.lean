/-
Model of `ofxtools/header.py`: `OFXHeaderV1`, `OFXHeaderV2` (validators, `__init__`, `__str__`, `regex`,
`codec`), `OFXHeaderBase.parse`, `XML_REGEX`, `parse_header`, `make_header`.

The validator parameters (token lists, lengths, codec names) and the cp1252 table are *parameters*
(`V1P`, `V2P`, `tbl`); the driver and the Gen obligations instantiate them with the generated tables.

Regular expressions: the three patterns are written as item lists and run by a small matcher that
follows Python `re`'s exploration order — greedy `[class]+` tries the longest run first and backs off
one character at a time down to 1, an optional group is tried before it is skipped, `search` tries start
positions left to right.  `\s*`/`\s+` are run greedily without back-off: in all three patterns what follows
them never starts with a whitespace character, so giving back whitespace can never help.
Character classes `\d`, `\w` are the ASCII ones (v1 header text is ASCII-decoded before matching; for v2
non-ASCII characters inside the `<?OFX …?>` declaration are outside the model).
-/
import OfxModel.Py.Str
import OfxModel.Py.Int
import OfxModel.Py.Err
import OfxModel.Py.Codec

namespace Ofx.Header
open Ofx Ofx.Codec

/-! ### character classes -/

def isDigit (c : Char) : Bool := '0' ≤ c && c ≤ '9'
def isUpper (c : Char) : Bool := 'A' ≤ c && c ≤ 'Z'
def isLower (c : Char) : Bool := 'a' ≤ c && c ≤ 'z'
/-- `\w` on ASCII -/
def isWord (c : Char) : Bool := isDigit c || isUpper c || isLower c || c == '_'
/-- `[\w-]` -/
def isWordDash (c : Char) : Bool := isWord c || c == '-'
/-- `[A-Z0-9-]` -/
def isUpDigDash (c : Char) : Bool := isUpper c || isDigit c || c == '-'
/-- `[\d.]` -/
def isDigitDot (c : Char) : Bool := isDigit c || c == '.'

/-! ### the matcher -/

inductive Item where
  | lit (l : Str)
  | ws0                       -- `\s*`
  | ws1                       -- `\s+`
  | cap (p : Char → Bool)     -- `(?P<name>[class]+)`
  | openq                     -- `(?P<q>["'])`
  | closeq                    -- `(?P=q)`

inductive Seg where
  | item (i : Item)
  | opt (is : List Item)      -- `( … )?`

/-- matcher state: captured groups so far (most recent first; `none` = group did not participate) and the
    last quote character captured -/
structure St where
  caps : List (Option Str) := []
  quote : Option Char := none

/-- a successful match: the groups in pattern order and what is left of the subject -/
abbrev Res := List (Option Str) × Str

/-- try `f n`, `f (n-1)`, …, `f 1` -/
def tryDown (f : Nat → Option α) : Nat → Option α
  | 0 => none
  | n + 1 =>
    match f (n + 1) with
    | some r => some r
    | none => tryDown f n

def stepItem (i : Item) (k : St → Str → Option Res) (st : St) (s : Str) : Option Res :=
  match i with
  | .lit l => if l.isPrefixOf s then k st (s.drop l.length) else none
  | .ws0 => k st (s.dropWhile isSpace)
  | .ws1 =>
    match s with
    | c :: cs => if isSpace c then k st (cs.dropWhile isSpace) else none
    | [] => none
  | .cap p =>
    tryDown (fun n => k { st with caps := some (s.take n) :: st.caps } (s.drop n)) (s.takeWhile p).length
  | .openq =>
    match s with
    | c :: cs => if c = '"' ∨ c = '\'' then k { st with quote := some c } cs else none
    | [] => none
  | .closeq =>
    match s with
    | c :: cs => if st.quote = some c then k st cs else none
    | [] => none

def matchItems : List Item → (St → Str → Option Res) → St → Str → Option Res
  | [], k => k
  | i :: is, k => stepItem i (matchItems is k)

def capCount : List Item → Nat
  | [] => 0
  | .cap _ :: is => capCount is + 1
  | _ :: is => capCount is

def finish : St → Str → Option Res := fun st s => some (st.caps.reverse, s)

def matchSegs : List Seg → St → Str → Option Res
  | [] => finish
  | .item i :: segs => stepItem i (matchSegs segs)
  | .opt is :: segs => fun st s =>
    match matchItems is (matchSegs segs) st s with
    | some r => some r
    | none => matchSegs segs { st with caps := List.replicate (capCount is) none ++ st.caps } s

/-- `pattern.match(s)` -/
def reMatch (segs : List Seg) (s : Str) : Option Res := matchSegs segs {} s

/-- `pattern.search(s)`: leftmost start position that matches -/
def reSearch (segs : List Seg) : Str → Option Res
  | [] => reMatch segs []
  | c :: cs =>
    match reMatch segs (c :: cs) with
    | some r => some r
    | none => reSearch segs cs

def L (s : String) : Seg := .item (.lit s.toList)
def W0 : Seg := .item .ws0
def W1 : Seg := .item .ws1
def C (p : Char → Bool) : Seg := .item (.cap p)

/-- `OFXHeaderV1.regex` -/
def v1Regex : List Seg :=
  [ W0,
    L "OFXHEADER:", W0, C isDigit, W0,
    L "DATA:", W0, C isUpper, W0,
    L "VERSION:", W0, C isDigit, W0,
    L "SECURITY:", W0, C isWord, W0,
    L "ENCODING:", W0, C isUpDigDash, W0,
    L "CHARSET:", W0, C isWordDash, W0,
    .opt [.lit "COMPRESSION:".toList, .ws0, .cap isUpper, .ws0],
    L "OLDFILEUID:", W0, C isWordDash, W0,
    L "NEWFILEUID:", W0, C isWordDash ]

def Q : Seg := .item .openq
def Q' : Seg := .item .closeq

/-- `OFXHeaderV2.regex`: each value between `(["'])` and a back-reference to it (the quote groups are unnamed,
    so `groupdict()` holds the five fields only) -/
def v2Regex : List Seg :=
  [ L "<?OFX", W1,
    L "OFXHEADER=", Q, C isDigit, Q', W1,
    L "VERSION=", Q, C isDigit, Q', W1,
    L "SECURITY=", Q, C isWord, Q', W1,
    L "OLDFILEUID=", Q, C isWordDash, Q', W1,
    L "NEWFILEUID=", Q, C isWordDash, Q', W0,
    L "?>", W0 ]

/-- `XML_REGEX` -/
def xmlRegex : List Seg :=
  [ L "<?xml", W1,
    .opt [.lit "version=".toList, .openq, .cap isDigitDot, .closeq], W0,
    .opt [.lit "encoding=".toList, .openq, .cap isWordDash, .closeq], W0,
    .opt [.lit "standalone=".toList, .openq, .cap isWord, .closeq], W0,
    L "?>", W0 ]

/-! ### `int()` and the validators -/

/-- constructor argument: `None`, an `int`, or a `str` -/
inductive Arg where
  | none
  | int (i : Int)
  | str (s : Str)
  deriving DecidableEq, Repr, Inhabited

/-- `x or default` (falsy: `None`, `0`, `""`) -/
def Arg.orElse (a d : Arg) : Arg :=
  match a with
  | .none => d
  | .int 0 => d
  | .str [] => d
  | a => a

def orStr (a : Option Str) (d : Str) : Str :=
  match a with
  | some (c :: cs) => c :: cs
  | _ => d

/-- whitespace `int()` strips: `str.isspace` except U+001C..U+001F -/
def isIntSpace (c : Char) : Bool := isSpace c && !(28 ≤ c.toNat && c.toNat ≤ 31)

def lstripInt : Str → Str
  | [] => []
  | c :: cs => if isIntSpace c then lstripInt cs else c :: cs

def digitsGo : Str → Nat → Bool → Option Nat
  | [], acc, us => if us then none else some acc
  | c :: cs, acc, us =>
    if c = '_' then (if us then none else digitsGo cs acc true)
    else
      match digitVal c with
      | some d => digitsGo cs (10 * acc + d) false
      | none => none

/-- `digit (_? digit)*` -/
def parseDigits : Str → Option Nat
  | [] => none
  | c :: cs =>
    match digitVal c with
    | some d => digitsGo cs d false
    | none => none

/-- `int(s)` on ASCII text (`none` = ValueError) -/
def intOfStr (s : Str) : Option Int :=
  match (lstripInt (lstripInt s).reverse).reverse with
  | '+' :: r => (parseDigits r).map Int.ofNat
  | '-' :: r => (parseDigits r).map fun n => - Int.ofNat n
  | r => (parseDigits r).map Int.ofNat

/-- `int(x)` -/
def toInt : Arg → PyM Int
  | .none => throw .type
  | .int i => pure i
  | .str s =>
    match intOfStr s with
    | some i => pure i
    | none => throw .value

/-- `OneOf(*valid).convert(s)` for a non-empty `str` -/
def oneOfStr (valid : List Str) (s : Str) : PyM Str :=
  if s ∈ valid then pure s else throw .spec

/-- `OneOf(*valid).convert(i)` for an `int` (the table holds `str(v)` of the int members) -/
def oneOfInt (valid : List Str) (i : Int) : PyM Int :=
  if pyStrInt i ∈ valid then pure i else throw .spec

/-- `Integer(length).convert(i)` for an `int` -/
def integerConv (length : Option Nat) (i : Int) : PyM Int :=
  match length with
  | some n => if i ≥ (10 : Int) ^ n then throw .spec else pure i
  | none => pure i

/-- `String(length).convert(s)` for a non-empty `str`: unescape, then the length check -/
def stringConv (length : Option Nat) (s : Str) : PyM Str :=
  let v := unescape s
  match length with
  | some n => if v.length > n then throw .spec else pure v
  | none => pure v

/-- `except ValueError as err: raise OFXHeaderError` (`OFXSpecError` is a `ValueError`) -/
def wrapValueError (x : PyM α) : PyM α :=
  match x with
  | .error .value => .error .header
  | .error .spec => .error .header
  | r => r

/-- validator parameters of `OFXHeaderV1` -/
structure V1P where
  ofxheader : List Str
  data : List Str
  versionLen : Option Nat
  security : List Str
  encoding : List Str
  charset : List Str
  compression : List Str
  oldLen : Option Nat
  newLen : Option Nat
  codecs : List (Str × Str)

/-- validator parameters of `OFXHeaderV2` -/
structure V2P where
  ofxheader : List Str
  version : List Str
  security : List Str
  oldLen : Option Nat
  newLen : Option Nat

structure V1 where
  ofxheader : Int
  data : Str
  version : Int
  security : Str
  encoding : Str
  charset : Str
  compression : Str
  oldfileuid : Str
  newfileuid : Str
  deriving DecidableEq, Repr, Inhabited

structure V2 where
  version : Int
  ofxheader : Int
  security : Str
  oldfileuid : Str
  newfileuid : Str
  deriving DecidableEq, Repr, Inhabited

inductive Hdr where
  | v1 (h : V1)
  | v2 (h : V2)
  deriving DecidableEq, Repr, Inhabited

/-- `OFXHeaderV1.__init__` -/
def ctorV1 (p : V1P) (version ofxheader : Arg)
    (data security encoding charset compression oldfileuid newfileuid : Option Str) : PyM V1 :=
  wrapValueError do
    let oh ← toInt (ofxheader.orElse (.int 100))
    let oh ← oneOfInt p.ofxheader oh
    let data ← oneOfStr p.data (orStr data "OFXSGML".toList)
    let v ← toInt (version.orElse (.int 102))
    let v ← integerConv p.versionLen v
    let security ← oneOfStr p.security (orStr security "NONE".toList)
    let encoding ← oneOfStr p.encoding (orStr encoding "USASCII".toList)
    let charset ← oneOfStr p.charset (orStr charset "NONE".toList)
    let compression ← oneOfStr p.compression (orStr compression "NONE".toList)
    let old ← stringConv p.oldLen (orStr oldfileuid "NONE".toList)
    let new ← stringConv p.newLen (orStr newfileuid "NONE".toList)
    pure { ofxheader := oh, data, version := v, security, encoding, charset, compression,
           oldfileuid := old, newfileuid := new }

/-- `OFXHeaderV2.__init__` -/
def ctorV2 (p : V2P) (version ofxheader : Arg) (security oldfileuid newfileuid : Option Str) : PyM V2 :=
  wrapValueError do
    let v ← toInt version
    let v ← oneOfInt p.version v
    let oh ← toInt (ofxheader.orElse (.int 200))
    let oh ← oneOfInt p.ofxheader oh
    let security ← oneOfStr p.security (orStr security "NONE".toList)
    let old ← stringConv p.oldLen (orStr oldfileuid "NONE".toList)
    let new ← stringConv p.newLen (orStr newfileuid "NONE".toList)
    pure { version := v, ofxheader := oh, security, oldfileuid := old, newfileuid := new }

def crlf : Str := ['\r', '\n']

/-- `OFXHeaderV1.__str__` -/
def strV1 (h : V1) : Str :=
  join crlf
    [ "OFXHEADER:".toList ++ pyStrInt h.ofxheader,
      "DATA:".toList ++ h.data,
      "VERSION:".toList ++ pyStrInt h.version,
      "SECURITY:".toList ++ h.security,
      "ENCODING:".toList ++ h.encoding,
      "CHARSET:".toList ++ h.charset,
      "COMPRESSION:".toList ++ h.compression,
      "OLDFILEUID:".toList ++ h.oldfileuid,
      "NEWFILEUID:".toList ++ h.newfileuid ] ++ crlf ++ crlf

def xmlDecl : Str := "<?xml version=\"1.0\" encoding=\"UTF-8\" standalone=\"no\"?>".toList

def attr (name : String) (v : Str) : Str := name.toList ++ "=\"".toList ++ v ++ "\"".toList

/-- `OFXHeaderV2.__str__` -/
def strV2 (h : V2) : Str :=
  xmlDecl ++ crlf ++
    ("<?OFX ".toList ++
      join " ".toList
        [ attr "OFXHEADER" (pyStrInt h.ofxheader), attr "VERSION" (pyStrInt h.version),
          attr "SECURITY" h.security, attr "OLDFILEUID" h.oldfileuid, attr "NEWFILEUID" h.newfileuid ]
      ++ "?>".toList) ++ crlf

def strHdr : Hdr → Str
  | .v1 h => strV1 h
  | .v2 h => strV2 h

/-- `make_header(version, security, oldfileuid, newfileuid)` -/
def makeHeader (p1 : V1P) (p2 : V2P) (version : Arg) (security oldfileuid newfileuid : Option Str) : PyM Hdr := do
  let i ← match toInt version with
    | .error .value => throw .header
    | r => r
  let major := i / 100
  if major = 1 then
    let h ← ctorV1 p1 version .none none security none none none oldfileuid newfileuid
    pure (.v1 h)
  else if major = 2 then
    let h ← ctorV2 p2 version .none security oldfileuid newfileuid
    pure (.v2 h)
  else throw .header

/-- `OFXHeaderV1.parse(rawheader)`: header and `match.end()` -/
def parseV1 (p : V1P) (raw : Str) : PyM (V1 × Nat) :=
  match reSearch v1Regex raw with
  | some ([some oh, some data, some ver, some sec, some enc, some cs, comp, some old, some new], rest) => do
    let h ← ctorV1 p (.str ver) (.str oh) (some data) (some sec) (some enc) (some cs) comp (some old) (some new)
    pure (h, raw.length - rest.length)
  | _ => throw .header

/-- `OFXHeaderV2.parse(source)` -/
def parseV2 (p : V2P) (raw : Str) : PyM (V2 × Nat) :=
  match reSearch v2Regex raw with
  | some ([some oh, some ver, some sec, some old, some new], rest) => do
    let h ← ctorV2 p (.str ver) (.str oh) (some sec) (some old) (some new)
    pure (h, raw.length - rest.length)
  | _ => throw .header

/-- `OFXHeaderV1.codec` -/
def codecV1 (p : V1P) (h : V1) : PyM Name :=
  match p.codecs.lookup h.charset with
  | some nm =>
    match Name.ofPy nm with
    | some n => pure n
    | none => throw .other        -- LookupError: unknown encoding
  | none => throw .key

/-! ### the byte stream -/

/-- `BytesIO.readline()` from the start of `bs`: through the first 0x0A -/
def splitLine : Bytes → Bytes
  | [] => []
  | b :: bs => if b = 10 then [b] else b :: splitLine bs

/-- `source.readline()` at position `pos`: the line and the new position -/
def readline (file : Bytes) (pos : Nat) : Bytes × Nat :=
  let l := splitLine (file.drop pos)
  (l, pos + l.length)

/-- the `for _ in range(8)` loop looking for the first non-blank line:
    `(header_start, line, position after the line)`; lines are decoded with `errors="replace"` -/
def findHeader (file : Bytes) : Nat → Nat → PyM (Nat × Str × Nat)
  | 0, _ => throw .header
  | n + 1, pos =>
    let (l, pos') := readline file pos
    let line := decodeAsciiReplace l
    if (strip line).isEmpty then findHeader file n pos' else pure (pos, line, pos')

/-- the eight further `rawheader += source.readline().decode("ascii", errors="replace")` -/
def moreLines (file : Bytes) : Nat → Nat → Str
  | 0, _ => []
  | n + 1, pos =>
    let (l, pos') := readline file pos
    decodeAsciiReplace l ++ moreLines file n pos'

/-- `parse_header(io.BytesIO(file))` -/
def parseHeader (p1 : V1P) (p2 : V2P) (tbl : List (Option Nat)) (file : Bytes) : PyM (Hdr × Str) := do
  let (headerStart, line, pos) ← findHeader file 8 0
  match reMatch xmlRegex line with
  | some _ =>
    let decoded ← decodeUtf8 file
    let (h, e) ← parseV2 p2 decoded
    pure (.v2 h, decoded.drop e)
  | none =>
    let raw := line ++ moreLines file 8 pos
    let (h, e) ← parseV1 p1 raw
    let codec ← codecV1 p1 h
    let message ← decode tbl codec (file.drop (headerStart + e))
    pure (.v1 h, strip message)

end Ofx.Header
