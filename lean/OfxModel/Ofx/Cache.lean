/-
C15 — `OFXClient.request_profile` (ofxtools/Client.py:472-547) as a **small-step** machine over a
one-file disk, so that a crash can be placed after any action and several processes can be
interleaved action by action.

What is abstracted
* A profile response is `Profile = {date, body, pad}`: `date` is DTPROFUP, `body` identifies the
  content (the correspondence harness writes it into FINAME), `pad` makes serialisations of
  different length (`pad + 1` cells) — needed to exhibit what two writers leave behind.
* File content is a list of cells `(owner profile, offset)`; `ser p` is the serialisation of `p`;
  a file *parses* iff it is exactly `ser p` for some `p` (the real parser rejects the empty file,
  a prefix and a mix — checked on the real code by `harness/corr/C15.py`).
* The cache is replaced atomically (repo commit "fix: the FI profile cache is replaced atomically"):
  `tempfile.mkstemp(dir=persistdir, …)` creates a file private to the process (`Proc.tmp`), `write` puts the
  data at offset 0 of that file (`overlay`), `close`, then `os.replace(tmppath, persistpath)` makes the cache
  file *be* the temporary file in one action.  A process that dies in between leaves a stray `*.tmp` file
  (`Proc.tmp` stays `some _`) and never touches the cache file.  The `except BaseException: os.unlink(tmppath)`
  clean-up is reached only when one of these actions raises, which no modelled action does (disk full, permission
  errors are not modelled).
* The cache file name is `f"{org}-{fid}.profrs"` (`cacheKey`), `None` rendered by `str(None)`.

The actions, in program order (`PC`): `exists()`, `open(rb)/read/parse`, `mkdir`, POST,
parse of the response, `assert profrs is not None` (status 1), `assert code == 0`,
`proftrnrs.profrs.dtprofup`, `assert dtprofup is None or dtprofup <= dtprofup_server`,
`mkstemp`, `write`, `close`, `os.replace`.  Python is assumed to run without `-O` (asserts raise).
-/
import OfxModel.Proto
import OfxModel.Py.Err

namespace Ofx.Cache
open Ofx

/-! ### profiles, files, server behaviours -/

structure Profile where
  date : Nat
  body : Nat
  pad  : Nat
  deriving DecidableEq, Repr, Inhabited

structure Cell where
  owner : Profile
  idx   : Nat
  deriving DecidableEq, Repr

abbrev Content := List Cell

/-- the bytes of a complete profile response -/
def ser (p : Profile) : Content := (List.range (p.pad + 1)).map (Cell.mk p)

/-- `OFXTree().parse(...)/convert()/profmsgsrsv1[0].profrs` on file content: succeeds exactly on a
    complete serialisation -/
def parse (c : Content) : Option Profile :=
  match c with
  | [] => none
  | x :: _ => if c = ser x.owner then some x.owner else none

/-- `none` = the file does not exist -/
abbrev Disk := Option Content

/-- a write of `new` at offset 0 over `old` -/
def overlay (old new : Content) : Content := new ++ old.drop new.length

/-- What the server does with one PROFRQ. `profile p` covers "newer", "same" and "older"
    (decided by `p.date`). -/
inductive Beh where
  | profile (p : Profile)   -- status 0 + PROFRS
  | upToDate                -- status 1, no PROFRS
  | errorStatus             -- any other status code, no PROFRS
  | noProfrs                -- status 0 but no PROFRS
  | garbage                 -- not OFX
  | transportError          -- URLError / HTTPError: no response reaches request_profile
  deriving DecidableEq, Repr, Inhabited

/-- What a call returns: the profile (bytes of the cached or the received response) or, on a dry
    run, the serialised request. -/
inductive Ret where
  | prof (p : Profile)
  | dryRequest
  deriving DecidableEq, Repr

/-! ### the machine -/

inductive PC where
  | start                                              -- persistpath.exists()
  | readCache                                          -- open(rb), read, parse, convert, .dtprofup
  | mkdir                                              -- persistdir.mkdir(parents=True, exist_ok=True)
  | post (held : Option Profile)                       -- _request_profile(dtprofup=…) → download → post_request
  | parseResp (held : Option Profile) (b : Beh)        -- OFXTree().parse(response); convert(); status.code
  | assertCached (held : Option Profile)               -- assert profrs is not None; response = profrs
  | assertCode0 (held : Option Profile) (is0 : Bool) (p : Option Profile)   -- assert status.code == 0
  | serverDate (held : Option Profile) (p : Option Profile)                 -- proftrnrs.profrs.dtprofup
  | assertDate (held : Option Profile) (p : Profile)   -- assert dtprofup is None or dtprofup <= dtprofup_server
  | mkstemp (p : Profile)                              -- tempfile.mkstemp(dir=persistdir, …); os.fdopen(fd, "wb")
  | write (p : Profile)                                -- f.write(response.read())   (into the temporary file)
  | close (p : Profile)                                -- leaving the `with` block
  | replace (p : Profile)                              -- os.replace(tmppath, persistpath)   (atomic)
  | done (r : Except Err Ret)
  deriving Repr

/-- One process executing `request_profile`. `sent` records the DTPROFUP of the PROFRQ it posted:
    `none` = nothing posted yet, `some none` = the 1990-01-01 default, `some (some d)` = date `d`. -/
structure Proc where
  pc   : PC
  beh  : Beh           -- what the server will answer to this process's PROFRQ
  dry  : Bool := false
  sent : Option (Option Nat) := none
  tmp  : Option Content := none     -- this process's temporary file (`none`: it has none)
  deriving Repr

def Proc.init (beh : Beh) (dry : Bool := false) : Proc := { pc := .start, beh := beh, dry := dry }

def Proc.isDone (p : Proc) : Bool := match p.pc with | .done _ => true | _ => false

def Proc.result (p : Proc) : Option (Except Err Ret) := match p.pc with | .done r => some r | _ => none

/-- One atomic action of one process on the shared file. -/
def stepProc (disk : Disk) (pr : Proc) : Disk × Proc :=
  match pr.pc with
  | .start => (disk, { pr with pc := if disk.isSome then .readCache else .mkdir })
  | .readCache =>
    match disk with
    | none => (disk, { pr with pc := .done (.error .other) })           -- FileNotFoundError
    | some c =>
      match parse c with
      | some p => (disk, { pr with pc := .post (some p) })
      | none => (disk, { pr with pc := .done (.error .parse) })         -- the cache file does not parse
  | .mkdir => (disk, { pr with pc := .post none })
  | .post held =>
    if pr.dry then (disk, { pr with pc := .done (.ok .dryRequest) })    -- download(dryrun=True): no POST
    else
      let pr := { pr with sent := some (held.map Profile.date) }
      match pr.beh with
      | .transportError => (disk, { pr with pc := .done (.error .other) })
      | b => (disk, { pr with pc := .parseResp held b })
  | .parseResp held b =>
    match b with
    | .garbage => (disk, { pr with pc := .done (.error .header) })
    | .transportError => (disk, { pr with pc := .done (.error .other) })
    | .upToDate => (disk, { pr with pc := .assertCached held })
    | .errorStatus => (disk, { pr with pc := .assertCode0 held false none })
    | .noProfrs => (disk, { pr with pc := .assertCode0 held true none })
    | .profile p => (disk, { pr with pc := .assertCode0 held true (some p) })
  | .assertCached held =>
    match held with
    | some q => (disk, { pr with pc := .done (.ok (.prof q)) })
    | none => (disk, { pr with pc := .done (.error .assert) })
  | .assertCode0 held is0 p =>
    if is0 then (disk, { pr with pc := .serverDate held p })
    else (disk, { pr with pc := .done (.error .assert) })
  | .serverDate held p =>
    match p with
    | some p => (disk, { pr with pc := .assertDate held p })
    | none => (disk, { pr with pc := .done (.error .attr) })            -- None.dtprofup
  | .assertDate held p =>
    match held with
    | none => (disk, { pr with pc := .mkstemp p })
    | some q =>
      if q.date ≤ p.date then (disk, { pr with pc := .mkstemp p })
      else (disk, { pr with pc := .done (.error .assert) })
  | .mkstemp p => (disk, { pr with pc := .write p, tmp := some [] })    -- a new, empty, private file
  | .write p =>
    (disk, { pr with pc := .close p,
                     tmp := some (overlay (match pr.tmp with | some c => c | none => []) (ser p)) })
  | .close p => (disk, { pr with pc := .replace p })
  | .replace p =>                                                       -- the cache file becomes the temporary file
    ((match pr.tmp with | some c => some c | none => disk),
     { pr with pc := .done (.ok (.prof p)), tmp := none })
  | .done _ => (disk, pr)

/-- run one process alone for at most `fuel` actions -/
def runProc : Nat → Disk → Proc → Disk × Proc
  | 0, d, p => (d, p)
  | n + 1, d, p => if p.isDone then (d, p) else let (d', p') := stepProc d p; runProc n d' p'

/-- the longest path through `request_profile` has 11 actions -/
def fuel : Nat := 12

structure CallOut where
  disk : Disk
  res  : Except Err Ret
  sent : Option (Option Nat)
  deriving Repr

/-- `request_profile()` run to completion by one process with nobody else touching the file -/
def call (disk : Disk) (beh : Beh) (dry : Bool := false) : CallOut :=
  let (d, p) := runProc fuel disk (Proc.init beh dry)
  { disk := d, sent := p.sent,
    res := match p.pc with | .done r => r | _ => .error .other }

/-- the part of `request_profile` before the POST: what the client holds (`exists`/`read`/`parse`/`mkdir`) -/
def held (disk : Disk) : Except Err (Option Profile) :=
  match disk with
  | none => .ok none
  | some c => match parse c with | some p => .ok (some p) | none => .error .parse

/-! ### sequential histories -/

structure StepRec where
  res  : Except Err Ret
  sent : Option (Option Nat)
  disk : Disk
  deriving Repr

/-- a history of calls, each by a fresh process (a restarted client is the same thing: the machine
    keeps nothing in memory between calls) -/
def runSeq : Disk → List Beh → List StepRec
  | _, [] => []
  | d, b :: bs => let o := call d b; { res := o.res, sent := o.sent, disk := o.disk } :: runSeq o.disk bs

/-! ### crashes and interleavings -/

inductive Act where
  | step (i : Nat)     -- process `i` performs its next action
  | crash (i : Nat)    -- process `i` dies here (nothing else happens: its temporary file, if any, stays)
  deriving DecidableEq, Repr

structure Sys where
  disk  : Disk
  procs : List Proc
  deriving Repr

def crashed : Proc → Proc := fun p => { p with pc := .done (.error .other) }

def Sys.act (s : Sys) : Act → Sys
  | .step i =>
    match s.procs[i]? with
    | none => s
    | some p => let (d, p') := stepProc s.disk p; { disk := d, procs := s.procs.set i p' }
  | .crash i =>
    match s.procs[i]? with
    | none => s
    | some p => { s with procs := s.procs.set i (crashed p) }

def Sys.run (s : Sys) (sched : List Act) : Sys := sched.foldl Sys.act s

/-! ### the file name -/

def pyStrOpt : Option Str → Str
  | none => "None".toList
  | some s => s

/-- `f"{self.org}-{self.fid}.profrs"` -/
def cacheKey (org fid : Option Str) : Str := pyStrOpt org ++ '-' :: pyStrOpt fid ++ ".profrs".toList

/-- the directory `DATADIR/fiprofiles` as a map from file name to file -/
abbrev FS := Str → Disk

def FS.empty : FS := fun _ => none
def FS.set (fs : FS) (k : Str) (d : Disk) : FS := fun k' => if k' = k then d else fs k'

/-- `request_profile` of a client configured with `org`/`fid` -/
def callFS (fs : FS) (org fid : Option Str) (beh : Beh) (dry : Bool := false) : FS × CallOut :=
  let k := cacheKey org fid
  let o := call (fs k) beh dry
  (fs.set k o.disk, o)

/-! ### classification used at the protocol boundary -/

inductive DiskView where
  | absent
  | complete (p : Profile)
  | empty
  | torn
  deriving DecidableEq, Repr

def view : Disk → DiskView
  | none => .absent
  | some [] => .empty
  | some c => match parse c with | some p => .complete p | none => .torn

end Ofx.Cache
