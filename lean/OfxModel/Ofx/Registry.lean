/-
The shared mutable state that parsing / converting / writing actually touches (C17).

Everything else in the pipeline is modelled by functions (`Pipeline.writeFile`, `readFile`, `Agg.fromEtree`,
`Agg.toEtree`, `Builder.parse`, `Types.conv`): for those "depends only on the input" is true by construction.
What the code has beyond that, found by reading it:

* every `convert` / `unconvert` of `ofxtools.Types` is a `functools.singledispatchmethod` stored on the
  converter *class*: one `registry` dict (type ↦ function), one `dispatch_cache` (a `WeakKeyDictionary`
  type ↦ function) and a `cache_token` per generic function, shared by all converter instances, hence by all
  model classes and all threads;
* 14 of the 15 registries are written only while `Types.py` is imported.  The 15th, `DateTime.unconvert`, is
  written at run time: `DateTime.normalize_to_gmt` executes
  `self.unconvert.register(datetime.datetime, self._unconvert_datetime)` on every successful text → datetime
  conversion, i.e. it replaces the plain function registered for `datetime.datetime` by a *bound method of the
  converter instance that converted last*, and `register` then empties the dispatch cache
  (`MutableMapping.clear`: a Python-level loop of `popitem()` calls);
* `Time` (the only subclass of `DateTime`) overrides `normalize_to_gmt` without the `register` call and has
  its own `unconvert` generic function, which is therefore never written;
* `Element.__set__` stores on `obj.__dict__[self.name]`: the per-instance dicts.

This file models exactly that: a generic function (`Disp`) = registry + default + cache; handlers identified
by (function, bound converter instance); `register` / `clear` / `dispatch` decomposed into the dict operations
`functools.singledispatch` performs (each one C-level dict call, the atomic actions of `C17_interleave`); the
sequential big-step `stepOp`; and a small-step thread machine (`Thread.step`, `Sys.run`) in which any number of
threads execute those dict operations under an arbitrary schedule.

`cache_token` stays `None`: `register` sets it only when the registered class has `__abstractmethods__`, and
`datetime.datetime` has not.  `_find_impl` is the "no ABC" case: the first class of the MRO that is a key of
the registry (the key set never changes: `register` only ever overwrites the `datetime.datetime` entry).
-/
import OfxModel.Ofx.DateTime

namespace Ofx.Registry
open Ofx Ofx.Cal Ofx.DateTime

/-! ### dispatch keys -/

/-- Python classes as dispatch keys (`value.__class__`) -/
inductive Ty where
  | none | bool | int | str | dec | datetime | date | time | other
  deriving DecidableEq, Repr, Inhabited

/-- `cls.__mro__` without the final `object` (`bool <: int`, `datetime <: date`) -/
def Ty.mro : Ty → List Ty
  | .bool => [.bool, .int]
  | .datetime => [.datetime, .date]
  | t => [t]

/-- `value.__class__` (a `Val.other "date"` is a `datetime.date`) -/
def tyOf : Val → Ty
  | .none => .none
  | .bool _ => .bool
  | .int _ => .int
  | .str _ => .str
  | .dec _ => .dec
  | .dt _ => .datetime
  | .tm _ => .time
  | .other k => if k = "date" then .date else .other

/-! ### handlers -/

/-- a converter instance: identity, `DateTime` or `Time`, and the one attribute handlers read (`required`) -/
structure ConvInst where
  id : Nat
  time : Bool
  required : Bool
  deriving DecidableEq, Repr, Inhabited

/-- the plain functions found in the two `unconvert` registries -/
inductive Fn where
  | dtDefault    -- `DateTime.unconvert` (registered for `object`): TypeError
  | dtDatetime   -- `DateTime._unconvert_datetime`
  | dtNone       -- `DateTime._unconvert_none`
  | tmDefault    -- `Time.unconvert`
  | tmTime       -- `Time._unconvert_time`
  | tmNone       -- `Time._unconvert_none`
  deriving DecidableEq, Repr, Inhabited

/-- a registry value: a plain function (`bound = none`) or a bound method of a converter instance -/
structure Handler where
  fn : Fn
  bound : Option ConvInst
  deriving DecidableEq, Repr, Inhabited

/-- the body of each function, on (`self`, `value`) -/
def Fn.run : Fn → ConvInst → Val → PyM Val
  | .dtDefault, _, _ => .error .type
  | .dtDatetime, _, v =>
    -- reads nothing from `self` (only `self.__type__`, a class attribute, for the error text)
    match v with
    | .dt d => dtUnconvert false (.dt d)
    | _ => .error .value                          -- `not hasattr(value, "utcoffset")`
  | .dtNone, self, v =>
    match v with
    | .none => DateTime.enforceRequired self.required
    | v => .ok v                                  -- `enforce_required(value)` passes anything else through
  | .tmDefault, _, _ => .error .type
  | .tmTime, _, v =>
    match v with
    | .tm t => tmUnconvert false (.tm t)
    | _ => .error .value
  | .tmNone, self, v =>
    match v with
    | .none => DateTime.enforceRequired self.required
    | v => .ok v

/-- `method.__get__(obj, cls)(value)`: a plain function is bound to `obj`, a bound method stays bound to
    its own instance -/
def Handler.call (h : Handler) (obj : ConvInst) (v : Val) : PyM Val :=
  match h.bound with
  | some self => h.fn.run self v
  | none => h.fn.run obj v

/-! ### a generic function -/

abbrev Dict := List (Ty × Handler)

/-- `d[k] = v` -/
def Dict.set (d : Dict) (k : Ty) (v : Handler) : Dict := (k, v) :: d.filter (fun e => e.1 ≠ k)

/-- `d.popitem()`: `none` is the `KeyError` of the empty dict -/
def Dict.pop : Dict → Option Dict
  | [] => none
  | _ :: r => some r

/-- the state of one `functools.singledispatch` object -/
structure Disp where
  dflt : Handler         -- `registry[object]`
  registry : Dict        -- the other entries of `registry`
  cache : Dict           -- `dispatch_cache`
  deriving Repr, Inhabited

/-- first class of the MRO that is registered -/
def findIn (reg : Dict) (dflt : Handler) : List Ty → Handler
  | [] => dflt
  | t :: r => match reg.lookup t with
    | some h => h
    | none => findIn reg dflt r

/-- `registry[cls]`, else `_find_impl(cls, registry)` -/
def Disp.findImpl (d : Disp) (t : Ty) : Handler := findIn d.registry d.dflt t.mro

/-- what `dispatch(cls)` returns in the state `d` (cache first) -/
def Disp.dispatch (d : Disp) (t : Ty) : Handler :=
  match d.cache.lookup t with
  | some h => h
  | none => d.findImpl t

/-- the atomic actions -/
def Disp.regSet (d : Disp) (t : Ty) (h : Handler) : Disp := { d with registry := d.registry.set t h }
def Disp.cacheSet (d : Disp) (t : Ty) (h : Handler) : Disp := { d with cache := d.cache.set t h }
def Disp.cachePop (d : Disp) : Option Disp := d.cache.pop.map fun c => { d with cache := c }
def Disp.clearCache (d : Disp) : Disp := { d with cache := [] }

/-- `register(cls, func)` run without interruption: `registry[cls] = func; dispatch_cache.clear()` -/
def Disp.register (d : Disp) (t : Ty) (h : Handler) : Disp := (d.regSet t h).clearCache

/-- `dispatch(cls)` run without interruption: new state (the cache is filled on a miss) and the handler -/
def Disp.dispatchStep (d : Disp) (t : Ty) : Disp × Handler :=
  match d.cache.lookup t with
  | some h => (d, h)
  | none => let h := d.findImpl t; (d.cacheSet t h, h)

/-! ### the process-wide state -/

/-- `obj.__dict__[name]` of every model instance, keyed by (instance id, attribute name) -/
abbrev Heap := List ((Nat × Str) × Val)

def Heap.get (h : Heap) (o : Nat) (n : Str) : Option Val := h.lookup (o, n)
def Heap.put (h : Heap) (o : Nat) (n : Str) (v : Val) : Heap := ((o, n), v) :: h
/-- `obj.__dict__[name]`: KeyError when the attribute was never set -/
def Heap.read (h : Heap) (o : Nat) (n : Str) : PyM Val :=
  match h.get o n with
  | some v => .ok v
  | none => .error .key

structure Registry where
  dt : Disp      -- `DateTime.__dict__["unconvert"].dispatcher`
  tm : Disp      -- `Time.__dict__["unconvert"].dispatcher`
  heap : Heap
  deriving Repr, Inhabited

/-- the state right after `import ofxtools` -/
def init : Registry :=
  { dt := { dflt := ⟨.dtDefault, none⟩,
            registry := [(.datetime, ⟨.dtDatetime, none⟩), (.none, ⟨.dtNone, none⟩)], cache := [] },
    tm := { dflt := ⟨.tmDefault, none⟩,
            registry := [(.time, ⟨.tmTime, none⟩), (.none, ⟨.tmNone, none⟩)], cache := [] },
    heap := [] }

/-- the generic function `obj.unconvert` resolves to -/
def Registry.disp (R : Registry) (obj : ConvInst) : Disp := if obj.time then R.tm else R.dt
def Registry.setDisp (R : Registry) (obj : ConvInst) (d : Disp) : Registry :=
  if obj.time then { R with tm := d } else { R with dt := d }

/-- the result of `obj.unconvert(v)` in the state `R` -/
def Registry.unconvert (R : Registry) (obj : ConvInst) (v : Val) : PyM Val :=
  ((R.disp obj).dispatch (tyOf v)).call obj v

/-! ### operations -/

/-- does `DateTime._convert_str(s)` reach `normalize_to_gmt` (and so `register`)?  Everything before it must
    succeed: the regex, `parse_gmt_offset`, the `int()`s, the `datetime.datetime(...)` constructor; the
    subtraction of the offset (OverflowError at the ends of the calendar) comes after. -/
def dtRegisters (tzs : List (Str × Int)) (s : Str) : Bool :=
  match dtRegex s with
  | none => false
  | some g =>
    match parseGmtOffset tzs g.offH g.offM g.name, intOfAscii g.year, intOfAscii g.month, intOfAscii g.day,
          intOfAscii g.hour, intOfAscii g.minute, intOfAscii g.second, intOfAscii g.ms with
    | .ok _, .ok y, .ok mo, .ok d, .ok h, .ok mi, .ok sec, .ok ms =>
      validDate y mo d && validTime h mi sec (1000 * ms)
    | _, _, _, _, _, _, _, _ => false

/-- does `obj.convert(v)` call `register`? only `DateTime` (not `Time`) instances, only for texts -/
def registers (tzs : List (Str × Int)) (obj : ConvInst) (v : Val) : Bool :=
  match v with
  | .str s => !obj.time && dtRegisters tzs s
  | _ => false

/-- the handler `normalize_to_gmt` registers: `self._unconvert_datetime` -/
def boundHandler (obj : ConvInst) : Handler := ⟨.dtDatetime, some obj⟩

/-- `obj.convert(v)` as a function of its arguments (the model used by `Types.conv`) -/
def convRes (tzs : List (Str × Int)) (obj : ConvInst) (v : Val) : PyM Val :=
  if obj.time then tmConvertWith tzs obj.required v else dtConvertWith tzs obj.required v

/-- `obj.unconvert(v)` as a function of its arguments (the model used by `Types.conv`) -/
def unconvRes (obj : ConvInst) (v : Val) : PyM Val :=
  if obj.time then tmUnconvert obj.required v else dtUnconvert obj.required v

inductive Op where
  | convert (obj : ConvInst) (v : Val)                -- `obj.convert(v)`
  | unconvert (obj : ConvInst) (v : Val)              -- `obj.unconvert(v)`
  | setAttr (o : Nat) (name : Str) (v : Val)          -- `Element.__set__` after conversion: `o.__dict__[name] = v`
  | getAttr (o : Nat) (name : Str)                    -- `Element.__get__`: `o.__dict__[name]` (KeyError if unset)
  deriving Repr, Inhabited

/-- the value of an operation as a function of its arguments alone — what the rest of the model
    (`Types.conv`, hence `Agg`, `Pipeline`) uses.  `none` for `getAttr`, whose value is defined by the heap. -/
def pureOp (tzs : List (Str × Int)) : Op → Option (PyM Val)
  | .convert obj v => some (convRes tzs obj v)
  | .unconvert obj v => some (unconvRes obj v)
  | .setAttr _ _ _ => some (.ok .none)
  | .getAttr _ _ => none

/-- one operation run without interruption -/
def stepOp (tzs : List (Str × Int)) (R : Registry) : Op → Registry × PyM Val
  | .convert obj v =>
    if registers tzs obj v then ({ R with dt := R.dt.register .datetime (boundHandler obj) }, convRes tzs obj v)
    else (R, convRes tzs obj v)
  | .unconvert obj v =>
    (R.setDisp obj ((R.disp obj).dispatchStep (tyOf v)).1, ((R.disp obj).dispatchStep (tyOf v)).2.call obj v)
  | .setAttr o n v => ({ R with heap := R.heap.put o n v }, .ok .none)
  | .getAttr o n => (R, R.heap.read o n)

/-- a history -/
def runOps (tzs : List (Str × Int)) (R : Registry) : List Op → Registry × List (PyM Val)
  | [] => (R, [])
  | op :: ops =>
    let (R', o) := stepOp tzs R op
    let (R'', os) := runOps tzs R' ops
    (R'', o :: os)

/-! ### threads: the same operations, one dict access at a time -/

/-- where a thread stands inside its current operation -/
inductive Pc where
  | idle
  /-- `convert`: result computed, about to execute `registry[datetime] = self._unconvert_datetime` -/
  | regWrite (obj : ConvInst) (res : PyM Val)
  /-- inside `dispatch_cache.clear()`: about to call `popitem()` once more -/
  | clearing (res : PyM Val)
  /-- `unconvert`: about to read `dispatch_cache[cls]` -/
  | cacheLookup (obj : ConvInst) (v : Val)
  /-- cache miss: about to read `registry[cls]` / `_find_impl` -/
  | regLookup (obj : ConvInst) (v : Val)
  /-- about to execute `dispatch_cache[cls] = impl`, then call `impl` -/
  | cacheStore (obj : ConvInst) (v : Val) (h : Handler)
  deriving Repr, Inhabited

structure Thread where
  prog : List Op               -- operations not yet started
  pc : Pc
  out : List (PyM Val)         -- results returned so far, oldest first
  deriving Repr, Inhabited

/-- one atomic action of one thread -/
def Thread.step (tzs : List (Str × Int)) (R : Registry) (T : Thread) : Registry × Thread :=
  match T.pc with
  | .idle =>
    match T.prog with
    | [] => (R, T)
    | .convert obj v :: rest =>
      if registers tzs obj v then (R, { T with prog := rest, pc := .regWrite obj (convRes tzs obj v) })
      else (R, { T with prog := rest, out := T.out ++ [convRes tzs obj v] })
    | .unconvert obj v :: rest => (R, { T with prog := rest, pc := .cacheLookup obj v })
    | .setAttr o n v :: rest => ({ R with heap := R.heap.put o n v }, { T with prog := rest, out := T.out ++ [.ok .none] })
    | .getAttr o n :: rest => (R, { T with prog := rest, out := T.out ++ [R.heap.read o n] })
  | .regWrite obj res => ({ R with dt := R.dt.regSet .datetime (boundHandler obj) }, { T with pc := .clearing res })
  | .clearing res =>
    match R.dt.cachePop with
    | some d => ({ R with dt := d }, T)                                  -- popped one entry, loop
    | none => (R, { T with pc := .idle, out := T.out ++ [res] })         -- KeyError: cleared; `convert` returns
  | .cacheLookup obj v =>
    match (R.disp obj).cache.lookup (tyOf v) with
    | some h => (R, { T with pc := .idle, out := T.out ++ [h.call obj v] })
    | none => (R, { T with pc := .regLookup obj v })
  | .regLookup obj v => (R, { T with pc := .cacheStore obj v ((R.disp obj).findImpl (tyOf v)) })
  | .cacheStore obj v h =>
    (R.setDisp obj ((R.disp obj).cacheSet (tyOf v) h), { T with pc := .idle, out := T.out ++ [h.call obj v] })

structure Sys where
  reg : Registry
  threads : List Thread
  deriving Repr, Inhabited

def Sys.start (R : Registry) (progs : List (List Op)) : Sys :=
  { reg := R, threads := progs.map fun p => { prog := p, pc := .idle, out := [] } }

/-- thread `i` performs one atomic action (nothing happens for an `i` that names no thread) -/
def Sys.step (tzs : List (Str × Int)) (S : Sys) (i : Nat) : Sys :=
  match S.threads[i]? with
  | none => S
  | some T =>
    let (R', T') := T.step tzs S.reg
    { reg := R', threads := S.threads.set i T' }

/-- a schedule: which thread moves next -/
def Sys.run (tzs : List (Str × Int)) (S : Sys) : List Nat → Sys
  | [] => S
  | i :: sched => (S.step tzs i).run tzs sched

def Thread.finished (T : Thread) : Bool :=
  T.prog.isEmpty && (match T.pc with | .idle => true | _ => false)

end Ofx.Registry
