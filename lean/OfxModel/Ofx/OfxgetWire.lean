/-
From the `ofxget` command line to the bytes of the request (C19 composed with C06).

`ofxtools/scripts/ofxget.py` ends `request_stmt` / `request_stmtend` with

    client = init_client(args)
    with client.request_statements(password, *stmtrqs, dryrun=args["dryrun"],
                                   gen_newfileuid=not args["nonewfileuid"], skip_profile=args["skipprofile"]) as f:
        response = f.read()
    print(response.decode())

`Ofxget.lean` models everything up to that call (`Plan`: the request tuples, the keyword arguments of `OFXClient`,
the mapping after discovery) with `DateTime().convert` abstract; `Compose.lean` models `OFXClient.__init__`,
`request_statements` and `serialize` on typed arguments.  This file is the conversion the Python run time performs
between the two (a `dict` of keyword arguments → parameters of `__init__`; NamedTuples whose fields hold whatever the
mapping held → the typed request records), with `DateTime().convert` now the model of `Types.DateTime`
(`DateTime.lean`), and the composition of the whole:

  `dateConvert`      `DateTime().convert(text or None)` (the `D` of `convert_datetime`)
  `getPasswd`        `get_passwd(args)`: the dummy password of a dry run, `args["password"]`, else what the key ring /
                     the terminal hands over (external: parameter `typed`)
  `clientArgs`       keyword arguments of `init_client` → `Compose.InitArgs`
  `clientCfg`        `init_client(args)`: the attribute values of the `OFXClient` instance (`Compose.Cfg`)
  `toReq`            `StmtRq(...)`, `CcStmtRq(...)`, … as built by the loops → `Compose.Req`
  `requestBytes`     `client.request_statements(password, *rqs, dryrun=…, gen_newfileuid=…, skip_profile=…)` up to and
                     including `self.serialize(...)` in `download`: the request as text — what a dry run prints, what
                     `post_request` is handed otherwise
  `stmtBytes` / `stmtendBytes`   `request_stmt(args)` / `request_stmtend(args)` to that point

Domain: the values of the mapping have the types argparse / `read_config` / `DEFAULTS` give them (texts for the text
options, an `int` ≥ 0 for `version`, `bool` or `None` for flags); a value of another type is answered with
`TypeError` here (the real code fails somewhere inside `OFXClient`, with an exception that depends on the value).
`useragent` only reaches the HTTP headers, `url` only `post_request`: neither is part of the request text.

External: `Ext` — the account-information response as `extract_acctinfos` reads it (only consulted with `--all`),
the typed password, the values `OFXClient.uuid` returns while the statement request is composed (n-th wrapper, then
NEWFILEUID), `dtclient()`.
-/
import OfxModel.Ofx.Ofxget
import OfxModel.Ofx.Compose
import OfxModel.Ofx.DateTime

namespace Ofx.OfxgetWire
open Ofx Ofx.Ofxget Ofx.Compose

/-- `DateTime().convert(v)` for `v` a text or `None` -/
def dateConvert (o : Option Str) : PyM (Option DT) := do
  let v ← DateTime.dtConvert false (match o with
    | none => Val.none
    | some s => Val.str s)
  match v with
  | .none => pure none
  | .dt d => pure (some d)
  | _ => .error .type

/-- `get_passwd(args)`; `typed` is what `keyring.get_password(...)` / `getpass.getpass()` deliver -/
def getPasswd (args : Chain) (typed : Str) : PyM Str := do
  let dry ← args.getItem "dryrun".toList
  if truthy dry then pure authPlaceholder
  else do
    let pw ← args.getItem "password".toList
    if truthy pw then
      match pw with
      | .str s => pure s
      | _ => .error .type
    else pure typed

/-- a keyword argument annotated `Optional[str]` -/
def optStrArg : CfgVal → PyM (Option Str)
  | .null => pure none
  | .str s => pure (some s)
  | _ => .error .type

/-- a keyword argument annotated `Optional[bool]` -/
def optBoolArg : CfgVal → PyM (Option Bool)
  | .null => pure none
  | .bool b => pure (some b)
  | _ => .error .type

/-- `version: Optional[int]`; a negative number is no OFX version (`make_header` refuses it) -/
def optVersionArg : CfgVal → PyM (Option Nat)
  | .null => pure none
  | .int i => if i < 0 then .error .header else pure (some i.toNat)
  | _ => .error .type

/-- the positional argument `url` (`None` when the mapping has no URL: only `post_request` would look at it) -/
def urlArg : CfgVal → PyM Str
  | .null => pure []
  | .str s => pure s
  | _ => .error .type

/-- `kw[k]` -/
def kwGet (m : Map) (k : String) : PyM CfgVal :=
  match m.lookup k.toList with
  | some v => pure v
  | none => .error .key

/-- the keyword arguments `init_client` passes (as a `dict`, `Ofxget.initClient`) bound to the parameters of
    `OFXClient.__init__` -/
def clientArgs (m : Map) : PyM InitArgs := do
  let url ← urlArg (← kwGet m "url")
  let userid ← optStrArg (← kwGet m "userid")
  let clientuid ← optStrArg (← kwGet m "clientuid")
  let org ← optStrArg (← kwGet m "org")
  let fid ← optStrArg (← kwGet m "fid")
  let version ← optVersionArg (← kwGet m "version")
  let appid ← optStrArg (← kwGet m "appid")
  let appver ← optStrArg (← kwGet m "appver")
  let language ← optStrArg (← kwGet m "language")
  let prettyprint ← optBoolArg (← kwGet m "prettyprint")
  let closeElements ← optBoolArg (← kwGet m "close_elements")
  let bankid ← optStrArg (← kwGet m "bankid")
  let brokerid ← optStrArg (← kwGet m "brokerid")
  pure { url, userid, clientuid, org, fid, version, appid, appver, language, prettyprint, closeElements, bankid,
         brokerid }

/-- `OFXClient(**kw)` for the keyword arguments `init_client` built -/
def clientOfKw (m : Map) : PyM Cfg := do
  let a ← clientArgs m
  init a

/-- `init_client(args)`: the `OFXClient` instance, as the values of its attributes -/
def clientCfg (args : Chain) : PyM Cfg := do
  let m ← initClient args
  clientOfKw m

/-- one request NamedTuple as the loops of `request_stmt` / `request_stmtend` fill it (account id and type are
    texts, the dates what `DateTime().convert` returned, the flags whatever the mapping holds) → the typed record -/
def toReq : Rq DT → PyM Req
  | .stmt id ty s e t => do pure (.stmt (some id) (some ty) s e (← optBoolArg t))
  | .ccstmt id s e t => do pure (.ccStmt (some id) s e (← optBoolArg t))
  | .invstmt id s e a t oo pos bal => do
    pure (.invStmt (some id) s e a (← optBoolArg t) (← optBoolArg oo) (← optBoolArg pos) (← optBoolArg bal))
  | .stmtend id ty s e => pure (.stmtEnd (some id) (some ty) s e)
  | .ccstmtend id s e => pure (.ccStmtEnd (some id) s e)

/-- `*stmtrqs` -/
def toReqs (l : List (Rq DT)) : PyM (List Req) := l.mapM toReq

/-- `self.uuid if gen_newfileuid else None`, read after one uuid per wrapper has been consumed -/
def newFileUid (gen : Bool) (uuid : Nat → Str) (n : Nat) : Option Str := if gen then some (uuid n) else none

/-- `client.request_statements(password, *reqs, gen_newfileuid=gen, …)` up to and including `serialize`: the request
    text.  With `gen = true` this is `Compose.statementsBytes`. -/
def requestBytes (S : Schema) (cv : Conv) (env : Compose.Env) (cfg : Cfg) (password : Str) (reqs : List Req)
    (gen : Bool) (uuid : Nat → Str) (dtclient : DT) : PyM Str := do
  let ofx ← requestStatements S cv cfg password reqs uuid dtclient
  serializeReq S cv env cfg ofx none none (newFileUid gen uuid reqs.length) none none

/-- what reaches one run of `ofxget stmt` / `stmtend` from outside -/
structure Ext where
  /-- what `extract_acctinfos` yields for the server's answer to the ACCTINFORQ (`--all`) -/
  acct : PyM (List AcctInfo)
  /-- the password from the key ring or the terminal -/
  typed : Str
  /-- successive values of `OFXClient.uuid` while the statement request is composed -/
  uuid : Nat → Str
  /-- `OFXClient.dtclient()` -/
  dtclient : DT

/-- from the plan (`Ofxget.requestStmt` / `requestStmtend`) to the request text: `init_client(args)`, the keyword
    arguments of the call (evaluated in source order), `request_statements` -/
def planBytes (S : Schema) (cv : Conv) (env : Compose.Env) (plan : Plan DT) (password : Str) (x : Ext) : PyM Str := do
  let cfg ← clientOfKw plan.client
  let _ ← plan.args.getItem "dryrun".toList
  let nonew ← plan.args.getItem "nonewfileuid".toList
  let _ ← plan.args.getItem "skipprofile".toList
  let reqs ← toReqs plan.requests
  requestBytes S cv env cfg password reqs (!truthy nonew) x.uuid x.dtclient

/-- `ofxget stmt`: `request_stmt(args)` up to the request text (printed by `--dryrun`, posted otherwise).
    Order of evaluation as in the source: `convert_datetime`, `get_passwd`, discovery (`--all`), the three loops,
    `init_client`, `request_statements`. -/
def stmtBytes (S : Schema) (cv : Conv) (env : Compose.Env) (args : Chain) (x : Ext) : PyM Str := do
  let _ ← convertDatetime dateConvert args
  let pw ← getPasswd args x.typed
  let plan ← requestStmt dateConvert args x.acct
  planBytes S cv env plan pw x

/-- `ofxget stmtend`: `request_stmtend(args)` up to the request text -/
def stmtendBytes (S : Schema) (cv : Conv) (env : Compose.Env) (args : Chain) (x : Ext) : PyM Str := do
  let _ ← convertDatetime dateConvert args
  let pw ← getPasswd args x.typed
  let plan ← requestStmtend dateConvert args x.acct
  planBytes S cv env plan pw x

end Ofx.OfxgetWire
