/-
Model of Python attribute access on an `ofxtools` model instance (C16):

  getattr     = `getattr(instance, name)`, following `object.__getattribute__`'s order
                  1. data descriptor on the class: a spec attribute (`Element.__get__` → `obj.__dict__[name]`,
                     **KeyError** when the dict does not hold it — the dict may be partial: the empty dict is
                     what copy/pickle probe; `Unsupported.__get__` → `None`), or a shortcut `property`
                     (a property that raises AttributeError falls through to `__getattr__`, as in Python);
                  2. the instance `__dict__` (names stapled on by the `statements` getters);
                  3. `Aggregate.__getattr__`: loop over `cls.subaggregates` in spec order (this includes
                     `ListAggregate` attributes, which are never in the dict); per sub-aggregate: read it
                     (KeyError → continue), `getattr(subagg, name)` (AttributeError/KeyError → continue; any other
                     exception propagates; `None` has no attributes); finally AttributeError.
  runBody     = the bodies of the shortcut properties, as the small language `Body` whose instances are
                extracted from the source of every property by `harness/translate_props.py`
                (`Generated/PropsTable.lean`).

Outside the model: names that Python resolves on the classes `Aggregate`/`list`/`object` (methods, `spec`,
`__class__`, …) or on `NoneType` (`__bool__`, …); the harness never asks for them.

Recursion is structural: the results for all fields/items are computed first (`fieldSubs`, `itemSubs`, each
paired with its own lookup function), then the per-node logic `getattrAt` runs on them.
-/
import OfxModel.Ofx.Agg

namespace Ofx.Getattr

open Ofx Ofx.Agg

/-- what an attribute access can return: a value / instance, or a plain Python list of them
    (`statements`, `securities`) -/
inductive Res where
  | node (n : Node)
  | list (l : List Node)
  deriving Inhabited

/-- what `curtype` / `cursym` / `currate` take from the currency aggregate -/
inductive Sel where
  | clsName                   -- `cur.__class__.__name__`
  | attr (a : Str)            -- `cur.a`
  deriving Repr, DecidableEq, Inhabited

/-- the shapes of property bodies found in `ofxtools/models` -/
inductive Body where
  /-- `return self.a` -/
  | alias (a : Str)
  /-- `return self.a.b` -/
  | path (a b : Str)
  /-- `if self.a1 is not None: return self.a1.b1` / `else: assert self.a2 is not None; return self.a2.b2` -/
  | firstOrAssert (a1 b1 a2 b2 : Str)
  /-- `x = []; m = getattr(self, a, None); if m: x = m.p; return x` -/
  | optList (a p : Str)
  /-- `x = []; for n in names: m = getattr(self, n, None); if m: x.extend(m.p); return x` -/
  | concat (names : List Str) (p : Str)
  /-- `for w in self:` first branch `(T, a)` with `isinstance(w, T)`: `s = w.a`; (no branch: `assert` if
      `elseAssert`, else skip); `if s is not None:` for `(d, f)` in `staple`: `s.d = w.f`; append `s` -/
  | members (branches : List (Nat × Str)) (elseAssert : Bool) (staple : List (Str × Str))
  /-- `for ch in self: if isinstance(ch, T): x.extend(ch)` -/
  | extendMembers (t : Nat)
  /-- `cur = self.a1; if cur is None: cur = self.a2; if cur is not None: return sel(cur)` -/
  | cur (a1 a2 : Str) (sel : Sel)
  /-- a body of a shape the translator does not know -/
  | unknown
  deriving Repr, DecidableEq, Inhabited

structure PropEntry where
  cls : Nat
  name : Str
  body : Body
  deriving Repr, DecidableEq, Inhabited

/-- which class has which property (inherited ones included), from `Generated/PropsTable.lean` -/
abbrev Props := List PropEntry

def Props.find (P : Props) (ci : Nat) (name : Str) : Option Body :=
  match P with
  | [] => none
  | e :: r => if e.cls = ci ∧ e.name = name then some e.body else Props.find r ci name

/-- `getattr(x, ·)` for a fixed object `x` -/
abbrev Lk := Str → PyM Res

/-- a field or list member together with its own attribute lookup -/
abbrev Sub := Node × Lk

/-- `Element.__get__` / `Unsupported.__get__` -/
def descr (a : Attr) (sub : List (Str × Sub)) : PyM Sub :=
  if a.kind.isUnsupported then .ok (.val .none, fun _ => .error .attr)
  else match Agg.lookup a.name sub with
    | some s => .ok s
    | none => .error .key

/-- `self.a` inside a property body. The bodies only read spec attributes of their own class (an obligation on
    the generated table, `Spec.Getattr.propsAgree`); anything else is outside the model. -/
def readSelf (c : Cls) (sub : List (Str × Sub)) (a : Str) : PyM Sub :=
  match c.attr? a with
  | some sa => descr sa sub
  | none => .error .other

def resNode : Res → PyM Node
  | .node n => .ok n
  | .list _ => .error .other

/-- `d[k] = v` -/
def setField (k : Str) (v : Node) : List (Str × Node) → List (Str × Node)
  | [] => [(k, v)]
  | (k', v') :: r => if k' = k then (k, v) :: r else (k', v') :: setField k v r

/-- `stmt.d = wrapper.f` for every pair — plain instance attributes (the statement classes have no such
    descriptor) -/
def staple (w : Lk) : List (Str × Str) → Node → PyM Node
  | [], s => .ok s
  | (d, f) :: r, s => do
    let v ← resNode (← w f)
    match s with
    | .agg ci fs it => staple w r (.agg ci (setField d v fs) it)
    | .val _ => .error .attr

def firstBranch (S : Schema) (mi : Nat) : List (Nat × Str) → Option Str
  | [] => none
  | (t, a) :: r => if isInstance S mi t then some a else firstBranch S mi r

def memberBranch (S : Schema) (branches : List (Nat × Str)) : Node → Option Str
  | .agg mi _ _ => firstBranch S mi branches
  | .val _ => none

def membersLoop (S : Schema) (branches : List (Nat × Str)) (elseAssert : Bool) (stp : List (Str × Str)) :
    List Sub → PyM (List Node)
  | [] => .ok []
  | (m, lk) :: rest => do
    let here ← match memberBranch S branches m with
      | none => if elseAssert then .error .assert else pure []
      | some a => do
        let s ← resNode (← lk a)
        if notNone s then do
          let s' ← staple lk stp s
          pure [s']
        else pure []
    let more ← membersLoop S branches elseAssert stp rest
    pure (here ++ more)

def extendLoop (S : Schema) (t : Nat) : List Sub → List Node
  | [] => []
  | (.agg mi _ its, _) :: rest => (if isInstance S mi t then its else []) ++ extendLoop S t rest
  | (.val _, _) :: rest => extendLoop S t rest

/-- `list.extend(x)` -/
def extendWith : Res → PyM (List Node)
  | .list l => .ok l
  | .node (.agg _ _ its) => .ok its
  | .node (.val _) => .error .type

def concatLoop (c : Cls) (sub : List (Str × Sub)) (p : Str) : List Str → PyM (List Node)
  | [] => .ok []
  | n :: rest => do
    let (m, lk) ← readSelf c sub n
    let here ← if truthy m then do extendWith (← lk p) else pure []
    let more ← concatLoop c sub p rest
    pure (here ++ more)

/-- evaluate a property body on an instance of class `c` whose dict is `sub` and list content `items` -/
def runBody (S : Schema) (c : Cls) (sub : List (Str × Sub)) (items : List Sub) : Body → PyM Res
  | .alias a => do
    let (v, _) ← readSelf c sub a
    pure (.node v)
  | .path a b => do
    let (_, lk) ← readSelf c sub a
    lk b
  | .firstOrAssert a1 b1 a2 b2 => do
    let (v1, l1) ← readSelf c sub a1
    if notNone v1 then l1 b1
    else do
      let (v2, l2) ← readSelf c sub a2
      if notNone v2 then l2 b2 else .error .assert
  | .optList a p => do
    let (m, lk) ← readSelf c sub a
    if truthy m then lk p else pure (.list [])
  | .concat names p => do
    let l ← concatLoop c sub p names
    pure (.list l)
  | .members branches elseAssert stp => do
    let l ← membersLoop S branches elseAssert stp items
    pure (.list l)
  | .extendMembers t => .ok (.list (extendLoop S t items))
  | .cur a1 a2 sel => do
    let (c1, l1) ← readSelf c sub a1
    let (cu, lk) ← if notNone c1 then pure (c1, l1) else readSelf c sub a2
    if notNone cu then
      match sel with
      | .clsName => pure (.node (.val (.str (argClassName S cu))))
      | .attr b => lk b
    else pure (.node (.val .none))
  | .unknown => .error .other

/-- `Aggregate.__getattr__` (as repaired by 0f0930a: the sub-aggregate read is inside the `try`) -/
def getattrLoop (sub : List (Str × Sub)) (name : Str) : List Attr → PyM Res
  | [] => .error .attr
  | a :: rest =>
    if a.kind.isSub then
      match Agg.lookup a.name sub with
      | none => getattrLoop sub name rest                      -- KeyError: continue
      | some (_, lk) =>
        match lk name with
        | .ok r => .ok r
        | .error e => if e = .attr ∨ e = .key then getattrLoop sub name rest else .error e
    else getattrLoop sub name rest

/-- `Aggregate.__getattr__` of the pinned tree (before 0f0930a): `subagg = getattr(self, subaggregate)`
    outside the `try` — kept to state what the repair changed -/
def getattrLoopPinned (sub : List (Str × Sub)) (name : Str) : List Attr → PyM Res
  | [] => .error .attr
  | a :: rest =>
    if a.kind.isSub then
      match Agg.lookup a.name sub with
      | none => .error .key
      | some (_, lk) =>
        match lk name with
        | .ok r => .ok r
        | .error e => if e = .attr ∨ e = .key then getattrLoopPinned sub name rest else .error e
    else getattrLoopPinned sub name rest

/-- attribute access on an instance of class `ci`, given its fields and members with their lookups -/
def getattrAt (S : Schema) (P : Props) (ci : Nat) (sub : List (Str × Sub)) (items : List Sub) (name : Str) :
    PyM Res :=
  match S.cls? ci with
  | none => .error .other
  | some c =>
    match c.attr? name with
    | some a => (descr a sub).map (fun s => Res.node s.1)
    | none =>
      match P.find ci name with
      | some body =>
        match runBody S c sub items body with
        | .error .attr => getattrLoop sub name c.spec
        | r => r
      | none =>
        match Agg.lookup name sub with
        | some (v, _) => .ok (.node v)
        | none => getattrLoop sub name c.spec

mutual
  /-- `getattr(node, name)` -/
  def getattr (S : Schema) (P : Props) : Node → Str → PyM Res
    | .val _, _ => .error .attr
    | .agg ci fields items, name => getattrAt S P ci (fieldSubs S P fields) (itemSubs S P items) name
  def fieldSubs (S : Schema) (P : Props) : List (Str × Node) → List (Str × Sub)
    | [] => []
    | (n, v) :: r => (n, v, fun nm => getattr S P v nm) :: fieldSubs S P r
  def itemSubs (S : Schema) (P : Props) : List Node → List Sub
    | [] => []
    | v :: r => (v, fun nm => getattr S P v nm) :: itemSubs S P r
end

/-- `hasattr(node, name)`: only AttributeError is swallowed -/
def hasattr (S : Schema) (P : Props) (i : Node) (name : Str) : PyM Bool :=
  match getattr S P i name with
  | .ok _ => .ok true
  | .error .attr => .ok false
  | .error e => .error e

/-! ### the copy / pickle protocol, as far as it touches `__getattr__` (partial model)

`copy.deepcopy(x)` asks `getattr(x, "__deepcopy__", None)` on the full instance; `copy._reconstruct` and
`pickle` (`object.__reduce_ex__` → `copyreg.__reduce_ex__`/`__newobj__`) create `y = cls.__new__(cls)` — an
instance with an **empty** `__dict__` — and ask `hasattr(y, "__setstate__")` before filling it;
protocols 0/1 also ask `getattr(x, "__slots__", None)`. Each of these must raise AttributeError. -/

/-- (name, asked on the empty dict?) -/
def copyProbes : List (Str × Bool) :=
  [("__deepcopy__".toList, false), ("__setstate__".toList, true), ("__slots__".toList, false),
   ("__slots__".toList, true)]

/-- all probes the protocols make on instance `i` answer "no such attribute" -/
def probesClean (S : Schema) (P : Props) : Node → Bool
  | .val _ => true
  | .agg ci fields items =>
    copyProbes.all (fun (n, empty) =>
      match hasattr S P (.agg ci (if empty then [] else fields) items) n with
      | .ok false => true
      | _ => false)

end Ofx.Getattr
