/-
The shape of the data the translator extracts from `ofxtools.models`:
one `Cls` per `Aggregate` subclass in the package namespace.
Class references are indices into `Schema.classes`; enumerations are indices into
`Schema.enums`.
-/
import OfxModel.Proto

namespace Ofx

/-- The element converter of an attribute (`ofxtools.Types`), with its parameters. -/
inductive Kind where
  | bool
  | string (length : Option Nat) (strict : Bool)      -- `String` / `NagString`
  | oneOf (enum : Nat)
  | integer (length : Option Nat)
  | decimal (quantumExp : Option Int)                  -- exponent of the stored quantum (`scale`)
  | datetime
  | time
  | listElem (inner : Kind) (innerRequired : Bool)     -- `ListElement(converter)`
  | sub (cls : Nat)                                    -- `SubAggregate`
  | listAgg (cls : Nat)                                -- `ListAggregate`
  | unsupported
  deriving Repr, BEq, DecidableEq, Inhabited

def Kind.isList : Kind → Bool
  | .listElem .. => true
  | .listAgg _ => true
  | _ => false

def Kind.isListAgg : Kind → Bool
  | .listAgg _ => true
  | _ => false

def Kind.isListElem : Kind → Bool
  | .listElem .. => true
  | _ => false

def Kind.isSub : Kind → Bool       -- `isinstance(v, SubAggregate)` (ListAggregate is a subclass)
  | .sub _ => true
  | .listAgg _ => true
  | _ => false

def Kind.isUnsupported : Kind → Bool
  | .unsupported => true
  | _ => false

structure Attr where
  name : Str
  kind : Kind
  required : Bool
  deriving Repr, BEq, DecidableEq, Inhabited

/-- the hand-coded `validate_args` overrides -/
inductive ExtraRule where
  | none | ofx | sonrq | msgsetcore | msgsetlist | mfachallengers | contribinfo
  | tax1099msgsrqv1 | tax1099msgsrsv1 | tax1099msgsetv1 | acctinfo | tax1099rs
  | contribsecurity | extdpmt | extdpayee | tax1099r | tax1099misc
  | unknown
  deriving Repr, BEq, DecidableEq, Inhabited

/-- the `groom`/`ungroom` overrides: rename the first child `fromTag` to `toTag` -/
structure Rename where
  fromTag : Str
  toTag : Str
  deriving Repr, BEq, DecidableEq, Inhabited

structure Cls where
  name : Str
  exported : Bool                       -- `getattr(ofxtools.models, name) is cls`
  abstract : Bool                       -- mixed-case base class (`Aggregate`, `ElementList`, `TrnRq`, …), never instantiated by a tag
  ancestors : List Nat                  -- indices of the other classes in the MRO (for `isinstance`)
  spec : List Attr
  optMutex : List (List Str)            -- what `cls.optionalMutexes` resolves to
  reqMutex : List (List Str)
  declOptMutex : List (List Str)        -- groups declared in any MRO entry's `__dict__`
  declReqMutex : List (List Str)
  elementList : Bool
  extra : ExtraRule
  groom : Option Rename
  ungroom : Option Rename
  deriving Repr, Inhabited

structure Schema where
  classes : List Cls
  enums : List (List Str)
  deriving Inhabited

def Schema.cls? (S : Schema) (i : Nat) : Option Cls := S.classes[i]?

def Schema.enum (S : Schema) (i : Nat) : List Str := (S.enums[i]?).getD []

/-- class lookup by tag (`getattr(ofxtools.models, tag)`) -/
def Schema.findIdx? (S : Schema) (tag : Str) : Option Nat :=
  S.classes.findIdx? (fun c => c.name == tag && c.exported)

def Cls.attr? (c : Cls) (name : Str) : Option Attr := c.spec.find? (fun a => a.name == name)

def Cls.attrIdx? (c : Cls) (name : Str) : Option Nat := c.spec.findIdx? (fun a => a.name == name)

end Ofx
