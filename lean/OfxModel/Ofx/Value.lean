/-
Python values as far as ofxtools' converters and models distinguish them.
-/
import OfxModel.Proto
import OfxModel.Py.Err

namespace Ofx

/-- `decimal.Decimal` -/
inductive Dec where
  | fin (neg : Bool) (coeff : Nat) (exp : Int)
  | inf (neg : Bool)
  | nan (neg : Bool) (signaling : Bool) (payload : Nat)
  deriving Repr, DecidableEq, Inhabited

/-- a `tzinfo` as far as `utcoffset()`/`tzname()` expose it: total offset in microseconds and name -/
structure Tz where
  offUs : Int
  name : Option Str
  deriving Repr, DecidableEq, Inhabited

/-- `datetime.datetime` (fields already validated by the constructor) -/
structure DT where
  year : Nat
  month : Nat
  day : Nat
  hour : Nat
  minute : Nat
  second : Nat
  us : Nat
  tz : Option Tz
  deriving Repr, DecidableEq, Inhabited

/-- `datetime.time` -/
structure TM where
  hour : Nat
  minute : Nat
  second : Nat
  us : Nat
  tz : Option Tz
  deriving Repr, DecidableEq, Inhabited

/-- Values other than aggregates. `other k` stands for any value of a Python type the converters do not
    single out (`float`, `list`, `bytes`, `date`, …), `k` only names it. -/
inductive Val where
  | none
  | bool (b : Bool)
  | int (i : Int)
  | str (s : Str)
  | dec (d : Dec)
  | dt (d : DT)
  | tm (t : TM)
  | other (k : String)
  deriving Repr, DecidableEq, Inhabited

/-- What a model holds: an element value (`val`, including `None`) or an aggregate instance:
    class index, `__dict__` in insertion (= spec) order, list contents. -/
inductive Node where
  | val (v : Val)
  | agg (cls : Nat) (fields : List (Str × Node)) (items : List Node)
  deriving Inhabited

/-- instances are the `agg` nodes -/
abbrev Inst := Node

namespace Node
def isAgg : Node → Bool | agg .. => true | _ => false
def isNone : Node → Bool | val .none => true | _ => false
def cls? : Node → Option Nat | agg c _ _ => some c | _ => Option.none
def fields : Node → List (Str × Node) | agg _ f _ => f | _ => []
def items : Node → List Node | agg _ _ i => i | _ => []
def none : Node := val .none
end Node

/-! ### protocol encodings -/

def Dec.enc : Dec → SExp
  | .fin n c e => .list [.atom "d", encBool n, encNat c, encInt e]
  | .inf n => .list [.atom "dinf", encBool n]
  | .nan n s p => .list [.atom "dnan", encBool n, encBool s, encNat p]

def Dec.dec? : SExp → Option Dec
  | .list [.atom "d", n, c, e] => do pure (.fin (← decBool n) (← decNat c) (← decInt e))
  | .list [.atom "dinf", n] => do pure (.inf (← decBool n))
  | .list [.atom "dnan", n, s, p] => do pure (.nan (← decBool n) (← decBool s) (← decNat p))
  | _ => none

def Tz.enc (t : Tz) : SExp := .list [.atom "tz", encInt t.offUs, encOpt encStr t.name]
def Tz.dec? : SExp → Option Tz
  | .list [.atom "tz", o, n] => do pure ⟨← decInt o, ← decOpt decStr n⟩
  | _ => none

def DT.enc (d : DT) : SExp :=
  .list [.atom "dt", encNat d.year, encNat d.month, encNat d.day, encNat d.hour, encNat d.minute,
    encNat d.second, encNat d.us, encOpt Tz.enc d.tz]
def DT.dec? : SExp → Option DT
  | .list [.atom "dt", y, m, d, h, mi, s, us, tz] => do
    pure ⟨← decNat y, ← decNat m, ← decNat d, ← decNat h, ← decNat mi, ← decNat s, ← decNat us,
      ← decOpt Tz.dec? tz⟩
  | _ => none

def TM.enc (d : TM) : SExp :=
  .list [.atom "tm", encNat d.hour, encNat d.minute, encNat d.second, encNat d.us, encOpt Tz.enc d.tz]
def TM.dec? : SExp → Option TM
  | .list [.atom "tm", h, mi, s, us, tz] => do
    pure ⟨← decNat h, ← decNat mi, ← decNat s, ← decNat us, ← decOpt Tz.dec? tz⟩
  | _ => none

def Val.enc : Val → SExp
  | .none => .atom "none"
  | .bool b => .list [.atom "b", encBool b]
  | .int i => .list [.atom "i", encInt i]
  | .str s => .list [.atom "s", encStr s]
  | .dec d => d.enc
  | .dt d => d.enc
  | .tm t => t.enc
  | .other k => .list [.atom "o", .atom k]

def Val.dec? : SExp → Option Val
  | .atom "none" => some .none
  | .list [.atom "b", b] => (decBool b).map .bool
  | .list [.atom "i", i] => (decInt i).map .int
  | .list [.atom "s", s] => (decStr s).map .str
  | .list [.atom "o", .atom k] => some (.other k)
  | e@(.list (.atom "d" :: _)) => (Dec.dec? e).map .dec
  | e@(.list (.atom "dinf" :: _)) => (Dec.dec? e).map .dec
  | e@(.list (.atom "dnan" :: _)) => (Dec.dec? e).map .dec
  | e@(.list (.atom "dt" :: _)) => (DT.dec? e).map .dt
  | e@(.list (.atom "tm" :: _)) => (TM.dec? e).map .tm
  | _ => none

mutual
  def Node.enc : Node → SExp
    | .val v => v.enc
    | .agg c fs is => .list [.atom "inst", encNat c, .list (encFields fs), .list (encItems is)]
  def encFields : List (Str × Node) → List SExp
    | [] => []
    | (n, f) :: r => .list [encStr n, f.enc] :: encFields r
  def encItems : List Node → List SExp
    | [] => []
    | i :: r => i.enc :: encItems r
end

partial def Node.dec? : SExp → Option Node
  | .list [.atom "inst", c, .list fs, .list is] => do
    let c ← decNat c
    let fs ← fs.mapM (fun e => match e with
      | .list [n, f] => do pure (← decStr n, ← Node.dec? f)
      | _ => Option.none)
    let is ← is.mapM Node.dec?
    pure (.agg c fs is)
  | e => (Val.dec? e).map .val

end Ofx
