/-
`ofxtools.Parser.TreeBuilder.regex` as a hand-written deterministic scanner that follows the
exploration order of Python's `re`:

    <(?P<tag>[A-Z0-9./_ ]+?)>
        ((<!\[CDATA\[(?P<cdata>.+?)\]\]>\s*)|(?P<text>[^<]+))?
    (</(?P<closetag>(?P=tag))>)?
    (?P<tail>[^<]+)?                                   (re.VERBOSE)

Facts reproduced (each exercised by the `lex` correspondence):
* `re.VERBOSE` keeps the blank inside the character class, so a tag may contain blanks, `/`, `.`;
* the tag quantifier is lazy, but `>` is not in the class, so the tag is the maximal run of class
  characters and must be non-empty and followed by `>`;
* the CDATA alternative is tried first; `.+?` is lazy and `.` does not match `\n`, so the data runs to the
  *first* `]]>` on the line that leaves at least one character of data (everything after the group is
  optional, so the lazy quantifier is never extended further); when no such `]]>` exists on the line the
  alternative fails and `[^<]+` is tried (it then fails too, because the next character is `<`);
* `\s*` after `]]>` (since /repo's `fix: white space may follow a CDATA section`): greedy, and everything after it is
  optional, so it takes the maximal run of white space and is never given back; the pattern is a `str`, so `\s` is
  Unicode white space as `re` defines it (`Py_UNICODE_ISSPACE`), which is the predicate of `str.isspace()`: the two
  agree on every code point (0..0x10FFFF, checked on the running interpreter by `harness/corr/C02.py`), i.e. `\s` is
  `Ofx.isSpace` (the 29 code points of `Generated/Tables.isspaceCodepoints`); the white space belongs to the match
  (spans) but to no named group: it is neither `cdata` nor `tail`;
* every group after the tag is optional and the first alternative explored that succeeds is kept, so
  there is never backtracking into `text` or `tail` (`[^<]+` is the maximal run);
* `(?P=tag)` compares with the captured tag literally;
* `finditer`: leftmost match from the current position, then continue at its end (a match is never
  empty); characters at which no match starts are skipped silently.
-/
import OfxModel.Py.Str

namespace Ofx.Lexer
open Ofx

/-- one regex match: the `groupdict()` and the length of `group(0)` -/
structure Match where
  tag : Str
  cdata : Option Str
  text : Option Str
  closetag : Option Str
  tail : Option Str
  len : Nat
  deriving Repr, DecidableEq, Inhabited

/-- `[A-Z0-9._]`: the characters of an OFX tag name -/
def isNameChar (c : Char) : Bool :=
  (decide ('A' ≤ c) && decide (c ≤ 'Z')) || (decide ('0' ≤ c) && decide (c ≤ '9')) || c == '.' || c == '_'

/-- `[A-Z0-9./_ ]`: the character class of the regex (blank included: `re.VERBOSE` does not strip it) -/
def isTagChar (c : Char) : Bool := isNameChar c || c == '/' || c == ' '

def notLt (c : Char) : Bool := c != '<'
def notNl (c : Char) : Bool := c != '\n'

def cdataOpen : Str := ['<', '!', '[', 'C', 'D', 'A', 'T', 'A', '[']
def cdataClose : Str := [']', ']', '>']

/-- `some rest` when `p` is a prefix of the input -/
def dropPrefix : Str → Str → Option Str
  | [], s => some s
  | _ :: _, [] => none
  | p :: ps, c :: cs => if p = c then dropPrefix ps cs else none

/-- index of the first occurrence of `]]>` -/
def findFirstClose : Str → Option Nat
  | [] => none
  | c :: cs =>
    if cdataClose.isPrefixOf (c :: cs) then some 0
    else match findFirstClose cs with
      | some i => some (i + 1)
      | none => none

/-- `(?P<cdata>.+?)\]\]>` at the input: lazy `.+?` within the line, i.e. up to the first `]]>` that leaves at
    least one character. Returns the data and what follows `]]>`. -/
def scanCdata (r : Str) : Option (Str × Str) :=
  match r.takeWhile notNl with
  | [] => none
  | _ :: l =>
    match findFirstClose l with
    | none => none
    | some i => some (r.take (i + 1), r.drop (i + 4))

/-- a group `(…+)?`: `None` when nothing was matched -/
def optStr : Str → Option Str
  | [] => none
  | s => some s

/-- `((<!\[CDATA\[(?P<cdata>.+?)\]\]>\s*)|(?P<text>[^<]+))?` → (cdata, text, rest) -/
def scanBody (r : Str) : Option Str × Option Str × Str :=
  match (dropPrefix cdataOpen r).bind scanCdata with
  | some (cd, r') => (some cd, none, r'.dropWhile isSpace)
  | none => (none, optStr (r.takeWhile notLt), r.dropWhile notLt)

/-- `(</(?P<closetag>(?P=tag))>)?` → (closetag, rest) -/
def scanClose (tag : Str) (r : Str) : Option Str × Str :=
  match dropPrefix ('<' :: '/' :: (tag ++ ['>'])) r with
  | some r' => (some tag, r')
  | none => (none, r)

/-- `(?P<tail>[^<]+)?` -/
def scanTail (r : Str) : Option Str := optStr (r.takeWhile notLt)

def optLen : Option Str → Nat
  | none => 0
  | some s => s.length

/-- `regex.match` anchored at the start of the input -/
def matchHere : Str → Option Match
  | '<' :: r =>
    match r.takeWhile isTagChar, r.dropWhile isTagChar with
    | t :: ts, '>' :: r2 =>
      let tag := t :: ts
      let b := scanBody r2
      let c := scanClose tag b.2.2
      let tl := scanTail c.2
      some { tag := tag, cdata := b.1, text := b.2.1, closetag := c.1, tail := tl,
             len := 2 + tag.length + (r2.length - c.2.length) + optLen tl }
    | _, _ => none
  | _ => none

/-- `finditer`, groupdicts only. `skip` = characters of the current match still to be passed over. -/
def toksGo : Nat → Str → List Match
  | _, [] => []
  | skip + 1, _ :: cs => toksGo skip cs
  | 0, c :: cs =>
    match matchHere (c :: cs) with
    | some m => m :: toksGo (m.len - 1) cs
    | none => toksGo 0 cs

/-- the token list of a body: `[m.groupdict() for m in regex.finditer(s)]` -/
def toks (s : Str) : List Match := toksGo 0 s

/-- `finditer` with start offsets: `[(m.start(), m.groupdict()) …]` (`m.end() = m.start() + len`) -/
def lexGo : Nat → Nat → Str → List (Nat × Match)
  | _, _, [] => []
  | skip + 1, pos, _ :: cs => lexGo skip (pos + 1) cs
  | 0, pos, c :: cs =>
    match matchHere (c :: cs) with
    | some m => (pos, m) :: lexGo (m.len - 1) (pos + 1) cs
    | none => lexGo 0 (pos + 1) cs

def lex (s : Str) : List (Nat × Match) := lexGo 0 0 s

end Ofx.Lexer
