/-
STUB — replaced by the date/time layer (C09).  Signatures are fixed:
`DateTime().convert/unconvert`, `Time().convert/unconvert` on `Val`.
-/
import OfxModel.Ofx.Value

namespace Ofx.DateTime

def dtConvert (_required : Bool) (_v : Val) : PyM Val := .error .other
def dtUnconvert (_required : Bool) (_v : Val) : PyM Val := .error .other
def tmConvert (_required : Bool) (_v : Val) : PyM Val := .error .other
def tmUnconvert (_required : Bool) (_v : Val) : PyM Val := .error .other

end Ofx.DateTime
