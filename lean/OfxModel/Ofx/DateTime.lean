/-
`ofxtools.Types.DateTime` / `ofxtools.Types.Time` (`convert`, `unconvert`), `format_datetime`,
`DT_REGEX`, `TIME_REGEX`, and `ofxtools.utils.gmt_offset`.

The two regexes are modelled as hand-written scanners.  Facts of Python's `re` that matter here:
* the patterns are anchored by `^` … `\Z`: the whole text must match (no final line feed is tolerated);
* `[0-9]` is ASCII only (no `\d` is left in the patterns);
* `(?P<gmt_offset_hours>[0-9-+]+)` is greedy and backtracks: longest run first, then shorter ones; for each
  length the continuations are tried in the order  minutes+name, minutes, name, nothing.  (Since the minutes now
  start with a literal `.`, no shorter run can ever succeed — `hoursScan_inv`/`hoursScan_run` make that precise —
  but the scanner keeps the engine's order.)
* `(:(?P<tz_name>.*))?\]` takes everything up to the last `]`; `.` does not match `\n`.
-/
import OfxModel.Ofx.Value
import OfxModel.Py.Cal
import OfxModel.Generated.Tables

namespace Ofx.DateTime
open Ofx Ofx.Cal

/-! ### character classes and `int()` -/

/-- `[0-9]` -/
def isAsciiDigit (c : Char) : Bool := '0' ≤ c && c ≤ '9'

/-- `[0-9-+]` -/
def isHoursChar (c : Char) : Bool := isAsciiDigit c || c == '-' || c == '+'

/-- value of a string of decimal digits, most significant first (`none` if a non-digit occurs) -/
def digitsVal (val : Char → Option Nat) : Nat → Str → Option Nat
  | acc, [] => some acc
  | acc, c :: cs => match val c with
    | some d => digitsVal val (10 * acc + d) cs
    | none => none

/-- `int(s)` for a non-empty string of ASCII digits -/
def natOfAscii (s : Str) : Option Nat := digitsVal digitVal 0 s

/-- `sys.get_int_max_str_digits()` -/
def intMaxStrDigits : Nat := 4300

/-- `int(s)` for `s` over `[0-9+-]`: optional sign, at least one digit, at most 4300 digits
    (`none` = ValueError) -/
def pyIntSigned (s : Str) : Option Int :=
  let body (neg : Bool) (ds : Str) : Option Int :=
    if ds.isEmpty || ds.length > intMaxStrDigits then none
    else (natOfAscii ds).map (fun n => if neg then -(n : Int) else (n : Int))
  match s with
  | '-' :: ds => body true ds
  | '+' :: ds => body false ds
  | ds => body false ds

/-! ### the regexes -/

/-- named groups of `DT_REGEX` / `TIME_REGEX` (`none` = the group did not participate) -/
structure Groups where
  year : Option Str := none
  month : Option Str := none
  day : Option Str := none
  hour : Option Str := none
  minute : Option Str := none
  second : Option Str := none
  ms : Option Str := none
  offH : Option Str := none
  offM : Option Str := none
  name : Option Str := none
  deriving Repr, DecidableEq, Inhabited

/-- `.*` followed by `\]` and the end: the text after `:` must be `name ++ "]"` with no `\n` in `name` -/
def splitName (t : Str) : Option Str :=
  match t.reverse with
  | ']' :: r => if r.contains '\n' then none else some r.reverse
  | _ => none

/-- `(:(?P<tz_name>.*))? \]` then the end -/
def nameTail (r : Str) : Option (Option Str) :=
  let viaName : Option (Option Str) := match r with
    | ':' :: t => (splitName t).map some
    | _ => none
  match viaName with
  | some x => some x
  | none => if r = [']'] then some none else none

/-- `[0-5][0-9]` -/
def min2Ok (d1 d2 : Char) : Bool := ('0' ≤ d1 && d1 ≤ '5') && isAsciiDigit d2

/-- after the hours text `h`: `((\.(?P<gmt_offset_minutes>[0-5][0-9]))?(:(?P<tz_name>.*))?)? \]` then the end;
    returns (hours, minutes, name) -/
def offTail (h : Str) (rest : Str) : Option (Str × Option Str × Option Str) :=
  let viaMin : Option (Str × Option Str × Option Str) := match rest with
    | '.' :: d1 :: d2 :: r =>
      if min2Ok d1 d2 then (nameTail r).map (fun n => (h, some [d1, d2], n)) else none
    | _ => none
  match viaMin with
  | some x => some x
  | none => (nameTail rest).map (fun n => (h, none, n))

/-- `(?P<gmt_offset_hours>[0-9-+]+)` and what follows: lengths beyond `acc` longest first -/
def hoursScan (acc : Str) : Str → Option (Str × Option Str × Option Str)
  | [] => none
  | c :: cs =>
    if isHoursChar c then
      match hoursScan (c :: acc) cs with
      | some x => some x
      | none => offTail (c :: acc).reverse cs
    else none

/-- `(\.(?P<millisecond>[0-9]{3}))? ( \[ … \] )?` then the end, after the seconds -/
def afterSeconds (g : Groups) (r : Str) : Option Groups :=
  let offPart (g : Groups) (r : Str) : Option Groups :=
    match r with
    | [] => some g
    | '[' :: t => (hoursScan [] t).map (fun (h, m, n) => { g with offH := some h, offM := m, name := n })
    | _ => none
  match r with
  | '.' :: a :: b :: c :: t =>
    if isAsciiDigit a && isAsciiDigit b && isAsciiDigit c then offPart { g with ms := some [a, b, c] } t
    else none
  | r => offPart g r

/-- `(?P<hour>([0-1][0-9])|(2[0-3]))` -/
def hourOk (h1 h2 : Char) : Bool :=
  (('0' ≤ h1 && h1 ≤ '1') && isAsciiDigit h2) || (h1 == '2' && '0' ≤ h2 && h2 ≤ '3')
/-- `(?P<minute>[0-5][0-9])` -/
def minOk (m1 m2 : Char) : Bool := ('0' ≤ m1 && m1 ≤ '5') && isAsciiDigit m2
/-- `(?P<second>([0-5][0-9])|(60))` -/
def secOk (s1 s2 : Char) : Bool := (('0' ≤ s1 && s1 ≤ '5') && isAsciiDigit s2) || (s1 == '6' && s2 == '0')

def hmsOk (h1 h2 m1 m2 s1 s2 : Char) : Bool := hourOk h1 h2 && minOk m1 m2 && secOk s1 s2

/-- the time part (shared by both patterns), everything up to the end -/
def timePart (g : Groups) : Str → Option Groups
  | h1 :: h2 :: m1 :: m2 :: s1 :: s2 :: r =>
    if hmsOk h1 h2 m1 m2 s1 s2 then
      afterSeconds { g with hour := some [h1, h2], minute := some [m1, m2], second := some [s1, s2] } r
    else none
  | _ => none

/-- `(?P<month>(0[1-9])|(1[0-2]))` -/
def monthOk (m1 m2 : Char) : Bool := (m1 == '0' && '1' ≤ m2 && m2 ≤ '9') || (m1 == '1' && '0' ≤ m2 && m2 ≤ '2')
/-- `(?P<day>(0[1-9])|([1-2][0-9])|(3[0-1]))` -/
def dayOk (d1 d2 : Char) : Bool :=
  (d1 == '0' && '1' ≤ d2 && d2 ≤ '9') || (('1' ≤ d1 && d1 ≤ '2') && isAsciiDigit d2) || (d1 == '3' && '0' ≤ d2 && d2 ≤ '1')

def mdOk (m1 m2 d1 d2 : Char) : Bool := monthOk m1 m2 && dayOk d1 d2

/-- `DT_REGEX.match(s)` → groupdict -/
def dtRegex (s : Str) : Option Groups :=
  match s with
  | y1 :: y2 :: y3 :: y4 :: m1 :: m2 :: d1 :: d2 :: r =>
    if isAsciiDigit y1 && isAsciiDigit y2 && isAsciiDigit y3 && isAsciiDigit y4 && mdOk m1 m2 d1 d2 then
      let g : Groups := { year := some [y1, y2, y3, y4], month := some [m1, m2], day := some [d1, d2] }
      match r with
      | [] => some g
      | r => timePart g r
    else none
  | _ => none

/-- `TIME_REGEX.match(s)` → groupdict -/
def tmRegex (s : Str) : Option Groups := timePart {} s

/-! ### offsets -/

/-- `ofxtools.utils.gmt_offset(hours, minutes)` in minutes: the asserts, then
    `math.copysign(60*abs(hours)+minutes, hours)` — the sign of the *integer* hours, so `-0` is `+` -/
def gmtOffset (hours : Int) (minutes : Nat) : PyM Int :=
  if hours < -12 ∨ hours > 14 then .error .assert
  else
    let mag : Int := 60 * hours.natAbs + minutes
    .ok (if hours < 0 then -mag else mag)

/-- `int(v or 0)` for a group of ASCII digits -/
def intOfAscii (v : Option Str) : PyM Nat :=
  match v with
  | none => .ok 0
  | some s => match natOfAscii s with
    | some n => .ok n
    | none => .error .value

/-- `hours.startswith("-")` for the optional hours text -/
def startsMinus : Option Str → Bool
  | some ('-' :: _) => true
  | _ => false

/-- `DateTime.parse_gmt_offset(hours, minutes, tz_name)` in minutes.  After `gmt_offset`, an hours text that starts
    with `-` and whose integer value is 0 (`-0`, `-00`, or a zone-table entry of 0 behind `-…`) negates the offset:
    `int("-0") == 0` has lost the sign `gmt_offset` looks at. -/
def parseGmtOffset (tzs : List (Str × Int)) (hours minutes name : Option Str) : PyM Int := do
  let h ← match hours with
    | none => pure (0 : Int)
    | some t => match pyIntSigned t with
      | some h => pure h
      | none =>
        -- Interactive Brokers: `[-:EST]`; `tz_name not in TZS` (a `None` name is not in it)
        match name with
        | none => .error .value
        | some n => match tzs.lookup n with
          | some h => pure h
          | none => .error .value
  let m ← intOfAscii minutes
  let off ← gmtOffset h m
  pure (if startsMinus hours && h == 0 then -off else off)

def utcTz : Tz := ⟨0, some "UTC".toList⟩

def fieldsOfDT (d : DT) : Fields := ⟨d.year, d.month, d.day, d.hour, d.minute, d.second, d.us⟩
def dtOfFields (f : Fields) (tz : Option Tz) : DT :=
  ⟨f.year, f.month, f.day, f.hour, f.minute, f.second, f.us, tz⟩

/-- `DateTime._convert_str` -/
def dtConvertStr (tzs : List (Str × Int)) (s : Str) : PyM Val := do
  let g ← match dtRegex s with
    | some g => pure g
    | none => .error .spec
  let offMin ← parseGmtOffset tzs g.offH g.offM g.name
  let y ← intOfAscii g.year
  let mo ← intOfAscii g.month
  let d ← intOfAscii g.day
  let h ← intOfAscii g.hour
  let mi ← intOfAscii g.minute
  let sec ← intOfAscii g.second
  let ms ← intOfAscii g.ms
  -- datetime.datetime(year=…, …, microsecond=1000*ms)
  if !(validDate y mo d && validTime h mi sec (1000 * ms)) then .error .value
  else
    -- normalize_to_gmt: (value - gmt_offset).replace(tzinfo=UTC)
    let f ← fromUs (toUs y mo d h mi sec (1000 * ms) - offMin * 60000000)
    pure (.dt (dtOfFields f (some utcTz)))

/-- `Time._convert_str` (→ `DateTime._convert_str` with `TIME_REGEX`, `datetime.time`,
    `Time.normalize_to_gmt` through 1999-06-08) -/
def tmConvertStr (tzs : List (Str × Int)) (s : Str) : PyM Val := do
  let g ← match tmRegex s with
    | some g => pure g
    | none => .error .spec
  let offMin ← parseGmtOffset tzs g.offH g.offM g.name
  let h ← intOfAscii g.hour
  let mi ← intOfAscii g.minute
  let sec ← intOfAscii g.second
  let ms ← intOfAscii g.ms
  if !(validTime h mi sec (1000 * ms)) then .error .value
  else
    let (h', mi', s', us') := todOfUs (toUs 1999 6 8 h mi sec (1000 * ms) - offMin * 60000000)
    pure (.tm ⟨h', mi', s', us', some utcTz⟩)

/-! ### writing -/

/-- `value.utcoffset()`: `None` for naive values; Python raises ValueError when a tzinfo returns an offset
    that is not strictly between -24 h and 24 h -/
def utcoffset (tz : Option Tz) : PyM (Option Int) :=
  match tz with
  | none => .ok none
  | some t => if t.offUs ≤ -usPerDay ∨ t.offUs ≥ usPerDay then .error .value else .ok (some t.offUs)

/-- the `+h[.mm][:name]` part of `format_datetime` -/
def formatOffset (offUs : Int) (name : Option Str) : Str :=
  let offsetMins : Int := offUs / 60000000            -- `utcoffset // timedelta(minutes=1)` (floor)
  let a := offsetMins.natAbs
  let hours := a / 60
  let mins := a % 60
  let sign := if offsetMins < 0 then '-' else '+'
  let tz := sign :: pyStrNat hours
  let tz := if mins != 0 then tz ++ '.' :: pad2 mins else tz
  match name with
  | some n => tz ++ ':' :: n
  | none => tz

/-- `format_datetime(format, value)`; `timeOnly` selects `"%H%M%S"` over `"%Y%m%d%H%M%S"` -/
def formatDatetime (timeOnly : Bool) (f : Fields) (tz : Option Tz) : PyM Str := do
  match ← utcoffset tz with
  | none => .error .value
  | some offUs =>
    -- value + timedelta(microseconds=500); OverflowError past 9999-12-31
    let b ← fromUs (toUs f.year f.month f.day f.hour f.minute f.second f.us + 500)
    let ms := b.us / 1000
    let name := match tz with | some t => t.name | none => none
    let stamp := if timeOnly then strftimeHMS b else strftimeYmdHMS b
    pure (stamp ++ '.' :: pad3 ms ++ '[' :: formatOffset offUs name ++ [']'])

/-- `Element.enforce_required(None)` -/
def enforceRequired (required : Bool) : PyM Val :=
  if required then .error .spec else .ok .none

/-! ### the four entry points (single dispatch on the value's type) -/

def dtConvertWith (tzs : List (Str × Int)) (required : Bool) (v : Val) : PyM Val :=
  match v with
  | .none => enforceRequired required
  | .str s => dtConvertStr tzs s
  | .dt d => do
    match ← utcoffset d.tz with
    | none => .error .value
    | some _ => pure (.dt d)
  | _ => .error .type

def dtUnconvert (required : Bool) (v : Val) : PyM Val :=
  match v with
  | .none => enforceRequired required
  | .dt d => do
    match ← utcoffset d.tz with
    | none => .error .value
    | some _ => pure (.str (← formatDatetime false (fieldsOfDT d) d.tz))
  | _ => .error .type

def tmConvertWith (tzs : List (Str × Int)) (required : Bool) (v : Val) : PyM Val :=
  match v with
  | .none => enforceRequired required
  | .str s => tmConvertStr tzs s
  | .tm t => do
    match ← utcoffset t.tz with
    | none => .error .value
    | some _ => pure (.tm t)
  | _ => .error .type

def tmUnconvert (required : Bool) (v : Val) : PyM Val :=
  match v with
  | .none => enforceRequired required
  | .tm t => do
    match ← utcoffset t.tz with
    | none => .error .value
    | some _ =>
      -- datetime(1999, 6, 8, value.hour, …, tzinfo=value.tzinfo)
      pure (.str (← formatDatetime true ⟨1999, 6, 8, t.hour, t.minute, t.second, t.us⟩ t.tz))
  | _ => .error .type

/-- `DateTime(required=…).convert` with the `TZS` of the source -/
def dtConvert (required : Bool) (v : Val) : PyM Val := dtConvertWith Ofx.Generated.tzs required v
/-- `Time(required=…).convert` -/
def tmConvert (required : Bool) (v : Val) : PyM Val := tmConvertWith Ofx.Generated.tzs required v

end Ofx.DateTime
