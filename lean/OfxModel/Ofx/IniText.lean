/-
The INI *text* format of `configparser`, as ofxget's parsers use it (C18, persistence through the file).

`ofxget.UserConfig` / `LibraryConfig` are `configparser.ConfigParser` subclasses constructed with
`interpolation=None` (since `fix: ofxget stores and reads configuration values containing '%' verbatim`) and
otherwise the defaults: delimiters `=` `:`, comment prefixes `#` `;` (full-line only, no inline comments),
`strict=True`, `empty_lines_in_values=True`, `allow_no_value=False`, `default_section="DEFAULT"`,
`optionxform = str.lower`.  This file mirrors, for exactly these settings,

* `RawConfigParser.write` / `_write_section`  →  `iniWrite`
* `RawConfigParser._read` / `_join_multiline_values` / `_handle_error`  →  `step`, `iniReadInto`, `iniRead`
* text-mode `open()` on reading (universal newlines)  →  `universalNewlines`, `iniReadFile`

on the existing `Ini` type of `Ofx/Ofxget.lean`.  Representation choices:

* `cursect` (a reference to a dict) is `Cur`: no section yet, `_defaults`, or the named section.
* while a file is being read, an option value is a list of lines (`RVal.lines`); values from earlier files are
  strings (`RVal.done`); `_join_multiline_values` (`RState.finish`) turns every list into `'\n'.join(l).rstrip()`.
* `elements_added` is the pair `seenSect` / `seenOpt`.
* the exception `e` that collects bogus lines is the flag `bad`; it is raised (`ParsingError`) after the last line,
  so `DuplicateSectionError`, `DuplicateOptionError` and `MissingSectionHeaderError`, which are raised at their
  line, come first.
* the regular expressions `SECTCRE` (`\[(?P<header>.+)\]`, greedy, `match` = anchored at the start only) and
  `OPTCRE` (`(?P<option>.*?)\s*(?P<vi>=|:)\s*(?P<value>.*)$`) are applied to a stripped line, which never
  contains `'\n'`; on such texts they are `sectHeader` (everything between the leading `[` and the LAST `]`) and
  `optMatch` (split at the FIRST delimiter; option `rstrip`ped, value `strip`ped).
* `str.lower` is the ASCII `lower` of `Py/Str.lean` (option names outside ASCII are outside the model's domain);
  `\s`, `\S` and `str.strip` all use `str.isspace` = `isSpace`.
-/
import OfxModel.Py.Err
import OfxModel.Py.Str
import OfxModel.Ofx.Ofxget

namespace Ofx.IniText
open Ofx Ofx.Ofxget

/-! ### writing -/

/-- `" {} ".format(self._delimiters[0])` -/
def delim : Str := [' ', '=', ' ']

/-- one turn of the loop of `_write_section`:
    `fp.write("{}{}\n".format(key, delimiter + str(value).replace("\n", "\n\t")))` -/
def writeOption (kv : Name × Str) : Str :=
  kv.1 ++ (delim ++ replace ['\n'] ['\n', '\t'] kv.2) ++ ['\n']

/-- `_write_section(fp, section_name, section_items, delimiter)` -/
def writeSection (name : Str) (items : Sect) : Str :=
  ('[' :: name ++ [']', '\n']) ++ items.flatMap writeOption ++ ['\n']

/-- `cfg.write(fp)`: the DEFAULT section first, if it has options; then every section in order -/
def iniWrite (c : Ini) : Str :=
  (if c.defaults.isEmpty then [] else writeSection defaultSect c.defaults) ++
    c.sections.flatMap (fun s => writeSection s.1 s.2)

/-! ### reading -/

/-- the `configparser` exceptions `_read` raises -/
inductive IniErr where
  | dupSection       -- DuplicateSectionError
  | dupOption        -- DuplicateOptionError
  | missingHeader    -- MissingSectionHeaderError
  | parsing          -- ParsingError (lines that are neither header, option nor continuation)
  | internal         -- KeyError / AttributeError inside `_read`; never returned (`iniReadInto_no_internal`)
  deriving DecidableEq, Repr, Inhabited

def IniErr.name : IniErr → String
  | .dupSection => "dupsection" | .dupOption => "dupoption" | .missingHeader => "missingheader"
  | .parsing => "parsing" | .internal => "internal"

/-- all of them are `configparser.Error`s, which the `Err` enum files under `other` -/
def IniErr.toErr : IniErr → Err := fun _ => .other

/-- iteration over a text stream (`for line in fp`): lines end at `'\n'` and keep it -/
def splitLinesGo (cur : Str) : Str → List Str
  | [] => if cur.isEmpty then [] else [cur.reverse]
  | c :: cs => if c = '\n' then (c :: cur).reverse :: splitLinesGo [] cs else splitLinesGo (c :: cur) cs

def splitLines (s : Str) : List Str := splitLinesGo [] s

/-- an option value while the file is being read -/
inductive RVal where
  | done (s : Str)            -- a `str`: set before this file was opened
  | lines (l : List Str)      -- a `list` of lines: set by this file
  deriving DecidableEq, Repr, Inhabited

abbrev RSect := List (Name × RVal)

/-- `cursect` -/
inductive Cur where
  | none                      -- `None`: no header seen yet
  | defaults                  -- `self._defaults`
  | named (n : Str)           -- `self._sections[n]`
  deriving DecidableEq, Repr, Inhabited

/-- `sectname`, as far as it is used (the first component of the `elements_added` pairs) -/
def Cur.name : Cur → Str
  | .none => []
  | .defaults => defaultSect
  | .named n => n

/-- the local variables of `_read` plus the parser's two dicts -/
structure RState where
  defaults : RSect
  sections : List (Str × RSect)
  seenSect : List Str
  seenOpt : List (Str × Name)
  cur : Cur
  optname : Option Name
  indent : Nat
  bad : Bool
  deriving Repr

def RSect.ofSect (s : Sect) : RSect := s.map fun kv => (kv.1, RVal.done kv.2)

/-- `_read` starts: the parser as it stands, nothing added, no section, `indent_level = 0`, `e = None` -/
def RState.init (c : Ini) : RState :=
  { defaults := RSect.ofSect c.defaults
    sections := c.sections.map fun s => (s.1, RSect.ofSect s.2)
    seenSect := [], seenOpt := [], cur := .none, optname := none, indent := 0, bad := false }

/-- `line.strip().startswith(prefix)` for one of the comment prefixes `#`, `;` -/
def isCommentLine : Str → Bool
  | c :: _ => c = '#' || c = ';'
  | [] => false

/-- `NONSPACECRE.search(line)`: `first_nonspace.start() if first_nonspace else 0` -/
def indentOf (line : Str) : Nat :=
  let n := (line.takeWhile isSpace).length
  if n = line.length then 0 else n

/-- the part of a text before its last `]` -/
def beforeLastClose : Str → Option Str
  | [] => none
  | c :: cs =>
    match beforeLastClose cs with
    | some r => some (c :: r)
    | none => if c = ']' then some [] else none

/-- `SECTCRE.match(value)`: group `header` -/
def sectHeader : Str → Option Str
  | [] => none
  | c :: rest =>
    if c = '[' then
      match beforeLastClose rest with
      | some h => if h.isEmpty then none else some h
      | none => none
    else none

/-- split at the first `=` or `:` -/
def splitDelim : Str → Option (Str × Str)
  | [] => none
  | c :: cs =>
    if c = '=' || c = ':' then some ([], cs)
    else match splitDelim cs with
      | some p => some (c :: p.1, p.2)
      | none => none

/-- `self._optcre.match(value)`: groups `option` and `value` (the latter after its `.strip()`) -/
def optMatch (value : Str) : Option (Str × Str) :=
  match splitDelim value with
  | some p => some (rstrip p.1, strip p.2)
  | none => none

/-- the option a blank or indented line would be added to: `cursect is not None and optname` -/
def RState.openOpt (st : RState) : Option Name :=
  match st.cur, st.optname with
  | .none, _ => none
  | _, none => none
  | _, some k => if k.isEmpty then none else some k

/-- `cursect[optname].append(x)` on one dict -/
def appendIn (k : Name) (x : Str) : RSect → Except IniErr RSect
  | [] => .error .internal
  | (k', v) :: rest =>
    if k' == k then
      match v with
      | .lines l => .ok ((k', .lines (l ++ [x])) :: rest)
      | .done _ => .error .internal
    else do
      let r ← appendIn k x rest
      pure ((k', v) :: r)

/-- apply `f` to the dict `cursect` refers to -/
def RState.modCur (st : RState) (f : RSect → Except IniErr RSect) : Except IniErr RState :=
  match st.cur with
  | .none => .error .internal
  | .defaults => do
    let d ← f st.defaults
    pure { st with defaults := d }
  | .named n =>
    match st.sections.lookup n with
    | some s => do
      let s' ← f s
      pure { st with sections := mapSet n s' st.sections }
    | none => .error .internal

/-- a section header line -/
def RState.header (st : RState) (name : Str) : Except IniErr RState :=
  if (st.sections.lookup name).isSome then
    if st.seenSect.contains name then .error .dupSection
    else pure { st with cur := .named name, seenSect := name :: st.seenSect, optname := none }
  else if name == defaultSect then
    pure { st with cur := .defaults, optname := none }
  else
    pure { st with sections := st.sections ++ [(name, [])], cur := .named name,
                   seenSect := name :: st.seenSect, optname := none }

/-- an option line; `k`, `v` are the groups of `OPTCRE` -/
def RState.option (st : RState) (k v : Str) : Except IniErr RState :=
  let bad := st.bad || k.isEmpty                 -- `if not optname: e = self._handle_error(…)`
  let key := lower (rstrip k)                    -- `self.optionxform(optname.rstrip())`
  if st.seenOpt.contains (st.cur.name, key) then .error .dupOption
  else
    ({ st with bad := bad, optname := some key, seenOpt := (st.cur.name, key) :: st.seenOpt } : RState).modCur
      (fun d => .ok (mapSet key (.lines [v]) d))

/-- the body of the loop `for lineno, line in enumerate(fp, start=1)` -/
def step (st : RState) (line : Str) : Except IniErr RState :=
  let value := strip line
  if isCommentLine value then .ok st
  else if value.isEmpty then
    match st.openOpt with
    | some k => st.modCur (appendIn k [])
    | none => .ok st
  else
    let ind := indentOf line
    let cont : Option Name := match st.openOpt with
      | some k => if ind > st.indent then some k else none
      | none => none
    match cont with
    | some k => st.modCur (appendIn k value)
    | none =>
      let st := { st with indent := ind }
      match sectHeader value with
      | some name => st.header name
      | none =>
        match st.cur with
        | .none => .error .missingHeader
        | _ =>
          match optMatch value with
          | some kv => st.option kv.1 kv.2
          | none => .ok { st with bad := true }

/-- `_join_multiline_values`, one value -/
def RVal.finish : RVal → Str
  | .done s => s
  | .lines l => rstrip (join ['\n'] l)

def RSect.finish (s : RSect) : Sect := s.map fun kv => (kv.1, kv.2.finish)

/-- `_join_multiline_values` -/
def RState.finish (st : RState) : Ini :=
  { defaults := RSect.finish st.defaults
    sections := st.sections.map fun s => (s.1, RSect.finish s.2) }

/-- `cfg.read_string(text)` / `cfg.read_file(f)` on a parser that holds `c` -/
def iniReadInto (c : Ini) (text : Str) : Except IniErr Ini := do
  let st ← (splitLines text).foldlM step (RState.init c)
  if st.bad then .error .parsing else pure st.finish

/-- `read_string` on a fresh parser -/
def iniRead (text : Str) : Except IniErr Ini := iniReadInto Ini.empty text

/-- the same with Python's exception classes folded into `Err` -/
def iniReadPy (text : Str) : PyM Ini :=
  match iniRead text with
  | .ok c => .ok c
  | .error e => .error e.toErr

/-- text-mode `open()` with `newline=None` on reading: `"\r\n"` and a lone `"\r"` become `"\n"` -/
def unlGo (prevCR : Bool) : Str → Str
  | [] => []
  | c :: cs =>
    if c = '\r' then '\n' :: unlGo true cs
    else if c = '\n' && prevCR then unlGo false cs
    else c :: unlGo false cs

def universalNewlines (s : Str) : Str := unlGo false s

/-- `cfg.read(path)` for an existing file with the given content (what `open(path, "w")` wrote on POSIX) -/
def iniReadFile (c : Ini) (content : Str) : Except IniErr Ini := iniReadInto c (universalNewlines content)

/-- `USERCFG.read([fi.cfg, ofxget.cfg])` on the two texts -/
def iniLoadUser (fidbText userText : Str) : Except IniErr Ini := do
  let c ← iniReadFile Ini.empty fidbText
  iniReadFile c userText

/-! ### the guard of the round trip, as a decidable test -/

/-- no white space at either end (`strip s = s`, see `Lemmas/IniText.lean`) -/
def edgeClean (s : Str) : Bool :=
  (match s.head? with | some c => !isSpace c | none => true) &&
  (match s.getLast? with | some c => !isSpace c | none => true)

/-- a section name `[name]` can carry: not empty, on one line -/
def cleanName (n : Str) : Bool := !n.isEmpty && !n.contains '\n'

/-- an option name that reads back as itself: not empty, lower case, no blank at either end, no delimiter, no line
    break, not starting like a comment or a section header -/
def cleanKey (k : Name) : Bool :=
  !k.isEmpty && lower k == k && edgeClean k && !k.contains '=' && !k.contains ':' && !k.contains '\n' &&
  (match k with | c :: _ => c != '#' && c != ';' && c != '[' | [] => false)

/-- the lines of a text: the first one, and those after each `'\n'` -/
def nlLines : Str → Str × List Str
  | [] => ([], [])
  | c :: cs =>
    let r := nlLines cs
    if c = '\n' then ([], r.1 :: r.2) else (c :: r.1, r.2)

/-- a value that reads back: each of its lines without blanks at its ends, a continuation line not starting like a
    comment, and no white space at the end of the whole (`_join_multiline_values` applies `rstrip`; this excludes an
    empty last line) -/
def cleanValue (v : Str) : Bool :=
  let r := nlLines v
  edgeClean r.1 && r.2.all (fun l => edgeClean l && !isCommentLine l) &&
  (match v.getLast? with | some c => !isSpace c | none => true)

def cleanSect (s : Sect) : Bool :=
  s.all (fun kv => cleanKey kv.1 && cleanValue kv.2) && decide (s.map (·.1)).Nodup

/-- **the guard**: what `write()` puts on disk for `c` is read back as `c` -/
def iniClean (c : Ini) : Bool :=
  cleanSect c.defaults &&
  c.sections.all (fun s => cleanName s.1 && s.1 != defaultSect && cleanSect s.2) &&
  decide (c.sections.map (·.1)).Nodup

/-- every value also without white space at its own two ends (`strip v = v`; a clean value can still begin with an
    empty line): what the API-level model `Ini.loadFile` of `Ofx/Ofxget.lean` assumes of a file's values -/
def valuesStripped (c : Ini) : Bool :=
  let sectOk (s : Sect) : Bool := s.all fun kv => edgeClean kv.2
  sectOk c.defaults && c.sections.all fun s => sectOk s.2

/-- the additional guard at file level: no carriage return anywhere (text mode reads it as a line break) -/
def noCR (c : Ini) : Bool :=
  let sectOk (s : Sect) : Bool := s.all fun kv => !kv.1.contains '\r' && !kv.2.contains '\r'
  sectOk c.defaults && c.sections.all fun s => !s.1.contains '\r' && sectOk s.2

end Ofx.IniText
