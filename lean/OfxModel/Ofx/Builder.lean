/-
`ofxtools.Parser.TreeBuilder.feed/_feedmatch/_start/_groomstring` on top of CPython's C
`xml.etree.ElementTree.TreeBuilder` (`start/data/end/close`), as a stack machine.

Behaviour of the C `TreeBuilder` reproduced (observed on CPython 3.12 with `ET.TreeBuilder()` directly):
* `start(tag)` creates an element and appends it to the innermost open element; with no open element
  it becomes the root; if a root already exists it raises `xml.etree.ElementTree.ParseError`
  ("multiple elements on top level") — a `SyntaxError` subclass like ofxtools' own `ParseError`, both are
  `Err.parse` here;
* `data(s)` directly after `start` ends up as the `text` of the element just started (ofxtools calls
  `data` only there, always followed by `end`);
* `end(tag)` pops the innermost open element **without comparing `tag`**; with nothing open it raises
  `IndexError` ("pop from empty stack");
* `close()` never raises: it returns the root — whatever is still open stays attached to its parent —
  or `None` when no element was ever started.
Elements built this way have `tail = None` throughout, `text = None` unless `data` was called.
-/
import OfxModel.Ofx.Lexer
import OfxModel.Ofx.Tree
import OfxModel.Py.Err

namespace Ofx.Builder
open Ofx Ofx.Lexer

/-- an open element -/
structure Frame where
  tag : Str
  text : Option Str
  children : List Tree
  deriving Repr, Inhabited

def Frame.toTree (f : Frame) : Tree := .node f.tag f.text none f.children

/-- append a finished child -/
def Frame.add (f : Frame) (t : Tree) : Frame := { f with children := f.children ++ [t] }

/-- builder state: open elements innermost first; the finished root, if any -/
structure St where
  stack : List Frame
  root : Option Tree
  deriving Repr, Inhabited

def St.init : St := ⟨[], none⟩

/-- `TreeBuilder.start(tag, {})` -/
def St.start (tag : Str) (st : St) : PyM St :=
  match st.stack, st.root with
  | [], some _ => .error .parse          -- ET.ParseError: multiple elements on top level
  | _, _ => .ok { st with stack := ⟨tag, none, []⟩ :: st.stack }

/-- `TreeBuilder.data(d)` directly after `start` -/
def St.data (d : Str) (st : St) : St :=
  match st.stack with
  | [] => st                              -- unreachable from `feed` (data always follows a successful start)
  | f :: fs =>
    { st with stack := { f with text := (match f.text with | none => some d | some x => some (x ++ d)) } :: fs }

/-- `TreeBuilder.end(tag)`: the tag is not looked at -/
def St.end_ (st : St) : PyM St :=
  match st.stack with
  | [] => .error .index                   -- IndexError: pop from empty stack
  | [f] => .ok ⟨[], some f.toTree⟩
  | f :: g :: fs => .ok { st with stack := g.add f.toTree :: fs }

/-- what the root looks like when the elements of the stack are still open -/
def collapse (f : Frame) : List Frame → Tree
  | [] => f.toTree
  | g :: fs => collapse (g.add f.toTree) fs

/-- `TreeBuilder.close()` -/
def St.close (st : St) : Option Tree :=
  match st.stack with
  | [] => st.root
  | f :: fs => some (collapse f fs)

/-- `_groomstring`: `(string or "").strip()`, `None` when empty -/
def groom : Option Str → Option Str
  | none => none
  | some s => match strip s with
    | [] => none
    | t => some t

/-- Python truthiness of an `Optional[str]` -/
def truthy : Option Str → Bool
  | some (_ :: _) => true
  | _ => false

/-- `_start(tag, text, closetag)` -/
def startElem (tag : Str) (text closetag : Option Str) (st : St) : PyM St := do
  let st ← st.start tag
  match text with
  | some (c :: cs) => (st.data (c :: cs)).end_
  | _ => if truthy closetag then st.end_ else pure st

/-- `tag.startswith("/")` -/
def isEndTag : Str → Bool
  | '/' :: _ => true
  | _ => false

/-- `_feedmatch(tag, text, closetag)` -/
def feedMatch (tag : Str) (text closetag : Option Str) (st : St) : PyM St :=
  if tag.isEmpty then .error .assert                                        -- assert tag
  else if !(closetag == none || closetag == some tag) then .error .assert   -- assert closetag is None or closetag == tag
  else if isEndTag tag then
    (if truthy text then .error .parse     -- ParseError: tail text after an end tag
     else st.end_)                         -- self.end(tag[1:]): the name is not used by the C builder
  else startElem tag text closetag st

/-- the body of the `for match in finditer` loop -/
def step (m : Match) (st : St) : PyM St :=
  if truthy (groom m.tail) then .error .parse          -- ParseError: tail text
  else
    let text := groom m.text
    if truthy m.cdata && truthy text then .error .assert
    else feedMatch m.tag (if truthy m.cdata then m.cdata else text) m.closetag st

def feedToks : List Match → St → PyM St
  | [], st => .ok st
  | m :: ms, st =>
    match step m st with
    | .ok st' => feedToks ms st'
    | .error e => .error e

/-- `TreeBuilder.feed(s)` on a fresh builder -/
def feed (s : Str) : PyM St := feedToks (toks s) St.init

/-- `b = TreeBuilder(); b.feed(s); b.close()` -/
def parse (s : Str) : PyM (Option Tree) :=
  match feed s with
  | .ok st => .ok st.close
  | .error e => .error e

end Ofx.Builder
