/-
`ofxtools.Parser.TreeBuilder.feed/_feedmatch/_start/_groomstring` on top of CPython's C
`xml.etree.ElementTree.TreeBuilder` (`start/data/end/close`), as a stack machine.

Behaviour reproduced (C `xml.etree.ElementTree.TreeBuilder`, observed on CPython 3.12, plus the overrides
`start/end/close` of `ofxtools.Parser.TreeBuilder` that keep the stack `_open_tags`):
* `start(tag)` creates an element and appends it to the innermost open element; with no open element
  it becomes the root; if a root already exists the C builder raises `xml.etree.ElementTree.ParseError`
  ("multiple elements on top level") — a `SyntaxError` subclass like ofxtools' own `ParseError`, both are
  `Err.parse` here; then the tag is pushed on `_open_tags`;
* `data(s)` directly after `start` ends up as the `text` of the element just started (ofxtools calls
  `data` only there, always followed by `end`);
* `end(tag)` raises `ParseError` when nothing is open or when `tag` differs from the innermost open tag;
  otherwise it pops (both stacks);
* `close()` raises `ParseError` when an element is still open or when no element was ever started; otherwise
  it returns the root.
`_open_tags` is not a separate component of the state: it is, at every moment, the list of the tags of the open
frames (`start` pushes on both after the C call succeeded, `end` pops both after its checks).
Elements built this way have `tail = None` throughout, `text = None` unless `data` was called.
-/
import OfxModel.Ofx.Lexer
import OfxModel.Ofx.Tree
import OfxModel.Py.Err

namespace Ofx.Builder
open Ofx Ofx.Lexer

/-- an open element -/
structure Frame where
  tag : Str
  text : Option Str
  children : List Tree
  deriving Repr, Inhabited

def Frame.toTree (f : Frame) : Tree := .node f.tag f.text none f.children

/-- append a finished child -/
def Frame.add (f : Frame) (t : Tree) : Frame := { f with children := f.children ++ [t] }

/-- builder state: open elements innermost first; the finished root, if any -/
structure St where
  stack : List Frame
  root : Option Tree
  deriving Repr, Inhabited

def St.init : St := ⟨[], none⟩

/-- `TreeBuilder.start(tag, {})` -/
def St.start (tag : Str) (st : St) : PyM St :=
  match st.stack, st.root with
  | [], some _ => .error .parse          -- ET.ParseError: multiple elements on top level
  | _, _ => .ok { st with stack := ⟨tag, none, []⟩ :: st.stack }

/-- `TreeBuilder.data(d)` directly after `start` -/
def St.data (d : Str) (st : St) : St :=
  match st.stack with
  | [] => st                              -- unreachable from `feed` (data always follows a successful start)
  | f :: fs =>
    { st with stack := { f with text := (match f.text with | none => some d | some x => some (x ++ d)) } :: fs }

/-- `TreeBuilder.end(tag)` -/
def St.end_ (tag : Str) (st : St) : PyM St :=
  match st.stack with
  | [] => .error .parse                   -- ParseError: end tag without open element
  | f :: fs =>
    if f.tag ≠ tag then .error .parse     -- ParseError: end tag doesn't match the open element
    else match fs with
      | [] => .ok ⟨[], some f.toTree⟩
      | g :: gs => .ok { st with stack := g.add f.toTree :: gs }

/-- `TreeBuilder.close()` -/
def St.close (st : St) : PyM Tree :=
  match st.stack, st.root with
  | _ :: _, _ => .error .parse            -- ParseError: missing end tag
  | [], none => .error .parse             -- ParseError: no element found
  | [], some r => .ok r

/-- `_groomstring`: `(string or "").strip()`, `None` when empty -/
def groom : Option Str → Option Str
  | none => none
  | some s => match strip s with
    | [] => none
    | t => some t

/-- Python truthiness of an `Optional[str]` -/
def truthy : Option Str → Bool
  | some (_ :: _) => true
  | _ => false

/-- `_start(tag, text, closetag)` -/
def startElem (tag : Str) (text closetag : Option Str) (st : St) : PyM St := do
  let st ← st.start tag
  match text with
  | some (c :: cs) => (st.data (c :: cs)).end_ tag
  | _ => if truthy closetag then st.end_ tag else pure st

/-- `tag.startswith("/")` -/
def isEndTag : Str → Bool
  | '/' :: _ => true
  | _ => false

/-- `_feedmatch(tag, text, closetag)` -/
def feedMatch (tag : Str) (text closetag : Option Str) (st : St) : PyM St :=
  if tag.isEmpty then .error .assert                                        -- assert tag
  else if !(closetag == none || closetag == some tag) then .error .assert   -- assert closetag is None or closetag == tag
  else if isEndTag tag then
    (if truthy text then .error .parse     -- ParseError: tail text after an end tag
     else st.end_ (tag.drop 1))            -- self.end(tag[1:])
  else startElem tag text closetag st

/-- the body of the `for match in finditer` loop -/
def step (m : Match) (st : St) : PyM St :=
  if truthy (groom m.tail) then .error .parse          -- ParseError: tail text
  else
    let text := groom m.text
    if truthy m.cdata && truthy text then .error .assert
    else feedMatch m.tag (if truthy m.cdata then m.cdata else text) m.closetag st

def feedToks : List Match → St → PyM St
  | [], st => .ok st
  | m :: ms, st =>
    match step m st with
    | .ok st' => feedToks ms st'
    | .error e => .error e

/-- `TreeBuilder.feed(s)` on a fresh builder -/
def feed (s : Str) : PyM St := feedToks (toks s) St.init

/-- `b = TreeBuilder(); b.feed(s); b.close()`.  The result is never `none` (kept as an `Option` for the callers
    written when `close()` could return `None`). -/
def parse (s : Str) : PyM (Option Tree) :=
  match feed s with
  | .ok st =>
    match st.close with
    | .ok r => .ok (some r)
    | .error e => .error e
  | .error e => .error e

end Ofx.Builder
