/-
Model of `ofxtools/models/base.py` — the generic aggregate code — over a `Schema` (generated
from the model classes) and a `Conv` (the element converters).

  construct   = Aggregate.__init__ (validate_args → setattr loop → _apply_args → _apply_residual_kwargs)
  fromEtree   = Aggregate.from_etree / _convert / update_args / groom
  toEtree     = Aggregate.to_etree / _listAppend / ungroom

Recursion over trees/instances is done by first computing the results for all children
(`childInsts`, `fieldTrees`, `itemTrees`: pure, so evaluation order is unobservable) and then
running the non-recursive per-node logic on them; this is the same function as the code's
depth-first recursion.
-/
import OfxModel.Py.Str
import OfxModel.Ofx.Schema
import OfxModel.Ofx.Tree
import OfxModel.Ofx.Value
import OfxModel.Ofx.Conv

namespace Ofx.Agg

open Ofx

/-! ### association lists (Python dicts with insertion order) -/

def lookup (k : Str) : List (Str × α) → Option α
  | [] => none
  | (k', v) :: r => if k' = k then some v else lookup k r

def hasKey (k : Str) (l : List (Str × α)) : Bool := (lookup k l).isSome

def erase (k : Str) : List (Str × α) → List (Str × α)
  | [] => []
  | (k', v) :: r => if k' = k then erase k r else (k', v) :: erase k r

/-! ### class facts (`spec_no_listaggregates`, `listaggregates`, `listelements`, …) -/

def specNoList (c : Cls) : List Attr := c.spec.filter (fun a => !a.kind.isList)

def listElemNames (c : Cls) : List Str := (c.spec.filter (fun a => a.kind.isListElem)).map (·.name)

/-- `cls.listaggregates` — for an `ElementList` this is the `ListElement` attributes -/
def listAggNames (c : Cls) : List Str :=
  if c.elementList then listElemNames c
  else (c.spec.filter (fun a => a.kind.isListAgg)).map (·.name)

def isListMember (c : Cls) (name : Str) : Bool :=
  (listAggNames c).contains name || (listElemNames c).contains name

def specIndex (c : Cls) (name : Str) : Option Nat := c.spec.findIdx? (fun a => a.name = name)

/-- `isinstance(value, T)` for an instance of class `ci` -/
def isInstance (S : Schema) (ci t : Nat) : Bool :=
  ci = t || match S.cls? ci with
    | some c => c.ancestors.contains t
    | none => false

/-! ### Python truthiness and `is not None` on what a kwarg can hold -/

def Node.toVal : Node → Val
  | .val v => v
  | .agg .. => .other "Aggregate"

def truthy : Node → Bool
  | .val .none => false
  | .val (.bool b) => b
  | .val (.int i) => i ≠ 0
  | .val (.str s) => !s.isEmpty
  | .val (.dec (.fin _ c _)) => c ≠ 0
  | .val _ => true
  | .agg _ _ items => !items.isEmpty          -- `Aggregate` is a `list` subclass

def notNone : Node → Bool
  | .val .none => false
  | _ => true

/-- `cls.__name__` of the class with index `ci` -/
def clsName (S : Schema) (ci : Nat) : Str :=
  match S.cls? ci with
  | some c => c.name
  | none => ['?']

/-- `type(v).__name__` of an element value -/
def valClassName : Val → Str
  | .str _ => "str".toList
  | .int _ => "int".toList
  | .bool _ => "bool".toList
  | .none => "NoneType".toList
  | _ => "object".toList

/-- `member.__class__.__name__` -/
def argClassName (S : Schema) : Node → Str
  | .agg ci _ _ => clsName S ci
  | .val v => valClassName v

/-! ### validate_args -/

/-- `v not in (None, "")`: a keyword counts as given unless it is `None` or the empty text (which every element
    converter turns into `None`) -/
def given : Node → Bool
  | .val .none => false
  | .val (.str []) => false
  | _ => true

/-- `sum([kwargs.get(m, None) not in (None, "") for m in mutex])` -/
def mutexCount (kw : List (Str × Node)) (group : List Str) : Nat :=
  (group.filter (fun m => match lookup m kw with
    | some v => given v
    | none => false)).length

def enforceCount (kw : List (Str × Node)) (groups : List (List Str)) (pred : Nat → Bool) : PyM Unit :=
  if groups.all (fun g => pred (mutexCount kw g)) then .ok () else .error .spec

/-- `key[-n:]` -/
def lastN (n : Nat) (s : Str) : Str := s.drop (s.length - n)

def allEqual [DecidableEq α] : List α → Bool
  | [] => true
  | x :: xs => xs.all (· = x)

def kwTruthy (kw : List (Str × Node)) (k : String) : Bool :=
  match lookup k.toList kw with
  | some v => truthy v
  | none => false

/-- the hand-coded part of the 16 `validate_args` overrides (each then calls `super()`) -/
def extraRule (S : Schema) (r : ExtraRule) (args : List Node) (kw : List (Str × Node)) : PyM Unit :=
  let fail : PyM Unit := .error .value
  match r with
  | .none => .ok ()
  | .unknown => .ok ()
  | .ofx => if allEqual (kw.map (fun p => lastN 7 p.1)) then .ok () else fail
  | .sonrq =>
    let userid := kwTruthy kw "userid"
    let userpass := kwTruthy kw "userpass"
    let userkey := kwTruthy kw "userkey"
    if ((userid && userpass) || userkey) && !((userid || userpass) && userkey) then .ok () else fail
  | .msgsetcore | .msgsetlist | .mfachallengers | .contribinfo
  | .tax1099msgsrqv1 | .tax1099msgsrsv1 | .tax1099msgsetv1 =>
    if args.isEmpty then fail else .ok ()
  | .acctinfo =>
    if args.isEmpty then fail
    else
      let names := args.map (argClassName S)
      if names.all (fun n => (names.filter (· = n)).length ≤ 1) then .ok () else fail
  | .tax1099rs =>
    if args.any (fun a => "TAX1099".toList.isPrefixOf (argClassName S a)) then .ok () else fail
  | .contribsecurity =>
    if !allEqual ((kw.filter (fun p => p.1 ≠ "secid".toList)).map (fun p => lastN 3 p.1)) then fail
    else if kw.length < 2 then fail else .ok ()
  | .extdpmt =>
    if !(args.map (argClassName S)).contains "EXTDPMTINV".toList && !hasKey "extdpmtdsc".toList kw
    then fail else .ok ()
  | .extdpayee =>
    if kwTruthy kw "payeeid" then
      if kwTruthy kw "idscope" && kwTruthy kw "name" then .ok () else fail
    else .ok ()
  | .tax1099r =>
    if !hasKey "irasepsimp".toList kw &&
        ["grossdist", "taxamt", "fedtaxwh", "sttaxwh", "lcltaxwh"].any (fun t => hasKey t.toList kw)
    then fail else .ok ()
  | .tax1099misc =>
    if hasKey "STTAXWH".toList kw && !hasKey "PAYERSTATE".toList kw then fail else .ok ()

def validateArgs (S : Schema) (c : Cls) (args : List Node) (kw : List (Str × Node)) : PyM Unit := do
  extraRule S c.extra args kw
  enforceCount kw c.optMutex (· ≤ 1)
  enforceCount kw c.reqMutex (· = 1)

/-! ### __init__ -/

/-- `SubAggregate.convert(value)` -/
def convertSub (S : Schema) (t : Nat) (required : Bool) : Node → PyM Node
  | .val .none => if required then .error .spec else .ok (.val .none)
  | .agg ci f i => if isInstance S ci t then .ok (.agg ci f i) else .error .type
  | .val _ => .error .type

/-- `setattr(self, attr, value)` for one non-list spec attribute; `none` = nothing stored (Unsupported) -/
def setAttr (S : Schema) (cv : Conv) (a : Attr) (value : Node) : PyM (Option Node) :=
  match a.kind with
  | .unsupported => .ok none
  | .sub t => (convertSub S t a.required value).map some
  | .listAgg _ => .ok none      -- not reached: list attributes are filtered out
  | .listElem .. => .ok none
  | k => (cv.convert S.enums k a.required (Node.toVal value)).map (fun v => some (.val v))

/-- the loop `for attr in self.spec_no_listaggregates: value = kwargs.pop(attr, None); setattr(...)` -/
def setAttrs (S : Schema) (cv : Conv) : List Attr → List (Str × Node) → PyM (List (Str × Node))
  | [], _ => .ok []
  | a :: rest, kw => do
    let value := (lookup a.name kw).getD (.val .none)
    let stored ← setAttr S cv a value
    let more ← setAttrs S cv rest kw
    match stored with
    | none => pure more
    | some v => pure ((a.name, v) :: more)

/-- keys left in `kwargs` after every `spec_no_listaggregates` name has been popped -/
def residualKeys (c : Cls) (kw : List (Str × Node)) : List Str :=
  (kw.map (·.1)).filter (fun k => !((specNoList c).map (·.name)).contains k)

/-- one member in `Aggregate._apply_args`: an `Aggregate` whose lower-cased class name is a list attribute -/
def applyArg (S : Schema) (c : Cls) (m : Node) : PyM Node :=
  match m with
  | .agg ci f i =>
    if (listAggNames c).contains (lower (argClassName S (.agg ci f i))) then .ok (.agg ci f i)
    else .error .type
  | .val _ => .error .type

/-- `Aggregate._apply_args` / `ElementList._apply_args` -/
def applyArgs (S : Schema) (cv : Conv) (c : Cls) (args : List Node) : PyM (List Node) :=
  if c.elementList then
    match c.spec.filter (fun a => a.kind.isListElem) with
    | [a] =>
      match a.kind with
      | .listElem inner ireq =>
        args.mapM (fun m => (cv.convert S.enums inner ireq (Node.toVal m)).map Node.val)
      | _ => .error .assert
    | _ => .error .assert
  else args.mapM (applyArg S c)

def applyResidual (c : Cls) (kw : List (Str × Node)) : PyM Unit :=
  match residualKeys c kw with
  | [] => .ok ()
  | ks => if ks.any (isListMember c) then .error .syntax else .error .spec

/-- `cls(*args, **kwargs)` -/
def construct (S : Schema) (cv : Conv) (ci : Nat) (args : List Node) (kw : List (Str × Node)) : PyM Node :=
  match S.cls? ci with
  | none => .error .attr
  | some c => do
    validateArgs S c args kw
    let fields ← setAttrs S cv (specNoList c) kw
    let items ← applyArgs S cv c args
    applyResidual c kw
    pure (.agg ci fields items)

/-! ### from_etree -/

/-- accumulator of `update_args`, plus the `groom` rename flag -/
structure Accum where
  args : List Node
  kwargs : List (Str × Node)
  prev : Option Nat          -- `prev_index` (`none` = −1)
  prevIsList : Bool
  renamed : Bool             -- `groom` already renamed one child
  deriving Inhabited

def Accum.init : Accum := ⟨[], [], none, false, false⟩

/-- the tag a child has after `cls.groom`, or `none` if groom removed it -/
def groomTag (c : Cls) (renamed : Bool) (tag : Str) : Option Str × Bool :=
  match c.groom with
  | some r =>
    if !renamed && tag = r.fromTag then
      (if r.toTag.contains '.' then none else some r.toTag, true)
    else (if tag.contains '.' then none else some tag, renamed)
  | none => (if tag.contains '.' then none else some tag, renamed)

/-- `index <= prev_index` (`prev = none` stands for −1) -/
def outOfOrder (prev : Option Nat) (index : Nat) : Bool :=
  match prev with
  | none => false
  | some p => decide (index ≤ p)

/-- `attrname in cls.unsupported` for the attribute at `index` -/
def unsupportedAt (c : Cls) (index : Nat) : Bool :=
  match c.spec[index]? with
  | some a => a.kind.isUnsupported
  | none => false

/-- the value of a supported child: its text when it has one (`elem.text` truthy), else its own
    conversion `sub` (`Aggregate.from_etree(elem)`) -/
def childValue (child : Tree) (sub : PyM Node) : PyM Node :=
  match child.text with
  | some (t :: ts) => .ok (Node.val (.str (t :: ts)))
  | _ => sub

/-- one step of `functools.reduce(update_args, elem, initial)` on a child whose own conversion
    (were it an aggregate) is `sub` -/
def updateArgs (c : Cls) (acc : Accum) (child : Tree) (sub : PyM Node) : PyM Accum :=
  match groomTag c acc.renamed child.tag with
  | (none, rn) => .ok { acc with renamed := rn }
  | (some tag, rn) =>
    let acc := { acc with renamed := rn }
    let attrname := lower tag
    match specIndex c attrname with
    | none => .ok acc                                   -- unknown tag: warn and skip
    | some index =>
      let isList := isListMember c attrname
      if outOfOrder acc.prev index && !(isList && acc.prevIsList) then .error .spec
      else do
        let value ← if unsupportedAt c index then pure (Node.val .none) else childValue child sub
        if isList then
          pure { acc with args := acc.args ++ [value], prev := some index, prevIsList := true }
        else if hasKey attrname acc.kwargs then .error .spec
        else
          pure { acc with kwargs := acc.kwargs ++ [(attrname, value)], prev := some index,
                          prevIsList := false }

def foldChildren (c : Cls) : List Tree → List (PyM Node) → Accum → PyM Accum
  | ch :: rest, s :: subs, acc => do
    let acc' ← updateArgs c acc ch s
    foldChildren c rest subs acc'
  | _, _, acc => .ok acc

/-- `SubClass._convert(elem)` given the conversions of the children -/
def convertNode (S : Schema) (cv : Conv) (tag : Str) (children : List Tree) (subs : List (PyM Node)) :
    PyM Node :=
  match S.findIdx? tag with
  | none => .error .spec
  | some ci =>
    match S.cls? ci with
    | none => .error .spec
    | some c =>
      if children.isEmpty then construct S cv ci [] []
      else do
        let acc ← foldChildren c children subs Accum.init
        construct S cv ci acc.args acc.kwargs

mutual
  /-- `Aggregate.from_etree(elem)` -/
  def fromEtree (S : Schema) (cv : Conv) : Tree → PyM Node
    | .node tag _ _ children => convertNode S cv tag children (childInsts S cv children)
  def childInsts (S : Schema) (cv : Conv) : List Tree → List (PyM Node)
    | [] => []
    | c :: cs => fromEtree S cv c :: childInsts S cv cs
end

/-! ### to_etree -/

/-- rename the first child tagged `r.fromTag` (the `ungroom` overrides) -/
def renameFirst (r : Rename) : List Tree → List Tree
  | [] => []
  | (.node t x tl cs) :: rest =>
    if t = r.fromTag then .node r.toTag x tl cs :: rest else .node t x tl cs :: renameFirst r rest

/-- `ET.SubElement(root, attr.upper()).text = text` -/
def leafOf (a : Attr) (t : Val) : PyM Tree :=
  match t with
  | .str s => .ok (Tree.node (upper a.name) (some s) none [])
  | .none => .ok (Tree.node (upper a.name) none none [])
  | _ => .error .type

/-- `_listAppend` for every member, given the members' own `to_etree` results -/
def listAppend (S : Schema) (cv : Conv) (c : Cls) (items : List Node) (its : List (PyM Tree)) :
    PyM (List Tree) :=
  if c.elementList then
    match c.spec.filter (fun a => a.kind.isListElem) with
    | [a] =>
      match a.kind with
      | .listElem inner ireq =>
        items.mapM (fun m => do
          let t ← cv.unconvert S.enums inner ireq (Node.toVal m)
          leafOf a t)
      | _ => .error .assert
    | _ => .error .assert
  else its.mapM id

/-- the loop over `self.spec.items()` -/
def emitSpec (S : Schema) (cv : Conv) (c : Cls) (fields : List (Str × Node))
    (fts : List (Str × PyM Tree)) (items : List Node) (its : List (PyM Tree)) :
    List Attr → Bool → PyM (List Tree)
  | [], _ => .ok []
  | a :: rest, doList =>
    if a.kind.isList then
      if doList then do
        let ms ← listAppend S cv c items its
        let more ← emitSpec S cv c fields fts items its rest false
        pure (ms ++ more)
      else emitSpec S cv c fields fts items its rest false
    else if a.kind.isUnsupported then emitSpec S cv c fields fts items its rest doList
    else
      match lookup a.name fields with
      | none => .error .key                       -- `obj.__dict__[name]` missing
      | some (.val .none) => emitSpec S cv c fields fts items its rest doList
      | some (.agg ..) => do
        let child ← (lookup a.name fts).getD (.error .key)
        let more ← emitSpec S cv c fields fts items its rest doList
        pure (child :: more)
      | some (.val v) => do
        let t ← cv.unconvert S.enums a.kind a.required v
        let child ← leafOf a t
        let more ← emitSpec S cv c fields fts items its rest doList
        pure (child :: more)

def assemble (S : Schema) (cv : Conv) (ci : Nat) (fields : List (Str × Node))
    (fts : List (Str × PyM Tree)) (items : List Node) (its : List (PyM Tree)) : PyM Tree :=
  match S.cls? ci with
  | none => .error .attr
  | some c => do
    let children ← emitSpec S cv c fields fts items its c.spec true
    let children := match c.ungroom with
      | some r => renameFirst r children
      | none => children
    pure (Tree.node c.name none none children)

mutual
  /-- `instance.to_etree()` -/
  def toEtree (S : Schema) (cv : Conv) : Node → PyM Tree
    | .val _ => .error .attr
    | .agg ci fields items =>
      assemble S cv ci fields (fieldTrees S cv fields) items (itemTrees S cv items)
  def fieldTrees (S : Schema) (cv : Conv) : List (Str × Node) → List (Str × PyM Tree)
    | [] => []
    | (n, v) :: r => (n, toEtree S cv v) :: fieldTrees S cv r
  def itemTrees (S : Schema) (cv : Conv) : List Node → List (PyM Tree)
    | [] => []
    | v :: r => toEtree S cv v :: itemTrees S cv r
end

end Ofx.Agg
