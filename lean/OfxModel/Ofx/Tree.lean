/-
`xml.etree.ElementTree.Element` restricted to what ofxtools uses: tag, text, tail, children
(no attributes).
-/
import OfxModel.Proto

namespace Ofx

inductive Tree where
  | node (tag : Str) (text : Option Str) (tail : Option Str) (children : List Tree)
  deriving Repr, Inhabited, BEq

namespace Tree

def tag : Tree → Str | node t _ _ _ => t
def text : Tree → Option Str | node _ x _ _ => x
def tail : Tree → Option Str | node _ _ x _ => x
def children : Tree → List Tree | node _ _ _ cs => cs

/-- a leaf as the parser builds it -/
def leaf (tag : Str) (text : Str) : Tree := node tag (some text) none []
/-- an aggregate as the parser builds it -/
def agg (tag : Str) (cs : List Tree) : Tree := node tag none none cs

mutual
  def enc : Tree → SExp
    | node t x tl cs => .list [.atom "t", encStr t, encOpt encStr x, encOpt encStr tl, .list (encList cs)]
  def encList : List Tree → List SExp
    | [] => []
    | c :: cs => enc c :: encList cs
end

mutual
  partial def dec : SExp → Option Tree
    | .list [.atom "t", t, x, tl, .list cs] => do
      let t ← decStr t
      let x ← decOpt decStr x
      let tl ← decOpt decStr tl
      let cs ← decL cs
      pure (node t x tl cs)
    | _ => none
  partial def decL : List SExp → Option (List Tree)
    | [] => some []
    | c :: cs => do
      let c ← dec c
      let cs ← decL cs
      pure (c :: cs)
end

end Tree
end Ofx
