/-
Model of `ofxtools/scripts/ofxget.py`: configuration precedence and persistence (C18) and account
selection for `stmt` / `stmtend` (C19).

Mirrors, function by function: `extractns`, `read_config`, `UserConfig.read([fi.cfg, ofxget.cfg])`,
`merge_config`, `merge_from_ofxhome`, `write_config`, `mk_server_cfg` (`test_cfg_val`), `arg2config`,
`convert_list`, `convert_datetime`, `init_client`, `request_stmt`, `request_stmtend`,
`_merge_acctinfo`, `parse_bankacctinfos/parse_ccacctinfos/parse_invacctinfos`, `_acctIsActive`,
`utils.collapseToSingle`; and the parts of the standard library they lean on, at API level:
`collections.ChainMap` (lookup, `maps.insert`, item assignment), `configparser.ConfigParser`
(`optionxform`, `BasicInterpolation.before_set/before_get`, `getint`, `getboolean`, sect proxies with
the DEFAULT sect showing through, `clear()` that keeps DEFAULT), `str(list)`, `int(str)`.

The data (`DEFAULTS`, `CONFIGURABLE`, argparse defaults, `BOOLEAN_STATES`, …) is a parameter
(`Tables`); the instance generated from the source is `Generated/OfxgetTables.lean`.

The INI *text* format is not modelled: a file is the list of its sections with raw `(key, value)`
pairs as a reader hands them over; the only text-level effect kept is that a reader strips values
(`loadFile`).  Values containing line breaks are outside the model's domain.
-/
import OfxModel.Py.Err
import OfxModel.Py.Int
import OfxModel.Py.Str

namespace Ofx.Ofxget
open Ofx

/-! ### values, maps, ChainMap -/

/-- a Python value as found in an argparse namespace / config mapping -/
inductive CfgVal where
  | null                      -- `None`
  | str (s : Str)
  | int (i : Int)
  | bool (b : Bool)
  | list (l : List Str)
  deriving DecidableEq, Repr, Inhabited

/-- `type(v)` of a `DEFAULTS` entry, as recorded in `CONFIGURABLE` -/
inductive CfgTy where
  | str | int | bool | list
  deriving DecidableEq, Repr, Inhabited

abbrev Name := Str
/-- a `dict` with string keys: association list, first entry for a key is the entry -/
abbrev Map := List (Name × CfgVal)
/-- `ChainMap.maps` -/
abbrev Chain := List Map

/-- data of the module, generated from the source -/
structure Tables where
  defaults : Map
  configurable : List (Name × CfgTy)
  booleanStates : List (Str × Bool)
  defaultSection : Str
  commands : List Str
  argDefaults : List (Str × Map)
  /-- `models.bank.stmt.ACCTTYPES` and `models.common.SVCSTATUSES` -/
  acctTypes : List Str
  svcStatuses : List Str
  deriving Repr

/-- `bool(v)` -/
def truthy : CfgVal → Bool
  | .null => false
  | .str s => !s.isEmpty
  | .int i => i != 0
  | .bool b => b
  | .list l => !l.isEmpty

/-- `a == b` (Python: `True == 1`, `False == 0`; values of different other types differ) -/
def pyEq : CfgVal → CfgVal → Bool
  | .null, .null => true
  | .str a, .str b => a == b
  | .int a, .int b => a == b
  | .bool a, .bool b => a == b
  | .int a, .bool b => a == (if b then 1 else 0)
  | .bool a, .int b => b == (if a then 1 else 0)
  | .list a, .list b => a == b
  | _, _ => false

/-- `v in NULL_ARGS` with `NULL_ARGS = (None, "", [])` -/
def isNullArg : CfgVal → Bool
  | .null => true
  | .str [] => true
  | .list [] => true
  | _ => false

/-- `d[k] = v` on a dict: replace in place, else append -/
def mapSet (k : Name) (v : β) : List (Name × β) → List (Name × β)
  | [] => [(k, v)]
  | (k', v') :: rest => if k' == k then (k, v) :: rest else (k', v') :: mapSet k v rest

/-- `ChainMap.get(k)`: the first map that has the key -/
def Chain.get? (c : Chain) (k : Name) : Option CfgVal := c.findSome? (fun m => m.lookup k)

/-- `chain[k]` -/
def Chain.getItem (c : Chain) (k : Name) : PyM CfgVal :=
  match c.get? k with
  | some v => .ok v
  | none => .error .key

/-- `k in chain` -/
def Chain.has (c : Chain) (k : Name) : Bool := (c.get? k).isSome

/-- `chain[k] = v`: assignment goes to `maps[0]` -/
def Chain.set (c : Chain) (k : Name) (v : CfgVal) : Chain :=
  match c with
  | [] => [[(k, v)]]
  | m :: ms => mapSet k v m :: ms

/-- `list.insert(i, x)` with Python's index clamping -/
def pyInsert (l : List α) (i : Int) (x : α) : List α :=
  let n : Int := l.length
  let idx : Nat := if i < 0 then (if n + i < 0 then 0 else (n + i).toNat) else (if i > n then l.length else i.toNat)
  l.take idx ++ x :: l.drop idx

/-- `extractns`: `{k: v for k, v in vars(ns).items() if v is not None}` -/
def extractns (ns : Map) : Map := ns.filter (fun kv => kv.2 != .null)

/-! ### configparser at API level -/

/-- one sect: option name (already lower-cased) ↦ raw value -/
abbrev Sect := List (Name × Str)

/-- a `ConfigParser`: the DEFAULT sect and the named sections -/
structure Ini where
  defaults : Sect
  sections : List (Str × Sect)
  deriving Repr, DecidableEq, Inhabited

def Ini.empty : Ini := ⟨[], []⟩

/-- what a reader hands over for one file: sections in file order, keys as written, raw values -/
abbrev FileC := List (Str × List (Str × Str))

def defaultSect : Str := "DEFAULT".toList

/-- `has_section` (never true of DEFAULT) -/
def Ini.hasSection (c : Ini) (n : Str) : Bool := (c.sections.lookup n).isSome

/-- `n in cfg` -/
def Ini.contains (c : Ini) (n : Str) : Bool := n == defaultSect || c.hasSection n

/-- the options of a named sect ([] if absent) -/
def Ini.sect (c : Ini) (n : Str) : Sect := (c.sections.lookup n).getD []

/-- `dict.update` with lower-cased keys and stripped values: what `read` does with one sect -/
def sectUpdate (s : Sect) (kvs : List (Str × Str)) : Sect :=
  kvs.foldl (fun acc kv => mapSet (lower kv.1) (strip kv.2) acc) s

/-- `cfg.read(file)` on top of the current content (later files win, per sect, per option) -/
def Ini.loadFile (c : Ini) (f : FileC) : Ini :=
  f.foldl (fun c sec =>
    if sec.1 == defaultSect then { c with defaults := sectUpdate c.defaults sec.2 }
    else { c with sections := mapSet sec.1 (sectUpdate (c.sect sec.1) sec.2) c.sections }) c

/-- the file content `cfg.write` produces: DEFAULT first, then the sections, values as stored (a reader strips them) -/
def Ini.toFile (c : Ini) : FileC := (defaultSect, c.defaults) :: c.sections

/-- raw lookup in a sect with DEFAULT showing through (`_unify_values`) -/
def Ini.raw (c : Ini) (sect : Str) (k : Name) : Option Str :=
  match (c.sect sect).lookup k with
  | some v => some v
  | none => c.defaults.lookup k

/-- `cfg[sect].get(k)`: the stored text, verbatim (`interpolation=None`); `None` when the option is missing -/
def Ini.get (c : Ini) (sect : Str) (k : Name) : Option Str := c.raw sect k

/-- `cfg[sect][k] = v` (`ConfigParser.set` with `interpolation=None`: no validation of the text) -/
def Ini.set (c : Ini) (sect : Str) (k : Name) (v : Str) : Ini :=
  if sect == defaultSect then { c with defaults := mapSet (lower k) v c.defaults }
  else { c with sections := mapSet sect (mapSet (lower k) v (c.sect sect)) c.sections }

/-- `del d[k]` if present -/
def mapErase (k : Name) : List (Name × β) → List (Name × β)
  | [] => []
  | (k', v) :: rest => if k' == k then rest else (k', v) :: mapErase k rest

/-- `cfg.remove_option(sect, k)` for an existing section (or DEFAULT) -/
def Ini.removeOption (c : Ini) (sect : Str) (k : Name) : Ini :=
  if sect == defaultSect then { c with defaults := mapErase (lower k) c.defaults }
  else { c with sections := mapSet sect (mapErase (lower k) (c.sect sect)) c.sections }

/-- option names a sect proxy iterates over: the sect's, then DEFAULT's not already seen -/
def Ini.options (c : Ini) (sect : Str) : List Name :=
  if sect == defaultSect then c.defaults.map (·.1)
  else
    let own := (c.sect sect).map (·.1)
    own ++ (c.defaults.map (·.1)).filter (fun k => !own.contains k)

/-- digits with single underscores between them (`int()`'s grammar after sign and blanks) -/
def parseDigits (acc : Nat) (prevDigit : Bool) : Str → Option Nat
  | [] => if prevDigit then some acc else none
  | c :: cs =>
    if c = '_' then (if prevDigit then parseDigits acc false cs else none)
    else match digitVal c with
      | some d => parseDigits (acc * 10 + d) true cs
      | none => none

/-- `int(s)` on the ASCII grammar -/
def pyIntOfStr (s : Str) : Option Int :=
  match strip s with
  | '-' :: r => (parseDigits 0 false r).map (fun n => - (n : Int))
  | '+' :: r => (parseDigits 0 false r).map (fun n => (n : Int))
  | r => (parseDigits 0 false r).map (fun n => (n : Int))

/-- `getboolean` -/
def pyBoolOfStr (T : Tables) (s : Str) : Option Bool := T.booleanStates.lookup (lower s)

/-- `convert_list`: `[sub.strip() for sub in string.split(",")]` -/
def convertList (s : Str) : List Str := (splitOn ',' s).map strip

/-- the typed getter `read_config` selects from `CONFIGURABLE` -/
def typedOfStr (T : Tables) (ty : CfgTy) (s : Str) : PyM CfgVal :=
  match ty with
  | .str => .ok (.str s)
  | .int => match pyIntOfStr s with | some i => .ok (.int i) | none => .error .value
  | .bool => match pyBoolOfStr T s with | some b => .ok (.bool b) | none => .error .value
  | .list => .ok (.list (convertList s))

/-- one entry of the dict comprehension in `read_config`: `handlers[CONFIGURABLE[opt]](opt)` -/
def readOne (T : Tables) (c : Ini) (sect : Str) (kt : Name × CfgTy) : PyM (Name × CfgVal) :=
  match c.get sect kt.1 with
  | none => pure (kt.1, CfgVal.null)
  | some s => do
    let v ← typedOfStr T kt.2 s
    pure (kt.1, v)

/-- the options of the sect that are `in CONFIGURABLE`, with their types -/
def configurableOptions (T : Tables) (c : Ini) (sect : Str) : List (Name × CfgTy) :=
  (c.options sect).filterMap (fun k => (T.configurable.lookup k).map (fun ty => (k, ty)))

/-- `read_config(cfg, sect)` -/
def readConfig (T : Tables) (c : Ini) (sect : Str) : PyM Map :=
  if !c.contains sect then .ok []
  else (configurableOptions T c sect).mapM (readOne T c sect)

/-! ### OFX Home -/

/-- the four fields of an `ofxhome.OFXServer` that `merge_from_ofxhome` uses -/
structure OhRec where
  url : Option Str
  org : Option Str
  fid : Option Str
  brokerid : Option Str
  deriving Repr, DecidableEq, Inhabited

def optVal : Option Str → CfgVal
  | none => .null
  | some s => .str s

def OhRec.toMap (r : OhRec) : Map :=
  [("url".toList, optVal r.url), ("org".toList, optVal r.org), ("fid".toList, optVal r.fid),
   ("brokerid".toList, optVal r.brokerid)]

/-- `merge_from_ofxhome(args)` -/
def mergeFromOfxhome (lookup : Str → Option OhRec) (args : Chain) : PyM Chain := do
  let id ← args.getItem "ofxhome".toList
  if truthy id then
    match id with
    | .str s =>
      match lookup s with
      | some r => pure (pyInsert args (-1) r.toMap)
      | none => pure args
    | _ => pure args
  else pure args

/-- `urllib.parse.urlparse(s).scheme != ""` (on strings without brackets, tabs, line breaks) -/
def hasScheme (s : Str) : Bool :=
  let s := s.dropWhile (fun c => c.toNat ≤ 32)
  match s with
  | [] => false
  | c :: _ =>
    let pre := s.takeWhile (· != ':')
    pre.length < s.length && pre.length > 0 && c.isAlpha &&
      pre.all (fun x => x.isAlphanum || x = '+' || x = '-' || x = '.')

/-- `read_config(config, _args["server"])` if the command line names a server, else `{}` -/
def userCfgOf (T : Tables) (cfg : Ini) (args : Map) : PyM Map :=
  match args.lookup "server".toList with
  | some (.str s) => readConfig T cfg s
  | _ => pure []

/-- `"ofxhome" in _args or "ofxhome" in user_cfg or (not merged["url"])` -/
def wantsOfxhome (args userCfg : Map) (merged : Chain) : PyM Bool :=
  if (args.lookup "ofxhome".toList).isSome || (userCfg.lookup "ofxhome".toList).isSome then pure true
  else do
    let u ← merged.getItem "url".toList
    pure (!truthy u)

/-- the "Missing URL" tail of `merge_config` -/
def finishMerge (T : Tables) (args : Map) (merged : Chain) : PyM Chain :=
  let haveUrl := truthy ((merged.get? "url".toList).getD .null)
  let dry := truthy ((merged.get? "dryrun".toList).getD (.bool false))
  let isList := pyEq ((merged.get? "request".toList).getD .null) (.str "list".toList)
  if haveUrl || dry || isList then pure merged
  else
    match args.lookup "server".toList with
    | none => do
      let cmd ← merged.getItem "request".toList
      match cmd with
      | .str c => if T.commands.contains c then .error .other /- SystemExit -/ else .error .key
      | _ => .error .key
    | some (.str server) =>
      if hasScheme server then
        pure ((merged.set "url".toList (.str server)).set "server".toList .null)
      else .error .value
    | some _ => .error .attr

/-- `merge_config(args, config)`; `ns` is `vars(args)`, `cfg` is `USERCFG` -/
def mergeConfig (T : Tables) (lookup : Str → Option OhRec) (ns : Map) (cfg : Ini) : PyM Chain := do
  let args := extractns ns
  let userCfg ← userCfgOf T cfg args
  let merged : Chain := [args, userCfg, T.defaults]
  let go ← wantsOfxhome args userCfg merged
  let merged ← if go then mergeFromOfxhome lookup merged else pure merged
  finishMerge T args merged

/-- the value in effect for `k` -/
def effective (c : Chain) (k : Name) : Option CfgVal := c.get? k

/-! ### writing the configuration -/

/-- `repr(s)` of a `str` (ASCII control characters escaped; other characters taken as printable) -/
def pyReprStr (s : Str) : Str :=
  let q : Char := if s.contains '\'' && !s.contains '"' then '"' else '\''
  let hex2 (n : Nat) : Str := [hexDigit (n / 16), hexDigit (n % 16)]
  let esc (c : Char) : Str :=
    if c = '\\' then ['\\', '\\']
    else if c = q then ['\\', q]
    else if c = '\t' then ['\\', 't']
    else if c = '\n' then ['\\', 'n']
    else if c = '\r' then ['\\', 'r']
    else if c.toNat < 32 || c.toNat = 127 then '\\' :: 'x' :: hex2 c.toNat
    else [c]
  q :: (s.flatMap esc ++ [q])

/-- `str(l)` of a list of `str` -/
def pyStrList (l : List Str) : Str := '[' :: (join ", ".toList (l.map pyReprStr) ++ [']'])

/-- `s.strip(chars)` -/
def stripChars (chars : List Char) (s : Str) : Str :=
  ((s.dropWhile chars.contains).reverse.dropWhile chars.contains).reverse

/-- `write_list`: `str(value).strip("[]").replace("'", "")` -/
def writeList (s : Str) : Str := replace "'".toList [] (stripChars ['[', ']'] s)

/-- `str(v)` -/
def pyStr : CfgVal → Str
  | .null => "None".toList
  | .str s => s
  | .int i => pyStrInt i
  | .bool b => if b then "True".toList else "False".toList
  | .list l => pyStrList l

/-- `arg2config(key, cfg_type, value)` followed by the type check of `cfg[opt] = …` -/
def arg2config (ty : CfgTy) (v : CfgVal) : PyM Str :=
  match ty, v with
  | .str, .str s => .ok s
  | .str, _ => .error .type                   -- "option values must be strings"
  | .int, v => .ok (pyStr v)
  | .bool, .bool b => .ok (if b then "true".toList else "false".toList)
  | .bool, .int 1 => .ok "true".toList
  | .bool, .int 0 => .ok "false".toList
  | .bool, .list _ => .error .type            -- unhashable
  | .bool, _ => .error .key
  | .list, v => .ok (writeList (pyStr v))

/-- outcome of `test_cfg_val(opt, value)`: write the value, leave the section alone, or (value equal to the
    library default) write it only if the file already says something for the option -/
inductive CfgAction where
  | write | skip | ifStored
  deriving DecidableEq, Repr

/-- `test_cfg_val(opt, value)` up to the `has_option` test -/
def testCfgVal (T : Tables) (defaultsUid : PyM Str) (libCfg : Map) (opt : Name) (value : CfgVal) : PyM CfgAction :=
  if isNullArg value then pure .skip
  else do
    let skipUid ← if opt == "clientuid".toList then (do
        let u ← defaultsUid
        pure (pyEq value (.str u))) else pure false
    if skipUid then pure .skip
    else do
      let dflt ← match T.defaults.lookup opt with
        | some d => pure d
        | none => .error .key
      let ref := (libCfg.lookup opt).getD dflt
      pure (if pyEq value ref then .ifStored else .write)

/-- one turn of the loop `for opt, opt_type in CONFIGURABLE.items()` of `mk_server_cfg` -/
def writeOpt (T : Tables) (args : Chain) (libCfg : Map) (server : Str) (cfg : Ini) (ot : Name × CfgTy) : PyM Ini :=
  match args.get? ot.1 with
  | none => pure cfg
  | some value => do
    let uid : PyM Str :=
      match cfg.get defaultSect "clientuid".toList with
      | some u => pure u
      | none => .error .key
    let act ← testCfgVal T uid libCfg ot.1 value
    -- `USERCFG.has_option(server, opt)`: the section or DEFAULT holds the option
    let doWrite := act == .write || (act == .ifStored && (cfg.get server (lower ot.1)).isSome)
    if doWrite then do
      let s ← arg2config ot.2 value
      pure (cfg.set server ot.1 s)
    else pure cfg

/-- the configuration `mk_server_cfg` starts from: `USERCFG.clear()` (keeps DEFAULT), `USERCFG.read(USERCONFIGPATH)`,
    a global CLIENTUID if there is none -/
def reloadCfg (mem : Ini) (disk : FileC) (uuid : Str) : Ini :=
  let cfg := ({ mem with sections := [] } : Ini).loadFile disk
  if (cfg.defaults.lookup "clientuid".toList).isSome then cfg
  else cfg.set defaultSect "clientuid".toList uuid

/-- `USERCFG[server] = {}` unless the section exists (`DEFAULT`: the section is emptied) -/
def ensureSection (cfg : Ini) (server : Str) : Ini :=
  if cfg.hasSection server then cfg
  else if server == defaultSect then { cfg with defaults := [] }
  else { cfg with sections := cfg.sections ++ [(server, [])] }

/-- the server nickname `mk_server_cfg` configures: `args.get("server")`, refused (`ValueError`) when empty or
    equal to the URL -/
def serverNick (args : Chain) : PyM Str := do
  let server := (args.get? "server".toList).getD .null
  let bad ← if !truthy server then pure true else do
      let url ← args.getItem "url".toList
      pure (pyEq server url)
  if bad then .error .value
  else
    match server with
    | .str server => pure server
    | _ => .error .key

/-- `mk_server_cfg(args)`: `mem` is `USERCFG` as it stands, `lib` is `LIBCFG`, `disk` the user file
    (`[]` when it does not exist), `uuid` what `OFXClient.uuid` would return now -/
def mkServerCfg (T : Tables) (args : Chain) (mem lib : Ini) (disk : FileC) (uuid : Str) : PyM Ini := do
  let server ← serverNick args
  let cfg := ensureSection (reloadCfg mem disk uuid) server
  let libCfg ← readConfig T lib server
  T.configurable.foldlM (writeOpt T args libCfg server) cfg

/-- `write_config(args)`: `none` = nothing written (dry run); `some cfg` = the file now holds `cfg` -/
def writeConfig (T : Tables) (args : Chain) (mem lib : Ini) (disk : FileC) (uuid : Str) : PyM (Option Ini) := do
  let dry ← args.getItem "dryrun".toList
  if truthy dry then pure none
  else do
    let cfg ← mkServerCfg T args mem lib disk uuid
    pure (some cfg)

/-- one ofxget process: import-time `USERCFG.read([fi.cfg, ofxget.cfg])`, `LIBCFG.read(fi.cfg)` -/
def loadUser (fidb user : FileC) : Ini := (Ini.empty.loadFile fidb).loadFile user
def loadLib (fidb : FileC) : Ini := Ini.empty.loadFile fidb

/-- result of one run of `ofxget <cmd> …` as far as configuration goes -/
structure RunResult where
  args : Chain
  /-- `none`: `write_config` not called or dry run; `some (.ok ini)`: written; `some (.error e)`: raised -/
  written : Option (PyM Ini)

/-- `merge_config` then, if `args["write"]`, `write_config` -/
def runOnce (T : Tables) (lookup : Str → Option OhRec) (ns : Map) (fidb user : FileC) (uuid : Str) : PyM RunResult := do
  let mem := loadUser fidb user
  let args ← mergeConfig T lookup ns mem
  let w ← args.getItem "write".toList
  if truthy w then
    match writeConfig T args mem (loadLib fidb) user uuid with
    | .ok none => pure ⟨args, none⟩
    | .ok (some ini) => pure ⟨args, some (.ok ini)⟩
    | .error e => pure ⟨args, some (.error e)⟩
  else pure ⟨args, none⟩

/-! ### account selection (C19) -/

/-- one `*ACCTINFO` of an ACCTINFORS, flattened in document order -/
inductive AcctInfo where
  | bank (bankid acctid accttype svcstatus : Str)
  | cc (acctid svcstatus : Str)
  | inv (brokerid acctid svcstatus : Str)
  | other (clsName : Str)
  deriving Repr, DecidableEq, Inhabited

def AcctInfo.clsName : AcctInfo → Str
  | .bank .. => "BANKACCTINFO".toList
  | .cc .. => "CCACCTINFO".toList
  | .inv .. => "INVACCTINFO".toList
  | .other n => n

/-- `_acctIsActive` -/
def AcctInfo.isActive : AcctInfo → Bool
  | .bank _ _ _ st => st == "ACTIVE".toList
  | .cc _ st => st == "ACTIVE".toList
  | .inv _ _ st => st == "ACTIVE".toList
  | .other _ => false

/-- `utils.collapseToSingle(items)` -/
def collapseToSingle : List Str → PyM Str
  | [] => .error .value
  | x :: xs => if xs.all (· == x) then .ok x else .error .value

/-- `defaultdict(list)[k].append(v)` -/
def mapAppend (k : Name) (v : Str) : Map → Map
  | [] => [(k, .list [v])]
  | (k', .list l) :: rest => if k' == k then (k', .list (l ++ [v])) :: rest else (k', .list l) :: mapAppend k v rest
  | kv :: rest => kv :: mapAppend k v rest

/-- body of the loop of `parse_bankacctinfos`: state = (bankids, args_) -/
def bankStep (st : List Str × Map) (inf : AcctInfo) : List Str × Map :=
  match inf with
  | .bank bankid acctid accttype _ =>
    if inf.isActive then (st.1 ++ [bankid], mapAppend (lower accttype) acctid st.2) else st
  | _ => st

/-- `parse_bankacctinfos` -/
def parseBankAcctinfos (infos : List AcctInfo) : PyM Map := do
  let st := infos.foldl bankStep ([], [])
  if st.1.isEmpty then pure st.2
  else do
    let b ← collapseToSingle st.1
    pure (mapSet "bankid".toList (.str b) st.2)

/-- body of the loop of `parse_invacctinfos`: state = (brokerids, args_) -/
def invStep (st : List Str × Map) (inf : AcctInfo) : List Str × Map :=
  match inf with
  | .inv brokerid acctid _ =>
    if inf.isActive then (st.1 ++ [brokerid], mapAppend "investment".toList acctid st.2) else st
  | _ => st

/-- `parse_invacctinfos` -/
def parseInvAcctinfos (infos : List AcctInfo) : PyM Map := do
  let st := infos.foldl invStep ([], [])
  if st.1.isEmpty then pure st.2
  else do
    let b ← collapseToSingle st.1
    pure (mapSet "brokerid".toList (.str b) st.2)

/-- `parse_ccacctinfos` -/
def parseCcAcctinfos (infos : List AcctInfo) : Map :=
  [("creditcard".toList, .list (infos.filterMap fun inf =>
      match inf with
      | .cc acctid _ => if inf.isActive then some acctid else none
      | _ => none))]

/-- insertion into a list sorted by `le` (stable: after equal elements) -/
def insertSorted (le : α → α → Bool) (x : α) : List α → List α
  | [] => [x]
  | y :: ys => if le y x then y :: insertSorted le x ys else x :: y :: ys

/-- `sorted(l, key=…)` (stable) -/
def sortBy (le : α → α → Bool) (l : List α) : List α := l.foldl (fun acc x => insertSorted le x acc) []

/-- lexicographic `<=` on strings by code point -/
def strLe : Str → Str → Bool
  | [], _ => true
  | _ :: _, [] => false
  | a :: as, b :: bs => a.toNat < b.toNat || (a == b && strLe as bs)

/-- `itertools.groupby` on a list already sorted by the key -/
def groupByKey (key : α → Str) : List α → List (Str × List α)
  | [] => []
  | x :: xs =>
    match groupByKey key xs with
    | (k, g) :: rest => if k == key x then (k, x :: g) :: rest else (key x, [x]) :: (k, g) :: rest
    | [] => [(key x, [x])]

/-- `parse_acctinfos(clsName, acctinfos)`: the dispatcher of `_merge_acctinfo` -/
def parseGroup (g : Str × List AcctInfo) : PyM Map :=
  if g.1 == "BANKACCTINFO".toList then parseBankAcctinfos g.2
  else if g.1 == "CCACCTINFO".toList then pure (parseCcAcctinfos g.2)
  else if g.1 == "INVACCTINFO".toList then parseInvAcctinfos g.2
  else pure []

/-- `sorted(extract_acctinfos(markup), key=sortKey)` then `itertools.groupby(…, key=sortKey)` -/
def acctGroups (infos : List AcctInfo) : List (Str × List AcctInfo) :=
  groupByKey AcctInfo.clsName (sortBy (fun a b => strLe a.clsName b.clsName) infos)

/-- the mapping `_merge_acctinfo` inserts: `ChainMap(*parsed_args)`, flattened (first entry wins) -/
def parsedAcctinfo (infos : List AcctInfo) : PyM Map := do
  let maps ← (acctGroups infos).mapM parseGroup
  pure maps.flatten

/-- `_merge_acctinfo(args, markup)` given the extracted `*ACCTINFO`s -/
def mergeAcctinfo (args : Chain) (infos : List AcctInfo) : PyM Chain := do
  let m ← parsedAcctinfo infos
  pure (pyInsert args 1 m)

/-- a request tuple (`StmtRq`, `CcStmtRq`, `InvStmtRq`, `StmtEndRq`, `CcStmtEndRq`); `δ` = converted date -/
inductive Rq (δ : Type) where
  | stmt (acctid accttype : Str) (dtstart dtend : Option δ) (inctran : CfgVal)
  | ccstmt (acctid : Str) (dtstart dtend : Option δ) (inctran : CfgVal)
  | invstmt (acctid : Str) (dtstart dtend dtasof : Option δ) (inctran incoo incpos incbal : CfgVal)
  | stmtend (acctid accttype : Str) (dtstart dtend : Option δ)
  | ccstmtend (acctid : Str) (dtstart dtend : Option δ)
  deriving Repr, DecidableEq

/-- the converted dates -/
structure Dates (δ : Type) where
  start : Option δ
  «end» : Option δ
  asof : Option δ
  deriving Repr, DecidableEq

/-- `args[d] or None` handed to `DateTime().convert` -/
def dateArg : CfgVal → PyM (Option Str)
  | .str s => .ok (if s.isEmpty then none else some s)
  | v => if truthy v then .error .type else .ok none

/-- `convert_datetime(args)`; `D` is `DateTime().convert` -/
def convertDatetime (D : Option Str → PyM (Option δ)) (args : Chain) : PyM (Dates δ) := do
  let s ← D (← dateArg (← args.getItem "dtstart".toList))
  let e ← D (← dateArg (← args.getItem "dtend".toList))
  let a ← D (← dateArg (← args.getItem "dtasof".toList))
  pure ⟨s, e, a⟩

/-- `for acctid in args[k]` -/
def acctIds (args : Chain) (k : Name) : PyM (List Str) := do
  match ← args.getItem k with
  | .list l => pure l
  | .str s => pure (s.map fun c => [c])
  | _ => .error .type

/-- `x or None` -/
def orNone (v : CfgVal) : CfgVal := if truthy v then v else .null

/-- `init_client(args)`: the keyword arguments handed to `OFXClient` -/
def initClient (args : Chain) : PyM Map := do
  let g (k : String) := args.getItem k.toList
  let url ← g "url"
  let user ← g "user"
  let clientuid ← g "clientuid"
  let org ← g "org"
  let fid ← g "fid"
  let version ← g "version"
  let appid ← g "appid"
  let appver ← g "appver"
  let language ← g "language"
  let pretty ← g "pretty"
  let unclosed ← g "unclosedelements"
  let bankid ← g "bankid"
  let brokerid ← g "brokerid"
  let useragent ← g "useragent"
  pure [("url".toList, url), ("userid".toList, orNone user), ("clientuid".toList, orNone clientuid),
        ("org".toList, orNone org), ("fid".toList, orNone fid), ("version".toList, version),
        ("appid".toList, orNone appid), ("appver".toList, orNone appver), ("language".toList, orNone language),
        ("prettyprint".toList, pretty), ("close_elements".toList, .bool (!truthy unclosed)),
        ("bankid".toList, orNone bankid), ("brokerid".toList, orNone brokerid),
        ("useragent".toList, orNone useragent)]

def bankTypes : List Str := ["checking".toList, "savings".toList, "moneymrkt".toList, "creditline".toList]

/-- `if args["all"]: _merge_acctinfo(args, _request_acctinfo(args, password))`;
    `acct` is what `extract_acctinfos` yields for the server's answer (or the exception on the way) -/
def discover (args : Chain) (acct : PyM (List AcctInfo)) : PyM Chain := do
  let all ← args.getItem "all".toList
  if truthy all then do
    let _ ← initClient args
    let infos ← acct
    mergeAcctinfo args infos
  else pure args

/-- what `request_stmt` / `request_stmtend` hand to `OFXClient` -/
structure Plan (δ : Type) where
  requests : List (Rq δ)
  client : Map
  args : Chain

/-- the three loops of `request_stmt` over the (possibly discovered) mapping -/
def stmtRequests (dt : Dates δ) (args : Chain) : PyM (List (Rq δ)) := do
  let bank ← bankTypes.foldlM (fun (acc : List (Rq δ)) ty => do
    let ids ← acctIds args ty
    let inctran ← args.getItem "inctran".toList
    pure (acc ++ ids.map fun id => Rq.stmt id (upper ty) dt.start dt.end inctran)) []
  let ccIds ← acctIds args "creditcard".toList
  let cc ← ccIds.mapM fun id => do
    let inctran ← args.getItem "inctran".toList
    pure (Rq.ccstmt id dt.start dt.end inctran)
  let invIds ← acctIds args "investment".toList
  let inv ← invIds.mapM fun id => do
    let inctran ← args.getItem "inctran".toList
    let incoo ← args.getItem "incoo".toList
    let incpos ← args.getItem "incpos".toList
    let incbal ← args.getItem "incbal".toList
    pure (Rq.invstmt id dt.start dt.end dt.asof inctran incoo incpos incbal)
  pure (bank ++ cc ++ inv)

/-- `request_stmt(args)` up to the call of `client.request_statements` -/
def requestStmt (D : Option Str → PyM (Option δ)) (args : Chain) (acct : PyM (List AcctInfo)) : PyM (Plan δ) := do
  let dt ← convertDatetime D args
  let _ ← args.getItem "dryrun".toList        -- get_passwd
  let args ← discover args acct
  let rqs ← stmtRequests dt args
  let client ← initClient args
  pure ⟨rqs, client, args⟩

/-- the two loops of `request_stmtend` -/
def stmtendRequests (dt : Dates δ) (args : Chain) : PyM (List (Rq δ)) := do
  let bank ← bankTypes.foldlM (fun (acc : List (Rq δ)) ty => do
    let ids ← acctIds args ty
    pure (acc ++ ids.map fun id => Rq.stmtend id (upper ty) dt.start dt.end)) []
  let ccIds ← acctIds args "creditcard".toList
  let cc := ccIds.map fun id => Rq.ccstmtend id dt.start dt.end
  pure (bank ++ cc)

/-- `request_stmtend(args)` up to the call of `client.request_statements` -/
def requestStmtend (D : Option Str → PyM (Option δ)) (args : Chain) (acct : PyM (List AcctInfo)) : PyM (Plan δ) := do
  let dt ← convertDatetime D args
  let _ ← args.getItem "dryrun".toList
  let args ← discover args acct
  let rqs ← stmtendRequests dt args
  let client ← initClient args
  pure ⟨rqs, client, args⟩

end Ofx.Ofxget
