/-
Model of `copy.copy`, `copy.deepcopy` and `pickle` (protocols 0–5) on an `ofxtools` model instance (C16, last clause:
"… so hasattr, getattr with a default, copy, deepcopy and pickle work on every instance and reproduce an equal model").

`Aggregate` subclasses `list`, has an instance `__dict__`, and defines none of `__copy__`, `__deepcopy__`, `__reduce__`,
`__reduce_ex__`, `__getstate__`, `__setstate__`, `__getnewargs(_ex)__`, `__slots__`, `__eq__` — but it does define
`__getattr__`, which every *instance* attribute lookup the protocols make for a name nothing defines falls into.
What CPython 3.12 does with such an object (`Lib/copy.py`, `Lib/copyreg.py`, `Objects/typeobject.c`
`object___reduce_ex___impl` / `reduce_newobj` / `object_getstate_default`, `Lib/pickle.py` = `Modules/_pickle.c`
`save_reduce`, `load_newobj`, `load_reduce`, `load_build`, `load_append(s)`), established by tracing the real classes:

  x.__reduce_ex__(p), p ≥ 2   `(copyreg.__newobj__, (cls,), state, iter(x), None)`: `state` is `x.__dict__` ITSELF, or `None`
                              when the dict is empty (3.11+ `object.__getstate__`); no instance lookup reaches `__getattr__`
                              (`__getstate__`/`__reduce_ex__`/`__class__` are found on `object`; `__getnewargs(_ex)__` and
                              `__slotnames__` are looked up on the type)
  x.__reduce_ex__(p), p < 2   `copyreg._reduce_ex`: `(copyreg._reconstructor, (cls, list, list(x)), state)` — the members
                              travel as the third argument, there is no list iterator; the third element is left out
                              when the dict is empty; **`getattr(x, "__slots__", None)`** is asked on the full instance
  copy.copy(x)                `cls.__copy__` looked up on the type (absent) → `x.__reduce_ex__(4)` →
                              `_reconstruct(x, None, …)`: `y = cls.__new__(cls)` (NOT `__init__`: empty dict, empty list);
                              if `state is not None`: **`hasattr(y, "__setstate__")`** on that empty `y`, then
                              `y.__dict__.update(state)` (a direct dict write: `Element.__set__` is not involved, no value is
                              converted again); then `y.append(item)` for every member
  copy.deepcopy(x)            **`getattr(x, "__deepcopy__", None)`** on the full instance, `x.__reduce_ex__(4)`,
                              `_reconstruct(x, memo, …)`: `y = cls.__new__(cls)`, `state = deepcopy(state)` (`_deepcopy_dict`:
                              a new dict filled key by key with the deep copies of the values), the `__setstate__` probe on
                              the empty `y`, `update`, then `y.append(deepcopy(item))` for every member
  pickle, p ≥ 2               dumps: `reduce`, then the members (`listitems`, `_batch_appends`), then the state dict, each value
                              pickled recursively; loads: `NEWOBJ` (`cls.__new__(cls)`), `APPEND(S)` (`y.extend(items)`,
                              found on `list`), then `BUILD`: **`getattr(y, "__setstate__", …)`** on the instance with an
                              EMPTY dict but its members already in place, then `y.__dict__[k] = v` for every pair
  pickle, p < 2               dumps: `reduce` (the `__slots__` probe, pre-order: parent before children), the members inside
                              the argument tuple, then the state; loads: `REDUCE` (`list.__new__(cls, items)`;
                              `list.__init__(y, items)`), then `BUILD` as above

The three probes in **bold** are the only places where `Aggregate.__getattr__` takes part; each must raise AttributeError.
The model is parametric in the attribute access `G` (`getattr(x, name)`): `Getattr.getattr S P` is the code at HEAD,
`getattrPinned S P` the code before 0f0930a (sub-aggregate read outside the `try`: KeyError escapes from the probe on the
empty dict of every class that has a sub-aggregate or a repeated child).

What `Node` cannot express: object identity. A `Node` is a tree of values; "the clone is a distinct object", "copy.copy shares
the children, deepcopy shares none", the memo (an object reachable twice is copied once) are outside it and are checked
on the real objects by the correspondence. What the model does say about sharing: `copyNode` never looks inside a child
(it hands `fields`/`items` over unchanged and consults `G` on the fresh empty instance only), `deepcopyNode` and
`pickleRoundtrip` rebuild every aggregate of the tree.

Values (`Node.val`: `None`, `bool`, `int`, `str`, `Decimal`, `datetime`, `time`) are immutable in Python: their copy is the
same or an equal object and involves no ofxtools code; the model hands them through.

Recursion is structural: as in `Getattr`, the (possibly failing) results for the fields and the members are computed by the
mutual recursion and the per-instance logic (`reconstruct`, `dumpsAt`, `loadsAt`) sequences them in Python's order.
-/
import OfxModel.Ofx.Getattr
import OfxModel.Spec.Getattr

namespace Ofx.CopyProto

open Ofx Ofx.Agg Ofx.Getattr

abbrev Dict := List (Str × Node)

/-- `getattr(x, name)` -/
abbrev GA := Node → Str → PyM Res

def nDeepcopy : Str := "__deepcopy__".toList
def nSetstate : Str := "__setstate__".toList
def nSlots : Str := "__slots__".toList

/-! ### `__reduce_ex__` -/

/-- the callable a reduce value names -/
inductive Func where
  | newobj           -- `copyreg.__newobj__` (protocols 2–5)
  | reconstructor    -- `copyreg._reconstructor` (protocols 0, 1)
  deriving Repr, DecidableEq, Inhabited

/-- `x.__reduce_ex__(proto)` of an aggregate instance -/
structure Reduced where
  func : Func
  /-- first argument: the class -/
  cls : Nat
  /-- `_reconstructor`'s third argument `list(x)` (`[]` for `__newobj__`, which takes the class only) -/
  base : List Node
  /-- `None`, or the instance `__dict__` -/
  state : Option Dict
  /-- the list iterator (`__newobj__` route only) -/
  listitems : Option (List Node)
  deriving Inhabited

/-- `getattr(self, "__slots__", None)` followed by the truth test of `copyreg._reduce_ex` -/
def slotsProbe (G : GA) (x : Node) : PyM Unit :=
  match G x nSlots with
  | .error .attr => .ok ()
  | .error e => .error e
  | .ok (.node v) => if truthy v then .error .type else .ok ()
  | .ok (.list l) => if l.isEmpty then .ok () else .error .type

/-- `object.__getstate__()` (3.11+) of an object without slots: `None` when the dict is empty, else the dict -/
def getstate (fields : Dict) : Option Dict := if fields.isEmpty then none else some fields

def reduceAgg (G : GA) (proto : Nat) (ci : Nat) (fields : Dict) (items : List Node) : PyM Reduced :=
  if proto < 2 then do
    slotsProbe G (.agg ci fields items)
    pure ⟨.reconstructor, ci, items, getstate fields, none⟩
  else
    pure ⟨.newobj, ci, [], getstate fields, some items⟩

/-- `x.__reduce_ex__(proto)`; values are outside the model (the protocols below never reduce them) -/
def reduceEx (G : GA) (proto : Nat) : Node → PyM Reduced
  | .agg ci fields items => reduceAgg G proto ci fields items
  | .val _ => .error .other

/-! ### rebuilding -/

/-- `func(*args)`: `cls.__new__(cls)` — `__init__` does not run, the dict is empty —, resp.
    `list.__new__(cls, items)` + `list.__init__(obj, items)`; returns (class, dict, members) -/
def create (r : Reduced) : Nat × Dict × List Node :=
  match r.func with
  | .newobj => (r.cls, [], [])
  | .reconstructor => (r.cls, [], r.base)

/-- `hasattr(y, "__setstate__")` (copy) / `getattr(inst, "__setstate__", _NoValue)` (pickle). Anything found would be
    called with the state; what attribute access on a model instance can return (a value, an aggregate, a list) is not
    callable: TypeError. -/
def setstateProbe (G : GA) (y : Node) : PyM Unit :=
  match G y nSetstate with
  | .error .attr => .ok ()
  | .error e => .error e
  | .ok _ => .error .type

/-- `d.update(state)` / `d[k] = v` for every pair of `state`, in order -/
def dictUpdate (d : Dict) : Dict → Dict
  | [] => d
  | (k, v) :: r => dictUpdate (setField k v d) r

/-- the state is installed on the instance `(ci, d, its)`: probe, then direct writes into `__dict__` -/
def build (G : GA) (ci : Nat) (d : Dict) (its : List Node) (st : Dict) : PyM Dict := do
  setstateProbe G (.agg ci d its)
  pure (dictUpdate d st)

/-- `for item in it: y.append(item)` -/
def appendEach (acc : List Node) : List Node → List Node
  | [] => acc
  | x :: r => appendEach (acc ++ [x]) r

/-- `copy._reconstruct(x, memo, *rv)`. `stC` / `itC` yield the state's pairs and the members as they are to be installed:
    the objects themselves for `copy.copy`, their deep copies for `copy.deepcopy` (computed by the caller's recursion;
    consulted only if `rv` has a state / a list iterator, and in Python's order: state, probe, update, members). -/
def reconstruct (G : GA) (r : Reduced) (stC : PyM Dict) (itC : PyM (List Node)) : PyM Node := do
  let (ci, d0, its0) := create r
  let d ← match r.state with
    | none => pure d0
    | some _ => do
      let st ← stC
      build G ci d0 its0 st
  let its ← match r.listitems with
    | none => pure its0
    | some _ => do
      let l ← itC
      pure (appendEach its0 l)
  pure (.agg ci d its)

/-- `copy.copy(x)` -/
def copyNode (G : GA) : Node → PyM Node
  | .val v => .ok (.val v)
  | .agg ci fields items => do
    let r ← reduceAgg G 4 ci fields items
    reconstruct G r (pure fields) (pure items)

/-- `copier = getattr(x, "__deepcopy__", None)`: absent or `None` → go on; anything else is called (not callable) -/
def deepcopyProbe (G : GA) (x : Node) : PyM Unit :=
  match G x nDeepcopy with
  | .error .attr => .ok ()
  | .error e => .error e
  | .ok (.node (.val .none)) => .ok ()
  | .ok _ => .error .type

/-- one aggregate of `copy.deepcopy`, given the deep copies of its dict (`stC`) and of its members (`itC`) -/
def deepcopyAt (G : GA) (ci : Nat) (fields : Dict) (items : List Node) (stC : PyM Dict) (itC : PyM (List Node)) :
    PyM Node := do
  deepcopyProbe G (.agg ci fields items)
  let r ← reduceAgg G 4 ci fields items
  reconstruct G r stC itC

mutual
  /-- `copy.deepcopy(x)` -/
  def deepcopyNode (G : GA) : Node → PyM Node
    | .val v => .ok (.val v)
    | .agg ci fields items => deepcopyAt G ci fields items (deepcopyDict G fields []) (deepcopyItems G items)
  /-- `copy._deepcopy_dict`: `y = {}`; `y[k] = deepcopy(v)` for every pair -/
  def deepcopyDict (G : GA) : Dict → Dict → PyM Dict
    | [], y => .ok y
    | (k, v) :: r, y => do
      let v' ← deepcopyNode G v
      deepcopyDict G r (setField k v' y)
  def deepcopyItems (G : GA) : List Node → PyM (List Node)
    | [] => .ok []
    | x :: r => do
      let x' ← deepcopyNode G x
      let r' ← deepcopyItems G r
      pure (x' :: r')
end

/-! ### pickle -/

/-- what a pickle of a model instance says (its abstract syntax; the byte level — opcodes, framing, memo indices, how a
    text or a Decimal is spelled — is CPython's own and outside the model): a value, or
    `func(cls, …)` [+ members] [+ `BUILD` with a dict of pickled values] -/
inductive Pk where
  | val (v : Val)
  | obj (func : Func) (cls : Nat) (hasState : Bool) (state : List (Str × Pk)) (items : List Pk)
  deriving Inhabited

/-- `save(obj)` of one aggregate, given the pickles of its dict values (`stD`) and members (`itD`):
    `rv = obj.__reduce_ex__(proto)`; `save_reduce`: callable and arguments (for protocols 0/1 the members are inside),
    members (protocols 2–5), then the state if there is one -/
def dumpsAt (G : GA) (proto : Nat) (ci : Nat) (fields : Dict) (items : List Node) (stD : PyM (List (Str × Pk)))
    (itD : PyM (List Pk)) : PyM Pk := do
  let r ← reduceAgg G proto ci fields items
  let its ← itD
  let st ← match r.state with
    | none => pure []
    | some _ => stD
  pure (.obj r.func r.cls r.state.isSome st its)

mutual
  /-- `pickle.dumps(x, proto)` -/
  def dumps (G : GA) (proto : Nat) : Node → PyM Pk
    | .val v => .ok (.val v)
    | .agg ci fields items => dumpsAt G proto ci fields items (dumpsDict G proto fields) (dumpsItems G proto items)
  def dumpsDict (G : GA) (proto : Nat) : Dict → PyM (List (Str × Pk))
    | [] => .ok []
    | (k, v) :: r => do
      let v' ← dumps G proto v
      let r' ← dumpsDict G proto r
      pure ((k, v') :: r')
  def dumpsItems (G : GA) (proto : Nat) : List Node → PyM (List Pk)
    | [] => .ok []
    | x :: r => do
      let x' ← dumps G proto x
      let r' ← dumpsItems G proto r
      pure (x' :: r')
end

/-- `list_obj.extend(items)` (`APPENDS`; `extend` is found on `list`) -/
def extendItems (acc l : List Node) : List Node := acc ++ l

/-- unpickling one aggregate, given the unpickled state dict (`stL`) and members (`itL`): the members come first in the
    stream (inside `_reconstructor`'s arguments, resp. as `APPEND(S)` right after `NEWOBJ`), `BUILD` is last and finds
    the instance with an empty dict and its members in place -/
def loadsAt (G : GA) (f : Func) (ci : Nat) (hasState : Bool) (stL : PyM Dict) (itL : PyM (List Node)) : PyM Node := do
  let its ← itL
  let its0 := match f with
    | .newobj => extendItems [] its
    | .reconstructor => its
  if hasState then do
    let st ← stL
    let d ← build G ci [] its0 st
    pure (.agg ci d its0)
  else
    pure (.agg ci [] its0)

mutual
  /-- `pickle.loads` -/
  def loads (G : GA) : Pk → PyM Node
    | .val v => .ok (.val v)
    | .obj f ci hs st its => loadsAt G f ci hs (loadsDict G st []) (loadsItems G its)
  /-- `EMPTY_DICT`, then `d[k] = v` for every pair (`SETITEM(S)`) -/
  def loadsDict (G : GA) : List (Str × Pk) → Dict → PyM Dict
    | [], y => .ok y
    | (k, v) :: r, y => do
      let v' ← loads G v
      loadsDict G r (setField k v' y)
  def loadsItems (G : GA) : List Pk → PyM (List Node)
    | [] => .ok []
    | x :: r => do
      let x' ← loads G x
      let r' ← loadsItems G r
      pure (x' :: r')
end

/-- `pickle.loads(pickle.dumps(x, proto))` -/
def pickleRoundtrip (G : GA) (proto : Nat) (x : Node) : PyM Node := do
  let pk ← dumps G proto x
  loads G pk

/-! ### the attribute access of the pinned tree (before 0f0930a), to state what the repair changed

Identical to `Getattr.getattr` except that `__getattr__` is `getattrLoopPinned` — on every aggregate of the tree. -/

def getattrAtPinned (S : Schema) (P : Props) (ci : Nat) (sub : List (Str × Sub)) (items : List Sub) (name : Str) :
    PyM Res :=
  match S.cls? ci with
  | none => .error .other
  | some c =>
    match c.attr? name with
    | some a => (descr a sub).map (fun s => Res.node s.1)
    | none =>
      match P.find ci name with
      | some body =>
        match runBody S c sub items body with
        | .error .attr => getattrLoopPinned sub name c.spec
        | r => r
      | none =>
        match Agg.lookup name sub with
        | some (v, _) => .ok (.node v)
        | none => getattrLoopPinned sub name c.spec

mutual
  def getattrPinned (S : Schema) (P : Props) : Node → Str → PyM Res
    | .val _, _ => .error .attr
    | .agg ci fields items, name =>
      getattrAtPinned S P ci (fieldSubsPinned S P fields) (itemSubsPinned S P items) name
  def fieldSubsPinned (S : Schema) (P : Props) : List (Str × Node) → List (Str × Sub)
    | [] => []
    | (n, v) :: r => (n, v, fun nm => getattrPinned S P v nm) :: fieldSubsPinned S P r
  def itemSubsPinned (S : Schema) (P : Props) : List Node → List Sub
    | [] => []
    | v :: r => (v, fun nm => getattrPinned S P v nm) :: itemSubsPinned S P r
end

/-! ### declarative side: when do the protocols reproduce the instance -/

/-- the names the protocols look up on instances -/
def probeNames : List Str := [nDeepcopy, nSetstate, nSlots]

/-- a dict has every key once -/
def nodupKeys (d : Dict) : Bool := decide (d.map (·.1)).Nodup

mutual
  /-- every `__dict__` of the tree is a dict (no key twice) -/
  def dictsWF : Node → Bool
    | .val _ => true
    | .agg _ fields items => nodupKeys fields && dictsWFFields fields && dictsWFItems items
  def dictsWFFields : Dict → Bool
    | [] => true
    | (_, v) :: r => dictsWF v && dictsWFFields r
  def dictsWFItems : List Node → Bool
    | [] => true
    | v :: r => dictsWF v && dictsWFItems r
end

mutual
  /-- on every aggregate of the tree (dict values AND list members), nothing defines a probe name
      (`Spec.Getattr.undefined`: no spec attribute, property or stray instance attribute of that name on the aggregate or
      its non-repeated descendants) -/
  def probesUndefined (S : Schema) (P : Props) : Node → Bool
    | .val _ => true
    | .agg ci fields items =>
      probeNames.all (fun nm => Spec.Getattr.undefined S P (.agg ci fields items) nm) &&
        probesUndefinedFields S P fields && probesUndefinedItems S P items
  def probesUndefinedFields (S : Schema) (P : Props) : Dict → Bool
    | [] => true
    | (_, v) :: r => probesUndefined S P v && probesUndefinedFields S P r
  def probesUndefinedItems (S : Schema) (P : Props) : List Node → Bool
    | [] => true
    | v :: r => probesUndefined S P v && probesUndefinedItems S P r
end

/-- schema-level sufficient condition: no class declares, and no property is called by, a probe name -/
def schemaQuiet (S : Schema) (P : Props) : Bool :=
  probeNames.all (fun nm => S.classes.all (fun c => (c.attr? nm).isNone) && P.all (fun e => e.name != nm))

mutual
  /-- instance-level part: every aggregate is of a class of the schema and no dict holds a probe name as a key -/
  def instQuiet (S : Schema) : Node → Bool
    | .val _ => true
    | .agg ci fields items =>
      (S.cls? ci).isSome && probeNames.all (fun nm => !hasKey nm fields) && instQuietFields S fields &&
        instQuietItems S items
  def instQuietFields (S : Schema) : Dict → Bool
    | [] => true
    | (_, v) :: r => instQuiet S v && instQuietFields S r
  def instQuietItems (S : Schema) : List Node → Bool
    | [] => true
    | v :: r => instQuiet S v && instQuietItems S r
end

end Ofx.CopyProto
