/-
The element converters of `ofxtools/Types.py` (everything except `DateTime`/`Time`, which live in
`Ofx/DateTime.lean`): `Bool, String, NagString, OneOf, Integer, Decimal, ListElement`.

`convert`/`unconvert` are `functools.singledispatchmethod` families; dispatch is on the Python type of the
argument, modelled by the constructor of `Val` with `bool <: int` (a `bool` reaches the `int` handler where
one is registered and no `bool` handler is).  `Val.other _` stands for every Python type none of the
converters registers (`float`, `list`, `bytes`, `date`, …): the model answers `TypeError`, which is what the
code does for most of them; the few that a default handler would accept (`int(1.5)`, `Decimal(1.5)`,
`Decimal((0,(1,),0))`, `int(b"1")`) are outside the compared domain.
-/
import OfxModel.Py.Dec
import OfxModel.Ofx.Conv
import OfxModel.Ofx.DateTime

namespace Ofx.Types
open Ofx

/-- `Element.enforce_required` -/
def enforceRequired (required : Bool) : Val → PyM Val
  | .none => if required then .error .spec else .ok .none
  | v => .ok v

/-! ### Bool -/

def boolConvert (required : Bool) : Val → PyM Val
  | .none => enforceRequired required .none
  | .bool b => .ok (.bool b)
  | .str s =>
    if s = ['Y'] then .ok (.bool true)
    else if s = ['N'] then .ok (.bool false)
    else .error .spec                                   -- KeyError → OFXSpecError
  | _ => .error .spec                                   -- default handler raises OFXSpecError

def boolUnconvert (required : Bool) : Val → PyM Val
  | .none => enforceRequired required .none
  | .bool b => .ok (.str (if b then ['Y'] else ['N']))
  | _ => .error .spec

/-! ### String / NagString -/

/-- `String.enforce_length` (`strict = False` for `NagString`: warn and keep the value whole) -/
def strEnforceLength (length : Option Nat) (strict : Bool) (s : Str) : PyM Str :=
  match length with
  | some n => if s.length > n ∧ strict = true then .error .spec else .ok s
  | none => .ok s

def stringConvert (length : Option Nat) (strict required : Bool) : Val → PyM Val
  | .none => enforceRequired required .none
  | .str s =>
    if s = [] then enforceRequired required .none
    else (strEnforceLength length strict (unescape s)).map .str
  | _ => .error .type

def stringUnconvert (length : Option Nat) (strict required : Bool) : Val → PyM Val
  | .none => enforceRequired required .none
  | .str s => (strEnforceLength length strict s).map .str
  | _ => .error .type

/-! ### OneOf -/

/-- `OneOf._convert_default` on a `str`/`None` (values of other types are never `in self.valid`, whose members
    are strings) -/
def oneOfDefault (valid : List Str) (required : Bool) : Val → PyM Val
  | .none => enforceRequired required .none
  | .str s => if s ∈ valid then .ok (.str s) else .error .spec
  | _ => .error .spec

def oneOfConvert (valid : List Str) (required : Bool) : Val → PyM Val
  | .none => enforceRequired required .none
  | .str s => oneOfDefault valid required (if s = [] then .none else .str s)    -- `value or None`
  | v => oneOfDefault valid required v

def oneOfUnconvert (valid : List Str) (required : Bool) : Val → PyM Val
  | .none => enforceRequired required .none
  | v => oneOfDefault valid required v

/-! ### Integer -/

/-- `Integer.enforce_length`: `abs(value) >= 10**length` -/
def intEnforceLength (length : Option Nat) (i : Int) : PyM Unit :=
  match length with
  | some n => if i.natAbs ≥ 10 ^ n then .error .spec else .ok ()
  | none => .ok ()

def boolToInt (b : Bool) : Int := if b then 1 else 0

def integerConvert (length : Option Nat) (required : Bool) : Val → PyM Val
  | .none => enforceRequired required .none
  | .bool _ => .error .type                              -- `bool <: int` reaches `_convert_int`, which refuses it
  | .int i => do intEnforceLength length i; pure (.int i)
  | .str s =>
    if s.length = 0 then enforceRequired required .none
    else match pyIntParse s with
      | some i => do intEnforceLength length i; pure (.int i)
      | none => .error .value
  | .dec d => do                                        -- default handler: `int(value)`
    let i ← decToInt d
    intEnforceLength length i
    pure (.int i)
  | _ => .error .type

def integerUnconvert (length : Option Nat) (required : Bool) : Val → PyM Val
  | .none => enforceRequired required .none
  | .bool _ => .error .type                              -- `_unconvert_int` refuses bools
  | .int i => do intEnforceLength length i; pure (.str (pyStrInt i))
  | _ => .error .type

/-! ### Decimal -/

/-- the quantum `Decimal.__init__` stores for `scale = n`: `decimal.Decimal(1).scaleb(-n)` -/
def quantumOfScale (n : Nat) : Dec := .fin false 1 (-(n : Int))

def applyScale (q : Option Int) (d : Dec) : PyM Dec :=
  match q with
  | some qe => quantize d qe
  | none => .ok d

/-- `Decimal(value)` with the comma fallback of `_convert_str` (InvalidOperation when both fail) -/
def decOfTextRaw (s : Str) : PyM Dec :=
  match decParse s with
  | some d => .ok d
  | none =>
    match decParse (replace [','] ['.'] s) with
    | some d => .ok d
    | none => .error .decimal

/-- … followed by the refusal of non-finite literals (OFXSpecError) -/
def decOfText (s : Str) : PyM Dec := do
  let d ← decOfTextRaw s
  if d.isFinite then pure d else .error .spec

def decimalConvert (q : Option Int) (required : Bool) : Val → PyM Val
  | .none => enforceRequired required .none
  | .dec d => (applyScale q d).map .dec
  | .str s => do
    let d ← decOfText s
    let d ← applyScale q d
    pure (.dec d)
  | .bool b => .ok (.dec (decOfInt (boolToInt b)))      -- default handler `decimal.Decimal(value)`: no quantize
  | .int i => .ok (.dec (decOfInt i))
  | _ => .error .type

def decimalUnconvert (q : Option Int) (required : Bool) : Val → PyM Val
  | .none => enforceRequired required .none
  | .dec d =>
    if (match q with | some qe => !sameQuantum d qe | none => false) then .error .value   -- wrong quantum
    else if !d.isFinite then .error .value                                                 -- NaN / Infinity
    else .ok (.str (decFormatF d))                                                         -- `format(value, "f")`
  | _ => .error .type

/-! ### dispatch on the kind -/

def convert (enums : List (List Str)) : Kind → Bool → Val → PyM Val
  | .bool, r, v => boolConvert r v
  | .string l st, r, v => stringConvert l st r v
  | .oneOf e, r, v =>
    match enums[e]? with
    | some valid => oneOfConvert valid r v
    | none => .error .other
  | .integer l, r, v => integerConvert l r v
  | .decimal q, r, v => decimalConvert q r v
  | .datetime, r, v => Ofx.DateTime.dtConvert r v
  | .time, r, v => Ofx.DateTime.tmConvert r v
  | .listElem k ir, _, v => convert enums k ir v        -- `self.converter.convert(value)`
  | .sub _, _, _ => .error .other
  | .listAgg _, _, _ => .error .other
  | .unsupported, _, _ => .error .other

def unconvert (enums : List (List Str)) : Kind → Bool → Val → PyM Val
  | .bool, r, v => boolUnconvert r v
  | .string l st, r, v => stringUnconvert l st r v
  | .oneOf e, r, v =>
    match enums[e]? with
    | some valid => oneOfUnconvert valid r v
    | none => .error .other
  | .integer l, r, v => integerUnconvert l r v
  | .decimal q, r, v => decimalUnconvert q r v
  | .datetime, r, v => Ofx.DateTime.dtUnconvert r v
  | .time, r, v => Ofx.DateTime.tmUnconvert r v
  | .listElem k ir, _, v => unconvert enums k ir v
  | .sub _, _, _ => .error .other
  | .listAgg _, _, _ => .error .other
  | .unsupported, _, _ => .error .other

/-- the converter interface handed to the aggregate layer -/
def conv : Conv := { convert := convert, unconvert := unconvert }

end Ofx.Types
