/-
Non-vacuity witnesses for the C13 constructibility theorems (class-specific: STATUS, MAIL, MFINFO as they are
today; see Gen/C01W.lean for the convention).
-/
import OfxProofs.Gen.C13Exist
import OfxProofs.Gen.C01W

namespace Ofx.Gen
open Ofx Ofx.Agg Ofx.Generated Ofx.Types Ofx.Spec.Wire Ofx.Spec.Witness

/-- the premises of `C13_generated_constructible` are satisfiable: STATUS declares the supported child `message`
    (optional — the description has to add it to the required `code` and `severity`) -/
example : ∃ d fields items,
    mkWith schema defaultFuel ByName.idx_STATUS ⟨"message".toList, .string (some 255) true, false⟩ = some d ∧
    build schema Types.conv d = .ok (.agg ByName.idx_STATUS fields items) ∧
    (∃ v, lookup "message".toList fields = some v ∧ v ≠ .val .none) ∧
    ValidFull schema (.agg ByName.idx_STATUS fields items) ∧
    ∃ x tl children,
      toEtree schema Types.conv (.agg ByName.idx_STATUS fields items) = .ok (.node "STATUS".toList x tl children) ∧
      (∃ ch ∈ children, ch.tag = "MESSAGE".toList) ∧
      fromEtree schema Types.conv (mapText escapeCdata (.node "STATUS".toList x tl children)) =
        .ok (.agg ByName.idx_STATUS fields items) := by
  obtain ⟨d, fields, items, h1, h2, h3, h4, x, tl, children, h5, h6, h7⟩ :=
    C13_generated_constructible ByName.idx_STATUS statusCls ⟨"message".toList, .string (some 255) true, false⟩
      status_cls (by rfl) (by rfl) (List.mem_of_getElem? (i := 2) (by rfl)) (by rfl)
  have hn : statusCls.name = "STATUS".toList := by decide +kernel
  have hw : wireTag statusCls ⟨"message".toList, .string (some 255) true, false⟩ = "MESSAGE".toList := by
    decide +kernel
  rw [hn] at h5 h7
  rw [hw] at h6
  exact ⟨d, fields, items, h1, h2, (holds_iff _ _ _ _).mp h3, h4, x, tl, children, h5, h6, h7⟩

/-- … and the description is the one the specification describes: the two required children plus the wanted one -/
example : mkWith schema defaultFuel ByName.idx_STATUS ⟨"message".toList, .string (some 255) true, false⟩ =
    some (.agg ByName.idx_STATUS [("code".toList, .val (.int 1)), ("severity".toList, .val (.str "INFO".toList)),
      ("message".toList, .val (.str "A".toList))] []) := by rfl

/-- a renamed child through the table: `MFINFO.yld` is built, written as `<YIELD>` and read back -/
example : ∃ ci c a, schema.cls? ci = some c ∧ c.name = "MFINFO".toList ∧ a ∈ c.spec ∧ a.name = "yld".toList ∧
    wireTag c a = "YIELD".toList ∧
    ∃ d fields items, mkWith schema defaultFuel ci a = some d ∧
      build schema Types.conv d = .ok (.agg ci fields items) ∧ holds a (.agg ci fields items) = true ∧
      ∃ x tl children, toEtree schema Types.conv (.agg ci fields items) = .ok (.node c.name x tl children) ∧
        (∃ ch ∈ children, ch.tag = "YIELD".toList) ∧
        fromEtree schema Types.conv (mapText escapeCdata (.node c.name x tl children)) =
          .ok (.agg ci fields items) := by
  have hc : schema.cls? ByName.idx_MFINFO = some ByName.cls_MFINFO := by rfl
  have ha : (⟨"yld".toList, .decimal none, false⟩ : Attr) ∈ ByName.cls_MFINFO.spec :=
    List.mem_of_getElem? (i := 2) (by rfl)
  have hw : wireTag ByName.cls_MFINFO ⟨"yld".toList, .decimal none, false⟩ = "YIELD".toList := by
    decide +kernel
  obtain ⟨d, fields, items, h1, h2, h3, _, x, tl, children, h5, h6, h7⟩ :=
    C13_generated_constructible ByName.idx_MFINFO ByName.cls_MFINFO _ hc (by rfl) (by rfl) ha (by rfl)
  rw [hw] at h6
  exact ⟨_, _, _, hc, by decide +kernel, ha, rfl, hw, d, fields, items, h1, h2, h3, x, tl, children, h5, h6, h7⟩

/-- non-vacuity of `C13_generated_child_written_under_tag`: `exMail` (valid, Gen/C01W) holds `frm`, which is
    written as `<FROM>` and read back -/
example : ∃ tx tl children, toEtree genEnv.S genEnv.cv exMail = .ok (.node "MAIL".toList tx tl children) ∧
    fromEtree genEnv.S genEnv.cv (mapText escapeCdata (.node "MAIL".toList tx tl children)) = .ok exMail ∧
    ∃ ch ∈ children, ch.tag = "FROM".toList := by
  have hu : mailCls.ungroom = some ⟨"FRM".toList, "FROM".toList⟩ := by decide +kernel
  have hn : mailCls.name = "MAIL".toList := by decide +kernel
  have := C13_generated_child_written_under_tag ByName.idx_MAIL exMailFields [] exMail_valid mailCls mail_cls
    ⟨"FRM".toList, "FROM".toList⟩ hu (.str "me & you".toList) (by rfl) (by simp)
  rw [hn] at this
  exact this

end Ofx.Gen
