/-
Non-vacuity witness for the C13 theorems (class-specific; see Gen/C01W.lean).
-/
import OfxProofs.Gen.C13
import OfxProofs.Gen.C01W

namespace Ofx.Gen
open Ofx Ofx.Agg Ofx.Generated Ofx.Types Ofx.Spec.Wire

/-- non-vacuity: `exStatus` (valid, Gen/C01) holds `code` and `severity` -/
example : ∃ tag x tl children, toEtree genEnv.S genEnv.cv exStatus = .ok (.node tag x tl children) ∧
    fromEtree genEnv.S genEnv.cv (mapText escapeCdata (.node tag x tl children)) = .ok exStatus ∧
    ∃ ch ∈ children, lower ch.tag = "code".toList ∧ '.' ∉ ch.tag :=
  C13_generated_child ByName.idx_STATUS _ _ exStatus_valid (fun c hc => by
    have : c = statusCls := by rw [show genEnv.S.cls? ByName.idx_STATUS = some statusCls from status_cls] at hc; injection hc with hc; exact hc.symm
    subst this; rfl) "code".toList (.val (.int 0)) (by simp) (by simp)

end Ofx.Gen
