/-
Witness for `Gen/C19Wire.lean`: a concrete `ofxget stmt -n` command line for which every hypothesis of
`C19_wire_configured_generated` holds — so the theorem is not vacuous — and therefore its conclusion: the text the
model prints reads back, through the pipeline reader, to a request for exactly the four configured accounts.
(Kernel evaluations of the whole chain on one input; class positions in the generated schema are not mentioned.)
-/
import OfxProofs.Gen.C19Wire

namespace Ofx.Gen
open Ofx Ofx.Ofxget Ofx.Compose Ofx.Spec.Ofxget Ofx.OfxgetWire Ofx.Spec.Request Ofx.C06

/-- what reaches the run from outside: no account-information response (no `--all`), nothing typed, the uuid stream
    `u, uu, uuu, …`, a DTCLIENT -/
def exX : Ext := ⟨.ok [], [], wUuid, wDt⟩

/-- `init_client(exArgs)` -/
def exCfg : Cfg :=
  { url := "https://bank.example/ofx".toList, userid := "bob".toList, clientuid := none, org := none, fid := none,
    version := 203, appid := "QWIN".toList, appver := "2700".toList, language := "ENG".toList, prettyprint := false,
    closeElements := true, bankid := some "111000614".toList, brokerid := some "broker.example".toList }

/-- `convert_datetime(exArgs)`: 2020-01-01, and 2020-02-29 12:00:00.123 at -5:00 = 17:00:00.123 UTC -/
def exDates : Dates DT :=
  ⟨some ⟨2020, 1, 1, 0, 0, 0, 0, some ⟨0, some "UTC".toList⟩⟩,
   some ⟨2020, 2, 29, 17, 0, 0, 123000, some ⟨0, some "UTC".toList⟩⟩, none⟩

theorem exCfg_ok : clientCfg exArgs = .ok exCfg := by rfl
theorem exPw_ok : getPasswd exArgs exX.typed = .ok authPlaceholder := by rfl
theorem exDates_ok : convertDatetime dateConvert exArgs = .ok exDates := by rfl

theorem exDates_wire : ∀ d ∈ exDates.all, Ofx.DateTime.dtUtcMs d := by
  intro d hd
  have hd' : d = ⟨2020, 1, 1, 0, 0, 0, 0, some ⟨0, some "UTC".toList⟩⟩ ∨
      d = ⟨2020, 2, 29, 17, 0, 0, 123000, some ⟨0, some "UTC".toList⟩⟩ := by
    simpa [Dates.all, exDates] using hd
  rcases hd' with hd' | hd'
  · subst hd'; exact ⟨by decide +kernel, rfl, by decide +kernel, by decide +kernel, by decide +kernel⟩
  · subst hd'; exact ⟨by decide +kernel, rfl, by decide +kernel, by decide +kernel, by decide +kernel⟩

theorem wUuid_wire : ∀ i, WireText (wUuid i) := by
  intro i
  refine ⟨unescape_no_amp _ (by simp [wUuid, List.mem_replicate]), ?_⟩
  simp only [Spec.Wire.trimmedB, wUuid, List.replicate_succ, List.head?_cons]
  have : (List.replicate i 'u' ++ ['u']).getLast? = some 'u' := by simp
  rw [show 'u' :: List.replicate i 'u' = List.replicate i 'u' ++ ['u'] from by
    rw [← List.replicate_succ, List.replicate_succ']]
  rw [this]
  decide

theorem wUuid_uid (len : Option Nat) (hlen : len = some 36) (n : Nat) (hn : n < 36) :
    Ofx.Header.UidOk len (some (wUuid n)) := by
  refine ⟨⟨by simp [wUuid], ?_⟩, ?_⟩
  · intro c hc
    simp only [wUuid, List.mem_replicate] at hc
    rw [hc.2]; decide
  · intro m hm
    rw [hlen] at hm; injection hm with hm; subst hm
    simp [wUuid]; omega

/-- the two date texts of the example command line, as parts of the notation -/
def exStart : Spec.Instant.Parts := ⟨some (2020, 1, 1), none, none, none⟩
def exEnd : Spec.Instant.Parts := ⟨some (2020, 2, 29), some (12, 0, 0), some 123, some ⟨some true, [5], none, some "EST".toList⟩⟩

/-- the hypotheses of `C19_wire_dates` / `C19_wire_configured_notation_generated` about the dates hold of the example:
    the configured texts are renderings of well-formed parts denoting instants in the years 1000..9999 -/
theorem exDates_notation :
    exArgs.get? "dtstart".toList = some (.str exStart.render) ∧ exArgs.get? "dtend".toList = some (.str exEnd.render) ∧
    exArgs.get? "dtasof".toList = some (.str []) ∧
    (∀ p, some exStart = some p ∨ some exEnd = some p ∨ (none : Option Spec.Instant.Parts) = some p →
      p.wf false = true ∧ Ofx.DateTime.lenOk p = true ∧ Ofx.DateTime.us1000 ≤ 1000 * p.instant ∧
        1000 * p.instant < Ofx.DateTime.usEnd) := by
  refine ⟨by decide +kernel, by decide +kernel, by decide +kernel, ?_⟩
  intro p hp
  rcases hp with hp | hp | hp
  · injection hp with hp; subst hp; decide +kernel
  · injection hp with hp; subst hp; decide +kernel
  · cases hp

/-- the run produces a request text -/
theorem exStmt_ok : (stmtBytes Ofx.Generated.schema Types.conv (envOf genEnv) exArgs exX).toBool = true := by
  decide +kernel

/-- **the hypotheses of `C19_wire_configured_generated` are satisfiable, and what follows**: for the example command
    line (two checking accounts, a credit card, an investment account, two dates, `--no-balances`, dry run) the printed
    text, read back by the pipeline reader, is an OFX 2.03 request satisfying `RequestSpec` for exactly those four
    accounts -/
theorem C19_wire_example :
    ∃ text file hdr root,
      stmtBytes Ofx.Generated.schema Types.conv (envOf genEnv) exArgs exX = .ok text ∧
      Ofx.Codec.encode genEnv.cp1252 .utf8 text = .ok file ∧
      Ofx.Pipeline.readFile genEnv file = .ok (hdr, root) ∧ hdrVersion hdr = 203 ∧
      RequestSpec Ofx.Generated.schema exCfg authPlaceholder wDt
        [.stmt (some "111".toList) (some "CHECKING".toList) exDates.start exDates.end (some true),
         .stmt (some "222".toList) (some "CHECKING".toList) exDates.start exDates.end (some true),
         .ccStmt (some "4444".toList) exDates.start exDates.end (some true),
         .invStmt (some "I-9".toList) exDates.start exDates.end none (some true) (some false) (some true) (some false)]
        (hdrVersion hdr) root := by
  cases hs : stmtBytes Ofx.Generated.schema Types.conv (envOf genEnv) exArgs exX with
  | error e => have := exStmt_ok; rw [hs] at this; cases this
  | ok text =>
    have hlen1 : genEnv.p1.newLen = some 36 := by decide +kernel
    have hlen2 : genEnv.p2.newLen = some 36 := by decide +kernel
    obtain ⟨file, hdr, root, h1, h2, h3, h4⟩ :=
      C19_wire_configured_generated exArgs exX exAccounts (.bool true) (.bool false) (.bool true) (.bool false)
        (.bool false) (some true) (some false) (some true) (some false)
        (by decide +kernel) rfl
        ⟨by decide +kernel, by decide +kernel, by decide +kernel, by decide +kernel, by decide +kernel,
          by decide +kernel⟩
        ⟨by decide +kernel, by decide +kernel, by decide +kernel, by decide +kernel⟩
        rfl rfl rfl rfl exCfg exCfg_ok authPlaceholder exPw_ok exDates exDates_ok rfl
        (by decide +kernel) (by decide +kernel) (by decide +kernel)
        exDates_wire
        ⟨by decide +kernel, rfl, by decide +kernel, by decide +kernel, by decide +kernel⟩
        wUuid_inj (by intro i; simp [exX, wUuid]) wUuid_wire
        (wUuid_uid _ hlen1 _ (by decide)) (wUuid_uid _ hlen2 _ (by decide)) hs
    exact ⟨text, file, hdr, root, rfl, h1, h2, h3, h4⟩

/-! ### witness (c): `ofxget stmtend`, configured accounts -/

theorem exStmtend_ok : (stmtendBytes Ofx.Generated.schema Types.conv (envOf genEnv) exArgs exX).toBool = true := by
  decide +kernel

/-- **the hypotheses of `C19_wire_configured_stmtend_generated` are jointly satisfiable, and what follows**: for the
    example command line `ofxget stmtend` prints a text that reads back to a request for exactly the two checking
    accounts and the credit card (closing statements; the investment account is not asked for) -/
theorem C19_wire_stmtend_example :
    ∃ text file hdr root,
      stmtendBytes Ofx.Generated.schema Types.conv (envOf genEnv) exArgs exX = .ok text ∧
      Ofx.Codec.encode genEnv.cp1252 .utf8 text = .ok file ∧
      Ofx.Pipeline.readFile genEnv file = .ok (hdr, root) ∧ hdrVersion hdr = 203 ∧
      RequestSpec Ofx.Generated.schema exCfg authPlaceholder wDt
        [.stmtEnd (some "111".toList) (some "CHECKING".toList) exDates.start exDates.end,
         .stmtEnd (some "222".toList) (some "CHECKING".toList) exDates.start exDates.end,
         .ccStmtEnd (some "4444".toList) exDates.start exDates.end]
        (hdrVersion hdr) root := by
  cases hs : stmtendBytes Ofx.Generated.schema Types.conv (envOf genEnv) exArgs exX with
  | error e => have := exStmtend_ok; rw [hs] at this; cases this
  | ok text =>
    have hlen1 : genEnv.p1.newLen = some 36 := by decide +kernel
    have hlen2 : genEnv.p2.newLen = some 36 := by decide +kernel
    obtain ⟨file, hdr, root, h1, h2, h3, h4⟩ :=
      C19_wire_configured_stmtend_generated exArgs exX exAccounts (.bool false) (by decide +kernel) rfl
        ⟨by decide +kernel, by decide +kernel, by decide +kernel, by decide +kernel, by decide +kernel,
          by decide +kernel⟩
        exCfg exCfg_ok authPlaceholder exPw_ok exDates exDates_ok rfl
        (by decide +kernel) (by decide +kernel) (by decide +kernel) exDates_wire
        ⟨by decide +kernel, rfl, by decide +kernel, by decide +kernel, by decide +kernel⟩
        wUuid_inj (by intro i; simp [exX, wUuid]) wUuid_wire
        (wUuid_uid _ hlen1 _ (by decide +kernel)) (wUuid_uid _ hlen2 _ (by decide +kernel)) hs
    exact ⟨text, file, hdr, root, rfl, h1, h2, h3, h4⟩

/-! ### witness (b): `--all` with a non-empty account-information response -/

/-- the command line: `--all`, a start date, a password (not a dry run: the ACCTINFORQ is really sent) -/
def allCli : Map :=
  [("url".toList, .str "https://bank.example/ofx".toList), ("user".toList, .str "bob".toList),
   ("all".toList, .bool true), ("password".toList, .str "pw".toList), ("dtstart".toList, .str "20200101".toList)]

def allRest : Chain := [[], Ofx.Generated.ofxgetTables.defaults]

/-- the response: an ACTIVE checking account, a PEND savings account, an ACTIVE credit card -/
def allInfos : List AcctInfo :=
  [.bank "111000614".toList "C1".toList "CHECKING".toList "ACTIVE".toList,
   .bank "111000614".toList "S1".toList "SAVINGS".toList "PEND".toList,
   .cc "4444".toList "ACTIVE".toList]

def allX : Ext := ⟨.ok allInfos, [], wUuid, wDt⟩

/-- `init_client` after discovery: the bank id is the response's -/
def allCfg : Cfg :=
  { url := "https://bank.example/ofx".toList, userid := "bob".toList, clientuid := none, org := none, fid := none,
    version := 203, appid := "QWIN".toList, appver := "2700".toList, language := "ENG".toList, prettyprint := false,
    closeElements := true, bankid := some "111000614".toList, brokerid := none }

def allDates : Dates DT := ⟨some ⟨2020, 1, 1, 0, 0, 0, 0, some ⟨0, some "UTC".toList⟩⟩, none, none⟩

/-- the plan of the run (`request_stmt` up to the call of the client) -/
def allPlan : Plan DT :=
  match requestStmt dateConvert (allCli :: allRest) allX.acct with
  | .ok p => p
  | .error _ => ⟨[], [], []⟩

/-- the run gets as far as the request text, and asks for exactly two accounts (the PEND savings account is not one) -/
theorem allStmt_ok :
    (stmtBytes Ofx.Generated.schema Types.conv (envOf genEnv) (allCli :: allRest) allX).toBool = true ∧
    (requestStmt dateConvert (allCli :: allRest) allX.acct).toBool = true ∧ allPlan.requests.length = 2 := by
  decide +kernel

theorem allPlan_ok : requestStmt dateConvert (allCli :: allRest) allX.acct = .ok allPlan := by
  unfold allPlan
  cases h : requestStmt dateConvert (allCli :: allRest) allX.acct with
  | error e => have := allStmt_ok.2.1; rw [h] at this; cases this
  | ok p => rfl

theorem allInfos_valid : ValidInfos allInfos := by
  intro inf hinf
  simp only [allInfos, List.mem_cons, List.mem_nil_iff, or_false] at hinf
  rcases hinf with rfl | rfl | rfl
  · show "CHECKING".toList ∈ validAcctTypes
    decide
  · show "SAVINGS".toList ∈ validAcctTypes
    decide
  · trivial

/-- **the hypotheses of `C19_wire_all_generated` are jointly satisfiable, and what follows**: the text `ofxget stmt
    --all` posts reads back to a request whose accounts are exactly the two ACTIVE ones of the response -/
theorem C19_wire_all_example :
    ∃ text reqs file hdr root,
      stmtBytes Ofx.Generated.schema Types.conv (envOf genEnv) (allCli :: allRest) allX = .ok text ∧
      toReqs allPlan.requests = .ok reqs ∧ reqs.length = 2 ∧
      (reqs.map reqKey).Perm [some (.bank "C1".toList "CHECKING".toList), some (.cc "4444".toList)] ∧
      Ofx.Codec.encode genEnv.cp1252 .utf8 text = .ok file ∧
      Ofx.Pipeline.readFile genEnv file = .ok (hdr, root) ∧ hdrVersion hdr = 203 ∧
      RequestSpec Ofx.Generated.schema allCfg "pw".toList wDt reqs (hdrVersion hdr) root := by
  cases hs : stmtBytes Ofx.Generated.schema Types.conv (envOf genEnv) (allCli :: allRest) allX with
  | error e => have := allStmt_ok.1; rw [hs] at this; cases this
  | ok text =>
    have hlen1 : genEnv.p1.newLen = some 36 := by decide +kernel
    have hlen2 : genEnv.p2.newLen = some 36 := by decide +kernel
    have hlen : allPlan.requests.length = 2 := allStmt_ok.2.2
    obtain ⟨reqs, file, hdr, root, h0, hperm, h1, h2, h3, h4⟩ :=
      C19_wire_all_generated allCli allRest allInfos allX (.bool true) rfl (by decide +kernel) rfl
        (by decide +kernel) allInfos_valid (by unfold NoFallback; decide +kernel)
        allPlan allPlan_ok allCfg (by rfl) "pw".toList (by rfl) allDates (by rfl) rfl
        (by decide +kernel) (by decide +kernel) (by decide +kernel)
        (by
          intro d hd
          have hd' : d = ⟨2020, 1, 1, 0, 0, 0, 0, some ⟨0, some "UTC".toList⟩⟩ := by
            simpa [Dates.all, allDates] using hd
          subst hd'
          exact ⟨by decide +kernel, rfl, by decide +kernel, by decide +kernel, by decide +kernel⟩)
        ⟨by decide +kernel, rfl, by decide +kernel, by decide +kernel, by decide +kernel⟩
        wUuid_inj (by intro i; simp [allX, wUuid]) wUuid_wire
        (by rw [hlen]; exact wUuid_uid _ hlen1 _ (by decide)) (by rw [hlen]; exact wUuid_uid _ hlen2 _ (by decide)) hs
    refine ⟨text, reqs, file, hdr, root, rfl, h0, ?_, hperm, h1, h2, h3, h4⟩
    rw [toReqs_length _ _ h0, hlen]

/-! ### witness (b'): `ofxget stmtend --all` on the same response -/

def allPlanEnd : Plan DT :=
  match requestStmtend dateConvert (allCli :: allRest) allX.acct with
  | .ok p => p
  | .error _ => ⟨[], [], []⟩

theorem allStmtend_ok :
    (stmtendBytes Ofx.Generated.schema Types.conv (envOf genEnv) (allCli :: allRest) allX).toBool = true ∧
    (requestStmtend dateConvert (allCli :: allRest) allX.acct).toBool = true ∧ allPlanEnd.requests.length = 2 := by
  decide +kernel

theorem allPlanEnd_ok : requestStmtend dateConvert (allCli :: allRest) allX.acct = .ok allPlanEnd := by
  unfold allPlanEnd
  cases h : requestStmtend dateConvert (allCli :: allRest) allX.acct with
  | error e => have := allStmtend_ok.2.1; rw [h] at this; cases this
  | ok p => rfl

/-- **the hypotheses of `C19_wire_all_stmtend_generated` are jointly satisfiable, and what follows** -/
theorem C19_wire_all_stmtend_example :
    ∃ text reqs file hdr root,
      stmtendBytes Ofx.Generated.schema Types.conv (envOf genEnv) (allCli :: allRest) allX = .ok text ∧
      toReqs allPlanEnd.requests = .ok reqs ∧ reqs.length = 2 ∧
      (reqs.map reqKey).Perm [some (.bank "C1".toList "CHECKING".toList), some (.cc "4444".toList)] ∧
      Ofx.Codec.encode genEnv.cp1252 .utf8 text = .ok file ∧
      Ofx.Pipeline.readFile genEnv file = .ok (hdr, root) ∧ hdrVersion hdr = 203 ∧
      RequestSpec Ofx.Generated.schema allCfg "pw".toList wDt reqs (hdrVersion hdr) root := by
  cases hs : stmtendBytes Ofx.Generated.schema Types.conv (envOf genEnv) (allCli :: allRest) allX with
  | error e => have := allStmtend_ok.1; rw [hs] at this; cases this
  | ok text =>
    have hlen1 : genEnv.p1.newLen = some 36 := by decide +kernel
    have hlen2 : genEnv.p2.newLen = some 36 := by decide +kernel
    have hlen : allPlanEnd.requests.length = 2 := allStmtend_ok.2.2
    obtain ⟨reqs, file, hdr, root, h0, hperm, h1, h2, h3, h4⟩ :=
      C19_wire_all_stmtend_generated allCli allRest allInfos allX (.bool true) rfl (by decide +kernel) rfl
        (by decide +kernel) allInfos_valid (by unfold NoFallbackClosing; decide +kernel)
        allPlanEnd allPlanEnd_ok allCfg (by rfl) "pw".toList (by rfl) allDates (by rfl) rfl
        (by decide +kernel) (by decide +kernel) (by decide +kernel)
        (by
          intro d hd
          have hd' : d = ⟨2020, 1, 1, 0, 0, 0, 0, some ⟨0, some "UTC".toList⟩⟩ := by
            simpa [Dates.all, allDates] using hd
          subst hd'
          exact ⟨by decide +kernel, rfl, by decide +kernel, by decide +kernel, by decide +kernel⟩)
        ⟨by decide +kernel, rfl, by decide +kernel, by decide +kernel, by decide +kernel⟩
        wUuid_inj (by intro i; simp [allX, wUuid]) wUuid_wire
        (by rw [hlen]; exact wUuid_uid _ hlen1 _ (by decide)) (by rw [hlen]; exact wUuid_uid _ hlen2 _ (by decide)) hs
    refine ⟨text, reqs, file, hdr, root, rfl, h0, ?_, hperm, h1, h2, h3, h4⟩
    rw [toReqs_length _ _ h0, hlen]

end Ofx.Gen
