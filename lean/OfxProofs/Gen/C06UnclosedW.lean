/-
C06, end-tag-less wire form — class-specific witnesses (kernel evaluations of concrete requests over the generated
schema; built separately as a witness module: a failure here is a note about a changed class, not a broken obligation).

* `unclosed_statement_witness`     — non-vacuity of `C06_wire_unclosed_generated`: a version-102, `close_elements=False`
                                     configuration and a mixed request list for which composition succeeds, the header
                                     can be made, and (evaluated, not only proved) the guard holds;
* `unclosed_tax_witness`           — the recorded exception: `request_tax1099("pw")` (no year, no account number, no
                                     record id) at version 102 without end tags composes, its tree fails `treeGuard`
                                     (`<TAX1099RQ>` has no children), the file is written, and reading it back FAILS
                                     (on the real code: `ParseError: End tag </TAX1099TRNRQ> doesn't match open element
                                     <TAX1099RQ>`);
* `C06_wire_unclosed_tax_full_false` — hence the tax statement without `taxGiven` is false.
-/
import OfxProofs.Gen.C06Unclosed

namespace Ofx.Gen
open Ofx Ofx.Compose Ofx.Spec.Request Ofx.C06

/-- the witness configuration at version 102 without end tags -/
def uCfg : Cfg :=
  { wCfg with version := 102, closeElements := false, prettyprint := true, bankid := some "123456789".toList,
              brokerid := some "broker.example".toList, org := some "ORG".toList }

def uReqs : List Req :=
  [.stmt (some "111".toList) (some "CHECKING".toList) (some wDt) none (some true),
   .invStmt (some "222".toList) none none none (some false) (some false) (some true) (some false),
   .ccStmtEnd (some "333".toList) none none]

theorem wUuid_wire (i : Nat) : WireText (wUuid i) := by
  refine ⟨unescape_no_amp _ (by simp [wUuid, List.mem_replicate]), ?_⟩
  simp only [Spec.Wire.trimmedB, wUuid, List.replicate_succ, List.head?_cons]
  have : (List.replicate i 'u' ++ ['u']).getLast? = some 'u' := by simp
  rw [show 'u' :: List.replicate i 'u' = List.replicate i 'u' ++ ['u'] from by
    rw [← List.replicate_succ, List.replicate_succ']]
  rw [this]
  decide

theorem wUuid_uid1 (i : Nat) (hi : i < 36) : Ofx.Header.UidOk genEnv.p1.newLen (some (wUuid i)) := by
  refine ⟨⟨by simp [wUuid], ?_⟩, ?_⟩
  · intro c hc
    simp only [wUuid, List.mem_replicate] at hc
    rw [hc.2]; decide
  intro n hn
  have : genEnv.p1.newLen = some 36 := by decide +kernel
  rw [this] at hn; injection hn with hn; subst hn
  simp [wUuid]; omega

theorem wUuid_uid2 (i : Nat) (hi : i < 36) : Ofx.Header.UidOk genEnv.p2.newLen (some (wUuid i)) := by
  refine ⟨⟨by simp [wUuid], ?_⟩, ?_⟩
  · intro c hc
    simp only [wUuid, List.mem_replicate] at hc
    rw [hc.2]; decide
  intro n hn
  have : genEnv.p2.newLen = some 36 := by decide +kernel
  rw [this] at hn; injection hn with hn; subst hn
  simp [wUuid]; omega

theorem wDt_wire : Ofx.DateTime.dtUtcMs wDt :=
  ⟨by decide +kernel, rfl, by decide +kernel, by decide +kernel, by decide +kernel⟩

/-- the guards of `C06_wire_unclosed_generated` are satisfiable by a non-trivial request: three requests of three
    message sets, pretty-printed, version 102, no end tags — composition succeeds, the header can be made, and the
    guard evaluates to true -/
theorem unclosed_statement_witness :
    uCfg.closeElements = false ∧ uCfg.version < 200 ∧ (∀ s ∈ uCfg.texts, WireText s) ∧ WireText "pass".toList ∧
    (∀ r ∈ uReqs, ∀ s ∈ r.texts, WireText s) ∧ (∀ r ∈ uReqs, Req.given r = true) ∧
    (∀ r ∈ uReqs, ∀ d ∈ r.dates, Ofx.DateTime.dtUtcMs d) ∧
    (match requestStatements Ofx.Generated.schema Types.conv uCfg "pass".toList uReqs wUuid wDt with
      | .ok root => treeGuard Ofx.Generated.schema Types.conv root
      | .error _ => false) = true ∧
    (Ofx.Header.makeHeader genEnv.p1 genEnv.p2 (.int (uCfg.version : Nat)) none none
      (some (wUuid uReqs.length))).toBool = true := by
  refine ⟨rfl, by decide, by decide +kernel, by decide +kernel, by decide +kernel, by decide +kernel, ?_,
    by decide +kernel, by decide +kernel⟩
  intro r hr d hd
  have : d = wDt := by
    simp only [uReqs, List.mem_cons, List.mem_nil_iff, or_false] at hr
    rcases hr with rfl | rfl | rfl <;> simp [Req.dates] at hd <;> exact hd
  rw [this]; exact wDt_wire

/-- the recorded exception, evaluated: composes, fails the guard, is written, does not read back -/
theorem unclosed_tax_witness :
    (match requestTax Ofx.Generated.schema Types.conv uCfg "pw".toList [] none none wUuid wDt with
      | .ok root => (!treeGuard Ofx.Generated.schema Types.conv root) &&
        (match Ofx.Pipeline.writeFile genEnv uCfg.version none (some (wUuid 1)) uCfg.prettyprint uCfg.closeElements
            root with
          | .ok file => !(Ofx.Pipeline.readFile genEnv file).toBool
          | .error _ => false)
      | .error _ => false) = true := by decide +kernel

theorem C06_wire_unclosed_tax_full_false : ¬ C06_wire_unclosed_tax_full := by
  intro hfull
  have hw := unclosed_tax_witness
  cases hr : requestTax Ofx.Generated.schema Types.conv uCfg "pw".toList [] none none wUuid wDt with
  | error e => rw [hr] at hw; simp at hw
  | ok root =>
    rw [hr] at hw
    cases hm : Ofx.Header.makeHeader genEnv.p1 genEnv.p2 (.int (uCfg.version : Nat)) none none (some (wUuid 1)) with
    | error e =>
      have : (Ofx.Header.makeHeader genEnv.p1 genEnv.p2 (.int (uCfg.version : Nat)) none none
        (some (wUuid 1))).toBool = true := by decide +kernel
      rw [hm] at this; simp [Except.toBool] at this
    | ok hdr =>
      obtain ⟨file, hwf, hrf⟩ := hfull uCfg "pw".toList [] none none wUuid wDt root hdr rfl (by decide)
        (by decide +kernel) (by decide +kernel) (by intro s h; cases h) (by intro s h; cases h)
        (by intro y hy; cases hy) wDt_wire (wUuid_wire 0) (by simp [wUuid]) (wUuid_uid1 1 (by omega))
        (wUuid_uid2 1 (by omega)) hr hm
      simp only [Bool.and_eq_true, Bool.not_eq_true'] at hw
      rw [hwf] at hw
      simp only [hrf, Except.toBool] at hw
      simp at hw

end Ofx.Gen
