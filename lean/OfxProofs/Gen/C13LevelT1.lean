/-
One-level constructibility table for the generated schema, part 1 (see Gen/C13LevelW.lean): `levelRange` closed by
kernel evaluation, one range of class indices per theorem.
-/
import OfxProofs.Props.C13Level
import OfxModel.Generated.Schema
import OfxModel.Ofx.Types

namespace Ofx.Gen.C13LevelTable
open Ofx Ofx.Agg Ofx.Generated Ofx.Spec.Witness

theorem lvl_0 : levelRange schema Types.conv defaultFuel 0 19 = true := by decide +kernel
theorem lvl_1 : levelRange schema Types.conv defaultFuel 19 9 = true := by decide +kernel
theorem lvl_2 : levelRange schema Types.conv defaultFuel 28 5 = true := by decide +kernel
theorem lvl_3 : levelRange schema Types.conv defaultFuel 33 1 = true := by decide +kernel
theorem lvl_4 : levelRange schema Types.conv defaultFuel 34 12 = true := by decide +kernel
theorem lvl_5 : levelRange schema Types.conv defaultFuel 46 10 = true := by decide +kernel
theorem lvl_6 : levelRange schema Types.conv defaultFuel 56 14 = true := by decide +kernel
theorem lvl_7 : levelRange schema Types.conv defaultFuel 70 11 = true := by decide +kernel
theorem lvl_8 : levelRange schema Types.conv defaultFuel 81 12 = true := by decide +kernel
theorem lvl_9 : levelRange schema Types.conv defaultFuel 93 23 = true := by decide +kernel
theorem lvl_10 : levelRange schema Types.conv defaultFuel 116 6 = true := by decide +kernel
theorem lvl_11 : levelRange schema Types.conv defaultFuel 122 11 = true := by decide +kernel

end Ofx.Gen.C13LevelTable
