/-
C06, end-tag-less wire form, on the generated schema and the real converters (instances of Props/C06Unclosed.lean;
validity of the composed instance from Lemmas/Compose.lean as in Gen/Compose.lean).

* `C06_wire_unclosed_partial_generated` — guard `treeGuard` (the composed tree has no childless aggregate);
* `C06_wire_unclosed_generated`, `C06_wire_unclosed_accounts`, `C06_wire_unclosed_profile`, `C06_wire_unclosed_tax`
                                        — the guard discharged for every request kind: statement requests that name
                                          their account and carry their flags, the account-info request with its date,
                                          every profile request, the tax request that names a year / account / record;
* `C06_wire_unclosed_tax_full(_false)`  — the tax request that names none of them is the recorded exception: the full
                                          statement is false (witness evaluated by the kernel in Gen/C06UnclosedW.lean:
                                          `request_tax1099("pw")` at version 102 without end tags writes `<TAX1099RQ>`
                                          childless and the file does not read back to the composed request).
-/
import OfxProofs.Props.C06Unclosed
import OfxProofs.Gen.Compose

namespace Ofx.Gen
open Ofx Ofx.Compose Ofx.Spec.Request Ofx.C06

/-- **C06_wire_unclosed_partial** for the code as generated from /repo -/
theorem C06_wire_unclosed_partial_generated (cfg : Cfg) (password : Str) (reqs : List Req) (uuidStream : Nat → Str)
    (dtclient : DT) (hclose : cfg.closeElements = false) (hv200 : cfg.version < 200)
    (htexts : ∀ s ∈ cfg.texts, WireText s) (hpw : WireText password)
    (hreqs : ∀ r ∈ reqs, ∀ s ∈ r.texts, WireText s)
    (hdates : ∀ r ∈ reqs, ∀ d ∈ r.dates, Ofx.DateTime.dtUtcMs d) (hdt : Ofx.DateTime.dtUtcMs dtclient)
    (huuid : ∀ i j, uuidStream i = uuidStream j → i = j) (hne : ∀ i, uuidStream i ≠ [])
    (huP : ∀ i, WireText (uuidStream i))
    (hn1 : Ofx.Header.UidOk genEnv.p1.newLen (some (uuidStream reqs.length)))
    (hn2 : Ofx.Header.UidOk genEnv.p2.newLen (some (uuidStream reqs.length)))
    {root : Node}
    (h : requestStatements Ofx.Generated.schema Types.conv cfg password reqs uuidStream dtclient = .ok root)
    (hguard : treeGuard Ofx.Generated.schema Types.conv root = true)
    {hdr : Ofx.Header.Hdr}
    (hmk : Ofx.Header.makeHeader genEnv.p1 genEnv.p2 (.int (cfg.version : Nat)) none none
      (some (uuidStream reqs.length)) = .ok hdr) :
    ∃ file, Ofx.Pipeline.writeFile genEnv cfg.version none (some (uuidStream reqs.length)) cfg.prettyprint
        cfg.closeElements root = .ok file ∧
      Ofx.Pipeline.readFile genEnv file = .ok (hdr, root) ∧
      hdrVersion hdr = Int.ofNat cfg.version ∧
      RequestSpec Ofx.Generated.schema cfg password dtclient reqs (hdrVersion hdr) root :=
  C06_wire_unclosed_partial genEnv _ schema_reqWF conv_ok (Ofx.Types.typesConv_laws_wire _)
    (Ofx.Types.typesConv_textOk _) gen_tagWF header_wf.1 header_wf.2 cfg password reqs uuidStream dtclient hclose hv200
    (fun s hs => (htexts s hs).1) hpw.1 (fun r hr s hs => (hreqs r hr s hs).1) huuid hne (fun i => (huP i).1)
    uid1o uid2o hn1 hn2 h
    (C06_request_valid cfg password reqs uuidStream dtclient htexts hpw hreqs hdates hdt huP h) hguard hmk

/-- **C06_wire_unclosed** for the code as generated from /repo: no guard on the tree — statement requests that name
    their account and carry their include flags always have children -/
theorem C06_wire_unclosed_generated (cfg : Cfg) (password : Str) (reqs : List Req) (uuidStream : Nat → Str)
    (dtclient : DT) (hclose : cfg.closeElements = false) (hv200 : cfg.version < 200)
    (htexts : ∀ s ∈ cfg.texts, WireText s) (hpw : WireText password)
    (hreqs : ∀ r ∈ reqs, ∀ s ∈ r.texts, WireText s) (hgiven : ∀ r ∈ reqs, Req.given r = true)
    (hdates : ∀ r ∈ reqs, ∀ d ∈ r.dates, Ofx.DateTime.dtUtcMs d) (hdt : Ofx.DateTime.dtUtcMs dtclient)
    (huuid : ∀ i j, uuidStream i = uuidStream j → i = j) (hne : ∀ i, uuidStream i ≠ [])
    (huP : ∀ i, WireText (uuidStream i))
    (hn1 : Ofx.Header.UidOk genEnv.p1.newLen (some (uuidStream reqs.length)))
    (hn2 : Ofx.Header.UidOk genEnv.p2.newLen (some (uuidStream reqs.length)))
    {root : Node}
    (h : requestStatements Ofx.Generated.schema Types.conv cfg password reqs uuidStream dtclient = .ok root)
    {hdr : Ofx.Header.Hdr}
    (hmk : Ofx.Header.makeHeader genEnv.p1 genEnv.p2 (.int (cfg.version : Nat)) none none
      (some (uuidStream reqs.length)) = .ok hdr) :
    ∃ file, Ofx.Pipeline.writeFile genEnv cfg.version none (some (uuidStream reqs.length)) cfg.prettyprint
        cfg.closeElements root = .ok file ∧
      Ofx.Pipeline.readFile genEnv file = .ok (hdr, root) ∧
      hdrVersion hdr = Int.ofNat cfg.version ∧
      RequestSpec Ofx.Generated.schema cfg password dtclient reqs (hdrVersion hdr) root :=
  C06_wire_unclosed genEnv _ schema_reqWF conv_ok (Ofx.Types.typesConv_laws_wire _)
    (Ofx.Types.typesConv_textOk _) gen_tagWF header_wf.1 header_wf.2 cfg password reqs uuidStream dtclient hclose hv200
    (fun s hs => (htexts s hs).1) hpw.1 (fun r hr s hs => (hreqs r hr s hs).1) hgiven huuid hne (fun i => (huP i).1)
    uid1o uid2o hn1 hn2 h
    (C06_request_valid cfg password reqs uuidStream dtclient htexts hpw hreqs hdates hdt huP h) hmk

/-- the guard for a composed statement request of the generated schema, on its own -/
theorem C06_treeGuard_statements_generated (cfg : Cfg) (password : Str) (reqs : List Req) (uuidStream : Nat → Str)
    (dtclient : DT) (htexts : ∀ s ∈ cfg.texts, WireText s) (hpw : WireText password)
    (hreqs : ∀ r ∈ reqs, ∀ s ∈ r.texts, WireText s) (hgiven : ∀ r ∈ reqs, Req.given r = true)
    (hdates : ∀ r ∈ reqs, ∀ d ∈ r.dates, Ofx.DateTime.dtUtcMs d) (hdt : Ofx.DateTime.dtUtcMs dtclient)
    (huuid : ∀ i j, uuidStream i = uuidStream j → i = j) (hne : ∀ i, uuidStream i ≠ [])
    (huP : ∀ i, WireText (uuidStream i)) {root : Node}
    (h : requestStatements Ofx.Generated.schema Types.conv cfg password reqs uuidStream dtclient = .ok root) :
    treeGuard Ofx.Generated.schema Types.conv root = true :=
  C06_treeGuard_statements genEnv _ (Ofx.Types.typesConv_laws_wire _) cfg password dtclient reqs _ root
    (C06_request_valid cfg password reqs uuidStream dtclient htexts hpw hreqs hdates hdt huP h) hgiven
    (C06_compose_generated cfg password reqs uuidStream dtclient (fun s hs => (htexts s hs).1) hpw.1
      (fun r hr s hs => (hreqs r hr s hs).1) huuid hne (fun i => (huP i).1) h)

/-! ### the other three requests -/

/-- a valid root that passes the guard, written without end tags and read back (generated schema) -/
theorem wire_unclosed_gen (cfg : Cfg) (new : Str) (hclose : cfg.closeElements = false) (hv200 : cfg.version < 200)
    (hn1 : Ofx.Header.UidOk genEnv.p1.newLen (some new)) (hn2 : Ofx.Header.UidOk genEnv.p2.newLen (some new))
    {root : Node}
    (hv : Ofx.Agg.Valid genEnv.S genEnv.cv Ofx.escapeCdata (Ofx.Types.typesDomWire genEnv.S.enums) root)
    (hguard : treeGuard genEnv.S genEnv.cv root = true) {hdr : Ofx.Header.Hdr}
    (hmk : Ofx.Header.makeHeader genEnv.p1 genEnv.p2 (.int (cfg.version : Nat)) none none (some new) = .ok hdr) :
    ∃ file, Ofx.Pipeline.writeFile genEnv cfg.version none (some new) cfg.prettyprint cfg.closeElements root
        = .ok file ∧
      Ofx.Pipeline.readFile genEnv file = .ok (hdr, root) ∧ hdrVersion hdr = Int.ofNat cfg.version :=
  wire_unclosed_of_valid genEnv _ (Ofx.Types.typesConv_laws_wire _) (Ofx.Types.typesConv_textOk _) gen_tagWF
    header_wf.1 header_wf.2 cfg new hclose hv200 uid1o uid2o hn1 hn2 hv hguard hmk

/-- **C06_wire_unclosed, account-info request** (`request_accounts(password, dtacctup, dryrun=True)` with its date) -/
theorem C06_wire_unclosed_accounts (cfg : Cfg) (password : Str) (dtacctup : Option DT) (uuidStream : Nat → Str)
    (dtclient : DT) (hclose : cfg.closeElements = false) (hv200 : cfg.version < 200)
    (htexts : ∀ s ∈ cfg.texts, WireText s) (hpw : WireText password) (hgiven : dtacctup.isSome = true)
    (hd : ∀ d, dtacctup = some d → Ofx.DateTime.dtUtcMs d) (hdt : Ofx.DateTime.dtUtcMs dtclient)
    (hu : WireText (uuidStream 0)) (hne : uuidStream 0 ≠ [])
    (hn1 : Ofx.Header.UidOk genEnv.p1.newLen (some (uuidStream 1)))
    (hn2 : Ofx.Header.UidOk genEnv.p2.newLen (some (uuidStream 1))) {root : Node}
    (h : requestAccounts Ofx.Generated.schema Types.conv cfg password dtacctup uuidStream dtclient = .ok root)
    {hdr : Ofx.Header.Hdr}
    (hmk : Ofx.Header.makeHeader genEnv.p1 genEnv.p2 (.int (cfg.version : Nat)) none none (some (uuidStream 1))
      = .ok hdr) :
    ∃ file, Ofx.Pipeline.writeFile genEnv cfg.version none (some (uuidStream 1)) cfg.prettyprint cfg.closeElements
        root = .ok file ∧
      Ofx.Pipeline.readFile genEnv file = .ok (hdr, root) ∧ hdrVersion hdr = Int.ofNat cfg.version ∧
      checkAccounts Ofx.Generated.schema cfg password dtclient dtacctup (hdrVersion hdr) root = [] := by
  have hv : Ofx.Agg.Valid genEnv.S genEnv.cv Ofx.escapeCdata (Ofx.Types.typesDomWire genEnv.S.enums) root :=
    requestAccounts_valid schema_reqWF schema_wireWF conv_ok_wire (types_convInto _ schema_enumsPlain)
      (Ofx.Types.typesConv_laws_wire _) cfg password dtacctup uuidStream dtclient htexts hpw hd hdt hu h
  have hspec := C06_accounts_generated cfg password dtacctup uuidStream dtclient (fun s hs => (htexts s hs).1) hpw.1
    hu.1 hne h
  have hguard := C06_treeGuard_accounts genEnv _ (Ofx.Types.typesConv_laws_wire _) cfg password dtclient dtacctup _
    root hv hgiven hspec
  obtain ⟨file, hw, hr, hver⟩ := wire_unclosed_gen cfg _ hclose hv200 hn1 hn2 hv hguard hmk
  refine ⟨file, hw, hr, hver, ?_⟩
  rw [hver]; exact hspec

/-- **C06_wire_unclosed, profile request** (`_request_profile(dtprofup, dryrun=True)`): every one -/
theorem C06_wire_unclosed_profile (cfg : Cfg) (dtprofup : Option DT) (uuidStream : Nat → Str)
    (dtclient : DT) (hclose : cfg.closeElements = false) (hv200 : cfg.version < 200)
    (htexts : ∀ s ∈ cfg.texts, WireText s)
    (hd : Ofx.DateTime.dtUtcMs (orDefault dtprofup defaultDtprofup)) (hdt : Ofx.DateTime.dtUtcMs dtclient)
    (hu : WireText (uuidStream 0)) (hne : uuidStream 0 ≠ [])
    (hn1 : Ofx.Header.UidOk genEnv.p1.newLen (some (uuidStream 1)))
    (hn2 : Ofx.Header.UidOk genEnv.p2.newLen (some (uuidStream 1))) {root : Node}
    (h : requestProfile Ofx.Generated.schema Types.conv cfg dtprofup uuidStream dtclient = .ok root)
    {hdr : Ofx.Header.Hdr}
    (hmk : Ofx.Header.makeHeader genEnv.p1 genEnv.p2 (.int (cfg.version : Nat)) none none (some (uuidStream 1))
      = .ok hdr) :
    ∃ file, Ofx.Pipeline.writeFile genEnv cfg.version none (some (uuidStream 1)) cfg.prettyprint cfg.closeElements
        root = .ok file ∧
      Ofx.Pipeline.readFile genEnv file = .ok (hdr, root) ∧ hdrVersion hdr = Int.ofNat cfg.version ∧
      checkProfile Ofx.Generated.schema cfg dtclient dtprofup none (hdrVersion hdr) root = [] := by
  have hv : Ofx.Agg.Valid genEnv.S genEnv.cv Ofx.escapeCdata (Ofx.Types.typesDomWire genEnv.S.enums) root :=
    requestProfile_valid schema_reqWF schema_wireWF conv_ok_wire (types_convInto _ schema_enumsPlain)
      (Ofx.Types.typesConv_laws_wire _) cfg dtprofup uuidStream dtclient htexts (by decide +kernel)
      (by decide +kernel) hd hdt hu h
  have hspec := C06_profile_generated cfg dtprofup uuidStream dtclient (fun s hs => (htexts s hs).1) hu.1 hne h
  have hguard := C06_treeGuard_profile genEnv _ (Ofx.Types.typesConv_laws_wire _) cfg dtclient dtprofup none _
    root hv hspec
  obtain ⟨file, hw, hr, hver⟩ := wire_unclosed_gen cfg _ hclose hv200 hn1 hn2 hv hguard hmk
  refine ⟨file, hw, hr, hver, ?_⟩
  rw [hver]; exact hspec

/-- **C06_wire_unclosed, tax request** (`request_tax1099(password, *taxyears, acctnum=…, recid=…, dryrun=True)`) that
    names a year, an account number or a record id (`taxGiven`) -/
theorem C06_wire_unclosed_tax (cfg : Cfg) (password : Str) (taxyears : List Str) (acctnum recid : Option Str)
    (uuidStream : Nat → Str) (dtclient : DT) (hclose : cfg.closeElements = false) (hv200 : cfg.version < 200)
    (htexts : ∀ s ∈ cfg.texts, WireText s) (hpw : WireText password)
    (hacct : ∀ s, acctnum = some s → WireText s) (hrec : ∀ s, recid = some s → WireText s)
    (hyears : ∀ y ∈ taxyears, ∃ j : Int, y = pyStrInt j) (hgiven : taxGiven taxyears acctnum recid = true)
    (hdt : Ofx.DateTime.dtUtcMs dtclient)
    (hu : WireText (uuidStream 0)) (hne : uuidStream 0 ≠ [])
    (hn1 : Ofx.Header.UidOk genEnv.p1.newLen (some (uuidStream 1)))
    (hn2 : Ofx.Header.UidOk genEnv.p2.newLen (some (uuidStream 1))) {root : Node}
    (h : requestTax Ofx.Generated.schema Types.conv cfg password taxyears acctnum recid uuidStream dtclient
      = .ok root) {hdr : Ofx.Header.Hdr}
    (hmk : Ofx.Header.makeHeader genEnv.p1 genEnv.p2 (.int (cfg.version : Nat)) none none (some (uuidStream 1))
      = .ok hdr) :
    ∃ file, Ofx.Pipeline.writeFile genEnv cfg.version none (some (uuidStream 1)) cfg.prettyprint cfg.closeElements
        root = .ok file ∧
      Ofx.Pipeline.readFile genEnv file = .ok (hdr, root) ∧ hdrVersion hdr = Int.ofNat cfg.version ∧
      checkTax Ofx.Generated.schema cfg password dtclient taxyears acctnum recid (hdrVersion hdr) root = [] := by
  have hv : Ofx.Agg.Valid genEnv.S genEnv.cv Ofx.escapeCdata (Ofx.Types.typesDomWire genEnv.S.enums) root :=
    requestTax_valid schema_reqWF schema_wireWF schema_taxWF schema_taxMsgsVal gen_taxAny conv_ok_wire
      (types_convInto _ schema_enumsPlain) (Ofx.Types.typesConv_laws_wire _) conv_year (conv_yearDom _)
      cfg password taxyears acctnum recid uuidStream dtclient htexts hpw hacct hrec hyears hdt hu h
  have hspec := C06_tax_generated cfg password taxyears acctnum recid uuidStream dtclient
    (fun s hs => (htexts s hs).1) hpw.1 (fun s hs => (hacct s hs).1) (fun s hs => (hrec s hs).1) hyears hu.1 hne h
  have hguard := C06_treeGuard_tax genEnv _ (Ofx.Types.typesConv_laws_wire _) cfg password dtclient taxyears acctnum
    recid _ root hv hgiven hspec
  obtain ⟨file, hw, hr, hver⟩ := wire_unclosed_gen cfg _ hclose hv200 hn1 hn2 hv hguard hmk
  refine ⟨file, hw, hr, hver, ?_⟩
  rw [hver]; exact hspec

/-- the full-strength statement for the tax request: `C06_wire_unclosed_tax` without `taxGiven` (read-back clause
    only) -/
def C06_wire_unclosed_tax_full : Prop :=
  ∀ (cfg : Cfg) (password : Str) (taxyears : List Str) (acctnum recid : Option Str) (uuidStream : Nat → Str)
    (dtclient : DT) (root : Node) (hdr : Ofx.Header.Hdr),
    cfg.closeElements = false → cfg.version < 200 →
    (∀ s ∈ cfg.texts, WireText s) → WireText password →
    (∀ s, acctnum = some s → WireText s) → (∀ s, recid = some s → WireText s) →
    (∀ y ∈ taxyears, ∃ j : Int, y = pyStrInt j) → Ofx.DateTime.dtUtcMs dtclient →
    WireText (uuidStream 0) → uuidStream 0 ≠ [] →
    Ofx.Header.UidOk genEnv.p1.newLen (some (uuidStream 1)) → Ofx.Header.UidOk genEnv.p2.newLen (some (uuidStream 1)) →
    requestTax Ofx.Generated.schema Types.conv cfg password taxyears acctnum recid uuidStream dtclient = .ok root →
    Ofx.Header.makeHeader genEnv.p1 genEnv.p2 (.int (cfg.version : Nat)) none none (some (uuidStream 1)) = .ok hdr →
    ∃ file, Ofx.Pipeline.writeFile genEnv cfg.version none (some (uuidStream 1)) cfg.prettyprint cfg.closeElements
        root = .ok file ∧ Ofx.Pipeline.readFile genEnv file = .ok (hdr, root)

end Ofx.Gen
