/-
Non-vacuity witnesses for the copy / deepcopy / pickle theorems on the generated schema (C16): concrete instances of
real classes — a nested one (STMTTRNRS holding a STATUS), one with members and a dict (BANKTRANLIST holding a STMTTRN),
a half-built one (`STMTTRNRS.__new__(STMTTRNRS)`: empty dict) — satisfy the guards, and the end theorems instantiated on
them. These depend on what the classes are called today; the framework builds this module separately and reports its
failure as a note, not as a broken obligation.
-/
import OfxProofs.Gen.CopyProto

namespace Ofx.Gen
open Ofx Ofx.Generated Ofx.CopyProto Ofx.Getattr

def cpStatus : Node :=
  .agg ByName.idx_STATUS [("code".toList, .val (.int 0)), ("severity".toList, .val (.str "INFO".toList)),
    ("message".toList, .val .none)] []

/-- STMTTRNRS(trnuid="1", status=STATUS(code=0, severity="INFO")) -/
def cpTrnrs : Node :=
  .agg ByName.idx_STMTTRNRS [("trnuid".toList, .val (.str "1".toList)), ("status".toList, cpStatus),
    ("cltcookie".toList, .val .none), ("ofxextension".toList, .val .none), ("stmtrs".toList, .val .none)] []

/-- a BANKTRANLIST with a partial dict and one (partial) STMTTRN member -/
def cpTranlist : Node :=
  .agg ByName.idx_BANKTRANLIST [("dtstart".toList, .val .none)]
    [.agg ByName.idx_STMTTRN [("trntype".toList, .val (.str "CHECK".toList)), ("fitid".toList, .val (.str "a".toList))] []]

/-- `STMTTRNRS.__new__(STMTTRNRS)` -/
def cpFresh : Node := .agg ByName.idx_STMTTRNRS [] []

theorem cp_guards : instQuiet schema cpTrnrs = true ∧ dictsWF cpTrnrs = true ∧ instQuiet schema cpTranlist = true ∧
    dictsWF cpTranlist = true ∧ instQuiet schema cpFresh = true ∧ dictsWF cpFresh = true := by decide +kernel

theorem cpTrnrs_copies :
    copyNode (getattr schema propsTable) cpTrnrs = .ok cpTrnrs ∧
    deepcopyNode (getattr schema propsTable) cpTrnrs = .ok cpTrnrs ∧
    ∀ proto, pickleRoundtrip (getattr schema propsTable) proto cpTrnrs = .ok cpTrnrs :=
  ⟨C16_generated_copy _ _ _ cp_guards.1 cp_guards.2.1, C16_generated_deepcopy _ cp_guards.1 cp_guards.2.1,
   fun p => C16_generated_pickle p _ cp_guards.1 cp_guards.2.1⟩

theorem cpTranlist_copies :
    deepcopyNode (getattr schema propsTable) cpTranlist = .ok cpTranlist ∧
    ∀ proto, pickleRoundtrip (getattr schema propsTable) proto cpTranlist = .ok cpTranlist :=
  ⟨C16_generated_deepcopy _ cp_guards.2.2.1 cp_guards.2.2.2.1, fun p => C16_generated_pickle p _ cp_guards.2.2.1 cp_guards.2.2.2.1⟩

/-- the guards of the pinned theorems on the real STMTTRNRS: it has sub-aggregates, so before 0f0930a `copy.copy` of
    `cpTrnrs` raised KeyError -/
theorem cpTrnrs_pinned : copyNode (getattrPinned schema propsTable) cpTrnrs = .error .key := by
  have hc : schema.cls? ByName.idx_STMTTRNRS = some ByName.cls_STMTTRNRS := by rfl
  exact C16.C16_copy_pinned_fails schema propsTable ByName.idx_STMTTRNRS ByName.cls_STMTTRNRS _ _ _ hc
    (by decide +kernel) (by decide +kernel) (by decide +kernel)

end Ofx.Gen
