/-
C19 end to end on the generated schema, the real converters and the generated tables: the text `ofxget stmt` /
`ofxget stmtend` prints on a dry run (or posts), encoded as `serialize` does and read back by the pipeline reader
(`Pipeline.readFile genEnv` = `OFXTree.parse` + `convert`: header parser, lexer, tree builder, `from_etree`), is a request
for exactly the configured (or, with `--all`, exactly the ACTIVE) accounts.

`RoundTrip` of `Props/C19Wire.lean` is discharged from `C01_generated_closed` (as `C06_wire_closed` does), for either
setting of `nonewfileuid`.  Guards inherited from C06 / C01, all explicit:
  * end tags are written (`cfg.closeElements = true`, i.e. `unclosedelements` not set: `C19_wire_client`);
  * `WireText` (no entity spelling, no surrounding white space) of the client's texts, the password, the account
    numbers (the four account-type tokens are: `bankTypes_wire`) and the uuids; uuids pairwise distinct, non-empty,
    within the header's NEWFILEUID limits;
  * `dtUtcMs` (UTC, whole milliseconds, years 1000..9999) of the converted dates — true of every text of the notation
    that denotes an instant in those years: `C19_wire_dates` — and of DTCLIENT.
-/
import OfxProofs.Props.C19Wire
import OfxProofs.Gen.Compose
import OfxProofs.Gen.Ofxget

namespace Ofx.Gen
open Ofx Ofx.Ofxget Ofx.Compose Ofx.Spec.Ofxget Ofx.OfxgetWire Ofx.Spec.Request Ofx.C06

/-- **the request text of `request_statements`, read back** (either setting of `gen_newfileuid`): for every
    configuration with end tags and every request list within the wire guards, the text `requestBytes` returns,
    encoded as `serialize` does (utf-8), is read by `OFXTree.parse` + `convert` to a header of the configured version
    and to an instance that satisfies `RequestSpec` for exactly that request list. -/
theorem requestBytes_readback (cfg : Cfg) (password : Str) (reqs : List Req) (gen : Bool) (uuidStream : Nat → Str)
    (dtclient : DT) (hclose : cfg.closeElements = true)
    (htexts : ∀ s ∈ cfg.texts, WireText s) (hpw : WireText password)
    (hreqs : ∀ r ∈ reqs, ∀ s ∈ r.texts, WireText s)
    (hdates : ∀ r ∈ reqs, ∀ d ∈ r.dates, Ofx.DateTime.dtUtcMs d) (hdt : Ofx.DateTime.dtUtcMs dtclient)
    (huuid : ∀ i j, uuidStream i = uuidStream j → i = j) (hne : ∀ i, uuidStream i ≠ [])
    (huP : ∀ i, WireText (uuidStream i))
    (hn1 : Ofx.Header.UidOk genEnv.p1.newLen (some (uuidStream reqs.length)))
    (hn2 : Ofx.Header.UidOk genEnv.p2.newLen (some (uuidStream reqs.length)))
    {text : Str}
    (h : requestBytes Ofx.Generated.schema Types.conv (envOf genEnv) cfg password reqs gen uuidStream dtclient
      = .ok text) :
    ∃ file hdr root, Ofx.Codec.encode genEnv.cp1252 .utf8 text = .ok file ∧
      Ofx.Pipeline.readFile genEnv file = .ok (hdr, root) ∧
      hdrVersion hdr = Int.ofNat cfg.version ∧
      RequestSpec Ofx.Generated.schema cfg password dtclient reqs (hdrVersion hdr) root := by
  unfold requestBytes at h
  obtain ⟨root, hroot, hser⟩ := bindOk h
  have hv := C06_request_valid cfg password reqs uuidStream dtclient htexts hpw hreqs hdates hdt huP hroot
  -- the header `serialize` wrote
  have hser' := hser
  simp only [serializeReq] at hser'
  obtain ⟨hdr, hmk, _⟩ := bindOk hser'
  have hN1 : Ofx.Header.UidOk genEnv.p1.newLen (newFileUid gen uuidStream reqs.length) := by
    cases gen
    · exact uid1n
    · exact hn1
  have hN2 : Ofx.Header.UidOk genEnv.p2.newLen (newFileUid gen uuidStream reqs.length) := by
    cases gen
    · exact uid2n
    · exact hn2
  obtain ⟨file, hw, hr⟩ := C01_generated_closed cfg.version none (newFileUid gen uuidStream reqs.length) uid1o hN1
    uid2o hN2 cfg.prettyprint root hv hdr hmk
  have hver := makeHeader_version _ _ _ _ _ _ _ hmk
  have hwf := writeFile_serializeReq genEnv cfg root (newFileUid gen uuidStream reqs.length)
  rw [hclose] at hwf
  rw [hwf] at hw
  have hser2 : serializeReq genEnv.S genEnv.cv (envOf genEnv) cfg root none none
      (newFileUid gen uuidStream reqs.length) none none = .ok text := hser
  rw [hser2] at hw
  refine ⟨file, hdr, root, hw, hr, hver, ?_⟩
  rw [hver]
  exact C06_compose_generated cfg password reqs uuidStream dtclient (fun s hs => (htexts s hs).1) hpw.1
    (fun r hr s hs => (hreqs r hr s hs).1) huuid hne (fun i => (huP i).1) hroot

/-- the four account-type tokens `ofxget` writes are wire texts -/
theorem bankTypes_wire : ∀ ty ∈ requestableBankTypes, WireText ty := by decide +kernel

/-- **C19_wire_configured, generated** (`ofxget stmt`).  For every mapping without `--all` whose account-type options
    hold lists `a`: the text `ofxget stmt` prints on a dry run / posts, utf-8 encoded and read back by the pipeline
    reader, has the header of the configured version and is an `OFX` request that satisfies `RequestSpec` for the client
    `init_client` builds, the password `get_passwd` delivers and the list `wireStmt a …`: exactly one `STMTTRNRQ` per
    configured bank account (account type = the option it is listed under, the configured bank id), one `CCSTMTTRNRQ`
    per credit card, one `INVSTMTTRNRQ` per investment account (the configured broker id), in the order of the
    configuration, each with the converted dates and the flags — no other account, no other message set. -/
theorem C19_wire_configured_generated (args : Chain) (x : Ext) (a : Accounts)
    (t oo pos bal v : CfgVal) (tb oob posb balb : Option Bool)
    (hall : args.get? "all".toList = some v) (hnot : truthy v = false)
    (ha : HasAccounts args a) (hf : HasFlags args t oo pos bal)
    (ht : optBoolArg t = .ok tb) (hoo : optBoolArg oo = .ok oob) (hpos : optBoolArg pos = .ok posb)
    (hbal : optBoolArg bal = .ok balb)
    (cfg : Cfg) (hcfg : clientCfg args = .ok cfg) (pw : Str) (hpw : getPasswd args x.typed = .ok pw)
    (dt : Dates DT) (hdt : convertDatetime dateConvert args = .ok dt)
    (hclose : cfg.closeElements = true)
    (htexts : ∀ s ∈ cfg.texts, WireText s) (hpwW : WireText pw) (hids : ∀ id ∈ a.ids, WireText id)
    (hdates : ∀ d ∈ dt.all, Ofx.DateTime.dtUtcMs d) (hdtc : Ofx.DateTime.dtUtcMs x.dtclient)
    (huuid : ∀ i j, x.uuid i = x.uuid j → i = j) (hne : ∀ i, x.uuid i ≠ []) (huP : ∀ i, WireText (x.uuid i))
    (hn1 : Ofx.Header.UidOk genEnv.p1.newLen (some (x.uuid a.ids.length)))
    (hn2 : Ofx.Header.UidOk genEnv.p2.newLen (some (x.uuid a.ids.length)))
    {text : Str} (h : stmtBytes Ofx.Generated.schema Types.conv (envOf genEnv) args x = .ok text) :
    ∃ file hdr root, Ofx.Codec.encode genEnv.cp1252 .utf8 text = .ok file ∧
      Ofx.Pipeline.readFile genEnv file = .ok (hdr, root) ∧
      hdrVersion hdr = Int.ofNat cfg.version ∧
      RequestSpec Ofx.Generated.schema cfg pw x.dtclient (wireStmt a dt.start dt.end dt.asof tb oob posb balb)
        (hdrVersion hdr) root := by
  obtain ⟨cfg', pw', dt', nonew, hcfg', hpw', hdt', _, hb⟩ :=
    C19_wire_requests (envOf genEnv) args x a t oo pos bal v tb oob posb balb hall hnot ha hf ht hoo hpos hbal h
  rw [hcfg] at hcfg'; injection hcfg' with hcfg'; subst hcfg'
  rw [hpw] at hpw'; injection hpw' with hpw'; subst hpw'
  rw [hdt] at hdt'; injection hdt' with hdt'; subst hdt'
  exact requestBytes_readback cfg pw _ _ x.uuid x.dtclient hclose htexts hpwW
    (wireStmt_texts a _ _ _ _ _ _ _ WireText hids bankTypes_wire)
    (fun r hr d hd => hdates d (wireStmt_dates a _ _ _ _ _ _ _ r hr d hd)) hdtc huuid hne huP
    (by rw [wireStmt_length]; exact hn1) (by rw [wireStmt_length]; exact hn2) hb

/-- **C19_wire_configured, generated, dates as notation.**  The same with the date guard discharged: when the three
    date options are empty or texts of the OFX date-time notation denoting instants in the years 1000..9999, the text
    `ofxget stmt` prints reads back to a request for exactly the configured accounts whose dates *denote the instants of
    the command-line texts* (`Denotes`: `dtInstantUs d = 1000 · instant of the text`, `Spec.Instant`). -/
theorem C19_wire_configured_notation_generated (args : Chain) (x : Ext) (a : Accounts)
    (t oo pos bal v : CfgVal) (tb oob posb balb : Option Bool)
    (hall : args.get? "all".toList = some v) (hnot : truthy v = false)
    (ha : HasAccounts args a) (hf : HasFlags args t oo pos bal)
    (ht : optBoolArg t = .ok tb) (hoo : optBoolArg oo = .ok oob) (hpos : optBoolArg pos = .ok posb)
    (hbal : optBoolArg bal = .ok balb)
    (ps pe pa : Option Spec.Instant.Parts)
    (hs : args.get? "dtstart".toList = some (.str (match ps with | some p => p.render | none => [])))
    (he : args.get? "dtend".toList = some (.str (match pe with | some p => p.render | none => [])))
    (hasof : args.get? "dtasof".toList = some (.str (match pa with | some p => p.render | none => [])))
    (hok : ∀ p, ps = some p ∨ pe = some p ∨ pa = some p →
      p.wf false = true ∧ Ofx.DateTime.lenOk p = true ∧ Ofx.DateTime.us1000 ≤ 1000 * p.instant ∧
        1000 * p.instant < Ofx.DateTime.usEnd)
    (cfg : Cfg) (hcfg : clientCfg args = .ok cfg) (pw : Str) (hpw : getPasswd args x.typed = .ok pw)
    (hclose : cfg.closeElements = true)
    (htexts : ∀ s ∈ cfg.texts, WireText s) (hpwW : WireText pw) (hids : ∀ id ∈ a.ids, WireText id)
    (hdtc : Ofx.DateTime.dtUtcMs x.dtclient)
    (huuid : ∀ i j, x.uuid i = x.uuid j → i = j) (hne : ∀ i, x.uuid i ≠ []) (huP : ∀ i, WireText (x.uuid i))
    (hn1 : Ofx.Header.UidOk genEnv.p1.newLen (some (x.uuid a.ids.length)))
    (hn2 : Ofx.Header.UidOk genEnv.p2.newLen (some (x.uuid a.ids.length)))
    {text : Str} (h : stmtBytes Ofx.Generated.schema Types.conv (envOf genEnv) args x = .ok text) :
    ∃ (dt : Dates DT) (file : Ofx.Codec.Bytes) (hdr : Ofx.Header.Hdr) (root : Node),
      convertDatetime dateConvert args = .ok dt ∧ Denotes ps dt.start ∧ Denotes pe dt.end ∧ Denotes pa dt.asof ∧
      Ofx.Codec.encode genEnv.cp1252 .utf8 text = .ok file ∧
      Ofx.Pipeline.readFile genEnv file = .ok (hdr, root) ∧
      hdrVersion hdr = Int.ofNat cfg.version ∧
      RequestSpec Ofx.Generated.schema cfg pw x.dtclient (wireStmt a dt.start dt.end dt.asof tb oob posb balb)
        (hdrVersion hdr) root := by
  obtain ⟨dt, hdt, hdates, d1, d2, d3⟩ := C19_wire_dates args ps pe pa hs he hasof hok
  obtain ⟨file, hdr, root, h1, h2, h3, h4⟩ :=
    C19_wire_configured_generated args x a t oo pos bal v tb oob posb balb hall hnot ha hf ht hoo hpos hbal cfg hcfg pw
      hpw dt hdt hclose htexts hpwW hids hdates hdtc huuid hne huP hn1 hn2 h
  exact ⟨dt, file, hdr, root, hdt, d1, d2, d3, h1, h2, h3, h4⟩


/-- **C19_wire_configured, generated** (`ofxget stmtend`) -/
theorem C19_wire_configured_stmtend_generated (args : Chain) (x : Ext) (a : Accounts) (v : CfgVal)
    (hall : args.get? "all".toList = some v) (hnot : truthy v = false) (ha : HasAccounts args a)
    (cfg : Cfg) (hcfg : clientCfg args = .ok cfg) (pw : Str) (hpw : getPasswd args x.typed = .ok pw)
    (dt : Dates DT) (hdt : convertDatetime dateConvert args = .ok dt)
    (hclose : cfg.closeElements = true)
    (htexts : ∀ s ∈ cfg.texts, WireText s) (hpwW : WireText pw) (hids : ∀ id ∈ a.ids, WireText id)
    (hdates : ∀ d ∈ dt.all, Ofx.DateTime.dtUtcMs d) (hdtc : Ofx.DateTime.dtUtcMs x.dtclient)
    (huuid : ∀ i j, x.uuid i = x.uuid j → i = j) (hne : ∀ i, x.uuid i ≠ []) (huP : ∀ i, WireText (x.uuid i))
    (hn1 : Ofx.Header.UidOk genEnv.p1.newLen (some (x.uuid (wireStmtend a dt.start dt.end).length)))
    (hn2 : Ofx.Header.UidOk genEnv.p2.newLen (some (x.uuid (wireStmtend a dt.start dt.end).length)))
    {text : Str} (h : stmtendBytes Ofx.Generated.schema Types.conv (envOf genEnv) args x = .ok text) :
    ∃ file hdr root, Ofx.Codec.encode genEnv.cp1252 .utf8 text = .ok file ∧
      Ofx.Pipeline.readFile genEnv file = .ok (hdr, root) ∧
      hdrVersion hdr = Int.ofNat cfg.version ∧
      RequestSpec Ofx.Generated.schema cfg pw x.dtclient (wireStmtend a dt.start dt.end) (hdrVersion hdr) root := by
  obtain ⟨cfg', pw', dt', nonew, hcfg', hpw', hdt', _, hb⟩ :=
    C19_wire_requests_stmtend (envOf genEnv) args x a v hall hnot ha h
  rw [hcfg] at hcfg'; injection hcfg' with hcfg'; subst hcfg'
  rw [hpw] at hpw'; injection hpw' with hpw'; subst hpw'
  rw [hdt] at hdt'; injection hdt' with hdt'; subst hdt'
  exact requestBytes_readback cfg pw _ _ x.uuid x.dtclient hclose htexts hpwW
    (wireStmtend_texts a _ _ WireText hids bankTypes_wire)
    (fun r hr d hd => hdates d (by
      have := wireStmtend_dates a _ _ r hr d hd
      simp only [Dates.all, List.mem_append] at this ⊢
      exact Or.inl this)) hdtc huuid hne huP hn1 hn2 hb

/-- the dates of the typed requests of a plan are among the converted dates -/
theorem plan_dates (dt : Dates DT) (rqs : List (Rq DT)) (reqs : List Req) (hfrom : ∀ r ∈ rqs, DatesFrom dt r)
    (hreqs : toReqs rqs = .ok reqs) (hdates : ∀ d ∈ dt.all, Ofx.DateTime.dtUtcMs d) :
    ∀ q ∈ reqs, ∀ d ∈ q.dates, Ofx.DateTime.dtUtcMs d := by
  intro q hq d hd
  obtain ⟨r, hr, hrq⟩ := toReqs_mem rqs reqs hreqs q hq
  rw [(toReq_same r q hrq).2.2] at hd
  exact hdates d (hfrom r hr d hd)

/-- **C19_wire_all, generated** (`ofxget stmt --all`).  `--all` set, no account named on the command line, any
    configuration underneath, any account-information response within the guard of `C19_all_active`: the request text,
    read back by the pipeline reader, satisfies `RequestSpec` for a request list whose accounts are, as a multiset,
    exactly the accounts the response lists as ACTIVE (bank accounts of the four requestable types with their type,
    credit cards, investment accounts) — one wrapper for each, none for an account listed with another status. -/
theorem C19_wire_all_generated (cli : Map) (rest : Chain) (infos : List AcctInfo) (x : Ext) (v : CfgVal)
    (hacct : x.acct = .ok infos)
    (hall : Chain.get? (cli :: rest) "all".toList = some v) (ht : truthy v = true)
    (hcli : ∀ t ∈ acctKeys, cli.lookup t = none) (hv : ValidInfos infos) (hg : NoFallback rest infos)
    (plan : Plan DT) (hplan : requestStmt dateConvert (cli :: rest) x.acct = .ok plan)
    (cfg : Cfg) (hcfg : clientCfg plan.args = .ok cfg) (pw : Str) (hpw : getPasswd (cli :: rest) x.typed = .ok pw)
    (dt : Dates DT) (hdt : convertDatetime dateConvert (cli :: rest) = .ok dt)
    (hclose : cfg.closeElements = true)
    (htexts : ∀ s ∈ cfg.texts, WireText s) (hpwW : WireText pw) (hact : ∀ s ∈ activeTexts false infos, WireText s)
    (hdates : ∀ d ∈ dt.all, Ofx.DateTime.dtUtcMs d) (hdtc : Ofx.DateTime.dtUtcMs x.dtclient)
    (huuid : ∀ i j, x.uuid i = x.uuid j → i = j) (hne : ∀ i, x.uuid i ≠ []) (huP : ∀ i, WireText (x.uuid i))
    (hn1 : Ofx.Header.UidOk genEnv.p1.newLen (some (x.uuid plan.requests.length)))
    (hn2 : Ofx.Header.UidOk genEnv.p2.newLen (some (x.uuid plan.requests.length)))
    {text : Str} (h : stmtBytes Ofx.Generated.schema Types.conv (envOf genEnv) (cli :: rest) x = .ok text) :
    ∃ reqs file hdr root, toReqs plan.requests = .ok reqs ∧
      (reqs.map reqKey).Perm ((specActive false infos).map some) ∧
      Ofx.Codec.encode genEnv.cp1252 .utf8 text = .ok file ∧
      Ofx.Pipeline.readFile genEnv file = .ok (hdr, root) ∧
      hdrVersion hdr = Int.ofNat cfg.version ∧
      RequestSpec Ofx.Generated.schema cfg pw x.dtclient reqs (hdrVersion hdr) root := by
  obtain ⟨pw', plan', cfg', nonew, reqs, hpw', hplan', hcfg', _, hreqs, hb⟩ := stmtBytes_ok (cli :: rest) x h
  rw [hplan] at hplan'; injection hplan' with hplan'; subst hplan'
  rw [hcfg] at hcfg'; injection hcfg' with hcfg'; subst hcfg'
  rw [hpw] at hpw'; injection hpw' with hpw'; subst hpw'
  have hplan2 := hplan
  rw [hacct] at hplan2
  have hperm := C19_all_active dateConvert cli rest infos plan v hall ht hcli hv hg hplan2
  obtain ⟨dt', hdt', hrqs, _⟩ := requestStmt_client dateConvert (cli :: rest) x.acct plan hplan
  rw [hdt] at hdt'; injection hdt' with hdt'; subst hdt'
  have hk : (reqs.map reqKey).Perm ((specActive false infos).map some) := by
    rw [toReqs_keys plan.requests reqs hreqs]
    have := hperm.map some
    rw [List.map_map] at this
    exact this
  obtain ⟨file, hdr, root, h1, h2, h3, h4⟩ := requestBytes_readback cfg pw reqs _ x.uuid x.dtclient hclose htexts hpwW
    (reqs_texts_of_perm false infos plan.requests reqs hperm hreqs WireText hact)
    (plan_dates dt plan.requests reqs (stmtRequests_dates dt plan.args plan.requests hrqs) hreqs hdates)
    hdtc huuid hne huP (by rw [toReqs_length _ _ hreqs]; exact hn1) (by rw [toReqs_length _ _ hreqs]; exact hn2) hb
  exact ⟨reqs, file, hdr, root, hreqs, hk, h1, h2, h3, h4⟩

/-- **C19_wire_all, generated** (`ofxget stmtend --all`) -/
theorem C19_wire_all_stmtend_generated (cli : Map) (rest : Chain) (infos : List AcctInfo) (x : Ext) (v : CfgVal)
    (hacct : x.acct = .ok infos)
    (hall : Chain.get? (cli :: rest) "all".toList = some v) (ht : truthy v = true)
    (hcli : ∀ t ∈ closingKeys, cli.lookup t = none) (hv : ValidInfos infos) (hg : NoFallbackClosing rest infos)
    (plan : Plan DT) (hplan : requestStmtend dateConvert (cli :: rest) x.acct = .ok plan)
    (cfg : Cfg) (hcfg : clientCfg plan.args = .ok cfg) (pw : Str) (hpw : getPasswd (cli :: rest) x.typed = .ok pw)
    (dt : Dates DT) (hdt : convertDatetime dateConvert (cli :: rest) = .ok dt)
    (hclose : cfg.closeElements = true)
    (htexts : ∀ s ∈ cfg.texts, WireText s) (hpwW : WireText pw) (hact : ∀ s ∈ activeTexts true infos, WireText s)
    (hdates : ∀ d ∈ dt.all, Ofx.DateTime.dtUtcMs d) (hdtc : Ofx.DateTime.dtUtcMs x.dtclient)
    (huuid : ∀ i j, x.uuid i = x.uuid j → i = j) (hne : ∀ i, x.uuid i ≠ []) (huP : ∀ i, WireText (x.uuid i))
    (hn1 : Ofx.Header.UidOk genEnv.p1.newLen (some (x.uuid plan.requests.length)))
    (hn2 : Ofx.Header.UidOk genEnv.p2.newLen (some (x.uuid plan.requests.length)))
    {text : Str} (h : stmtendBytes Ofx.Generated.schema Types.conv (envOf genEnv) (cli :: rest) x = .ok text) :
    ∃ reqs file hdr root, toReqs plan.requests = .ok reqs ∧
      (reqs.map reqKey).Perm ((specActive true infos).map some) ∧
      Ofx.Codec.encode genEnv.cp1252 .utf8 text = .ok file ∧
      Ofx.Pipeline.readFile genEnv file = .ok (hdr, root) ∧
      hdrVersion hdr = Int.ofNat cfg.version ∧
      RequestSpec Ofx.Generated.schema cfg pw x.dtclient reqs (hdrVersion hdr) root := by
  obtain ⟨pw', plan', cfg', nonew, reqs, hpw', hplan', hcfg', _, hreqs, hb⟩ := stmtendBytes_ok (cli :: rest) x h
  rw [hplan] at hplan'; injection hplan' with hplan'; subst hplan'
  rw [hcfg] at hcfg'; injection hcfg' with hcfg'; subst hcfg'
  rw [hpw] at hpw'; injection hpw' with hpw'; subst hpw'
  have hplan2 := hplan
  rw [hacct] at hplan2
  have hperm := C19_all_active_stmtend dateConvert cli rest infos plan v hall ht hcli hv hg hplan2
  obtain ⟨dt', hdt', hrqs, _⟩ := requestStmtend_client dateConvert (cli :: rest) x.acct plan hplan
  rw [hdt] at hdt'; injection hdt' with hdt'; subst hdt'
  have hk : (reqs.map reqKey).Perm ((specActive true infos).map some) := by
    rw [toReqs_keys plan.requests reqs hreqs]
    have := hperm.map some
    rw [List.map_map] at this
    exact this
  obtain ⟨file, hdr, root, h1, h2, h3, h4⟩ := requestBytes_readback cfg pw reqs _ x.uuid x.dtclient hclose htexts hpwW
    (reqs_texts_of_perm true infos plan.requests reqs hperm hreqs WireText hact)
    (plan_dates dt plan.requests reqs (stmtendRequests_dates dt plan.args plan.requests hrqs) hreqs hdates)
    hdtc huuid hne huP (by rw [toReqs_length _ _ hreqs]; exact hn1) (by rw [toReqs_length _ _ hreqs]; exact hn2) hb
  exact ⟨reqs, file, hdr, root, hreqs, hk, h1, h2, h3, h4⟩

end Ofx.Gen
