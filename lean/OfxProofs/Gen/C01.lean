/-
C01 instantiated: the whole-file round trip for the schema generated from /repo's model classes, the
modelled element converters (`Ofx.Types.conv`) and the generated header tables.  Every premise of the generic
theorem that is about the *code's data* is discharged here by kernel evaluation over `Generated/*`; what
remains is the validity of the instance (`Valid`, with values in `typesDomWire`).
-/
import OfxProofs.Props.C01File
import OfxProofs.Lemmas.ConvLawsWire
import OfxProofs.Gen.WF
import OfxProofs.Gen.Header
import OfxModel.Drv.Pipeline

namespace Ofx.Gen
open Ofx Ofx.Agg Ofx.Pipeline Ofx.Header Ofx.Generated Ofx.Types Ofx.Spec.Wire

/-- the environment the driver (and the correspondence) runs: generated schema, converters, tables -/
abbrev genEnv : Env := Ofx.Drv.Pipeline.env

theorem gen_tagWF : ∀ ci c, genEnv.S.cls? ci = some c → c.abstract = false → TagWF genEnv.htmlEmpty c := by
  intro ci c hc ha
  have hmem : c ∈ schema.classes := List.mem_of_getElem? hc
  have := (List.all_eq_true.mp schema_tagWF) c hmem
  rw [ha, Bool.false_or] at this
  exact tagWFb_tagWF _ c this

/-- **C01 for the generated schema, closed forms.** -/
theorem C01_generated_closed (v : Nat) (old new : Option Str)
    (ho1 : UidOk genEnv.p1.oldLen old) (hn1 : UidOk genEnv.p1.newLen new)
    (ho2 : UidOk genEnv.p2.oldLen old) (hn2 : UidOk genEnv.p2.newLen new)
    (pretty : Bool) (i : Node)
    (hv : Valid genEnv.S genEnv.cv escapeCdata (Ofx.Types.typesDomWire genEnv.S.enums) i) (hdr : Hdr)
    (hmk : makeHeader genEnv.p1 genEnv.p2 (.int v) none old new = .ok hdr) :
    ∃ file, writeFile genEnv v old new pretty true i = .ok file ∧ readFile genEnv file = .ok (hdr, i) :=
  C01_file_roundtrip_closed genEnv _ (Ofx.Types.typesConv_laws_wire _) (Ofx.Types.typesConv_textOk _)
    gen_tagWF header_wf.1 header_wf.2 v old new ho1 hn1 ho2 hn2 pretty i hv hdr hmk

/-- **C01 for the generated schema, unclosed SGML form** (no childless aggregate in the written tree). -/
theorem C01_generated_unclosed_partial (v : Nat) (old new : Option Str)
    (ho1 : UidOk genEnv.p1.oldLen old) (hn1 : UidOk genEnv.p1.newLen new)
    (ho2 : UidOk genEnv.p2.oldLen old) (hn2 : UidOk genEnv.p2.newLen new)
    (pretty : Bool) (i : Node)
    (hv : Valid genEnv.S genEnv.cv escapeCdata (Ofx.Types.typesDomWire genEnv.S.enums) i) (hdr : Hdr)
    (hmk : makeHeader genEnv.p1 genEnv.p2 (.int v) none old new = .ok hdr) (hv200 : v < 200)
    (hguard : ∀ t, toEtree genEnv.S genEnv.cv i = .ok t → Serialize.unclosedGuard t = true) :
    ∃ file, writeFile genEnv v old new pretty false i = .ok file ∧ readFile genEnv file = .ok (hdr, i) :=
  C01_file_roundtrip_unclosed_partial genEnv _ (Ofx.Types.typesConv_laws_wire _)
    (Ofx.Types.typesConv_textOk _) gen_tagWF header_wf.1 header_wf.2 v old new ho1 hn1 ho2 hn2 pretty i hv hdr
    hmk hv200 hguard

theorem uid1o : UidOk genEnv.p1.oldLen none := by
  intro n hn
  have : genEnv.p1.oldLen = some 36 := by decide +kernel
  rw [this] at hn; injection hn with hn; omega
theorem uid1n : UidOk genEnv.p1.newLen none := by
  intro n hn
  have : genEnv.p1.newLen = some 36 := by decide +kernel
  rw [this] at hn; injection hn with hn; omega
theorem uid2o : UidOk genEnv.p2.oldLen none := by
  intro n hn
  have : genEnv.p2.oldLen = some 36 := by decide +kernel
  rw [this] at hn; injection hn with hn; omega
theorem uid2n : UidOk genEnv.p2.newLen none := by
  intro n hn
  have : genEnv.p2.newLen = some 36 := by decide +kernel
  rw [this] at hn; injection hn with hn; omega

end Ofx.Gen
