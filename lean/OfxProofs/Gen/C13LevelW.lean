/-
Non-vacuity of the generic constructibility theorem (`Props/C13Level.lean: C13_constructible_levels`) on the REAL
schema: the one-level obligation `ConstructibleLevels` holds of the schema generated from /repo (tables in
`Gen/C13LevelT*.lean`), so the generic induction yields, for every concrete exported class and every supported
declared child, that the description exists, the constructors accept it, and the instance holds the child and satisfies
every constraint of its class all the way down — the same facts `Gen.C13_generated_constructible` reads off the full
table, here obtained from one constructor call per description.  (A witness module: the statement it proves about the
generated schema is subsumed by `Gen.C13_generated_constructible`.)
-/
import OfxProofs.Gen.C13LevelT1
import OfxProofs.Gen.C13LevelT2
import OfxProofs.Gen.C13LevelT3
import OfxProofs.Gen.C13LevelT4
import OfxProofs.Gen.C04Ext

namespace Ofx.Gen
open Ofx Ofx.Agg Ofx.Generated Ofx.Spec.Witness

def c13LevelCover : List (Nat × Nat) :=
  [(0, 19), (19, 9), (28, 5), (33, 1), (34, 12), (46, 10), (56, 14), (70, 11), (81, 12), (93, 23), (116, 6), (122, 11), (133, 10), (143, 8), (151, 4), (155, 5), (160, 5), (165, 7), (172, 17), (189, 3), (192, 6), (198, 18), (216, 17), (233, 12), (245, 10), (255, 8), (263, 6), (269, 7), (276, 9), (285, 7), (292, 6), (298, 13), (311, 11), (322, 8), (330, 9), (339, 10), (349, 10), (359, 1), (360, 1), (361, 5), (366, 3), (369, 3), (372, 11), (383, 11), (394, schema.classes.length - 394)]

/-- **the generated schema satisfies the one-level obligation** -/
theorem schema_constructible_levels : ConstructibleLevels schema Types.conv defaultFuel c13LevelCover := by
  refine ⟨by decide +kernel, ?_⟩
  exact List.forall_mem_cons.mpr ⟨C13LevelTable.lvl_0, List.forall_mem_cons.mpr ⟨C13LevelTable.lvl_1, List.forall_mem_cons.mpr ⟨C13LevelTable.lvl_2, List.forall_mem_cons.mpr ⟨C13LevelTable.lvl_3, List.forall_mem_cons.mpr ⟨C13LevelTable.lvl_4, List.forall_mem_cons.mpr ⟨C13LevelTable.lvl_5, List.forall_mem_cons.mpr ⟨C13LevelTable.lvl_6, List.forall_mem_cons.mpr ⟨C13LevelTable.lvl_7, List.forall_mem_cons.mpr ⟨C13LevelTable.lvl_8, List.forall_mem_cons.mpr ⟨C13LevelTable.lvl_9, List.forall_mem_cons.mpr ⟨C13LevelTable.lvl_10, List.forall_mem_cons.mpr ⟨C13LevelTable.lvl_11, List.forall_mem_cons.mpr ⟨C13LevelTable.lvl_12, List.forall_mem_cons.mpr ⟨C13LevelTable.lvl_13, List.forall_mem_cons.mpr ⟨C13LevelTable.lvl_14, List.forall_mem_cons.mpr ⟨C13LevelTable.lvl_15, List.forall_mem_cons.mpr ⟨C13LevelTable.lvl_16, List.forall_mem_cons.mpr ⟨C13LevelTable.lvl_17, List.forall_mem_cons.mpr ⟨C13LevelTable.lvl_18, List.forall_mem_cons.mpr ⟨C13LevelTable.lvl_19, List.forall_mem_cons.mpr ⟨C13LevelTable.lvl_20, List.forall_mem_cons.mpr ⟨C13LevelTable.lvl_21, List.forall_mem_cons.mpr ⟨C13LevelTable.lvl_22, List.forall_mem_cons.mpr ⟨C13LevelTable.lvl_23, List.forall_mem_cons.mpr ⟨C13LevelTable.lvl_24, List.forall_mem_cons.mpr ⟨C13LevelTable.lvl_25, List.forall_mem_cons.mpr ⟨C13LevelTable.lvl_26, List.forall_mem_cons.mpr ⟨C13LevelTable.lvl_27, List.forall_mem_cons.mpr ⟨C13LevelTable.lvl_28, List.forall_mem_cons.mpr ⟨C13LevelTable.lvl_29, List.forall_mem_cons.mpr ⟨C13LevelTable.lvl_30, List.forall_mem_cons.mpr ⟨C13LevelTable.lvl_31, List.forall_mem_cons.mpr ⟨C13LevelTable.lvl_32, List.forall_mem_cons.mpr ⟨C13LevelTable.lvl_33, List.forall_mem_cons.mpr ⟨C13LevelTable.lvl_34, List.forall_mem_cons.mpr ⟨C13LevelTable.lvl_35, List.forall_mem_cons.mpr ⟨C13LevelTable.lvl_36, List.forall_mem_cons.mpr ⟨C13LevelTable.lvl_37, List.forall_mem_cons.mpr ⟨C13LevelTable.lvl_38, List.forall_mem_cons.mpr ⟨C13LevelTable.lvl_39, List.forall_mem_cons.mpr ⟨C13LevelTable.lvl_40, List.forall_mem_cons.mpr ⟨C13LevelTable.lvl_41, List.forall_mem_cons.mpr ⟨C13LevelTable.lvl_42, List.forall_mem_cons.mpr ⟨C13LevelTable.lvl_43, List.forall_mem_cons.mpr ⟨C13LevelTable.lvl_44, fun _ h => nomatch h⟩⟩⟩⟩⟩⟩⟩⟩⟩⟩⟩⟩⟩⟩⟩⟩⟩⟩⟩⟩⟩⟩⟩⟩⟩⟩⟩⟩⟩⟩⟩⟩⟩⟩⟩⟩⟩⟩⟩⟩⟩⟩⟩⟩⟩

/-- **C13 for the generated schema, generic route: every declared child can be built.** -/
theorem C13_generated_constructible_levels (ci : Nat) (c : Cls) (a : Attr) (hc : schema.cls? ci = some c)
    (hab : c.abstract = false) (hex : c.exported = true) (ha : a ∈ c.spec) (hs : a.kind.isUnsupported = false) :
    ∃ d fields items,
      mkWith schema defaultFuel ci a = some d ∧
      build schema Types.conv d = .ok (.agg ci fields items) ∧
      holds a (.agg ci fields items) = true ∧
      ValidFull schema (.agg ci fields items) :=
  C13_constructible_levels schema schema_ok defaultFuel c13LevelCover schema_constructible_levels ci c a hc hab hex ha hs

end Ofx.Gen
