/-
Well-formedness of the generated schema (C13, and the `WF` premises of the generic theorems),
by kernel evaluation.  Re-checked whenever `Generated/Schema.lean` changes.

`knownFailures` is the list of (class, clause) pairs recorded as known findings in
/verif/known_findings.json; every other class satisfies every clause.
-/
import OfxModel.Ofx.WF
import OfxModel.Generated.Schema
import OfxModel.Generated.Tables
import OfxProofs.Lemmas.WFBridge
import OfxProofs.Lemmas.Written

namespace Ofx.Gen
open Ofx Ofx.WF Ofx.Generated

/-- tags `ET.tostring(method="html")` treats specially -/
def specialTags : List Str := htmlEmpty ++ ["script".toList, "style".toList]

/-- (class name, failing clause) pairs that are recorded known findings -/
def knownFailures : List (String × String) :=
  [("TAX1099DIV_V100", "mutex"), ("TAX1099INT_V100", "mutex"), ("TAX1099INT_V100", "listBlock"),
   ("TAX1099MISC_V100", "mutex")]

def failureReport : List (String × String) :=
  (List.range schema.classes.length).flatMap fun i =>
    match schema.classes[i]? with
    | some c => (failing schema specialTags i c).map (fun f => (String.ofList c.name, f))
    | none => []

/-- every clause holds of every class, except the recorded findings -/
theorem schema_wf_except_known : failureReport.all (fun f => knownFailures.contains f) = true := by
  decide +kernel

theorem schema_enums_ok : enumsOk schema = true := by decide +kernel

/-- class names are strictly increasing, hence pairwise distinct (lookup by tag is unambiguous) -/
theorem schema_names_sorted : namesSorted (schema.classes.map (·.name)) = true := by decide +kernel

/-- classes for which the round-trip premises fail: the recorded known finding (list block interleaved), and
    the abstract base class `ElementList` itself, which declares no list element (it has no instances) -/
def roundTripExceptions : List Str :=
  [['T','A','X','1','0','9','9','I','N','T','_','V','1','0','0'],
   ['E','l','e','m','e','n','t','L','i','s','t']]

/-- every other class satisfies the decidable premises of the aggregate round-trip theorem -/
theorem schema_roundTripOk :
    schema.classes.all (fun c => roundTripExceptions.contains c.name || roundTripOk schema c) = true := by
  decide +kernel

/-- … hence the propositional premises `Agg.ClsWF` -/
theorem schema_clsWF (c : Cls) (hc : c ∈ schema.classes) (hx : c.name ∉ roundTripExceptions) :
    Agg.ClsWF schema c := by
  have := (List.all_eq_true.mp schema_roundTripOk) c hc
  have hx' : roundTripExceptions.contains c.name = false := by simpa using hx
  rw [hx', Bool.false_or] at this
  exact roundTripOk_clsWF schema c this

/-- every class's rename hooks (`groom` / `ungroom`) are absent or an inverse pair around a data element -/
theorem schema_groomOk : schema.classes.all groomOkB = true := by decide +kernel

theorem gen_groomOk (c : Cls) (hc : c ∈ schema.classes) : Agg.GroomOk c :=
  groomOkB_groomOk c ((List.all_eq_true.mp schema_groomOk) c hc)

/-- class names and upper-cased attribute names of every concrete class are legal tags that
    `ET.tostring(method="html")` does not treat specially, and no element attribute upper-cases into its own
    class's name (premise `TagWF` of the end-to-end theorem) -/
theorem schema_tagWF :
    schema.classes.all (fun c => c.abstract || Ofx.Pipeline.tagWFb htmlEmpty c) = true := by decide +kernel

end Ofx.Gen
