/-
One-level constructibility table for the generated schema, part 2 (see Gen/C13LevelW.lean): `levelRange` closed by
kernel evaluation, one range of class indices per theorem.
-/
import OfxProofs.Props.C13Level
import OfxModel.Generated.Schema
import OfxModel.Ofx.Types

namespace Ofx.Gen.C13LevelTable
open Ofx Ofx.Agg Ofx.Generated Ofx.Spec.Witness

theorem lvl_12 : levelRange schema Types.conv defaultFuel 133 10 = true := by decide +kernel
theorem lvl_13 : levelRange schema Types.conv defaultFuel 143 8 = true := by decide +kernel
theorem lvl_14 : levelRange schema Types.conv defaultFuel 151 4 = true := by decide +kernel
theorem lvl_15 : levelRange schema Types.conv defaultFuel 155 5 = true := by decide +kernel
theorem lvl_16 : levelRange schema Types.conv defaultFuel 160 5 = true := by decide +kernel
theorem lvl_17 : levelRange schema Types.conv defaultFuel 165 7 = true := by decide +kernel
theorem lvl_18 : levelRange schema Types.conv defaultFuel 172 17 = true := by decide +kernel
theorem lvl_19 : levelRange schema Types.conv defaultFuel 189 3 = true := by decide +kernel
theorem lvl_20 : levelRange schema Types.conv defaultFuel 192 6 = true := by decide +kernel
theorem lvl_21 : levelRange schema Types.conv defaultFuel 198 18 = true := by decide +kernel
theorem lvl_22 : levelRange schema Types.conv defaultFuel 216 17 = true := by decide +kernel
theorem lvl_23 : levelRange schema Types.conv defaultFuel 233 12 = true := by decide +kernel

end Ofx.Gen.C13LevelTable
