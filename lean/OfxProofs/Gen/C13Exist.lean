/-
C13 constructibility for the schema generated from /repo's model classes and the real converters.

`schema_constructible` assembles the kernel-evaluated tables of `Gen/C13ExistT*.lean` (one theorem per range of class
indices) into the decidable obligation `Constructible`; `C13_generated_constructible` is the resulting statement:
**every** supported child declared by **every** concrete exported class has a description that the constructors
accept, and the instance holds the child, satisfies every constraint of its class all the way down, is written with the
child under its tag and is read back unchanged.  No class is excepted: the recorded C13 findings of the pinned tree
(`TAX1099*_V100` exclusivity groups naming a repeated child; `TAX1099INT_V100` list block interleaved) concern
instances holding *two* particular children, not the constructibility of any single child.

`C13_generated_child_written_under_tag`: the three classes whose writer renames a child (`MAIL`, `MFINFO`,
`STOCKINFO`) write it under the renamed tag and read it back, for every valid instance.
-/
import OfxProofs.Gen.C13ExistT1
import OfxProofs.Gen.C13ExistT2
import OfxProofs.Gen.C13ExistT3
import OfxProofs.Gen.C13ExistT4
import OfxProofs.Gen.C13ExistT5
import OfxProofs.Props.C13Exist
import OfxProofs.Gen.C04Ext
import OfxProofs.Gen.C13

namespace Ofx.Gen
open Ofx Ofx.Agg Ofx.Generated Ofx.Types Ofx.Spec.Wire Ofx.Spec.Witness

/-- the ranges of class indices of the table theorems (the last one runs to the end of the class list) -/
def c13Cover : List (Nat × Nat) :=
  [(0, 11), (11, 12), (23, 5), (28, 4), (32, 1), (33, 1), (34, 10), (44, 6), (50, 10), (60, 9), (69, 6), (75, 8), (83, 7), (90, 18), (108, 8), (116, 4), (120, 7), (127, 6), (133, 8), (141, 3), (144, 8), (152, 2), (154, 1), (155, 2), (157, 5), (162, 3), (165, 1), (166, 11), (177, 13), (190, 2), (192, 3), (195, 7), (202, 12), (214, 13), (227, 10), (237, 8), (245, 4), (249, 7), (256, 7), (263, 1), (264, 8), (272, 4), (276, 7), (283, 6), (289, 3), (292, 4), (296, 3), (299, 14), (313, 5), (318, 7), (325, 4), (329, 7), (336, 4), (340, 8), (348, 10), (358, 1), (359, 1), (360, 1), (361, 1), (362, 6), (368, 1), (369, 1), (370, 12), (382, 3), (385, 7), (392, schema.classes.length - 392)]

/-- **the generated schema is constructible**: the table is closed on every range and the ranges cover every class -/
theorem schema_constructible : Constructible schema Types.conv escapeCdata defaultFuel c13Cover := by
  refine ⟨by decide +kernel, ?_⟩
  exact List.forall_mem_cons.mpr ⟨C13Table.tbl_0, List.forall_mem_cons.mpr ⟨C13Table.tbl_1, List.forall_mem_cons.mpr ⟨C13Table.tbl_2, List.forall_mem_cons.mpr ⟨C13Table.tbl_3, List.forall_mem_cons.mpr ⟨C13Table.tbl_4, List.forall_mem_cons.mpr ⟨C13Table.tbl_5, List.forall_mem_cons.mpr ⟨C13Table.tbl_6, List.forall_mem_cons.mpr ⟨C13Table.tbl_7, List.forall_mem_cons.mpr ⟨C13Table.tbl_8, List.forall_mem_cons.mpr ⟨C13Table.tbl_9, List.forall_mem_cons.mpr ⟨C13Table.tbl_10, List.forall_mem_cons.mpr ⟨C13Table.tbl_11, List.forall_mem_cons.mpr ⟨C13Table.tbl_12, List.forall_mem_cons.mpr ⟨C13Table.tbl_13, List.forall_mem_cons.mpr ⟨C13Table.tbl_14, List.forall_mem_cons.mpr ⟨C13Table.tbl_15, List.forall_mem_cons.mpr ⟨C13Table.tbl_16, List.forall_mem_cons.mpr ⟨C13Table.tbl_17, List.forall_mem_cons.mpr ⟨C13Table.tbl_18, List.forall_mem_cons.mpr ⟨C13Table.tbl_19, List.forall_mem_cons.mpr ⟨C13Table.tbl_20, List.forall_mem_cons.mpr ⟨C13Table.tbl_21, List.forall_mem_cons.mpr ⟨C13Table.tbl_22, List.forall_mem_cons.mpr ⟨C13Table.tbl_23, List.forall_mem_cons.mpr ⟨C13Table.tbl_24, List.forall_mem_cons.mpr ⟨C13Table.tbl_25, List.forall_mem_cons.mpr ⟨C13Table.tbl_26, List.forall_mem_cons.mpr ⟨C13Table.tbl_27, List.forall_mem_cons.mpr ⟨C13Table.tbl_28, List.forall_mem_cons.mpr ⟨C13Table.tbl_29, List.forall_mem_cons.mpr ⟨C13Table.tbl_30, List.forall_mem_cons.mpr ⟨C13Table.tbl_31, List.forall_mem_cons.mpr ⟨C13Table.tbl_32, List.forall_mem_cons.mpr ⟨C13Table.tbl_33, List.forall_mem_cons.mpr ⟨C13Table.tbl_34, List.forall_mem_cons.mpr ⟨C13Table.tbl_35, List.forall_mem_cons.mpr ⟨C13Table.tbl_36, List.forall_mem_cons.mpr ⟨C13Table.tbl_37, List.forall_mem_cons.mpr ⟨C13Table.tbl_38, List.forall_mem_cons.mpr ⟨C13Table.tbl_39, List.forall_mem_cons.mpr ⟨C13Table.tbl_40, List.forall_mem_cons.mpr ⟨C13Table.tbl_41, List.forall_mem_cons.mpr ⟨C13Table.tbl_42, List.forall_mem_cons.mpr ⟨C13Table.tbl_43, List.forall_mem_cons.mpr ⟨C13Table.tbl_44, List.forall_mem_cons.mpr ⟨C13Table.tbl_45, List.forall_mem_cons.mpr ⟨C13Table.tbl_46, List.forall_mem_cons.mpr ⟨C13Table.tbl_47, List.forall_mem_cons.mpr ⟨C13Table.tbl_48, List.forall_mem_cons.mpr ⟨C13Table.tbl_49, List.forall_mem_cons.mpr ⟨C13Table.tbl_50, List.forall_mem_cons.mpr ⟨C13Table.tbl_51, List.forall_mem_cons.mpr ⟨C13Table.tbl_52, List.forall_mem_cons.mpr ⟨C13Table.tbl_53, List.forall_mem_cons.mpr ⟨C13Table.tbl_54, List.forall_mem_cons.mpr ⟨C13Table.tbl_55, List.forall_mem_cons.mpr ⟨C13Table.tbl_56, List.forall_mem_cons.mpr ⟨C13Table.tbl_57, List.forall_mem_cons.mpr ⟨C13Table.tbl_58, List.forall_mem_cons.mpr ⟨C13Table.tbl_59, List.forall_mem_cons.mpr ⟨C13Table.tbl_60, List.forall_mem_cons.mpr ⟨C13Table.tbl_61, List.forall_mem_cons.mpr ⟨C13Table.tbl_62, List.forall_mem_cons.mpr ⟨C13Table.tbl_63, List.forall_mem_cons.mpr ⟨C13Table.tbl_64, List.forall_mem_cons.mpr ⟨C13Table.tbl_65, fun _ h => nomatch h⟩⟩⟩⟩⟩⟩⟩⟩⟩⟩⟩⟩⟩⟩⟩⟩⟩⟩⟩⟩⟩⟩⟩⟩⟩⟩⟩⟩⟩⟩⟩⟩⟩⟩⟩⟩⟩⟩⟩⟩⟩⟩⟩⟩⟩⟩⟩⟩⟩⟩⟩⟩⟩⟩⟩⟩⟩⟩⟩⟩⟩⟩⟩⟩⟩⟩

/-- **C13 for the generated schema: every declared child can be built, written under its tag and read back.** -/
theorem C13_generated_constructible (ci : Nat) (c : Cls) (a : Attr) (hc : schema.cls? ci = some c)
    (hab : c.abstract = false) (hex : c.exported = true) (ha : a ∈ c.spec) (hs : a.kind.isUnsupported = false) :
    ∃ d fields items,
      mkWith schema defaultFuel ci a = some d ∧
      build schema Types.conv d = .ok (.agg ci fields items) ∧
      holds a (.agg ci fields items) = true ∧
      ValidFull schema (.agg ci fields items) ∧
      ∃ x tl children,
        toEtree schema Types.conv (.agg ci fields items) = .ok (.node c.name x tl children) ∧
        (∃ ch ∈ children, ch.tag = wireTag c a) ∧
        fromEtree schema Types.conv (mapText escapeCdata (.node c.name x tl children)) = .ok (.agg ci fields items) :=
  C13_constructible schema schema_ok escapeCdata defaultFuel c13Cover schema_constructible ci c a hc hab hex ha hs

/-- the tag a child is written under is its own upper-cased name, except for the renamed child of the `ungroom`
    classes, which goes under the renamed tag -/
theorem wireTag_plain (c : Cls) (a : Attr) (h : c.ungroom = none) : wireTag c a = upper a.name := by
  simp [wireTag, h]

/-- the upper-cased name of the attribute behind a rename is the renamed-from tag, in every generated class -/
theorem schema_ungroom_upper : schema.classes.all (fun c =>
    match c.ungroom with
    | some u => decide (upper (lower u.fromTag) = u.fromTag)
    | none => true) = true := by decide +kernel

/-- **C13 for the generated schema: a renamed child is written under its tag and read back** (`MAIL.frm` as
    `<FROM>`, `MFINFO.yld` / `STOCKINFO.yld` as `<YIELD>`). -/
theorem C13_generated_child_written_under_tag (ci : Nat) (fields : List (Str × Node)) (items : List Node)
    (hv : Valid genEnv.S genEnv.cv escapeCdata (typesDomWire genEnv.S.enums) (.agg ci fields items))
    (c : Cls) (hc : genEnv.S.cls? ci = some c) (u : Rename) (hu : c.ungroom = some u)
    (x : Val) (hx : lookup (lower u.fromTag) fields = some (.val x)) (hxn : x ≠ .none) :
    ∃ tx tl children, toEtree genEnv.S genEnv.cv (.agg ci fields items) = .ok (.node c.name tx tl children) ∧
      fromEtree genEnv.S genEnv.cv (mapText escapeCdata (.node c.name tx tl children)) = .ok (.agg ci fields items) ∧
      ∃ ch ∈ children, ch.tag = u.toTag := by
  have hmem : c ∈ schema.classes := List.mem_of_getElem? hc
  have hup := (List.all_eq_true.mp schema_ungroom_upper) c hmem
  simp only [hu, decide_eq_true_eq] at hup
  exact C13_child_written_under_tag genEnv.S genEnv.cv escapeCdata _ (typesConv_laws_wire _) ci fields items hv c hc u hu
    hup x hx hxn

end Ofx.Gen
