/-
C13 instantiated for the generated schema and the modelled converters.
-/
import OfxProofs.Props.C13
import OfxProofs.Gen.C03

namespace Ofx.Gen
open Ofx Ofx.Agg Ofx.Generated Ofx.Types Ofx.Spec.Wire

/-- **C13 for the generated schema: a held child is written under its tag and read back.** -/
theorem C13_generated_child (ci : Nat) (fields : List (Str × Node)) (items : List Node)
    (hv : Valid genEnv.S genEnv.cv escapeCdata (typesDomWire genEnv.S.enums) (.agg ci fields items))
    (hplain : ∀ c, genEnv.S.cls? ci = some c → c.groom = none)
    (n : Str) (w : Node) (hm : (n, w) ∈ fields) (hw : w ≠ .val .none) :
    ∃ tag x tl children, toEtree genEnv.S genEnv.cv (.agg ci fields items) = .ok (.node tag x tl children) ∧
      fromEtree genEnv.S genEnv.cv (mapText escapeCdata (.node tag x tl children)) = .ok (.agg ci fields items) ∧
      ∃ ch ∈ children, lower ch.tag = n ∧ '.' ∉ ch.tag :=
  C13_child_written_and_read genEnv.S genEnv.cv escapeCdata _ (typesConv_laws_wire _)
    (typesConv_none genEnv.S.enums) ci fields items hv hplain n w hm hw

/-- **C13 for the generated schema: a repeated member is written under a repeated attribute's tag and read back.** -/
theorem C13_generated_member (ci : Nat) (fields : List (Str × Node)) (items : List Node)
    (hv : Valid genEnv.S genEnv.cv escapeCdata (typesDomWire genEnv.S.enums) (.agg ci fields items))
    (hplain : ∀ c, genEnv.S.cls? ci = some c → c.groom = none) (m : Node) (hm : m ∈ items) :
    ∃ c tag x tl children, genEnv.S.cls? ci = some c ∧
      toEtree genEnv.S genEnv.cv (.agg ci fields items) = .ok (.node tag x tl children) ∧
      fromEtree genEnv.S genEnv.cv (mapText escapeCdata (.node tag x tl children)) = .ok (.agg ci fields items) ∧
      ∃ ch ∈ children, isListMember c (lower ch.tag) = true ∧ '.' ∉ ch.tag :=
  C13_member_written_and_read genEnv.S genEnv.cv escapeCdata _ (typesConv_laws_wire _) ci fields items hv hplain m hm

end Ofx.Gen
