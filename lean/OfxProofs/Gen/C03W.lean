/-
Non-vacuity witness for C03: a concrete document of the generated schema that the reader accepts (class-specific; see
Gen/C01W.lean for why it is a separate module).
-/
import OfxProofs.Gen.C03

namespace Ofx.Gen
open Ofx Ofx.Agg Ofx.Generated Ofx.Types

/-! ### non-vacuity: a concrete document of the generated schema that the reader accepts -/

def exStatusDoc : Tree :=
  .node "STATUS".toList none none
    [.node "CODE".toList (some "0012".toList) none [], .node "SEVERITY".toList (some "INFO".toList) none []]

/-- the reader accepts it and the instance holds `code = 12` (text `0012`) and `severity = "INFO"` -/
def acceptedWithCode12 : PyM Node → Bool
  | .ok (.agg ci fields []) =>
    (ci == ByName.idx_STATUS) &&
    (match lookup "code".toList fields with | some (.val (.int 12)) => true | _ => false) &&
    (match lookup "severity".toList fields with | some (.val (.str s)) => s == "INFO".toList | _ => false)
  | _ => false

theorem exStatusDoc_accepted : acceptedWithCode12 (fromEtree schema Types.conv exStatusDoc) = true := by
  decide +kernel

end Ofx.Gen
