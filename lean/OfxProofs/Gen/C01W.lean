/-
Non-vacuity witnesses for C01 (and, through them, C13): concrete instances of the generated schema that satisfy
`Valid`, and the end-to-end theorem instantiated on them.  These depend on what particular classes look like today
(STATUS, TAX1099RQ, MAIL); if a class changes they may stop checking although every theorem still holds — the
framework builds this module separately and reports its failure as a note, not as a broken obligation.
-/
import OfxProofs.Gen.C01

namespace Ofx.Gen
open Ofx Ofx.Agg Ofx.Pipeline Ofx.Header Ofx.Generated Ofx.Types Ofx.Spec.Wire

/-! ### non-vacuity: a concrete valid instance of the generated schema -/

/-- STATUS(code=0, severity="INFO") as a model instance of the generated schema -/
def exStatus : Node :=
  .agg ByName.idx_STATUS [("code".toList, .val (.int 0)), ("severity".toList, .val (.str "INFO".toList)),
            ("message".toList, .val .none)] []

def statusCls : Cls := ByName.cls_STATUS

theorem status_cls : schema.cls? ByName.idx_STATUS = some statusCls := by rfl

theorem status_fm : FieldsMatch (FieldOk (typesDomWire genEnv.S.enums)) (specNoList statusCls)
    [("code".toList, .val (.int 0)), ("severity".toList, .val (.str "INFO".toList)),
     ("message".toList, .val .none)] := by
  have hspec : specNoList statusCls =
      [⟨"code".toList, .integer (some 6), true⟩, ⟨"severity".toList, .oneOf 42, true⟩,
       ⟨"message".toList, .string (some 255) true, false⟩] := by decide +kernel
  rw [hspec]
  refine .field _ _ _ _ rfl ?_ (.field _ _ _ _ rfl ?_ (.field _ _ _ _ rfl ?_ .nil))
  · unfold FieldOk
    simp only [Kind.subTarget]
    refine ⟨.int 0, rfl, ?_, fun _ => ⟨0, rfl, by decide⟩⟩
    intro h; cases h
  · unfold FieldOk
    simp only [Kind.subTarget]
    refine ⟨.str "INFO".toList, rfl, ?_, fun _ => ⟨⟨_, _, rfl, rfl, ?_, by decide, by decide⟩, ?_⟩⟩
    · intro h; cases h
    · decide +kernel
    · intro s hs; injection hs with hs; subst hs; decide
  · unfold FieldOk
    simp only [Kind.subTarget]
    exact ⟨.none, rfl, fun _ => trivial, fun h => absurd rfl h⟩

theorem exStatus_valid :
    Valid genEnv.S genEnv.cv escapeCdata (typesDomWire genEnv.S.enums) exStatus := by
  refine ⟨⟨statusCls, ?_⟩, ?_, ?_⟩
  · constructor
    · exact status_cls
    · rfl
    · decide +kernel
    · exact schema_clsWF statusCls (List.mem_of_getElem? status_cls) (by decide +kernel)
    · exact Or.inl ⟨rfl, rfl⟩
    · exact status_fm
    · intro _ m hm; cases hm
    · intro h; exact absurd h (by decide +kernel)
    · intro _; rfl
    · rfl
  · simp [ValidFields, Node.isAgg]
  · simp [ValidItems]

/-! ### … and a valid instance of an `ElementList` class: TAX1099RQ(2019, 2020) -/

def exTaxRq : Node :=
  .agg ByName.idx_TAX1099RQ [("acctnum".toList, .val .none), ("recid".toList, .val .none)] [.val (.int 2019), .val (.int 2020)]

def taxRqCls : Cls := ByName.cls_TAX1099RQ

theorem taxRq_cls : schema.cls? ByName.idx_TAX1099RQ = some taxRqCls := by rfl

theorem exTaxRq_valid :
    Valid genEnv.S genEnv.cv escapeCdata (typesDomWire genEnv.S.enums) exTaxRq := by
  have hspec : taxRqCls.spec =
      [⟨"acctnum".toList, .string (some 32) true, false⟩, ⟨"recid".toList, .string (some 32) true, false⟩,
       ⟨"taxyear".toList, .listElem (.integer (some 4)) false, false⟩] := by decide +kernel
  have hel : taxRqCls.elementList = true := by decide +kernel
  refine ⟨⟨taxRqCls, ?_⟩, ?_, ?_⟩
  · constructor
    · exact taxRq_cls
    · decide +kernel
    · decide +kernel
    · exact schema_clsWF taxRqCls (List.mem_of_getElem? taxRq_cls) (by decide +kernel)
    · exact Or.inl ⟨rfl, rfl⟩
    · have hs : specNoList taxRqCls =
          [⟨"acctnum".toList, .string (some 32) true, false⟩, ⟨"recid".toList, .string (some 32) true, false⟩] := by
        simp [specNoList, hspec, Kind.isList]
      rw [hs]
      refine .field _ _ _ _ rfl ?_ (.field _ _ _ _ rfl ?_ .nil)
      · unfold FieldOk
        simp only [Kind.subTarget]
        exact ⟨.none, rfl, fun _ => trivial, fun h => absurd rfl h⟩
      · unfold FieldOk
        simp only [Kind.subTarget]
        exact ⟨.none, rfl, fun _ => trivial, fun h => absurd rfl h⟩
    · intro h; rw [hel] at h; cases h
    · intro _ a ha inner ireq hk m hm
      rw [hspec] at ha
      simp only [List.mem_cons, List.not_mem_nil, or_false] at ha
      rcases ha with rfl | rfl | rfl
      · cases hk
      · cases hk
      · injection hk with hk1 hk2; subst hk1; subst hk2
        simp only [List.mem_cons, List.not_mem_nil, or_false] at hm
        rcases hm with rfl | rfl
        · exact ⟨.int 2019, rfl, (by intro h; cases h), ⟨2019, rfl, by decide⟩⟩
        · exact ⟨.int 2020, rfl, (by intro h; cases h), ⟨2020, rfl, by decide⟩⟩
    · intro h; rw [hspec] at h; simp [Kind.isList] at h
    · have hx : taxRqCls.extra = .none := by rfl
      have ho : taxRqCls.optMutex = [] := by rfl
      have hr : taxRqCls.reqMutex = [] := by rfl
      simp [validateArgs, hx, ho, hr, extraRule, enforceCount, bind, Except.bind]
  · simp [ValidFields, Node.isAgg]
  · simp [ValidItems, Node.isAgg]

/-! ### … and a valid instance of a class with a `groom` / `ungroom` rename: MAIL (FRM ↔ FROM) -/

def exMailFields : List (Str × Node) :=
  [("userid".toList, .val (.str "u".toList)),
   ("dtcreated".toList, .val (.dt ⟨2024, 2, 29, 23, 59, 59, 999000, some Ofx.Spec.Instant.utc⟩)),
   ("frm".toList, .val (.str "me & you".toList)), ("to".toList, .val (.str "bank".toList)),
   ("subject".toList, .val (.str "hi".toList)), ("msgbody".toList, .val (.str "a < b".toList)),
   ("incimages".toList, .val (.bool false)), ("usehtml".toList, .val (.bool true))]

def exMail : Node := .agg ByName.idx_MAIL exMailFields []

def mailCls : Cls := ByName.cls_MAIL

theorem mail_cls : schema.cls? ByName.idx_MAIL = some mailCls := by rfl

theorem exMail_valid :
    Valid genEnv.S genEnv.cv escapeCdata (typesDomWire genEnv.S.enums) exMail := by
  have hspec : mailCls.spec =
      [⟨"userid".toList, .string (some 32) true, true⟩, ⟨"dtcreated".toList, .datetime, true⟩,
       ⟨"frm".toList, .string (some 32) true, true⟩, ⟨"to".toList, .string (some 32) true, true⟩,
       ⟨"subject".toList, .string (some 60) true, true⟩, ⟨"msgbody".toList, .string (some 10000) true, true⟩,
       ⟨"incimages".toList, .bool, true⟩, ⟨"usehtml".toList, .bool, true⟩] := by decide +kernel
  have hstr : ∀ (l : Nat) (r : Bool) (t : Str), t ≠ [] → fits (some l) true t = true → trimmedB t = true →
      FieldOk (typesDomWire genEnv.S.enums) ⟨[], .string (some l) true, r⟩ (.val (.str t)) := by
    intro l r t h1 h2 h3
    unfold FieldOk
    simp only [Kind.subTarget]
    exact ⟨.str t, rfl, (fun h => nomatch h), fun _ => ⟨⟨t, rfl, h1, h2⟩, fun s hs => by injection hs with hs; subst hs; exact h3⟩⟩
  refine ⟨⟨mailCls, ?_⟩, ?_, ?_⟩
  · constructor
    · exact mail_cls
    · decide +kernel
    · decide +kernel
    · exact schema_clsWF mailCls (List.mem_of_getElem? mail_cls) (by decide +kernel)
    · exact gen_groomOk mailCls (List.mem_of_getElem? mail_cls)
    · have hs : specNoList mailCls = mailCls.spec := by decide +kernel
      rw [hs, hspec]
      refine .field _ _ _ _ rfl ?_ (.field _ _ _ _ rfl ?_ (.field _ _ _ _ rfl ?_ (.field _ _ _ _ rfl ?_
        (.field _ _ _ _ rfl ?_ (.field _ _ _ _ rfl ?_ (.field _ _ _ _ rfl ?_ (.field _ _ _ _ rfl ?_ .nil)))))))
      · exact hstr 32 true _ (by decide) (by decide) (by decide)
      · unfold FieldOk
        simp only [Kind.subTarget]
        exact ⟨_, rfl, (fun h => nomatch h), fun _ => ⟨_, rfl, by unfold Ofx.DateTime.dtUtcMs; decide +kernel⟩⟩
      · exact hstr 32 true _ (by decide) (by decide) (by decide)
      · exact hstr 32 true _ (by decide) (by decide) (by decide)
      · exact hstr 60 true _ (by decide) (by decide) (by decide)
      · exact hstr 10000 true _ (by decide) (by decide) (by decide)
      · unfold FieldOk
        simp only [Kind.subTarget]
        exact ⟨_, rfl, (fun h => nomatch h), fun _ => ⟨false, rfl⟩⟩
      · unfold FieldOk
        simp only [Kind.subTarget]
        exact ⟨_, rfl, (fun h => nomatch h), fun _ => ⟨true, rfl⟩⟩
    · intro _ m hm; cases hm
    · intro h; exact absurd h (by decide +kernel)
    · intro _; rfl
    · have hx : mailCls.extra = .none := by rfl
      have ho : mailCls.optMutex = [] := by rfl
      have hr : mailCls.reqMutex = [] := by rfl
      simp [validateArgs, hx, ho, hr, extraRule, enforceCount, bind, Except.bind]
  · simp [ValidFields, exMailFields, Node.isAgg]
  · simp [ValidItems]

/-- non-vacuity of `C01_generated_closed`: a concrete instance, version 102, pretty-printed -/
example : ∃ file hdr, writeFile genEnv 102 none none true true exStatus = .ok file ∧
    readFile genEnv file = .ok (hdr, exStatus) := by
  have hmk : ∃ hdr, makeHeader genEnv.p1 genEnv.p2 (.int (102 : Nat)) none none none = .ok hdr := ⟨_, rfl⟩
  obtain ⟨hdr, hmk⟩ := hmk
  obtain ⟨file, h1, h2⟩ := C01_generated_closed 102 none none uid1o uid1n uid2o uid2n
    true exStatus exStatus_valid hdr hmk
  exact ⟨file, hdr, h1, h2⟩

/-- … and an `ElementList` instance, version 220 (XML) -/
example : ∃ file hdr, writeFile genEnv 220 none none false true exTaxRq = .ok file ∧
    readFile genEnv file = .ok (hdr, exTaxRq) := by
  have hmk : ∃ hdr, makeHeader genEnv.p1 genEnv.p2 (.int (220 : Nat)) none none none = .ok hdr := ⟨_, rfl⟩
  obtain ⟨hdr, hmk⟩ := hmk
  obtain ⟨file, h1, h2⟩ := C01_generated_closed 220 none none uid1o uid1n uid2o uid2n
    false exTaxRq exTaxRq_valid hdr hmk
  exact ⟨file, hdr, h1, h2⟩

/-- … and an instance of a class whose writer renames a child (MAIL: FRM is written as FROM), unclosed-free
    SGML version 103 -/
example : ∃ file hdr, writeFile genEnv 103 none none true true exMail = .ok file ∧
    readFile genEnv file = .ok (hdr, exMail) := by
  have hmk : ∃ hdr, makeHeader genEnv.p1 genEnv.p2 (.int (103 : Nat)) none none none = .ok hdr := ⟨_, rfl⟩
  obtain ⟨hdr, hmk⟩ := hmk
  obtain ⟨file, h1, h2⟩ := C01_generated_closed 103 none none uid1o uid1n uid2o uid2n
    true exMail exMail_valid hdr hmk
  exact ⟨file, hdr, h1, h2⟩

end Ofx.Gen
