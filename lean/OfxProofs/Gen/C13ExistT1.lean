/-
C13 constructibility table, part 1: the per-(class, child) obligation `rangeOk` (description exists, is accepted by
the constructors, the instance holds the child, is written with the child under its tag, is read back unchanged)
closed by kernel evaluation over the generated schema, one range of class indices per theorem (the ranges only
balance the evaluation time; `Gen/C13Exist.lean` checks that they cover every class index).
-/
import OfxProofs.Lemmas.C13Exist
import OfxModel.Generated.Schema
import OfxModel.Ofx.Types

namespace Ofx.Gen.C13Table
open Ofx Ofx.Agg Ofx.Generated Ofx.Spec.Witness

theorem tbl_0 : rangeOk schema Types.conv escapeCdata defaultFuel 0 11 = true := by decide +kernel
theorem tbl_1 : rangeOk schema Types.conv escapeCdata defaultFuel 11 12 = true := by decide +kernel
theorem tbl_2 : rangeOk schema Types.conv escapeCdata defaultFuel 23 5 = true := by decide +kernel
theorem tbl_3 : rangeOk schema Types.conv escapeCdata defaultFuel 28 4 = true := by decide +kernel
theorem tbl_4 : rangeOk schema Types.conv escapeCdata defaultFuel 32 1 = true := by decide +kernel
theorem tbl_5 : rangeOk schema Types.conv escapeCdata defaultFuel 33 1 = true := by decide +kernel
theorem tbl_6 : rangeOk schema Types.conv escapeCdata defaultFuel 34 10 = true := by decide +kernel
theorem tbl_7 : rangeOk schema Types.conv escapeCdata defaultFuel 44 6 = true := by decide +kernel
theorem tbl_8 : rangeOk schema Types.conv escapeCdata defaultFuel 50 10 = true := by decide +kernel
theorem tbl_9 : rangeOk schema Types.conv escapeCdata defaultFuel 60 9 = true := by decide +kernel
theorem tbl_10 : rangeOk schema Types.conv escapeCdata defaultFuel 69 6 = true := by decide +kernel
theorem tbl_11 : rangeOk schema Types.conv escapeCdata defaultFuel 75 8 = true := by decide +kernel
theorem tbl_12 : rangeOk schema Types.conv escapeCdata defaultFuel 83 7 = true := by decide +kernel
theorem tbl_13 : rangeOk schema Types.conv escapeCdata defaultFuel 90 18 = true := by decide +kernel

end Ofx.Gen.C13Table
