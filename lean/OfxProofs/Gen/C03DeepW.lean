/-
Non-vacuity witness for the whole-document form of C03 (class-specific, hence a witness module — see Gen/C01W.lean):
a nested document of the generated schema, as text, that satisfies the guards of `C03_document_*` together —
it is a strict rendering (SGML leaves, XML leaves with padding, a CDATA section, line breaks) of a tree three
aggregates deep, with two list members, a child the reader renames (`YIELD → YLD`, class STOCKINFO), an escaped
text, and decimals with `,` / a bare `.`; the library's path converts it; and the model holds, at the paths the
specification lists, the denotations.
-/
import OfxProofs.Gen.C03Deep

namespace Ofx.Gen
open Ofx Ofx.Agg Ofx.Generated Ofx.Types Ofx.Spec

def wLeaf (t d : String) : RTree := .leaf t.toList d.toList [] [] false ['\n']

def wStock (id yld : String) : RTree :=
  .agg "STOCKINFO".toList ['\n'] [
    .agg "SECINFO".toList [] [
      .agg "SECID".toList [] [wLeaf "UNIQUEID" id, .leaf "UNIQUEIDTYPE".toList "CUSIP".toList [' '] [' '] true []] [],
      .cdata "SECNAME".toList "A>B Corp".toList [] true [],
      wLeaf "TICKER" "X&amp;Y"] ['\n'],
    .leaf "YIELD".toList yld.toList [] [] true ['\n'],
    wLeaf "ASSETCLASS" "OTHER"] ['\n']

/-- `<SECLIST>` with two `<STOCKINFO>` members -/
def wDoc : RTree := .agg "SECLIST".toList ['\n'] [wStock "084670108" "-1,50", wStock "084670207" "+.5"] []

def pathOf (l : List (Sum String Nat)) : Path :=
  l.map (fun s => match s with | .inl n => Step.attr n.toList | .inr i => Step.item i)

/-- what the witness is checked for: the rendering is in the strict grammar; the specification lists the renamed
    child under `yld` of member 0 and member 1, and the doubly nested `uniqueid` of member 1; the converted model
    holds the decimals −1.50 and 0.5 and the decoded ticker `X&Y` at those paths; and the model holds exactly as many
    values as the document has addressed data elements -/
def wCheck : Bool :=
  wDoc.ok true &&
  (docValues schema wDoc.tree).contains (pathOf [.inr 0, .inl "yld"], "-1,50".toList) &&
  (docValues schema wDoc.tree).contains (pathOf [.inr 1, .inl "yld"], "+.5".toList) &&
  (docValues schema wDoc.tree).contains
    (pathOf [.inr 1, .inl "secinfo", .inl "secid", .inl "uniqueid"], "084670207".toList) &&
  (match parseConvert schema Types.conv wDoc.str with
   | .ok inst =>
     (instValues inst).contains (pathOf [.inr 0, .inl "yld"], .dec (.fin true 150 (-2))) &&
     (instValues inst).contains (pathOf [.inr 1, .inl "yld"], .dec (.fin false 5 (-1))) &&
     (instValues inst).contains (pathOf [.inr 0, .inl "secinfo", .inl "ticker"], .str "X&Y".toList) &&
     (instValues inst).length == (docValues schema wDoc.tree).length &&
     (instValues inst).length == 12
   | .error _ => false)

theorem wDoc_checked : wCheck = true := by decide +kernel

/-- the guards of `C03_document_value` / `C03_document_generated_denotes` hold together for it -/
theorem wDoc_guards : RendersDoc true wDoc.tree wDoc.str ∧
    ∃ inst, parseConvert schema Types.conv wDoc.str = .ok inst := by
  have h := wDoc_checked
  simp only [wCheck, Bool.and_eq_true] at h
  refine ⟨⟨[], wDoc.str, [], rfl, rfl, C02.render_renders true wDoc h.1.1.1.1, by simp⟩, ?_⟩
  have h5 := h.2
  cases hp : parseConvert schema Types.conv wDoc.str with
  | ok inst => exact ⟨inst, rfl⟩
  | error e => rw [hp] at h5; simp at h5

end Ofx.Gen
