/-
`decide +kernel` obligations over the generated header tables (`Generated/Tables.lean`): re-checked whenever the
translator's output changes.  They tie the parameters the driver runs with (`Drv.Header.genV1P/genV2P`,
`cp1252High`) to the ones the C05/C12 witnesses and examples are stated for, and check the shape the hand model
assumes of the two header classes.
-/
import OfxModel.Generated.Tables
import OfxModel.Drv.Header
import OfxProofs.Props.C12
import OfxProofs.Lemmas.HeaderPipeline

namespace Ofx.Gen
open Ofx Ofx.Header Ofx.Generated Ofx.Drv.Header

def v1pEq (a b : V1P) : Bool :=
  a.ofxheader == b.ofxheader && a.data == b.data && a.versionLen == b.versionLen && a.security == b.security &&
  a.encoding == b.encoding && a.charset == b.charset && a.compression == b.compression && a.oldLen == b.oldLen &&
  a.newLen == b.newLen && a.codecs == b.codecs

def v2pEq (a b : V2P) : Bool :=
  a.ofxheader == b.ofxheader && a.version == b.version && a.security == b.security && a.oldLen == b.oldLen &&
  a.newLen == b.newLen

/-- the generated validator parameters of `OFXHeaderV1` (token lists, `Integer(3)`, `String(36)`, `codecs`) are
    the ones the witnesses of `C05_exact_full_false` / `C12_refuse_text_full_false` are stated for -/
theorem header_v1_params : v1pEq genV1P pinnedV1P = true := by decide +kernel

/-- same for `OFXHeaderV2`, including the list of supported 2xx versions -/
theorem header_v2_params : v2pEq genV2P pinnedV2P = true := by decide +kernel

/-- validator kinds per attribute, in definition order: OneOf = 0, Integer = 1, String = 2 -/
theorem header_v1_kinds : kindsOf headerV1Fields =
    [("ofxheader".toList, 0), ("data".toList, 0), ("version".toList, 1), ("security".toList, 0),
     ("encoding".toList, 0), ("charset".toList, 0), ("compression".toList, 0), ("oldfileuid".toList, 2),
     ("newfileuid".toList, 2)] := by decide +kernel

theorem header_v2_kinds : kindsOf headerV2Fields =
    [("ofxheader".toList, 0), ("version".toList, 0), ("security".toList, 0), ("oldfileuid".toList, 2),
     ("newfileuid".toList, 2)] := by decide +kernel

/-- every CHARSET the class admits has a codec the model knows, and every token of the generated lists is spelt
    in the character class of its pattern group (so membership alone makes a field `ValidV1`/`ValidV2`) -/
theorem header_tokens_in_class :
    (genV1P.charset.all fun c => ((genV1P.codecs.lookup c).bind Codec.Name.ofPy).isSome) &&
    (genV1P.ofxheader.all fun t => !t.isEmpty && t.all isDigit) && (genV1P.data.all fun t => !t.isEmpty && t.all isUpper) &&
    (genV1P.security.all fun t => !t.isEmpty && t.all isWord) &&
    (genV1P.encoding.all fun t => !t.isEmpty && t.all isUpDigDash) &&
    (genV1P.charset.all fun t => !t.isEmpty && t.all isWordDash) &&
    (genV1P.compression.all fun t => !t.isEmpty && t.all isUpper) &&
    (genV2P.ofxheader.all fun t => !t.isEmpty && t.all isDigit) && (genV2P.version.all fun t => !t.isEmpty && t.all isDigit) &&
    (genV2P.security.all fun t => !t.isEmpty && t.all isWord) = true := by decide +kernel

/-- the cp1252 table has one entry per byte 0x80..0x9F and only scalar values -/
theorem cp1252_table_shape :
    cp1252High.length = 32 ∧ cp1252High.all (fun e => match e with | some n => (Codec.chr? n).isSome | none => true) = true := by
  decide +kernel

/-- the generated tables admit the constructor defaults `make_header` relies on (`WFV1`, `WFV2` of
    `Lemmas/HeaderPipeline.lean`), in particular CHARSET NONE ↦ utf_8 -/
theorem header_wf : WFV1 genV1P ∧ WFV2 genV2P := by
  refine ⟨⟨by decide +kernel, by decide +kernel, ?_, by decide +kernel, by decide +kernel, by decide +kernel,
    by decide +kernel, by decide +kernel⟩, ⟨by decide +kernel, by decide +kernel⟩⟩
  intro n hn
  have : genV1P.versionLen = some 3 := by decide +kernel
  rw [this] at hn
  cases hn
  exact Nat.le_refl 3

end Ofx.Gen
