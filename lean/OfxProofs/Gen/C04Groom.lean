/-
C04, tree-route rejections for every class (the three with a `groom` rename included), instantiated for the schema
generated from /repo's model classes and the real converters `Types.conv`: the `Nodup` premise is discharged by
`gen_spec_nodup`; no premise on `c.groom` remains.  Concrete witnesses on STOCKINFO / MFINFO (`YIELD→YLD`) and MAIL
(`FROM→FRM`) show the guards are met by the real classes.
-/
import OfxProofs.Props.C04Groom
import OfxProofs.Gen.C04Ext

namespace Ofx.Gen
open Ofx Ofx.Agg Ofx.Spec Ofx.WF Ofx.Generated Ofx.Generated.ByName

/-- the classes of the generated schema whose reader renames a child are exactly STOCKINFO, MFINFO (`YIELD→YLD`) and
    MAIL (`FROM→FRM`) -/
theorem schema_groom_classes :
    (schema.classes.filter (fun c => c.groom.isSome)).map (fun c => (c.name, c.groom)) =
      [("MAIL".toList, some ⟨"FROM".toList, "FRM".toList⟩), ("MFINFO".toList, some ⟨"YIELD".toList, "YLD".toList⟩),
       ("STOCKINFO".toList, some ⟨"YIELD".toList, "YLD".toList⟩)] := by decide +kernel

theorem C04_generated_reject_overlong_string_groom_tree (tag : Str) (x tl : Option Str) (pre post : List Tree)
    (ch : Tree) (ci : Nat) (c : Cls) (a : Attr) (n : Nat) (s etag : Str)
    (hf : schema.findIdx? tag = some ci) (hc : schema.cls? ci = some c)
    (het : (effTag c (renamedAfter c false pre) ch.tag).1 = etag)
    (ha : a ∈ c.spec) (hname : a.name = lower etag) (hdot : '.' ∉ etag)
    (hk : a.kind = .string (some n) true) (htext : ch.text = some s) (hlong : n < (unescape s).length) :
    ∃ e, fromEtree schema Types.conv (.node tag x tl (pre ++ ch :: post)) = .error e :=
  C04_reject_overlong_string_groom_tree schema tag x tl pre post ch ci c a n s etag hf hc (gen_spec_nodup ci c hc)
    het ha hname hdot hk htext hlong

theorem C04_generated_reject_overlimit_integer_groom_tree (tag : Str) (x tl : Option Str) (pre post : List Tree)
    (ch : Tree) (ci : Nat) (c : Cls) (a : Attr) (n : Nat) (s etag : Str) (i : Int)
    (hf : schema.findIdx? tag = some ci) (hc : schema.cls? ci = some c)
    (het : (effTag c (renamedAfter c false pre) ch.tag).1 = etag)
    (ha : a ∈ c.spec) (hname : a.name = lower etag) (hdot : '.' ∉ etag)
    (hk : a.kind = .integer (some n)) (htext : ch.text = some s) (hp : pyIntParse s = some i)
    (hover : 10 ^ n ≤ i.natAbs) :
    ∃ e, fromEtree schema Types.conv (.node tag x tl (pre ++ ch :: post)) = .error e :=
  C04_reject_overlimit_integer_groom_tree schema tag x tl pre post ch ci c a n s etag i hf hc
    (gen_spec_nodup ci c hc) het ha hname hdot hk htext hp hover

theorem C04_generated_reject_foreign_token_groom_tree (tag : Str) (x tl : Option Str) (pre post : List Tree)
    (ch : Tree) (ci : Nat) (c : Cls) (a : Attr) (e : Nat) (valid : List Str) (t0 : Char) (ts etag : Str)
    (hf : schema.findIdx? tag = some ci) (hc : schema.cls? ci = some c)
    (het : (effTag c (renamedAfter c false pre) ch.tag).1 = etag)
    (ha : a ∈ c.spec) (hname : a.name = lower etag) (hdot : '.' ∉ etag)
    (hk : a.kind = .oneOf e) (he : schema.enums[e]? = some valid) (htext : ch.text = some (t0 :: ts))
    (hforeign : (t0 :: ts) ∉ valid) :
    ∃ e, fromEtree schema Types.conv (.node tag x tl (pre ++ ch :: post)) = .error e :=
  C04_reject_foreign_token_groom_tree schema tag x tl pre post ch ci c a e valid t0 ts etag hf hc
    (gen_spec_nodup ci c hc) het ha hname hdot hk he htext hforeign

theorem C04_generated_reject_required_omitted_groom_tree (tag : Str) (x tl : Option Str) (children : List Tree)
    (ci : Nat) (c : Cls) (a : Attr) (hf : schema.findIdx? tag = some ci) (hc : schema.cls? ci = some c)
    (ha : a ∈ c.spec) (hl : a.kind.isList = false) (hu : a.kind.isUnsupported = false) (hreq : a.required = true)
    (hno : ∀ pre ch post, children = pre ++ ch :: post →
      lower (effTag c (renamedAfter c false pre) ch.tag).1 ≠ a.name) :
    ∃ e, fromEtree schema Types.conv (.node tag x tl children) = .error e :=
  C04_reject_required_omitted_conv_groom_tree schema tag x tl children ci c a hf hc (gen_spec_nodup ci c hc) ha hl hu
    hreq hno

theorem C04_generated_reject_duplicate_child_groom (tag : Str) (x tl : Option Str) (pre mid post : List Tree)
    (a b : Tree) (ci : Nat) (c : Cls) (idx : Nat) (etag : Str)
    (hf : schema.findIdx? tag = some ci) (hc : schema.cls? ci = some c)
    (heta : (effTag c (renamedAfter c false pre) a.tag).1 = etag)
    (hetb : (effTag c (renamedAfter c false (pre ++ a :: mid)) b.tag).1 = etag)
    (hdot : '.' ∉ etag) (hidx : specIndex c (lower etag) = some idx)
    (hnl : isListMember c (lower etag) = false) :
    ∃ e, fromEtree schema Types.conv (.node tag x tl (pre ++ a :: (mid ++ b :: post))) = .error e :=
  C04_reject_duplicate_child_groom schema Types.conv tag x tl pre mid post a b ci c idx etag hf hc heta hetb hdot
    hidx hnl

theorem C04_generated_adjacent_out_of_order_groom (tag : Str) (x tl : Option Str) (pre mid post : List Tree)
    (a b : Tree) (ci : Nat) (c : Cls) (ia ib : Nat) (eta etb : Str)
    (hf : schema.findIdx? tag = some ci) (hc : schema.cls? ci = some c)
    (hmid : ∀ t ∈ mid, Unknown c t.tag)
    (heta : (effTag c (renamedAfter c false pre) a.tag).1 = eta)
    (hetb : (effTag c (renamedAfter c false (pre ++ a :: mid)) b.tag).1 = etb)
    (hdota : '.' ∉ eta) (hia : specIndex c (lower eta) = some ia)
    (hdotb : '.' ∉ etb) (hib : specIndex c (lower etb) = some ib) (hle : ib ≤ ia)
    (hnb : ¬ (isListMember c (lower eta) = true ∧ isListMember c (lower etb) = true)) :
    ∃ e, fromEtree schema Types.conv (.node tag x tl (pre ++ a :: (mid ++ b :: post))) = .error e :=
  C04_reject_adjacent_out_of_order_groom schema Types.conv tag x tl pre mid post a b ci c ia ib eta etb hf hc hmid
    heta hetb hdota hia hdotb hib hle hnb

/-! ### witnesses on the real classes -/

def lf (t : String) (v : Str) : Tree := .node t.toList (some v) none []

/-- MAIL: the `FROM` child is read as `frm : String(32)`; 33 characters are refused -/
example : ∃ e, fromEtree schema Types.conv
    (.node "MAIL".toList none none ([lf "USERID" "u".toList] ++ lf "FROM" (List.replicate 33 'x') :: [])) = .error e :=
  C04_generated_reject_overlong_string_groom_tree _ none none [lf "USERID" "u".toList] []
    (lf "FROM" (List.replicate 33 'x')) idx_MAIL cls_MAIL ⟨"frm".toList, .string (some 32) true, true⟩ 32 _
    "FRM".toList (by decide +kernel) rfl (by decide +kernel)
    (List.mem_of_getElem? (i := 2) rfl) (by decide +kernel) (by decide +kernel) rfl rfl (by decide +kernel)

/-- MAIL: without a `FROM` (or `FRM`) child the required `frm` is missing -/
example : ∃ e, fromEtree schema Types.conv
    (.node "MAIL".toList none none [lf "USERID" "u".toList]) = .error e :=
  C04_generated_reject_required_omitted_groom_tree _ none none _ idx_MAIL cls_MAIL
    ⟨"frm".toList, .string (some 32) true, true⟩ (by decide +kernel) rfl (List.mem_of_getElem? (i := 2) rfl)
    rfl rfl rfl (by
      intro pre ch post h
      cases pre with
      | nil =>
        simp only [List.nil_append, List.cons.injEq] at h
        obtain ⟨rfl, _⟩ := h
        decide +kernel
      | cons p pre => simp at h)

/-- MAIL: a `FROM` child (read as `FRM`) and a `FRM` child -/
example : ∃ e, fromEtree schema Types.conv
    (.node "MAIL".toList none none ([] ++ lf "FROM" "a".toList :: ([] ++ lf "FRM" "b".toList :: []))) = .error e :=
  C04_generated_reject_duplicate_child_groom _ none none [] [] [] (lf "FROM" "a".toList) (lf "FRM" "b".toList)
    idx_MAIL cls_MAIL 2 "FRM".toList (by decide +kernel) rfl (by decide +kernel) (by decide +kernel)
    (by decide +kernel) (by decide +kernel) (by decide +kernel)

/-- STOCKINFO: a `YIELD` child (read as `YLD`) and a `YLD` child -/
example : ∃ e, fromEtree schema Types.conv
    (.node "STOCKINFO".toList none none ([] ++ lf "YIELD" "1".toList :: ([] ++ lf "YLD" "2".toList :: []))) = .error e :=
  C04_generated_reject_duplicate_child_groom _ none none [] [] [] (lf "YIELD" "1".toList) (lf "YLD" "2".toList)
    idx_STOCKINFO cls_STOCKINFO 2 "YLD".toList (by decide +kernel) rfl (by decide +kernel) (by decide +kernel)
    (by decide +kernel) (by decide +kernel) (by decide +kernel)

/-- STOCKINFO: the `YIELD` child (read as `YLD`, position 2) before `STOCKTYPE` (position 1) -/
example : ∃ e, fromEtree schema Types.conv
    (.node "STOCKINFO".toList none none ([] ++ lf "YIELD" "1".toList :: ([] ++ lf "STOCKTYPE" "COMMON".toList :: [])))
      = .error e :=
  C04_generated_adjacent_out_of_order_groom _ none none [] [] [] (lf "YIELD" "1".toList)
    (lf "STOCKTYPE" "COMMON".toList) idx_STOCKINFO cls_STOCKINFO 2 1 "YLD".toList "STOCKTYPE".toList
    (by decide +kernel) rfl (by simp) (by decide +kernel) (by decide +kernel) (by decide +kernel) (by decide +kernel)
    (by decide +kernel) (by decide +kernel) (by decide +kernel) (by decide +kernel)

/-- STOCKINFO: a foreign `STOCKTYPE` token after a `YIELD` child (the rename has been used up before it) -/
example : ∃ e, fromEtree schema Types.conv
    (.node "STOCKINFO".toList none none ([lf "YIELD" "1".toList] ++ lf "STOCKTYPE" "BOGUS".toList :: [])) = .error e :=
  C04_generated_reject_foreign_token_groom_tree _ none none [lf "YIELD" "1".toList] []
    (lf "STOCKTYPE" "BOGUS".toList) idx_STOCKINFO cls_STOCKINFO ⟨"stocktype".toList, .oneOf 45, false⟩ 45 _ 'B'
    "OGUS".toList "STOCKTYPE".toList (by decide +kernel) rfl (by decide +kernel)
    (List.mem_of_getElem? (i := 1) rfl) (by decide +kernel) (by decide +kernel) rfl rfl rfl (by decide +kernel)

/-- MFINFO: a `YIELD` child (read as `YLD`) and a `YLD` child -/
example : ∃ e, fromEtree schema Types.conv
    (.node "MFINFO".toList none none ([] ++ lf "YIELD" "1".toList :: ([] ++ lf "YLD" "2".toList :: []))) = .error e :=
  C04_generated_reject_duplicate_child_groom _ none none [] [] [] (lf "YIELD" "1".toList) (lf "YLD" "2".toList)
    idx_MFINFO cls_MFINFO 2 "YLD".toList (by decide +kernel) rfl (by decide +kernel) (by decide +kernel)
    (by decide +kernel) (by decide +kernel) (by decide +kernel)

end Ofx.Gen
