/-
C03, whole documents, instantiated for the schema generated from /repo's model classes and the modelled converters
(`Types.conv`), and composed with the type rules' denotation (`Spec.denote`) where "convert = denotation" is a
theorem: character data, booleans, enumerations (every non-empty text), integers and decimals (every text of the
type's lexical space, both separators, signs, any declared scale), and — through C09 — date-times and times (every
text of the four notations with valid fields and offset: the model holds the UTC value of the instant denoted).
-/
import OfxProofs.Props.C03Deep
import OfxProofs.Gen.C03
import OfxProofs.Lemmas.Types
import OfxProofs.Lemmas.C03DeepDec
import OfxProofs.Props.C09

namespace Ofx.Gen
open Ofx Ofx.Agg Ofx.Generated Ofx.Types Ofx.Spec

/-- attribute names are distinct within every generated class -/
theorem gen_specNodup : SpecNodup schema := fun ci c hc => gen_spec_nodup ci c hc

/-- the modelled converters refuse an object of a type none of them registers (an aggregate where text is due) -/
theorem typesConv_other (enums : List (List Str)) : ∀ (k : Kind) (r : Bool) (s : String) (v : Val),
    Types.conv.convert enums k r (.other s) ≠ .ok v
  | .bool, r, s, v => by simp [Types.conv, Types.convert, boolConvert]
  | .string l st, r, s, v => by simp [Types.conv, Types.convert, stringConvert]
  | .oneOf e, r, s, v => by
    simp only [Types.conv, Types.convert]
    split
    · simp [oneOfConvert, oneOfDefault]
    · simp
  | .integer l, r, s, v => by simp [Types.conv, Types.convert, integerConvert]
  | .decimal q, r, s, v => by simp [Types.conv, Types.convert, decimalConvert]
  | .datetime, r, s, v => by
    simp [Types.conv, Types.convert, DateTime.dtConvert, DateTime.dtConvertWith]
  | .time, r, s, v => by
    simp [Types.conv, Types.convert, DateTime.tmConvert, DateTime.tmConvertWith]
  | .listElem k ir, r, s, v => by
    simp only [Types.conv, Types.convert]
    exact typesConv_other enums k ir s v
  | .sub _, _, _, _ => by simp [Types.conv, Types.convert]
  | .listAgg _, _, _, _ => by simp [Types.conv, Types.convert]
  | .unsupported, _, _, _ => by simp [Types.conv, Types.convert]

/-- **C03 for the generated schema, whole documents: nothing dropped, right value, right place** (any depth, every
    class; the value may be `None` only if the converter maps a non-empty text to `None`, which
    `C03_deep_generated_denotes` excludes for the kinds it covers). -/
theorem C03_deep_generated_value (t : Tree) (inst : Node) (h : fromEtree schema Types.conv t = .ok inst) :
    ∀ e ∈ docElems schema t, ∃ v, Types.convert schema.enums e.kind e.required (.str e.text) = .ok v ∧
      (v ≠ .none → (e.path, v) ∈ instValues inst) :=
  C03_deep_value schema Types.conv gen_specNodup t inst h

/-- **C03 for the generated schema, whole documents: nothing invented** (any depth, every class). -/
theorem C03_deep_generated_nothing_invented (t : Tree) (inst : Node)
    (h : fromEtree schema Types.conv t = .ok inst) :
    ∀ p v, (p, v) ∈ instValues inst →
      ∃ e ∈ docElems schema t, e.path = p ∧
        Types.convert schema.enums e.kind e.required (.str e.text) = .ok v :=
  C03_deep_nothing_invented schema Types.conv gen_specNodup (typesConv_none schema.enums)
    (typesConv_other schema.enums) t inst h

/-- **C03 for the generated schema, whole documents: one value per path.** -/
theorem C03_deep_generated_paths_distinct (t : Tree) (inst : Node) (h : fromEtree schema Types.conv t = .ok inst) :
    ((instValues inst).map (·.1)).Nodup :=
  C03_deep_paths_distinct schema Types.conv gen_specNodup t inst h

/-! ### composed with the type rules' denotation -/

/-- the element kinds and texts for which "convert = the type rule's denotation" is a theorem: character data,
    booleans and enumerations on every text; integers and decimals on the type's lexical space -/
def ruleProved : Kind → Str → Bool
  | .bool, _ => true
  | .string .., _ => true
  | .oneOf _, _ => true
  | .integer _, s => lexInteger s
  | .decimal _, s => lexDecimal s
  | _, _ => false

/-- on that domain the converter returns exactly the denotation, and refuses when there is none -/
theorem convert_ok_denotes (ext : DenoteExt) (enums : List (List Str)) (k : Kind) (r : Bool) (s : Str) (v : Val)
    (hs : s ≠ []) (hp : ruleProved k s = true) (h : Types.convert enums k r (.str s) = .ok v) :
    denote ext enums k s = some v := by
  have key : ∀ o : Option Val, denoteResult o = .ok v → o = some v := by
    intro o ho; cases o <;> simp_all [denoteResult]
  cases k with
  | bool => exact key _ (by rw [← convert_denotes_bool ext enums r s hs]; exact h)
  | string l st => exact key _ (by rw [← convert_denotes_string ext enums l st r s hs]; exact h)
  | oneOf e =>
    cases he : enums[e]? with
    | none => simp [Types.convert, he] at h
    | some valid => exact key _ (by rw [← convert_denotes_oneof ext enums e valid he r s hs]; exact h)
  | integer l => exact key _ (by rw [← convert_denotes_integer ext enums l r s hp]; exact h)
  | decimal q =>
    have := convert_denotes_decimal_denote ext enums q r s hp
    rw [h] at this
    cases hd : denote ext enums (.decimal q) s with
    | none => simp [hd] at this
    | some w => rw [hd] at this; injection this with this; rw [this]
  | _ => simp [ruleProved] at hp

theorem denote_some_ne_none (ext : DenoteExt) (enums : List (List Str)) (k : Kind) (s : Str) (v : Val)
    (hp : ruleProved k s = true) (h : denote ext enums k s = some v) : v ≠ .none := by
  intro hv; subst hv
  cases s with
  | nil => simp [denote] at h
  | cons c cs =>
    cases k with
    | bool => simp only [denote] at h; split at h <;> (try split at h) <;> simp at h
    | string l st =>
      cases l with
      | none => simp [denote] at h
      | some n => cases st <;> simp [denote] at h
    | oneOf e => simp only [denote] at h; split at h <;> (try split at h) <;> simp at h
    | integer l =>
      cases l with
      | none => simp only [denote] at h; cases denoteInteger (c :: cs) <;> simp at h
      | some n => simp only [denote] at h; split at h <;> (try split at h) <;> simp at h
    | decimal q => simp only [denote] at h; cases denoteDecimal q (c :: cs) <;> simp at h
    | _ => simp [ruleProved] at hp

/-- **C03 for the generated schema, whole documents, in terms of the type rules.**  Every addressed data element of an
    accepted document whose type rule is covered (`ruleProved`) has a denotation, and the converted model holds
    exactly that denotation at the element's path. -/
theorem C03_deep_generated_denotes (ext : DenoteExt) (t : Tree) (inst : Node)
    (h : fromEtree schema Types.conv t = .ok inst) :
    ∀ e ∈ docElems schema t, ruleProved e.kind e.text = true →
      ∃ v, denote ext schema.enums e.kind e.text = some v ∧ (e.path, v) ∈ instValues inst := by
  intro e he hp
  have hs := docElems_text_ne schema t e he
  obtain ⟨v, hcv, hmem⟩ := C03_deep_generated_value t inst h e he
  have hd := convert_ok_denotes ext schema.enums e.kind e.required e.text v hs hp hcv
  exact ⟨v, hd, hmem (denote_some_ne_none ext schema.enums e.kind e.text v hp hd)⟩

/-- … and conversely every leaf value of the model whose element's type rule is covered is the denotation of the
    addressed data element at its path. -/
theorem C03_deep_generated_only_denotations (ext : DenoteExt) (t : Tree) (inst : Node)
    (h : fromEtree schema Types.conv t = .ok inst) :
    ∀ p v, (p, v) ∈ instValues inst →
      ∃ e ∈ docElems schema t, e.path = p ∧ e.text ≠ [] ∧
        (ruleProved e.kind e.text = true → denote ext schema.enums e.kind e.text = some v) := by
  intro p v hpv
  obtain ⟨e, he, hp, hcv⟩ := C03_deep_generated_nothing_invented t inst h p v hpv
  have hne := docElems_text_ne schema t e he
  exact ⟨e, he, hp, hne, fun hr => convert_ok_denotes ext schema.enums e.kind e.required e.text v hne hr hcv⟩

/-! ### date-times and times (C09) -/

open Ofx.DateTime Ofx.Spec.Instant in
/-- **C03 for the generated schema, whole documents, date-times.**  An addressed date-time element of an accepted
    document whose text is a rendering of the OFX date-time notation (`Parts`: date, optional time of day, optional
    milliseconds, optional `[offset:name]`; valid fields; instant within years 1..9999) is in the model at its path as
    the UTC value denoting exactly the instant the notation denotes (`instantOf`, C09). -/
theorem C03_deep_generated_datetime (t : Tree) (inst : Node) (h : fromEtree schema Types.conv t = .ok inst) :
    ∀ e ∈ docElems schema t, e.kind = .datetime → ∀ p : Parts, p.wf false = true → lenOk p = true →
      minInstant ≤ p.instant ∧ p.instant < endInstant → p.render = e.text →
      ∃ v, (e.path, v) ∈ instValues inst ∧ IsUtcOf v (1000 * p.instant) := by
  intro e he hk p hwf hg hrange hr
  obtain ⟨v, hcv, hmem⟩ := C03_deep_generated_value t inst h e he
  obtain ⟨v', hv', hutc⟩ := C09_read Ofx.Generated.tzs e.required p hwf hg hrange
  rw [hk, ← hr] at hcv
  have : v = v' := by
    have e1 : Types.convert schema.enums .datetime e.required (.str p.render) =
        dtConvertWith Ofx.Generated.tzs e.required (.str p.render) := rfl
    rw [e1, hv'] at hcv
    injection hcv with hcv; exact hcv.symm
  subst this
  refine ⟨v, hmem ?_, hutc⟩
  obtain ⟨r, hr', _⟩ := hutc
  rw [hr']; simp

open Ofx.DateTime Ofx.Spec.Instant in
/-- … and times (`HHMMSS[.XXX][[offset]]`, instants modulo 24 h). -/
theorem C03_deep_generated_time (t : Tree) (inst : Node) (h : fromEtree schema Types.conv t = .ok inst) :
    ∀ e ∈ docElems schema t, e.kind = .time → ∀ p : Parts, p.wf true = true → lenOk p = true →
      p.render = e.text →
      ∃ v, (e.path, v) ∈ instValues inst ∧ IsUtcTimeOf v (1000 * p.instant) := by
  intro e he hk p hwf hg hr
  obtain ⟨v, hcv, hmem⟩ := C03_deep_generated_value t inst h e he
  obtain ⟨v', hv', hutc⟩ := C09_time_read Ofx.Generated.tzs e.required p hwf hg
  rw [hk, ← hr] at hcv
  have : v = v' := by
    have e1 : Types.convert schema.enums .time e.required (.str p.render) =
        tmConvertWith Ofx.Generated.tzs e.required (.str p.render) := rfl
    rw [e1, hv'] at hcv
    injection hcv with hcv; exact hcv.symm
  subst this
  refine ⟨v, hmem ?_, hutc⟩
  obtain ⟨r, hr', _⟩ := hutc
  rw [hr']; simp

/-! ### the rename hooks of the generated classes rename data elements -/

/-- every generated class with a rename hook (`groom`) renames towards an attribute of an element kind — a data
    element, never a sub-aggregate.  (The model converts a renamed child that is itself an aggregate under its
    original tag, the code under the new one; this obligation says the difference is outside the generated domain.) -/
theorem gen_groom_targets_elements :
    schema.classes.all (fun c => match c.groom with
      | none => true
      | some r => match c.spec.find? (fun a => a.name = lower r.toTag) with
        | some a => isElemKind a.kind
        | none => false) = true := by
  decide +kernel

/-! ### documents as text -/

/-- **C03 for the generated schema, documents as text, in terms of the type rules.**  For every tree `t` and every
    strict rendering `s` of it: if the library converts `s` to a model, every addressed data element of `t` whose type
    rule is covered has a denotation and the model holds exactly that denotation at the element's path … -/
theorem C03_document_generated_denotes (ext : DenoteExt) (t : Tree) (s : Str) (hr : RendersDoc true t s) (inst : Node)
    (h : parseConvert schema Types.conv s = .ok inst) :
    ∀ e ∈ docElems schema t, ruleProved e.kind e.text = true →
      ∃ v, denote ext schema.enums e.kind e.text = some v ∧ (e.path, v) ∈ instValues inst :=
  C03_deep_generated_denotes ext t inst (by rw [← parseConvert_rendering schema Types.conv t s hr]; exact h)

/-- … and every leaf value the model holds is the conversion (the denotation, where the rule is covered) of the
    addressed data element of `t` at that path. -/
theorem C03_document_generated_only_denotations (ext : DenoteExt) (t : Tree) (s : Str) (hr : RendersDoc true t s)
    (inst : Node) (h : parseConvert schema Types.conv s = .ok inst) :
    ∀ p v, (p, v) ∈ instValues inst →
      ∃ e ∈ docElems schema t, e.path = p ∧ e.text ≠ [] ∧
        (ruleProved e.kind e.text = true → denote ext schema.enums e.kind e.text = some v) :=
  C03_deep_generated_only_denotations ext t inst (by rw [← parseConvert_rendering schema Types.conv t s hr]; exact h)

end Ofx.Gen
