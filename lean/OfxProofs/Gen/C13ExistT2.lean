/-
C13 constructibility table, part 2: the per-(class, child) obligation `rangeOk` (description exists, is accepted by
the constructors, the instance holds the child, is written with the child under its tag, is read back unchanged)
closed by kernel evaluation over the generated schema, one range of class indices per theorem (the ranges only
balance the evaluation time; `Gen/C13Exist.lean` checks that they cover every class index).
-/
import OfxProofs.Lemmas.C13Exist
import OfxModel.Generated.Schema
import OfxModel.Ofx.Types

namespace Ofx.Gen.C13Table
open Ofx Ofx.Agg Ofx.Generated Ofx.Spec.Witness

theorem tbl_14 : rangeOk schema Types.conv escapeCdata defaultFuel 108 8 = true := by decide +kernel
theorem tbl_15 : rangeOk schema Types.conv escapeCdata defaultFuel 116 4 = true := by decide +kernel
theorem tbl_16 : rangeOk schema Types.conv escapeCdata defaultFuel 120 7 = true := by decide +kernel
theorem tbl_17 : rangeOk schema Types.conv escapeCdata defaultFuel 127 6 = true := by decide +kernel
theorem tbl_18 : rangeOk schema Types.conv escapeCdata defaultFuel 133 8 = true := by decide +kernel
theorem tbl_19 : rangeOk schema Types.conv escapeCdata defaultFuel 141 3 = true := by decide +kernel
theorem tbl_20 : rangeOk schema Types.conv escapeCdata defaultFuel 144 8 = true := by decide +kernel
theorem tbl_21 : rangeOk schema Types.conv escapeCdata defaultFuel 152 2 = true := by decide +kernel
theorem tbl_22 : rangeOk schema Types.conv escapeCdata defaultFuel 154 1 = true := by decide +kernel
theorem tbl_23 : rangeOk schema Types.conv escapeCdata defaultFuel 155 2 = true := by decide +kernel
theorem tbl_24 : rangeOk schema Types.conv escapeCdata defaultFuel 157 5 = true := by decide +kernel
theorem tbl_25 : rangeOk schema Types.conv escapeCdata defaultFuel 162 3 = true := by decide +kernel
theorem tbl_26 : rangeOk schema Types.conv escapeCdata defaultFuel 165 1 = true := by decide +kernel
theorem tbl_27 : rangeOk schema Types.conv escapeCdata defaultFuel 166 11 = true := by decide +kernel

end Ofx.Gen.C13Table
