/-
C06 on the generated schema and the real converters.

* `schema_reqWF`            — the generated schema has the classes, attributes and attribute kinds the request-composition
                              code relies on (`ReqWF`), by kernel evaluation; re-checked whenever `Generated/Schema.lean`
                              changes.
* `C06_compose_generated`   — `C06_compose` instantiated: schema = generated, converters = `Ofx.Types.conv`, guard
                              `EntityFree` on every caller-supplied text.
* `C06_compose_full(_false)`— without the guard the statement is false: password `&amp;` is sent as `&`
                              (`String.convert` unescapes at construction) — known finding string-entity-unescaped.
* `C06_tax_full(_false)`    — `request_tax1099(acctnum="777")` never places the account number — known finding
                              tax1099-acctnum-dropped.  (`C06_tax_acctnum_ignored` in Props/C06.lean is the general fact.)
-/
import OfxProofs.Props.C06
import OfxProofs.Lemmas.Str
import OfxModel.Generated.Schema

namespace Ofx.Gen
open Ofx Ofx.Compose Ofx.Spec.Request Ofx.C06

theorem schema_reqWF : ReqWF Ofx.Generated.schema = true := by decide +kernel

/-- **C06_compose** for the code as generated from /repo -/
theorem C06_compose_generated (cfg : Cfg) (password : Str) (reqs : List Req) (uuidStream : Nat → Str)
    (dtclient : DT) (htexts : ∀ s ∈ cfg.texts, EntityFree s) (hpw : EntityFree password)
    (hreqs : ∀ r ∈ reqs, ∀ s ∈ r.texts, EntityFree s)
    (huuid : ∀ i j, uuidStream i = uuidStream j → i = j) (hne : ∀ i, uuidStream i ≠ [])
    (huP : ∀ i, EntityFree (uuidStream i)) {root : Node}
    (h : requestStatements Ofx.Generated.schema Types.conv cfg password reqs uuidStream dtclient = .ok root) :
    RequestSpec Ofx.Generated.schema cfg password dtclient reqs (Int.ofNat cfg.version) root :=
  C06_compose schema_reqWF conv_ok cfg password reqs uuidStream dtclient htexts hpw hreqs huuid hne huP h

/-- likewise the account-info request -/
theorem C06_accounts_generated (cfg : Cfg) (password : Str) (dtacctup : Option DT) (uuidStream : Nat → Str)
    (dtclient : DT) (htexts : ∀ s ∈ cfg.texts, EntityFree s) (hpw : EntityFree password)
    (hu : EntityFree (uuidStream 0)) (hne : uuidStream 0 ≠ []) {root : Node}
    (h : requestAccounts Ofx.Generated.schema Types.conv cfg password dtacctup uuidStream dtclient = .ok root) :
    checkAccounts Ofx.Generated.schema cfg password dtclient dtacctup (Int.ofNat cfg.version) root = [] :=
  C06_accounts schema_reqWF conv_ok cfg password dtacctup uuidStream dtclient htexts hpw hu hne h

/-- likewise the profile request -/
theorem C06_profile_generated (cfg : Cfg) (dtprofup : Option DT) (uuidStream : Nat → Str)
    (dtclient : DT) (htexts : ∀ s ∈ cfg.texts, EntityFree s)
    (hu : EntityFree (uuidStream 0)) (hne : uuidStream 0 ≠ []) {root : Node}
    (h : requestProfile Ofx.Generated.schema Types.conv cfg dtprofup uuidStream dtclient = .ok root) :
    checkProfile Ofx.Generated.schema cfg dtclient dtprofup none (Int.ofNat cfg.version) root = [] :=
  C06_profile schema_reqWF conv_ok cfg dtprofup uuidStream dtclient htexts (by decide +kernel) (by decide +kernel)
    hu hne h

/-! ### witnesses -/

def wUuid (i : Nat) : Str := List.replicate (i + 1) 'u'

theorem wUuid_inj : ∀ i j, wUuid i = wUuid j → i = j := by
  intro i j h
  have := congrArg List.length h
  simpa [wUuid] using this

def wDt : DT := ⟨2020, 1, 2, 3, 4, 5, 0, some ⟨0, some "UTC".toList⟩⟩

def wCfg : Cfg :=
  { url := [], userid := "user".toList, clientuid := none, org := none, fid := none, version := 203,
    appid := "QWIN".toList, appver := "2700".toList, language := "ENG".toList, prettyprint := false,
    closeElements := true, bankid := none, brokerid := none }

/-- the full-strength statement: `C06_compose_generated` without the `EntityFree` guard on the caller's texts -/
def C06_compose_full : Prop :=
  ∀ (cfg : Cfg) (password : Str) (reqs : List Req) (uuidStream : Nat → Str) (dtclient : DT) (root : Node),
    (∀ i j, uuidStream i = uuidStream j → i = j) → (∀ i, uuidStream i ≠ []) → (∀ i, EntityFree (uuidStream i)) →
    requestStatements Ofx.Generated.schema Types.conv cfg password reqs uuidStream dtclient = .ok root →
    RequestSpec Ofx.Generated.schema cfg password dtclient reqs (Int.ofNat cfg.version) root

/-- password `&amp;`: the request composes, and exactly the clause `signon.userpass` fails -/
theorem entity_witness :
    (match requestStatements Ofx.Generated.schema Types.conv wCfg "&amp;".toList [] wUuid wDt with
      | .ok root => decide (check Ofx.Generated.schema wCfg "&amp;".toList wDt [] 203 root = ["signon.userpass"])
      | .error _ => false) = true := by decide +kernel

theorem C06_compose_full_false : ¬ C06_compose_full := by
  intro hfull
  have hw := entity_witness
  cases hr : requestStatements Ofx.Generated.schema Types.conv wCfg "&amp;".toList [] wUuid wDt with
  | error e => rw [hr] at hw; simp at hw
  | ok root =>
    rw [hr] at hw
    simp only [decide_eq_true_eq] at hw
    have := hfull wCfg "&amp;".toList [] wUuid wDt root wUuid_inj (by intro i; simp [wUuid])
      (by intro i; exact unescape_no_amp _ (by simp [wUuid, List.mem_replicate])) hr
    simp only [RequestSpec] at this
    rw [show (Int.ofNat wCfg.version) = 203 from rfl, hw] at this
    cases this

/-- the full-strength statement for the tax request -/
def C06_tax_full : Prop :=
  ∀ (cfg : Cfg) (password : Str) (taxyears : List Str) (acctnum recid : Option Str) (uuidStream : Nat → Str)
    (dtclient : DT) (root : Node),
    requestTax Ofx.Generated.schema Types.conv cfg password taxyears acctnum recid uuidStream dtclient = .ok root →
    checkTax Ofx.Generated.schema cfg password dtclient taxyears acctnum recid (Int.ofNat cfg.version) root = []

/-- `request_tax1099("pw", "2019", acctnum="777")`: composes, and exactly the wrapper clause fails (no ACCTNUM) -/
theorem tax_witness :
    (match requestTax Ofx.Generated.schema Types.conv wCfg "pw".toList ["2019".toList] (some "777".toList) none
        wUuid wDt with
      | .ok root => decide (checkTax Ofx.Generated.schema wCfg "pw".toList wDt ["2019".toList] (some "777".toList)
          none 203 root = ["wrappers.TAX1099TRNRQ"])
      | .error _ => false) = true := by decide +kernel

theorem C06_tax_full_false : ¬ C06_tax_full := by
  intro hfull
  have hw := tax_witness
  cases hr : requestTax Ofx.Generated.schema Types.conv wCfg "pw".toList ["2019".toList] (some "777".toList) none
      wUuid wDt with
  | error e => rw [hr] at hw; simp at hw
  | ok root =>
    rw [hr] at hw
    simp only [decide_eq_true_eq] at hw
    have := hfull wCfg "pw".toList ["2019".toList] (some "777".toList) none wUuid wDt root hr
    rw [show (Int.ofNat wCfg.version) = 203 from rfl, hw] at this
    cases this

/-- with no account number asked for, the same witness request satisfies the whole tax spec (the general statement
    for the tax request is `C06_tax_acctnum_ignored`; the positive general theorem is not proved: `TAX1099RQ` is an
    `ElementList`) -/
theorem C06_tax_partial_witness :
    (match requestTax Ofx.Generated.schema Types.conv wCfg "pw".toList ["2019".toList] none none wUuid wDt with
      | .ok root => decide (checkTax Ofx.Generated.schema wCfg "pw".toList wDt ["2019".toList] none none 203 root = [])
      | .error _ => false) = true := by decide +kernel

end Ofx.Gen
