/-
C06 on the generated schema and the real converters.

* `schema_reqWF`            — the generated schema has the classes, attributes and attribute kinds the request-composition
                              code relies on (`ReqWF`), by kernel evaluation; re-checked whenever `Generated/Schema.lean`
                              changes.
* `C06_compose_generated`   — `C06_compose` instantiated: schema = generated, converters = `Ofx.Types.conv`, guard
                              `EntityFree` on every caller-supplied text.
* `C06_compose_full(_false)`— without the guard the statement is false: password `&amp;` is sent as `&`
                              (`String.convert` unescapes at construction) — known finding string-entity-unescaped.
* `C06_tax_generated`       — the tax request (finding tax1099-acctnum-dropped is fixed in /repo; `tax_witness` replays its
                              witness `acctnum="777"`, which now satisfies the whole tax spec).
-/
import OfxProofs.Props.C06
import OfxProofs.Lemmas.Str
import OfxProofs.Gen.C01
import OfxModel.Generated.Schema

namespace Ofx.Gen
open Ofx Ofx.Compose Ofx.Spec.Request Ofx.C06

theorem schema_reqWF : ReqWF Ofx.Generated.schema = true := by decide +kernel

/-- **C06_compose** for the code as generated from /repo -/
theorem C06_compose_generated (cfg : Cfg) (password : Str) (reqs : List Req) (uuidStream : Nat → Str)
    (dtclient : DT) (htexts : ∀ s ∈ cfg.texts, EntityFree s) (hpw : EntityFree password)
    (hreqs : ∀ r ∈ reqs, ∀ s ∈ r.texts, EntityFree s)
    (huuid : ∀ i j, uuidStream i = uuidStream j → i = j) (hne : ∀ i, uuidStream i ≠ [])
    (huP : ∀ i, EntityFree (uuidStream i)) {root : Node}
    (h : requestStatements Ofx.Generated.schema Types.conv cfg password reqs uuidStream dtclient = .ok root) :
    RequestSpec Ofx.Generated.schema cfg password dtclient reqs (Int.ofNat cfg.version) root :=
  C06_compose schema_reqWF conv_ok cfg password reqs uuidStream dtclient htexts hpw hreqs huuid hne huP h

/-- likewise the account-info request -/
theorem C06_accounts_generated (cfg : Cfg) (password : Str) (dtacctup : Option DT) (uuidStream : Nat → Str)
    (dtclient : DT) (htexts : ∀ s ∈ cfg.texts, EntityFree s) (hpw : EntityFree password)
    (hu : EntityFree (uuidStream 0)) (hne : uuidStream 0 ≠ []) {root : Node}
    (h : requestAccounts Ofx.Generated.schema Types.conv cfg password dtacctup uuidStream dtclient = .ok root) :
    checkAccounts Ofx.Generated.schema cfg password dtclient dtacctup (Int.ofNat cfg.version) root = [] :=
  C06_accounts schema_reqWF conv_ok cfg password dtacctup uuidStream dtclient htexts hpw hu hne h

/-- likewise the profile request -/
theorem C06_profile_generated (cfg : Cfg) (dtprofup : Option DT) (uuidStream : Nat → Str)
    (dtclient : DT) (htexts : ∀ s ∈ cfg.texts, EntityFree s)
    (hu : EntityFree (uuidStream 0)) (hne : uuidStream 0 ≠ []) {root : Node}
    (h : requestProfile Ofx.Generated.schema Types.conv cfg dtprofup uuidStream dtclient = .ok root) :
    checkProfile Ofx.Generated.schema cfg dtclient dtprofup none (Int.ofNat cfg.version) root = [] :=
  C06_profile schema_reqWF conv_ok cfg dtprofup uuidStream dtclient htexts (by decide +kernel) (by decide +kernel)
    hu hne h

/-! ### witnesses -/

def wUuid (i : Nat) : Str := List.replicate (i + 1) 'u'

theorem wUuid_inj : ∀ i j, wUuid i = wUuid j → i = j := by
  intro i j h
  have := congrArg List.length h
  simpa [wUuid] using this

def wDt : DT := ⟨2020, 1, 2, 3, 4, 5, 0, some ⟨0, some "UTC".toList⟩⟩

def wCfg : Cfg :=
  { url := [], userid := "user".toList, clientuid := none, org := none, fid := none, version := 203,
    appid := "QWIN".toList, appver := "2700".toList, language := "ENG".toList, prettyprint := false,
    closeElements := true, bankid := none, brokerid := none }

/-- the full-strength statement: `C06_compose_generated` without the `EntityFree` guard on the caller's texts -/
def C06_compose_full : Prop :=
  ∀ (cfg : Cfg) (password : Str) (reqs : List Req) (uuidStream : Nat → Str) (dtclient : DT) (root : Node),
    (∀ i j, uuidStream i = uuidStream j → i = j) → (∀ i, uuidStream i ≠ []) → (∀ i, EntityFree (uuidStream i)) →
    requestStatements Ofx.Generated.schema Types.conv cfg password reqs uuidStream dtclient = .ok root →
    RequestSpec Ofx.Generated.schema cfg password dtclient reqs (Int.ofNat cfg.version) root

/-- password `&amp;`: the request composes, and exactly the clause `signon.userpass` fails -/
theorem entity_witness :
    (match requestStatements Ofx.Generated.schema Types.conv wCfg "&amp;".toList [] wUuid wDt with
      | .ok root => decide (check Ofx.Generated.schema wCfg "&amp;".toList wDt [] 203 root = ["signon.userpass"])
      | .error _ => false) = true := by decide +kernel

theorem C06_compose_full_false : ¬ C06_compose_full := by
  intro hfull
  have hw := entity_witness
  cases hr : requestStatements Ofx.Generated.schema Types.conv wCfg "&amp;".toList [] wUuid wDt with
  | error e => rw [hr] at hw; simp at hw
  | ok root =>
    rw [hr] at hw
    simp only [decide_eq_true_eq] at hw
    have := hfull wCfg "&amp;".toList [] wUuid wDt root wUuid_inj (by intro i; simp [wUuid])
      (by intro i; exact unescape_no_amp _ (by simp [wUuid, List.mem_replicate])) hr
    simp only [RequestSpec] at this
    rw [show (Int.ofNat wCfg.version) = 203 from rfl, hw] at this
    cases this

theorem schema_taxWF : taxWFB Ofx.Generated.schema = true := by decide +kernel

/-- **C06_tax** for the code as generated from /repo -/
theorem C06_tax_generated (cfg : Cfg) (password : Str) (taxyears : List Str) (acctnum recid : Option Str)
    (uuidStream : Nat → Str) (dtclient : DT) (htexts : ∀ s ∈ cfg.texts, EntityFree s) (hpw : EntityFree password)
    (hacct : ∀ s, acctnum = some s → EntityFree s) (hrec : ∀ s, recid = some s → EntityFree s)
    (hyears : ∀ y ∈ taxyears, ∃ j : Int, y = pyStrInt j)
    (hu : EntityFree (uuidStream 0)) (hne : uuidStream 0 ≠ []) {root : Node}
    (h : requestTax Ofx.Generated.schema Types.conv cfg password taxyears acctnum recid uuidStream dtclient
      = .ok root) :
    checkTax Ofx.Generated.schema cfg password dtclient taxyears acctnum recid (Int.ofNat cfg.version) root = [] :=
  C06_tax schema_reqWF schema_taxWF conv_ok conv_year cfg password taxyears acctnum recid uuidStream dtclient htexts
    hpw hacct hrec hyears hu hne h

/-- the witness of the former finding `tax1099_acctnum_dropped`, now passing:
    `request_tax1099("pw", "2019", acctnum="777")` composes and satisfies the whole tax spec (ACCTNUM 777 placed) -/
theorem tax_witness :
    (match requestTax Ofx.Generated.schema Types.conv wCfg "pw".toList ["2019".toList] (some "777".toList) none
        wUuid wDt with
      | .ok root => decide (checkTax Ofx.Generated.schema wCfg "pw".toList wDt ["2019".toList] (some "777".toList)
          none 203 root = [])
      | .error _ => false) = true := by decide +kernel

/-! ### the wire: the composed request, written and read back -/

theorem schema_wireWF : WireWF Ofx.Generated.schema = true := by decide +kernel

theorem schema_enumsPlain : enumsPlainB Ofx.Generated.schema.enums = true := by decide +kernel

/-- what `OFXClient.serialize` takes from outside the client, as the round-trip environment has it -/
def envOf (E : Ofx.Pipeline.Env) : Ofx.Compose.Env := { p1 := E.p1, p2 := E.p2, htmlEmpty := E.htmlEmpty }

/-- `Pipeline.writeFile` is `OFXClient.serialize` (as modelled by `serializeReq`) followed by the utf-8 encoding -/
theorem writeFile_serializeReq (E : Ofx.Pipeline.Env) (cfg : Cfg) (root : Node) (new : Option Str) :
    Ofx.Pipeline.writeFile E cfg.version none new cfg.prettyprint cfg.closeElements root =
      (serializeReq E.S E.cv (envOf E) cfg root none none new none none >>=
        fun text => Ofx.Codec.encode E.cp1252 .utf8 text) := by
  simp only [Ofx.Pipeline.writeFile, serializeReq, envOf, orDefault, bind, Except.bind]
  cases Ofx.Header.makeHeader E.p1 E.p2 (.int (cfg.version : Nat)) none none new with
  | error e => rfl
  | ok hdr =>
    simp only
    cases Ofx.Agg.toEtree E.S E.cv root with
    | error e => rfl
    | ok tree => first | rfl | simp only

/-- **the composed statement request is a valid instance of the generated schema** (values in the wire domain) -/
theorem C06_request_valid (cfg : Cfg) (password : Str) (reqs : List Req) (uuidStream : Nat → Str) (dtclient : DT)
    (htexts : ∀ s ∈ cfg.texts, WireText s) (hpw : WireText password)
    (hreqs : ∀ r ∈ reqs, ∀ s ∈ r.texts, WireText s)
    (hdates : ∀ r ∈ reqs, ∀ d ∈ r.dates, Ofx.DateTime.dtUtcMs d) (hdt : Ofx.DateTime.dtUtcMs dtclient)
    (huP : ∀ i, WireText (uuidStream i)) {root : Node}
    (h : requestStatements Ofx.Generated.schema Types.conv cfg password reqs uuidStream dtclient = .ok root) :
    Ofx.Agg.Valid genEnv.S genEnv.cv Ofx.escapeCdata (Ofx.Types.typesDomWire genEnv.S.enums) root :=
  requestStatements_valid schema_reqWF schema_wireWF conv_ok_wire
    (types_convInto _ schema_enumsPlain) (Ofx.Types.typesConv_laws_wire _) cfg password reqs uuidStream dtclient
    htexts hpw hreqs hdates hdt huP h

/-- **C06_wire_closed** — `RoundTrip` discharged for the closed forms (`close_elements=True`, every supported
    version, plain or pretty): for every configuration and request list for which composition succeeds, the file
    `request_statements(dryrun=True)` returns (header of `cfg.version` with the n-th uuid as NEWFILEUID, body by
    `ET.tostring(method="html")`, utf-8) is read back by `OFXTree.parse` + `convert` to exactly that header and exactly
    the composed instance — which satisfies `RequestSpec`.  Guards: caller texts `WireText` (entity-free, trimmed),
    dates UTC at millisecond resolution (what the OFX notation can carry), NEWFILEUID within the header's limits. -/
theorem C06_wire_closed (cfg : Cfg) (password : Str) (reqs : List Req) (uuidStream : Nat → Str) (dtclient : DT)
    (hclose : cfg.closeElements = true)
    (htexts : ∀ s ∈ cfg.texts, WireText s) (hpw : WireText password)
    (hreqs : ∀ r ∈ reqs, ∀ s ∈ r.texts, WireText s)
    (hdates : ∀ r ∈ reqs, ∀ d ∈ r.dates, Ofx.DateTime.dtUtcMs d) (hdt : Ofx.DateTime.dtUtcMs dtclient)
    (huuid : ∀ i j, uuidStream i = uuidStream j → i = j) (hne : ∀ i, uuidStream i ≠ [])
    (huP : ∀ i, WireText (uuidStream i))
    (hn1 : Ofx.Header.UidOk genEnv.p1.newLen (some (uuidStream reqs.length)))
    (hn2 : Ofx.Header.UidOk genEnv.p2.newLen (some (uuidStream reqs.length)))
    {root : Node}
    (h : requestStatements Ofx.Generated.schema Types.conv cfg password reqs uuidStream dtclient = .ok root)
    {hdr : Ofx.Header.Hdr}
    (hmk : Ofx.Header.makeHeader genEnv.p1 genEnv.p2 (.int (cfg.version : Nat)) none none
      (some (uuidStream reqs.length)) = .ok hdr) :
    ∃ file, Ofx.Pipeline.writeFile genEnv cfg.version none (some (uuidStream reqs.length)) cfg.prettyprint
        cfg.closeElements root = .ok file ∧
      Ofx.Pipeline.readFile genEnv file = .ok (hdr, root) ∧
      hdrVersion hdr = Int.ofNat cfg.version ∧
      RequestSpec Ofx.Generated.schema cfg password dtclient reqs (hdrVersion hdr) root := by
  have hv := C06_request_valid cfg password reqs uuidStream dtclient htexts hpw hreqs hdates hdt huP h
  obtain ⟨file, hw, hr⟩ := C01_generated_closed cfg.version none (some (uuidStream reqs.length)) uid1o hn1 uid2o hn2
    cfg.prettyprint root hv hdr hmk
  have hver := makeHeader_version _ _ _ _ _ _ _ hmk
  refine ⟨file, by rw [hclose]; exact hw, hr, hver, ?_⟩
  rw [hver]
  exact C06_compose_generated cfg password reqs uuidStream dtclient (fun s hs => (htexts s hs).1) hpw.1
    (fun r hr s hs => (hreqs r hr s hs).1) huuid hne (fun i => (huP i).1) h

/-- the guards of `C06_wire_closed` are satisfiable: the witness configuration, a password, a UTC instant, the uuid
    stream, and a request list for which composition succeeds -/
example : (∀ s ∈ wCfg.texts, WireText s) ∧ WireText "pass".toList ∧ Ofx.DateTime.dtUtcMs wDt ∧
    (∀ i, WireText (wUuid i)) ∧ Ofx.Header.UidOk genEnv.p1.newLen (some (wUuid 1)) ∧
    (requestStatements Ofx.Generated.schema Types.conv wCfg "pass".toList
      [.ccStmt (some "123".toList) (some wDt) none (some true)] wUuid wDt).toBool = true := by
  refine ⟨by decide +kernel, by decide +kernel, ?_, ?_, ?_, by decide +kernel⟩
  · refine ⟨by decide +kernel, rfl, by decide +kernel, by decide +kernel, by decide +kernel⟩
  · intro i
    refine ⟨unescape_no_amp _ (by simp [wUuid, List.mem_replicate]), ?_⟩
    simp only [Spec.Wire.trimmedB, wUuid, List.replicate_succ, List.head?_cons]
    have : (List.replicate i 'u' ++ ['u']).getLast? = some 'u' := by simp
    rw [show 'u' :: List.replicate i 'u' = List.replicate i 'u' ++ ['u'] from by
      rw [← List.replicate_succ, List.replicate_succ']]
    rw [this]
    decide
  · refine ⟨⟨by simp [wUuid], ?_⟩, ?_⟩
    · intro c hc
      simp only [wUuid, List.mem_replicate] at hc
      rw [hc.2]; decide
    intro n hn
    have : genEnv.p1.newLen = some 36 := by decide +kernel
    rw [this] at hn; injection hn with hn; subst hn; decide

end Ofx.Gen
