/-
C06 on the generated schema and the real converters.

* `schema_reqWF`            — the generated schema has the classes, attributes and attribute kinds the request-composition
                              code relies on (`ReqWF`), by kernel evaluation; re-checked whenever `Generated/Schema.lean`
                              changes.
* `C06_compose_generated`   — `C06_compose` instantiated: schema = generated, converters = `Ofx.Types.conv`, guard
                              `EntityFree` on every caller-supplied text.
* `C06_compose_full(_false)`— without the guard the statement is false: password `&amp;` is sent as `&`
                              (`String.convert` unescapes at construction) — known finding string-entity-unescaped.
* `C06_tax_generated`       — the tax request (finding tax1099-acctnum-dropped is fixed in /repo; its witness is replayed
                              in the witness module Gen/ComposeW.lean).
* `C06_wire_closed`, `C06_wire_closed_accounts/_profile/_tax` — the composed request, written by `serialize` and read
                              back, is the composed instance (`RoundTrip` discharged from `C01_generated_closed`).
Nothing here refers to a class by its position in the generated table: classes are looked up by name
(`findIdx?`), class-specific kernel evaluations live in Gen/ComposeW.lean.
-/
import OfxProofs.Props.C06
import OfxProofs.Lemmas.Str
import OfxProofs.Gen.C01
import OfxModel.Generated.Schema

namespace Ofx.Gen
open Ofx Ofx.Compose Ofx.Spec.Request Ofx.C06

theorem schema_reqWF : ReqWF Ofx.Generated.schema = true := by decide +kernel

/-- **C06_compose** for the code as generated from /repo -/
theorem C06_compose_generated (cfg : Cfg) (password : Str) (reqs : List Req) (uuidStream : Nat → Str)
    (dtclient : DT) (htexts : ∀ s ∈ cfg.texts, EntityFree s) (hpw : EntityFree password)
    (hreqs : ∀ r ∈ reqs, ∀ s ∈ r.texts, EntityFree s)
    (huuid : ∀ i j, uuidStream i = uuidStream j → i = j) (hne : ∀ i, uuidStream i ≠ [])
    (huP : ∀ i, EntityFree (uuidStream i)) {root : Node}
    (h : requestStatements Ofx.Generated.schema Types.conv cfg password reqs uuidStream dtclient = .ok root) :
    RequestSpec Ofx.Generated.schema cfg password dtclient reqs (Int.ofNat cfg.version) root :=
  C06_compose schema_reqWF conv_ok cfg password reqs uuidStream dtclient htexts hpw hreqs huuid hne huP h

/-- likewise the account-info request -/
theorem C06_accounts_generated (cfg : Cfg) (password : Str) (dtacctup : Option DT) (uuidStream : Nat → Str)
    (dtclient : DT) (htexts : ∀ s ∈ cfg.texts, EntityFree s) (hpw : EntityFree password)
    (hu : EntityFree (uuidStream 0)) (hne : uuidStream 0 ≠ []) {root : Node}
    (h : requestAccounts Ofx.Generated.schema Types.conv cfg password dtacctup uuidStream dtclient = .ok root) :
    checkAccounts Ofx.Generated.schema cfg password dtclient dtacctup (Int.ofNat cfg.version) root = [] :=
  C06_accounts schema_reqWF conv_ok cfg password dtacctup uuidStream dtclient htexts hpw hu hne h

/-- likewise the profile request -/
theorem C06_profile_generated (cfg : Cfg) (dtprofup : Option DT) (uuidStream : Nat → Str)
    (dtclient : DT) (htexts : ∀ s ∈ cfg.texts, EntityFree s)
    (hu : EntityFree (uuidStream 0)) (hne : uuidStream 0 ≠ []) {root : Node}
    (h : requestProfile Ofx.Generated.schema Types.conv cfg dtprofup uuidStream dtclient = .ok root) :
    checkProfile Ofx.Generated.schema cfg dtclient dtprofup none (Int.ofNat cfg.version) root = [] :=
  C06_profile schema_reqWF conv_ok cfg dtprofup uuidStream dtclient htexts (by decide +kernel) (by decide +kernel)
    hu hne h

/-! ### witnesses -/

def wUuid (i : Nat) : Str := List.replicate (i + 1) 'u'

theorem wUuid_inj : ∀ i j, wUuid i = wUuid j → i = j := by
  intro i j h
  have := congrArg List.length h
  simpa [wUuid] using this

def wDt : DT := ⟨2020, 1, 2, 3, 4, 5, 0, some ⟨0, some "UTC".toList⟩⟩

def wCfg : Cfg :=
  { url := [], userid := "user".toList, clientuid := none, org := none, fid := none, version := 203,
    appid := "QWIN".toList, appver := "2700".toList, language := "ENG".toList, prettyprint := false,
    closeElements := true, bankid := none, brokerid := none }

/-- the full-strength statement: `C06_compose_generated` without the `EntityFree` guard on the caller's texts -/
def C06_compose_full : Prop :=
  ∀ (cfg : Cfg) (password : Str) (reqs : List Req) (uuidStream : Nat → Str) (dtclient : DT) (root : Node),
    (∀ i j, uuidStream i = uuidStream j → i = j) → (∀ i, uuidStream i ≠ []) → (∀ i, EntityFree (uuidStream i)) →
    requestStatements Ofx.Generated.schema Types.conv cfg password reqs uuidStream dtclient = .ok root →
    RequestSpec Ofx.Generated.schema cfg password dtclient reqs (Int.ofNat cfg.version) root

/-- password `&amp;`: the request composes, and exactly the clause `signon.userpass` fails -/
theorem entity_witness :
    (match requestStatements Ofx.Generated.schema Types.conv wCfg "&amp;".toList [] wUuid wDt with
      | .ok root => decide (check Ofx.Generated.schema wCfg "&amp;".toList wDt [] 203 root = ["signon.userpass"])
      | .error _ => false) = true := by decide +kernel

theorem C06_compose_full_false : ¬ C06_compose_full := by
  intro hfull
  have hw := entity_witness
  cases hr : requestStatements Ofx.Generated.schema Types.conv wCfg "&amp;".toList [] wUuid wDt with
  | error e => rw [hr] at hw; simp at hw
  | ok root =>
    rw [hr] at hw
    simp only [decide_eq_true_eq] at hw
    have := hfull wCfg "&amp;".toList [] wUuid wDt root wUuid_inj (by intro i; simp [wUuid])
      (by intro i; exact unescape_no_amp _ (by simp [wUuid, List.mem_replicate])) hr
    simp only [RequestSpec] at this
    rw [show (Int.ofNat wCfg.version) = 203 from rfl, hw] at this
    cases this

theorem schema_taxWF : taxWFB Ofx.Generated.schema = true := by decide +kernel

/-- **C06_tax** for the code as generated from /repo -/
theorem C06_tax_generated (cfg : Cfg) (password : Str) (taxyears : List Str) (acctnum recid : Option Str)
    (uuidStream : Nat → Str) (dtclient : DT) (htexts : ∀ s ∈ cfg.texts, EntityFree s) (hpw : EntityFree password)
    (hacct : ∀ s, acctnum = some s → EntityFree s) (hrec : ∀ s, recid = some s → EntityFree s)
    (hyears : ∀ y ∈ taxyears, ∃ j : Int, y = pyStrInt j)
    (hu : EntityFree (uuidStream 0)) (hne : uuidStream 0 ≠ []) {root : Node}
    (h : requestTax Ofx.Generated.schema Types.conv cfg password taxyears acctnum recid uuidStream dtclient
      = .ok root) :
    checkTax Ofx.Generated.schema cfg password dtclient taxyears acctnum recid (Int.ofNat cfg.version) root = [] :=
  C06_tax schema_reqWF schema_taxWF conv_ok conv_year cfg password taxyears acctnum recid uuidStream dtclient htexts
    hpw hacct hrec hyears hu hne h

/-! ### the wire: the composed request, written and read back -/

theorem schema_wireWF : WireWF Ofx.Generated.schema = true := by decide +kernel

theorem schema_enumsPlain : enumsPlainB Ofx.Generated.schema.enums = true := by decide +kernel

/-- what `OFXClient.serialize` takes from outside the client, as the round-trip environment has it -/
def envOf (E : Ofx.Pipeline.Env) : Ofx.Compose.Env := { p1 := E.p1, p2 := E.p2, htmlEmpty := E.htmlEmpty }

/-- `Pipeline.writeFile` is `OFXClient.serialize` (as modelled by `serializeReq`) followed by the utf-8 encoding -/
theorem writeFile_serializeReq (E : Ofx.Pipeline.Env) (cfg : Cfg) (root : Node) (new : Option Str) :
    Ofx.Pipeline.writeFile E cfg.version none new cfg.prettyprint cfg.closeElements root =
      (serializeReq E.S E.cv (envOf E) cfg root none none new none none >>=
        fun text => Ofx.Codec.encode E.cp1252 .utf8 text) := by
  simp only [Ofx.Pipeline.writeFile, serializeReq, envOf, orDefault, bind, Except.bind]
  cases Ofx.Header.makeHeader E.p1 E.p2 (.int (cfg.version : Nat)) none none new with
  | error e => rfl
  | ok hdr =>
    simp only
    cases Ofx.Agg.toEtree E.S E.cv root with
    | error e => rfl
    | ok tree => first | rfl | simp only

/-- **the composed statement request is a valid instance of the generated schema** (values in the wire domain) -/
theorem C06_request_valid (cfg : Cfg) (password : Str) (reqs : List Req) (uuidStream : Nat → Str) (dtclient : DT)
    (htexts : ∀ s ∈ cfg.texts, WireText s) (hpw : WireText password)
    (hreqs : ∀ r ∈ reqs, ∀ s ∈ r.texts, WireText s)
    (hdates : ∀ r ∈ reqs, ∀ d ∈ r.dates, Ofx.DateTime.dtUtcMs d) (hdt : Ofx.DateTime.dtUtcMs dtclient)
    (huP : ∀ i, WireText (uuidStream i)) {root : Node}
    (h : requestStatements Ofx.Generated.schema Types.conv cfg password reqs uuidStream dtclient = .ok root) :
    Ofx.Agg.Valid genEnv.S genEnv.cv Ofx.escapeCdata (Ofx.Types.typesDomWire genEnv.S.enums) root :=
  requestStatements_valid schema_reqWF schema_wireWF conv_ok_wire
    (types_convInto _ schema_enumsPlain) (Ofx.Types.typesConv_laws_wire _) cfg password reqs uuidStream dtclient
    htexts hpw hreqs hdates hdt huP h

/-- **C06_wire_closed** — `RoundTrip` discharged for the closed forms (`close_elements=True`, every supported
    version, plain or pretty): for every configuration and request list for which composition succeeds, the file
    `request_statements(dryrun=True)` returns (header of `cfg.version` with the n-th uuid as NEWFILEUID, body by
    `ET.tostring(method="html")`, utf-8) is read back by `OFXTree.parse` + `convert` to exactly that header and exactly
    the composed instance — which satisfies `RequestSpec`.  Guards: caller texts `WireText` (entity-free, trimmed),
    dates UTC at millisecond resolution (what the OFX notation can carry), NEWFILEUID within the header's limits. -/
theorem C06_wire_closed (cfg : Cfg) (password : Str) (reqs : List Req) (uuidStream : Nat → Str) (dtclient : DT)
    (hclose : cfg.closeElements = true)
    (htexts : ∀ s ∈ cfg.texts, WireText s) (hpw : WireText password)
    (hreqs : ∀ r ∈ reqs, ∀ s ∈ r.texts, WireText s)
    (hdates : ∀ r ∈ reqs, ∀ d ∈ r.dates, Ofx.DateTime.dtUtcMs d) (hdt : Ofx.DateTime.dtUtcMs dtclient)
    (huuid : ∀ i j, uuidStream i = uuidStream j → i = j) (hne : ∀ i, uuidStream i ≠ [])
    (huP : ∀ i, WireText (uuidStream i))
    (hn1 : Ofx.Header.UidOk genEnv.p1.newLen (some (uuidStream reqs.length)))
    (hn2 : Ofx.Header.UidOk genEnv.p2.newLen (some (uuidStream reqs.length)))
    {root : Node}
    (h : requestStatements Ofx.Generated.schema Types.conv cfg password reqs uuidStream dtclient = .ok root)
    {hdr : Ofx.Header.Hdr}
    (hmk : Ofx.Header.makeHeader genEnv.p1 genEnv.p2 (.int (cfg.version : Nat)) none none
      (some (uuidStream reqs.length)) = .ok hdr) :
    ∃ file, Ofx.Pipeline.writeFile genEnv cfg.version none (some (uuidStream reqs.length)) cfg.prettyprint
        cfg.closeElements root = .ok file ∧
      Ofx.Pipeline.readFile genEnv file = .ok (hdr, root) ∧
      hdrVersion hdr = Int.ofNat cfg.version ∧
      RequestSpec Ofx.Generated.schema cfg password dtclient reqs (hdrVersion hdr) root := by
  have hv := C06_request_valid cfg password reqs uuidStream dtclient htexts hpw hreqs hdates hdt huP h
  obtain ⟨file, hw, hr⟩ := C01_generated_closed cfg.version none (some (uuidStream reqs.length)) uid1o hn1 uid2o hn2
    cfg.prettyprint root hv hdr hmk
  have hver := makeHeader_version _ _ _ _ _ _ _ hmk
  refine ⟨file, by rw [hclose]; exact hw, hr, hver, ?_⟩
  rw [hver]
  exact C06_compose_generated cfg password reqs uuidStream dtclient (fun s hs => (htexts s hs).1) hpw.1
    (fun r hr s hs => (hreqs r hr s hs).1) huuid hne (fun i => (huP i).1) h

/-! ### the other three requests on the wire -/

theorem schema_taxMsgsVal : taxMsgsValB Ofx.Generated.schema = true := by decide +kernel

theorem schema_taxRqVal : taxRqValB Ofx.Generated.schema = true := by decide +kernel

/-- the premises of `construct_valid_any` for `TAX1099RQ`, found by name -/
theorem gen_taxAny : ∀ ci c, Ofx.Generated.schema.findIdx? "TAX1099RQ".toList = some ci →
    Ofx.Generated.schema.cls? ci = some c →
    Ofx.Agg.ClsAny Ofx.Generated.schema c ci ∧ c.extra = .none ∧ c.optMutex = [] ∧ c.reqMutex = [] := by
  intro ci c hi hc
  have hmem : c ∈ Ofx.Generated.schema.classes := List.mem_of_getElem? hc
  have hname := findIdx_name hi hc
  obtain ⟨habs, hx⟩ := taxRqVal_of schema_taxRqVal hi hc
  exact ⟨⟨hc, habs, by rw [hname]; exact hi, schema_clsWF c hmem (by rw [hname]; decide), gen_groomOk c hmem⟩, hx⟩

/-- what the three wire theorems below share: a `Valid` root written by `serialize` and read back -/
theorem wire_of_valid (cfg : Cfg) (new : Str) (hclose : cfg.closeElements = true)
    (hn1 : Ofx.Header.UidOk genEnv.p1.newLen (some new)) (hn2 : Ofx.Header.UidOk genEnv.p2.newLen (some new))
    {root : Node}
    (hv : Ofx.Agg.Valid genEnv.S genEnv.cv Ofx.escapeCdata (Ofx.Types.typesDomWire genEnv.S.enums) root)
    {v : Nat} {hdr : Ofx.Header.Hdr}
    (hmk : Ofx.Header.makeHeader genEnv.p1 genEnv.p2 (.int (v : Nat)) none none (some new) = .ok hdr) :
    ∃ file, Ofx.Pipeline.writeFile genEnv v none (some new) cfg.prettyprint cfg.closeElements root = .ok file ∧
      Ofx.Pipeline.readFile genEnv file = .ok (hdr, root) ∧ hdrVersion hdr = Int.ofNat v := by
  obtain ⟨file, hw, hr⟩ := C01_generated_closed v none (some new) uid1o hn1 uid2o hn2 cfg.prettyprint root hv hdr hmk
  exact ⟨file, by rw [hclose]; exact hw, hr, makeHeader_version _ _ _ _ _ _ _ hmk⟩

/-- **C06_wire_closed, account-info request** — `request_accounts(password, dtacctup, dryrun=True)`: the file is read
    back to the header written (version `cfg.version`, NEWFILEUID the second uuid) and exactly the composed instance,
    which satisfies the account-info spec.  Same guards as `C06_wire_closed`. -/
theorem C06_wire_closed_accounts (cfg : Cfg) (password : Str) (dtacctup : Option DT) (uuidStream : Nat → Str)
    (dtclient : DT) (hclose : cfg.closeElements = true)
    (htexts : ∀ s ∈ cfg.texts, WireText s) (hpw : WireText password)
    (hd : ∀ d, dtacctup = some d → Ofx.DateTime.dtUtcMs d) (hdt : Ofx.DateTime.dtUtcMs dtclient)
    (hu : WireText (uuidStream 0)) (hne : uuidStream 0 ≠ [])
    (hn1 : Ofx.Header.UidOk genEnv.p1.newLen (some (uuidStream 1)))
    (hn2 : Ofx.Header.UidOk genEnv.p2.newLen (some (uuidStream 1))) {root : Node}
    (h : requestAccounts Ofx.Generated.schema Types.conv cfg password dtacctup uuidStream dtclient = .ok root)
    {hdr : Ofx.Header.Hdr}
    (hmk : Ofx.Header.makeHeader genEnv.p1 genEnv.p2 (.int (cfg.version : Nat)) none none (some (uuidStream 1))
      = .ok hdr) :
    ∃ file, Ofx.Pipeline.writeFile genEnv cfg.version none (some (uuidStream 1)) cfg.prettyprint cfg.closeElements
        root = .ok file ∧
      Ofx.Pipeline.readFile genEnv file = .ok (hdr, root) ∧ hdrVersion hdr = Int.ofNat cfg.version ∧
      checkAccounts Ofx.Generated.schema cfg password dtclient dtacctup (hdrVersion hdr) root = [] := by
  have hv : Ofx.Agg.Valid genEnv.S genEnv.cv Ofx.escapeCdata (Ofx.Types.typesDomWire genEnv.S.enums) root :=
    requestAccounts_valid schema_reqWF schema_wireWF conv_ok_wire (types_convInto _ schema_enumsPlain)
      (Ofx.Types.typesConv_laws_wire _) cfg password dtacctup uuidStream dtclient htexts hpw hd hdt hu h
  obtain ⟨file, hw, hr, hver⟩ := wire_of_valid cfg _ hclose hn1 hn2 hv hmk
  refine ⟨file, hw, hr, hver, ?_⟩
  rw [hver]
  exact C06_accounts_generated cfg password dtacctup uuidStream dtclient (fun s hs => (htexts s hs).1) hpw.1 hu.1
    hne h

/-- **C06_wire_closed, profile request** — `_request_profile(dtprofup, dryrun=True)` (no per-call overrides).
    New guard, explicit: the DTPROFUP actually sent (the given one, else 1990-01-01 UTC) is `dtUtcMs` -/
theorem C06_wire_closed_profile (cfg : Cfg) (dtprofup : Option DT) (uuidStream : Nat → Str)
    (dtclient : DT) (hclose : cfg.closeElements = true)
    (htexts : ∀ s ∈ cfg.texts, WireText s)
    (hd : Ofx.DateTime.dtUtcMs (orDefault dtprofup defaultDtprofup)) (hdt : Ofx.DateTime.dtUtcMs dtclient)
    (hu : WireText (uuidStream 0)) (hne : uuidStream 0 ≠ [])
    (hn1 : Ofx.Header.UidOk genEnv.p1.newLen (some (uuidStream 1)))
    (hn2 : Ofx.Header.UidOk genEnv.p2.newLen (some (uuidStream 1))) {root : Node}
    (h : requestProfile Ofx.Generated.schema Types.conv cfg dtprofup uuidStream dtclient = .ok root)
    {hdr : Ofx.Header.Hdr}
    (hmk : Ofx.Header.makeHeader genEnv.p1 genEnv.p2 (.int (cfg.version : Nat)) none none (some (uuidStream 1))
      = .ok hdr) :
    ∃ file, Ofx.Pipeline.writeFile genEnv cfg.version none (some (uuidStream 1)) cfg.prettyprint cfg.closeElements
        root = .ok file ∧
      Ofx.Pipeline.readFile genEnv file = .ok (hdr, root) ∧ hdrVersion hdr = Int.ofNat cfg.version ∧
      checkProfile Ofx.Generated.schema cfg dtclient dtprofup none (hdrVersion hdr) root = [] := by
  have hv : Ofx.Agg.Valid genEnv.S genEnv.cv Ofx.escapeCdata (Ofx.Types.typesDomWire genEnv.S.enums) root :=
    requestProfile_valid schema_reqWF schema_wireWF conv_ok_wire (types_convInto _ schema_enumsPlain)
      (Ofx.Types.typesConv_laws_wire _) cfg dtprofup uuidStream dtclient htexts (by decide +kernel)
      (by decide +kernel) hd hdt hu h
  obtain ⟨file, hw, hr, hver⟩ := wire_of_valid cfg _ hclose hn1 hn2 hv hmk
  refine ⟨file, hw, hr, hver, ?_⟩
  rw [hver]
  exact C06_profile_generated cfg dtprofup uuidStream dtclient (fun s hs => (htexts s hs).1) hu.1 hne h

/-- the default DTPROFUP is a wire date, so the guard of `C06_wire_closed_profile` only concerns a date that is given -/
theorem defaultDtprofup_wire : Ofx.DateTime.dtUtcMs defaultDtprofup :=
  ⟨by decide +kernel, rfl, by decide +kernel, by decide +kernel, by decide +kernel⟩

/-- **C06_wire_closed, tax request** — `request_tax1099(password, *taxyears, acctnum=…, recid=…, dryrun=True)`;
    `TAX1099RQ` (an `ElementList`) is covered through `construct_valid_any`.  Guards as before plus: the account
    number and record id are `WireText`, the tax years are canonical decimal texts -/
theorem C06_wire_closed_tax (cfg : Cfg) (password : Str) (taxyears : List Str) (acctnum recid : Option Str)
    (uuidStream : Nat → Str) (dtclient : DT) (hclose : cfg.closeElements = true)
    (htexts : ∀ s ∈ cfg.texts, WireText s) (hpw : WireText password)
    (hacct : ∀ s, acctnum = some s → WireText s) (hrec : ∀ s, recid = some s → WireText s)
    (hyears : ∀ y ∈ taxyears, ∃ j : Int, y = pyStrInt j) (hdt : Ofx.DateTime.dtUtcMs dtclient)
    (hu : WireText (uuidStream 0)) (hne : uuidStream 0 ≠ [])
    (hn1 : Ofx.Header.UidOk genEnv.p1.newLen (some (uuidStream 1)))
    (hn2 : Ofx.Header.UidOk genEnv.p2.newLen (some (uuidStream 1))) {root : Node}
    (h : requestTax Ofx.Generated.schema Types.conv cfg password taxyears acctnum recid uuidStream dtclient
      = .ok root) {hdr : Ofx.Header.Hdr}
    (hmk : Ofx.Header.makeHeader genEnv.p1 genEnv.p2 (.int (cfg.version : Nat)) none none (some (uuidStream 1))
      = .ok hdr) :
    ∃ file, Ofx.Pipeline.writeFile genEnv cfg.version none (some (uuidStream 1)) cfg.prettyprint cfg.closeElements
        root = .ok file ∧
      Ofx.Pipeline.readFile genEnv file = .ok (hdr, root) ∧ hdrVersion hdr = Int.ofNat cfg.version ∧
      checkTax Ofx.Generated.schema cfg password dtclient taxyears acctnum recid (hdrVersion hdr) root = [] := by
  have hv : Ofx.Agg.Valid genEnv.S genEnv.cv Ofx.escapeCdata (Ofx.Types.typesDomWire genEnv.S.enums) root :=
    requestTax_valid schema_reqWF schema_wireWF schema_taxWF schema_taxMsgsVal gen_taxAny conv_ok_wire
      (types_convInto _ schema_enumsPlain) (Ofx.Types.typesConv_laws_wire _) conv_year (conv_yearDom _)
      cfg password taxyears acctnum recid uuidStream dtclient htexts hpw hacct hrec hyears hdt hu h
  obtain ⟨file, hw, hr, hver⟩ := wire_of_valid cfg _ hclose hn1 hn2 hv hmk
  refine ⟨file, hw, hr, hver, ?_⟩
  rw [hver]
  exact C06_tax_generated cfg password taxyears acctnum recid uuidStream dtclient (fun s hs => (htexts s hs).1) hpw.1
    (fun s hs => (hacct s hs).1) (fun s hs => (hrec s hs).1) hyears hu.1 hne h

end Ofx.Gen
