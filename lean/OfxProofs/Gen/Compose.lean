/-
C06: the generated schema has the classes, attributes and attribute kinds the request-composition code relies on
(`ReqWF`), by kernel evaluation.  Re-checked whenever `Generated/Schema.lean` changes.
-/
import OfxProofs.Lemmas.Compose
import OfxModel.Generated.Schema

namespace Ofx.Gen
open Ofx Ofx.Compose

theorem schema_reqWF : ReqWF Ofx.Generated.schema = true := by decide +kernel

end Ofx.Gen
