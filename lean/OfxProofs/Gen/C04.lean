/-
C04 (order) instantiated: in every generated class but the recorded exception the list block is not
interleaved around any non-repeated position, so `C04_reject_out_of_order` applies to every pair of known
non-repeated children.
-/
import OfxProofs.Props.C04Order
import OfxProofs.Gen.C03

namespace Ofx.Gen
open Ofx Ofx.Agg Ofx.WF Ofx.Generated

/-- decidable form of `BlockAt c j` for a non-repeated position `j` -/
def blockAtB (c : Cls) (j : Nat) : Bool :=
  !((List.range j).any (isListAt c)) ||
    (List.range c.spec.length).all (fun q => !isListAt c q || decide (q < j))

theorem blockAtB_blockAt (c : Cls) (j : Nat) (h : blockAtB c j = true) : BlockAt c j := by
  intro i q ai aq hi hil hij hq hql
  have hqn : q < c.spec.length := by
    rcases Nat.lt_or_ge q c.spec.length with h | h
    · exact h
    · rw [List.getElem?_eq_none h] at hq; simp at hq
  have hany : (List.range j).any (isListAt c) = true := by
    rw [List.any_eq_true]; exact ⟨i, by simpa using hij, by simp [isListAt, hi, hil]⟩
  simp only [blockAtB, hany, Bool.not_true, Bool.false_or] at h
  have := (List.all_eq_true.mp h) q (by simpa using hqn)
  simpa [isListAt, hq, hql] using this

/-- positions around which the list block *is* interleaved: the recorded finding (TAX1099INT_V100) and two
    unsupported (never stored) children of MSGSETLIST that sit inside its list block -/
def blockExceptions : List (Str × Nat) :=
  [("MSGSETLIST".toList, 10), ("MSGSETLIST".toList, 11), ("TAX1099INT_V100".toList, 13)]

def blockOkAt (c : Cls) (j : Nat) : Bool :=
  match c.spec[j]? with
  | some a => isListMember c a.name || blockExceptions.contains (c.name, j) || blockAtB c j
  | none => true

/-- every non-repeated position of every class, but the three recorded positions -/
theorem schema_blockAt :
    schema.classes.all (fun c => (List.range c.spec.length).all (blockOkAt c)) = true := by
  decide +kernel

/-- **C04 (order) for the generated schema.** -/
theorem C04_generated_out_of_order (tag : Str) (x tl : Option Str) (pre mid post : List Tree) (a b : Tree)
    (ci : Nat) (c : Cls) (ia ib : Nat)
    (hf : schema.findIdx? tag = some ci) (hc : schema.cls? ci = some c) (hg : c.groom = none)
    (hx : (c.name, ia) ∉ blockExceptions)
    (hdota : '.' ∉ a.tag) (hia : specIndex c (lower a.tag) = some ia)
    (hnla : isListMember c (lower a.tag) = false)
    (hdotb : '.' ∉ b.tag) (hib : specIndex c (lower b.tag) = some ib)
    (hnlb : isListMember c (lower b.tag) = false) (hle : ib ≤ ia) :
    ∃ e, fromEtree schema Types.conv (.node tag x tl (pre ++ a :: (mid ++ b :: post))) = .error e := by
  have hnd := gen_spec_nodup ci c hc
  have hmem : c ∈ schema.classes := List.mem_of_getElem? hc
  have hall := (List.all_eq_true.mp schema_blockAt) c hmem
  obtain ⟨aa, haa, han, ham⟩ := specIndex_get c _ ia hia
  have hlt : ia < c.spec.length := by
    rcases Nat.lt_or_ge ia c.spec.length with h | h
    · exact h
    · rw [List.getElem?_eq_none h] at haa; simp at haa
  have hj := (List.all_eq_true.mp hall) ia (by simpa using hlt)
  have hx' : blockExceptions.contains (c.name, ia) = false := by simpa using hx
  simp only [blockOkAt, haa, han, hnla, hx', Bool.false_or] at hj
  exact C04_reject_out_of_order schema Types.conv tag x tl pre mid post a b ci c ia ib hf hc hg hnd
    (blockAtB_blockAt c ia hj) hdota hia hnla hdotb hib hnlb hle

end Ofx.Gen
