/-
Obligation on the generated schema and property table (C16, copy / deepcopy / pickle), by kernel evaluation; re-checked
whenever `Generated/Schema.lean` or `Generated/PropsTable.lean` changes.

`schemaQuiet`: no class of `ofxtools.models` declares a spec attribute called `__deepcopy__`, `__setstate__` or
`__slots__`, and no shortcut property has such a name — so that (`C16.probesUndefined_of_schema`) the premise of
`C16_copy_eq` / `C16_deepcopy_eq` / `C16_pickle_eq` holds on every instance of the real classes whose dicts hold no such
key. The three corollaries below are the property's last clause for the classes of `ofxtools.models` as they are today.
-/
import OfxProofs.Props.C16Copy
import OfxModel.Generated.Schema
import OfxModel.Generated.PropsTable

namespace Ofx.Gen
open Ofx Ofx.Generated Ofx.CopyProto Ofx.Getattr

theorem schema_quiet : schemaQuiet schema propsTable = true := by
  decide +kernel

/-- every tree of instances of the real classes (any class, any depth, any members, any dict state — empty and partial
    included) whose dicts are dicts and hold none of the three dunder names as a key: `copy.copy` gives an equal model -/
theorem C16_generated_copy (ci : Nat) (fields : List (Str × Node)) (items : List Node)
    (h : instQuiet schema (.agg ci fields items) = true) (hw : dictsWF (.agg ci fields items) = true) :
    copyNode (getattr schema propsTable) (.agg ci fields items) = .ok (.agg ci fields items) := by
  have hp := C16.probesUndefined_of_schema schema propsTable schema_quiet _ h
  simp only [probesUndefined, probeNames, List.all_cons, List.all_nil, Bool.and_true, Bool.and_eq_true] at hp
  simp only [dictsWF, Bool.and_eq_true] at hw
  exact C16.C16_copy_eq schema propsTable ci fields items hp.1.1.2.1 hw.1.1

/-- … `copy.deepcopy` gives an equal model -/
theorem C16_generated_deepcopy (n : Node) (h : instQuiet schema n = true) (hw : dictsWF n = true) :
    deepcopyNode (getattr schema propsTable) n = .ok n :=
  C16.C16_deepcopy_eq schema propsTable n (C16.probesUndefined_of_schema schema propsTable schema_quiet n h) hw

/-- … and so does a pickle round trip under every protocol -/
theorem C16_generated_pickle (proto : Nat) (n : Node) (h : instQuiet schema n = true) (hw : dictsWF n = true) :
    pickleRoundtrip (getattr schema propsTable) proto n = .ok n :=
  C16.C16_pickle_eq schema propsTable proto n (C16.probesUndefined_of_schema schema propsTable schema_quiet n h) hw

end Ofx.Gen
