/-
C06 — class-specific non-vacuity witnesses (kernel evaluations of concrete requests over the generated schema).
Built separately (`witness_modules`): a failure here is a note about a changed class, not a broken obligation.
-/
import OfxProofs.Gen.Compose

namespace Ofx.Gen
open Ofx Ofx.Compose Ofx.Spec.Request Ofx.C06

/-- the witness of the former finding `tax1099_acctnum_dropped`, now passing:
    `request_tax1099("pw", "2019", acctnum="777")` composes and satisfies the whole tax spec (ACCTNUM 777 placed) -/
theorem tax_witness :
    (match requestTax Ofx.Generated.schema Types.conv wCfg "pw".toList ["2019".toList] (some "777".toList) none
        wUuid wDt with
      | .ok root => decide (checkTax Ofx.Generated.schema wCfg "pw".toList wDt ["2019".toList] (some "777".toList)
          none 203 root = [])
      | .error _ => false) = true := by decide +kernel

/-- an account-info and a profile request for the witness configuration compose and satisfy their specs -/
theorem accounts_witness :
    (match requestAccounts Ofx.Generated.schema Types.conv wCfg "pw".toList (some wDt) wUuid wDt with
      | .ok root => decide (checkAccounts Ofx.Generated.schema wCfg "pw".toList wDt (some wDt) 203 root = [])
      | .error _ => false) = true := by decide +kernel

theorem profile_witness :
    (match requestProfile Ofx.Generated.schema Types.conv wCfg none wUuid wDt with
      | .ok root => decide (checkProfile Ofx.Generated.schema wCfg wDt none none 203 root = [])
      | .error _ => false) = true := by decide +kernel

/-- the guards of `C06_wire_closed` are satisfiable: the witness configuration, a password, a UTC instant, the uuid
    stream, and a request list for which composition succeeds -/
example : (∀ s ∈ wCfg.texts, WireText s) ∧ WireText "pass".toList ∧ Ofx.DateTime.dtUtcMs wDt ∧
    (∀ i, WireText (wUuid i)) ∧ Ofx.Header.UidOk genEnv.p1.newLen (some (wUuid 1)) ∧
    (requestStatements Ofx.Generated.schema Types.conv wCfg "pass".toList
      [.ccStmt (some "123".toList) (some wDt) none (some true)] wUuid wDt).toBool = true := by
  refine ⟨by decide +kernel, by decide +kernel, ?_, ?_, ?_, by decide +kernel⟩
  · refine ⟨by decide +kernel, rfl, by decide +kernel, by decide +kernel, by decide +kernel⟩
  · intro i
    refine ⟨unescape_no_amp _ (by simp [wUuid, List.mem_replicate]), ?_⟩
    simp only [Spec.Wire.trimmedB, wUuid, List.replicate_succ, List.head?_cons]
    have : (List.replicate i 'u' ++ ['u']).getLast? = some 'u' := by simp
    rw [show 'u' :: List.replicate i 'u' = List.replicate i 'u' ++ ['u'] from by
      rw [← List.replicate_succ, List.replicate_succ']]
    rw [this]
    decide
  · refine ⟨⟨by simp [wUuid], ?_⟩, ?_⟩
    · intro c hc
      simp only [wUuid, List.mem_replicate] at hc
      rw [hc.2]; decide
    intro n hn
    have : genEnv.p1.newLen = some 36 := by decide +kernel
    rw [this] at hn; injection hn with hn; subst hn; decide

end Ofx.Gen
