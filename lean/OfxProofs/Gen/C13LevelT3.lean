/-
One-level constructibility table for the generated schema, part 3 (see Gen/C13LevelW.lean): `levelRange` closed by
kernel evaluation, one range of class indices per theorem.
-/
import OfxProofs.Props.C13Level
import OfxModel.Generated.Schema
import OfxModel.Ofx.Types

namespace Ofx.Gen.C13LevelTable
open Ofx Ofx.Agg Ofx.Generated Ofx.Spec.Witness

theorem lvl_24 : levelRange schema Types.conv defaultFuel 245 10 = true := by decide +kernel
theorem lvl_25 : levelRange schema Types.conv defaultFuel 255 8 = true := by decide +kernel
theorem lvl_26 : levelRange schema Types.conv defaultFuel 263 6 = true := by decide +kernel
theorem lvl_27 : levelRange schema Types.conv defaultFuel 269 7 = true := by decide +kernel
theorem lvl_28 : levelRange schema Types.conv defaultFuel 276 9 = true := by decide +kernel
theorem lvl_29 : levelRange schema Types.conv defaultFuel 285 7 = true := by decide +kernel
theorem lvl_30 : levelRange schema Types.conv defaultFuel 292 6 = true := by decide +kernel
theorem lvl_31 : levelRange schema Types.conv defaultFuel 298 13 = true := by decide +kernel
theorem lvl_32 : levelRange schema Types.conv defaultFuel 311 11 = true := by decide +kernel
theorem lvl_33 : levelRange schema Types.conv defaultFuel 322 8 = true := by decide +kernel
theorem lvl_34 : levelRange schema Types.conv defaultFuel 330 9 = true := by decide +kernel
theorem lvl_35 : levelRange schema Types.conv defaultFuel 339 10 = true := by decide +kernel

end Ofx.Gen.C13LevelTable
