/-
`decide +kernel` obligations over `Generated/Tables.lean` — re-checked whenever the translator's
output changes.
-/
import OfxModel.Generated.Tables
import OfxModel.Ofx.SecId
import OfxModel.Spec.SecId
import OfxModel.Py.Str

namespace Ofx.Gen
open Ofx Ofx.Generated

/-- every numbering-agency key is alphanumeric (so an ISIN built from it has a base-36 expansion) -/
theorem agencies_alnum :
    numberingAgencies.all (fun a => (Spec.SecId.valsOf b36 a).isSome) = true := by decide +kernel

/-- agency keys are pairwise distinct and non-empty -/
theorem agencies_nodup : numberingAgencies.Nodup ∧ numberingAgencies.all (fun a => !a.isEmpty) = true := by
  decide +kernel

/-- the hand-written `isspace` table is the running interpreter's -/
theorem isspace_table : pySpaceCodepoints = isspaceCodepoints := by decide +kernel

end Ofx.Gen
