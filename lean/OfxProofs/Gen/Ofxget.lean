/-
`decide +kernel` obligations over `Generated/OfxgetTables.lean` (DEFAULTS, CONFIGURABLE, argparse defaults,
configparser constants) — re-checked whenever the translator's output changes.
-/
import OfxModel.Generated.OfxgetTables
import OfxProofs.Lemmas.Ofxget
import OfxProofs.Lemmas.OfxgetStmt

namespace Ofx.Gen
open Ofx Ofx.Ofxget Ofx.Generated

/-- everything the hand model assumes of the tables: `password` not CONFIGURABLE; CONFIGURABLE keys lower-case;
    every CONFIGURABLE key has a default of the recorded type; `DEFAULTS["ofxhome"] == ""`; every argparse default
    other than `verbose`/`request` is `None`; the default section is `DEFAULT` -/
theorem ofxgetTables_wf : ofxgetTables.WF = true := by decide +kernel

/-- the password is not among the options `--write` may store -/
theorem password_not_persistable : ¬ "password".toList ∈ ofxgetTables.configurable.map (·.1) := by decide +kernel

/-- CONFIGURABLE keys are pairwise distinct -/
theorem configurable_nodup : (ofxgetTables.configurable.map (·.1)).Nodup := by decide +kernel

/-- the account-type options `request_stmt` loops over are CONFIGURABLE lists with default `[]` -/
theorem acct_types_are_lists :
    (bankTypes ++ ["creditcard".toList, "investment".toList]).all (fun k =>
      ofxgetTables.configurable.lookup k == some CfgTy.list && ofxgetTables.defaults.lookup k == some (CfgVal.list [])) = true := by
  decide +kernel

/-- configparser: the spellings of booleans the model was written for -/
theorem configparser_constants :
    ofxgetTables.booleanStates = [("1".toList, true), ("yes".toList, true), ("true".toList, true), ("on".toList, true),
      ("0".toList, false), ("no".toList, false), ("false".toList, false), ("off".toList, false)] := by
  decide +kernel

/-- the account types a response can carry are the ones the C19 theorems assume (`ValidInfos`), and ACTIVE is a status -/
theorem acct_enums :
    ofxgetTables.acctTypes = validAcctTypes ∧ "ACTIVE".toList ∈ ofxgetTables.svcStatuses := by decide +kernel

end Ofx.Gen
