/-
One-level constructibility table for the generated schema, part 4 (see Gen/C13LevelW.lean): `levelRange` closed by
kernel evaluation, one range of class indices per theorem.
-/
import OfxProofs.Props.C13Level
import OfxModel.Generated.Schema
import OfxModel.Ofx.Types

namespace Ofx.Gen.C13LevelTable
open Ofx Ofx.Agg Ofx.Generated Ofx.Spec.Witness

theorem lvl_36 : levelRange schema Types.conv defaultFuel 349 10 = true := by decide +kernel
theorem lvl_37 : levelRange schema Types.conv defaultFuel 359 1 = true := by decide +kernel
theorem lvl_38 : levelRange schema Types.conv defaultFuel 360 1 = true := by decide +kernel
theorem lvl_39 : levelRange schema Types.conv defaultFuel 361 5 = true := by decide +kernel
theorem lvl_40 : levelRange schema Types.conv defaultFuel 366 3 = true := by decide +kernel
theorem lvl_41 : levelRange schema Types.conv defaultFuel 369 3 = true := by decide +kernel
theorem lvl_42 : levelRange schema Types.conv defaultFuel 372 11 = true := by decide +kernel
theorem lvl_43 : levelRange schema Types.conv defaultFuel 383 11 = true := by decide +kernel
theorem lvl_44 : levelRange schema Types.conv defaultFuel 394 (schema.classes.length - 394) = true := by decide +kernel

end Ofx.Gen.C13LevelTable
