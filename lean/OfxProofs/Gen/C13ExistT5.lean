/-
C13 constructibility table, part 5: the per-(class, child) obligation `rangeOk` (description exists, is accepted by
the constructors, the instance holds the child, is written with the child under its tag, is read back unchanged)
closed by kernel evaluation over the generated schema, one range of class indices per theorem (the ranges only
balance the evaluation time; `Gen/C13Exist.lean` checks that they cover every class index).
-/
import OfxProofs.Lemmas.C13Exist
import OfxModel.Generated.Schema
import OfxModel.Ofx.Types

namespace Ofx.Gen.C13Table
open Ofx Ofx.Agg Ofx.Generated Ofx.Spec.Witness

theorem tbl_56 : rangeOk schema Types.conv escapeCdata defaultFuel 359 1 = true := by decide +kernel
theorem tbl_57 : rangeOk schema Types.conv escapeCdata defaultFuel 360 1 = true := by decide +kernel
theorem tbl_58 : rangeOk schema Types.conv escapeCdata defaultFuel 361 1 = true := by decide +kernel
theorem tbl_59 : rangeOk schema Types.conv escapeCdata defaultFuel 362 6 = true := by decide +kernel
theorem tbl_60 : rangeOk schema Types.conv escapeCdata defaultFuel 368 1 = true := by decide +kernel
theorem tbl_61 : rangeOk schema Types.conv escapeCdata defaultFuel 369 1 = true := by decide +kernel
theorem tbl_62 : rangeOk schema Types.conv escapeCdata defaultFuel 370 12 = true := by decide +kernel
theorem tbl_63 : rangeOk schema Types.conv escapeCdata defaultFuel 382 3 = true := by decide +kernel
theorem tbl_64 : rangeOk schema Types.conv escapeCdata defaultFuel 385 7 = true := by decide +kernel
theorem tbl_65 : rangeOk schema Types.conv escapeCdata defaultFuel 392 (schema.classes.length - 392) = true := by decide +kernel

end Ofx.Gen.C13Table
