/-
Class-specific witnesses for the C04 extension on the generated schema (built apart from the obligations, like
Gen/C01W.lean: they depend on what MAILSYNCRQ, BANKTRANLIST and STATUS look like today).

  * `C04_generated_reject_mailsync_empty_token` — the former counter-example of keyword-route soundness,
    `MAILSYNCRQ(token="", rejectifmissing=True, incimages=False, usehtml=False)`, is now rejected
    (`C04_reject_reqmutex_empty_text_kw`: the empty text is the only member of the exactly-one group
    token/tokenonly/refresh that is passed).  Before `fix: an empty text does not count as a member given…` it was
    accepted and the instance held none of the three.
  * non-vacuity of the generated order theorems and of `C04_generated_sound_full_tree` / `_kw`.
-/
import OfxProofs.Gen.C04Ext

namespace Ofx.Gen
open Ofx Ofx.Agg Ofx.Generated

/-- the result is an instance satisfying `p` -/
def accept (r : PyM Node) (p : Node → Bool) : Bool :=
  match r with
  | .ok n => p n
  | .error _ => false

theorem ok_of_accept (r : PyM Node) (p : Node → Bool) (h : accept r p = true) : ∃ n, r = .ok n ∧ p n = true := by
  cases r with
  | error e => simp [accept] at h
  | ok n => exact ⟨n, rfl, h⟩

def mailsyncKw : List (Str × Node) :=
  [("token".toList, .val (.str [])), ("rejectifmissing".toList, .val (.bool true)),
   ("incimages".toList, .val (.bool false)), ("usehtml".toList, .val (.bool false))]

def syncGroup : List Str := ["token".toList, "tokenonly".toList, "refresh".toList]

theorem mailsync_cls : schema.cls? ByName.idx_MAILSYNCRQ = some ByName.cls_MAILSYNCRQ := by rfl

theorem mailsync_group : syncGroup ∈ ByName.cls_MAILSYNCRQ.reqMutex := by decide +kernel

/-- **the former witness is rejected**: `MAILSYNCRQ(token="", rejectifmissing=True, incimages=False, usehtml=False)` -/
theorem C04_generated_reject_mailsync_empty_token :
    ∃ e, construct schema Types.conv ByName.idx_MAILSYNCRQ [] mailsyncKw = .error e :=
  C04_reject_reqmutex_empty_text_kw schema Types.conv ByName.idx_MAILSYNCRQ ByName.cls_MAILSYNCRQ [] mailsyncKw
    syncGroup "token".toList mailsync_cls mailsync_group rfl
    (by
      intro m hm hne
      simp only [syncGroup, List.mem_cons, List.not_mem_nil, or_false] at hm
      rcases hm with rfl | rfl | rfl
      · exact absurd rfl hne
      · rintro ⟨v, h, _⟩
        rw [show lookup "tokenonly".toList mailsyncKw = none from by decide] at h; cases h
      · rintro ⟨v, h, _⟩
        rw [show lookup "refresh".toList mailsyncKw = none from by decide] at h; cases h)

/-- the same by evaluation of the model -/
def isError (r : PyM Node) : Bool := match r with | .ok _ => false | .error _ => true

theorem mailsync_rejected_eval :
    isError (construct schema Types.conv ByName.idx_MAILSYNCRQ [] mailsyncKw) = true := by decide +kernel

/-- … while the same description with a non-empty token is accepted, and what it returns is valid -/
def mailsyncKwOk : List (Str × Node) :=
  [("token".toList, .val (.str "0".toList)), ("rejectifmissing".toList, .val (.bool true)),
   ("incimages".toList, .val (.bool false)), ("usehtml".toList, .val (.bool false))]

theorem mailsync_ok_accepted :
    accept (construct schema Types.conv ByName.idx_MAILSYNCRQ [] mailsyncKwOk) Node.isAgg = true := by
  decide +kernel

example : ∃ n, construct schema Types.conv ByName.idx_MAILSYNCRQ [] mailsyncKwOk = .ok n ∧ ValidFull schema n := by
  obtain ⟨n, hn, _⟩ := ok_of_accept _ _ mailsync_ok_accepted
  refine ⟨n, hn, C04_generated_sound_full_kw _ [] mailsyncKwOk n hn (by intro m hm; cases hm) ?_⟩
  intro k v hm hagg
  simp only [mailsyncKwOk, List.mem_cons, Prod.mk.injEq, List.not_mem_nil, or_false] at hm
  rcases hm with ⟨_, rfl⟩ | ⟨_, rfl⟩ | ⟨_, rfl⟩ | ⟨_, rfl⟩ <;> cases hagg

/-! ### non-vacuity on the generated schema -/

def leafT (t v : String) : Tree := .node t.toList (some v.toList) none []

/-- a repeated STMTTRN child before the non-repeated DTSTART of BANKTRANLIST -/
def badTranList : List Tree := [] ++ (.node "STMTTRN".toList none none [leafT "TRNTYPE" "CHECK"]) ::
  ([leafT "VENDOR.TAG" "x"] ++ leafT "DTSTART" "20200101" :: [])

theorem banktranlist_cls : schema.cls? ByName.idx_BANKTRANLIST = some ByName.cls_BANKTRANLIST := by rfl

example : ∃ e, fromEtree schema Types.conv (.node "BANKTRANLIST".toList none none badTranList) = .error e :=
  C04_generated_adjacent_out_of_order _ none none [] [leafT "VENDOR.TAG" "x"] [] _ _
    ByName.idx_BANKTRANLIST ByName.cls_BANKTRANLIST 2 0 (by decide +kernel) banktranlist_cls (by decide +kernel)
    (by
      intro t ht
      simp only [List.mem_singleton] at ht; subst ht
      refine ⟨fun r hr => ?_, Or.inl (by decide)⟩
      rw [show ByName.cls_BANKTRANLIST.groom = none from by decide +kernel] at hr; cases hr)
    (by decide) (by decide +kernel) (by decide) (by decide +kernel) (by decide) (by decide +kernel)

example : ∃ e, fromEtree schema Types.conv (.node "BANKTRANLIST".toList none none badTranList) = .error e :=
  C04_generated_out_of_order_mixed _ none none [] [leafT "VENDOR.TAG" "x"] [] _ _
    ByName.idx_BANKTRANLIST ByName.cls_BANKTRANLIST 2 0 (by decide +kernel) banktranlist_cls (by decide +kernel)
    (by decide) (by decide +kernel) (by decide) (by decide +kernel) (by decide)
    (Or.inr ⟨by decide +kernel, by decide +kernel⟩)

/-- a document the reader accepts; what it returns is valid all the way down -/
def statusDoc : Tree :=
  .node "STATUS".toList none none [leafT "CODE" "0012", leafT "SEVERITY" "INFO"]

theorem statusDoc_accepted :
    accept (fromEtree schema Types.conv statusDoc) Node.isAgg = true := by
  decide +kernel

example : ∃ n, fromEtree schema Types.conv statusDoc = .ok n ∧ ValidFull schema n := by
  obtain ⟨n, hn, _⟩ := ok_of_accept _ _ statusDoc_accepted
  exact ⟨n, hn, C04_generated_sound_full_tree statusDoc n hn⟩

end Ofx.Gen
