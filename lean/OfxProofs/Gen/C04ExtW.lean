/-
Class-specific witnesses for the C04 extension on the generated schema (built apart from the obligations, like
Gen/C01W.lean: they depend on what MAILSYNCRQ, BANKTRANLIST and STATUS look like today).

  * `C04_generated_sound_full_kw_full_false` — the full-strength keyword-route soundness statement is false of the
    generated schema: `MAILSYNCRQ(token="", rejectifmissing=True, incimages=False, usehtml=False)` is accepted
    (`validate_args` counts the empty string as the one member of the exactly-one group token/tokenonly/refresh) and
    the instance holds none of the three.  Confirmed on the real class.
  * non-vacuity of the generated order theorems and of `C04_generated_sound_full_tree`.
-/
import OfxProofs.Gen.C04Ext

namespace Ofx.Gen
open Ofx Ofx.Agg Ofx.Generated

/-- the result is an instance satisfying `p` -/
def accept (r : PyM Node) (p : Node → Bool) : Bool :=
  match r with
  | .ok n => p n
  | .error _ => false

theorem ok_of_accept (r : PyM Node) (p : Node → Bool) (h : accept r p = true) : ∃ n, r = .ok n ∧ p n = true := by
  cases r with
  | error e => simp [accept] at h
  | ok n => exact ⟨n, rfl, h⟩

def mailsyncKw : List (Str × Node) :=
  [("token".toList, .val (.str [])), ("rejectifmissing".toList, .val (.bool true)),
   ("incimages".toList, .val (.bool false)), ("usehtml".toList, .val (.bool false))]

def syncGroup : List Str := ["token".toList, "tokenonly".toList, "refresh".toList]

/-- an instance of MAILSYNCRQ none of whose three group members is set -/
def mailsyncBad : Node → Bool
  | .agg ci fields [] => ci == ByName.idx_MAILSYNCRQ && mutexCount fields syncGroup == 0
  | _ => false

theorem mailsync_accepted :
    accept (construct schema Types.conv ByName.idx_MAILSYNCRQ [] mailsyncKw) mailsyncBad = true := by
  decide +kernel

theorem mailsync_cls : schema.cls? ByName.idx_MAILSYNCRQ = some ByName.cls_MAILSYNCRQ := by rfl

theorem mailsync_group : syncGroup ∈ ByName.cls_MAILSYNCRQ.reqMutex := by decide +kernel

/-- **the full-strength keyword-route statement is false of the generated schema** -/
theorem C04_generated_sound_full_kw_full_false : ¬ C04_sound_full_kw_full schema := by
  intro h
  obtain ⟨n, hn, hbad⟩ := ok_of_accept _ _ mailsync_accepted
  have hv := h ByName.idx_MAILSYNCRQ [] mailsyncKw n hn (by intro m hm; cases hm)
    (by
      intro k v hm hagg
      simp only [mailsyncKw, List.mem_cons, Prod.mk.injEq, List.not_mem_nil, or_false] at hm
      rcases hm with ⟨_, rfl⟩ | ⟨_, rfl⟩ | ⟨_, rfl⟩ | ⟨_, rfl⟩ <;> cases hagg)
  match n, hbad, hv with
  | .agg ci fields [], hbad, hv =>
    simp only [mailsyncBad, Bool.and_eq_true, beq_iff_eq] at hbad
    obtain ⟨hci, hcount⟩ := hbad
    subst hci
    obtain ⟨c, hc, _, hreq, _⟩ := C04_validFull_groups schema _ _ _ hv
    rw [mailsync_cls] at hc; injection hc with hc; subst hc
    have := hreq syncGroup mailsync_group
    omega

/-- the guard of the partial theorem fails exactly here -/
example : ¬ NoEmptyStr mailsyncKw :=
  fun h => h "token".toList (.val (.str [])) (by simp [mailsyncKw]) rfl

/-! ### non-vacuity on the generated schema -/

def leafT (t v : String) : Tree := .node t.toList (some v.toList) none []

/-- a repeated STMTTRN child before the non-repeated DTSTART of BANKTRANLIST -/
def badTranList : List Tree := [] ++ (.node "STMTTRN".toList none none [leafT "TRNTYPE" "CHECK"]) ::
  ([leafT "VENDOR.TAG" "x"] ++ leafT "DTSTART" "20200101" :: [])

theorem banktranlist_cls : schema.cls? ByName.idx_BANKTRANLIST = some ByName.cls_BANKTRANLIST := by rfl

example : ∃ e, fromEtree schema Types.conv (.node "BANKTRANLIST".toList none none badTranList) = .error e :=
  C04_generated_adjacent_out_of_order _ none none [] [leafT "VENDOR.TAG" "x"] [] _ _
    ByName.idx_BANKTRANLIST ByName.cls_BANKTRANLIST 2 0 (by decide +kernel) banktranlist_cls (by decide +kernel)
    (by
      intro t ht
      simp only [List.mem_singleton] at ht; subst ht
      refine ⟨fun r hr => ?_, Or.inl (by decide)⟩
      rw [show ByName.cls_BANKTRANLIST.groom = none from by decide +kernel] at hr; cases hr)
    (by decide) (by decide +kernel) (by decide) (by decide +kernel) (by decide) (by decide +kernel)

example : ∃ e, fromEtree schema Types.conv (.node "BANKTRANLIST".toList none none badTranList) = .error e :=
  C04_generated_out_of_order_mixed _ none none [] [leafT "VENDOR.TAG" "x"] [] _ _
    ByName.idx_BANKTRANLIST ByName.cls_BANKTRANLIST 2 0 (by decide +kernel) banktranlist_cls (by decide +kernel)
    (by decide) (by decide +kernel) (by decide) (by decide +kernel) (by decide)
    (Or.inr ⟨by decide +kernel, by decide +kernel⟩)

/-- a document the reader accepts; what it returns is valid all the way down -/
def statusDoc : Tree :=
  .node "STATUS".toList none none [leafT "CODE" "0012", leafT "SEVERITY" "INFO"]

theorem statusDoc_accepted :
    accept (fromEtree schema Types.conv statusDoc) Node.isAgg = true := by
  decide +kernel

example : ∃ n, fromEtree schema Types.conv statusDoc = .ok n ∧ ValidFull schema n := by
  obtain ⟨n, hn, _⟩ := ok_of_accept _ _ statusDoc_accepted
  exact ⟨n, hn, C04_generated_sound_full_tree statusDoc n hn⟩

end Ofx.Gen
