/-
C13 constructibility table, part 4: the per-(class, child) obligation `rangeOk` (description exists, is accepted by
the constructors, the instance holds the child, is written with the child under its tag, is read back unchanged)
closed by kernel evaluation over the generated schema, one range of class indices per theorem (the ranges only
balance the evaluation time; `Gen/C13Exist.lean` checks that they cover every class index).
-/
import OfxProofs.Lemmas.C13Exist
import OfxModel.Generated.Schema
import OfxModel.Ofx.Types

namespace Ofx.Gen.C13Table
open Ofx Ofx.Agg Ofx.Generated Ofx.Spec.Witness

theorem tbl_42 : rangeOk schema Types.conv escapeCdata defaultFuel 276 7 = true := by decide +kernel
theorem tbl_43 : rangeOk schema Types.conv escapeCdata defaultFuel 283 6 = true := by decide +kernel
theorem tbl_44 : rangeOk schema Types.conv escapeCdata defaultFuel 289 3 = true := by decide +kernel
theorem tbl_45 : rangeOk schema Types.conv escapeCdata defaultFuel 292 4 = true := by decide +kernel
theorem tbl_46 : rangeOk schema Types.conv escapeCdata defaultFuel 296 3 = true := by decide +kernel
theorem tbl_47 : rangeOk schema Types.conv escapeCdata defaultFuel 299 14 = true := by decide +kernel
theorem tbl_48 : rangeOk schema Types.conv escapeCdata defaultFuel 313 5 = true := by decide +kernel
theorem tbl_49 : rangeOk schema Types.conv escapeCdata defaultFuel 318 7 = true := by decide +kernel
theorem tbl_50 : rangeOk schema Types.conv escapeCdata defaultFuel 325 4 = true := by decide +kernel
theorem tbl_51 : rangeOk schema Types.conv escapeCdata defaultFuel 329 7 = true := by decide +kernel
theorem tbl_52 : rangeOk schema Types.conv escapeCdata defaultFuel 336 4 = true := by decide +kernel
theorem tbl_53 : rangeOk schema Types.conv escapeCdata defaultFuel 340 8 = true := by decide +kernel
theorem tbl_54 : rangeOk schema Types.conv escapeCdata defaultFuel 348 10 = true := by decide +kernel
theorem tbl_55 : rangeOk schema Types.conv escapeCdata defaultFuel 358 1 = true := by decide +kernel

end Ofx.Gen.C13Table
