/-
Obligation on the generated property table (C16), by kernel evaluation; re-checked whenever
`Generated/PropsTable.lean` or `Generated/Schema.lean` changes.

`propsAgree`: the class names the table mentions are the schema's; every getter found in `ofxtools.models` has
exactly the documented shape and parameters (`Spec.Getattr.documentedBody`, written from the documentation by
class and property *name*), reads only stored spec attributes of its own class (`bodyOk`), and every documented
shortcut exists.  A getter edited so that it no longer walks the documented path (e.g. `BANKMSGSRQV1.statements`
testing `STMTTRNRQ` twice) makes this fail.
-/
import OfxModel.Spec.Getattr
import OfxModel.Generated.Schema
import OfxModel.Generated.PropsTable

namespace Ofx.Gen
open Ofx Ofx.Generated Ofx.Spec.Getattr

theorem props_agree_documented : propsAgree schema propsTable propsClassNames = true := by
  decide +kernel

end Ofx.Gen
