/-
C04 extension, instantiated for the schema generated from /repo's model classes and the real converters
`Types.conv`.  Every premise that is about the code's data is discharged here by kernel evaluation over
`Generated/Schema.lean`; the recorded exceptions of the order theorem (`Gen.blockExceptions`) stay explicit.
-/
import OfxProofs.Props.C04Ext
import OfxProofs.Gen.C04

namespace Ofx.Gen
open Ofx Ofx.Agg Ofx.WF Ofx.Generated

/-! ### the schema premises of the soundness theorems -/

/-- decidable form of `ReqGroupsSupported` -/
def reqGroupsSupportedB (c : Cls) : Bool :=
  c.reqMutex.all fun g => g.all fun m => c.spec.all fun a => !(a.name == m) || !a.kind.isUnsupported

theorem reqGroupsSupportedB_sound (c : Cls) (h : reqGroupsSupportedB c = true) : ReqGroupsSupported c := by
  intro g hg m hm a ha hn
  have h1 := (List.all_eq_true.mp h) g hg
  have h2 := (List.all_eq_true.mp h1) m hm
  have h3 := (List.all_eq_true.mp h2) a ha
  cases hu : a.kind.isUnsupported with
  | false => rfl
  | true => simp [hn, hu] at h3

/-- members of the exactly-one groups of every generated class are supported attributes -/
theorem schema_reqGroupsSupported : schema.classes.all reqGroupsSupportedB = true := by decide +kernel

/-- every group declared anywhere in a generated class's bases is in force for the class (no group is shadowed) -/
theorem schema_declared_in_force :
    schema.classes.all (fun c => c.declOptMutex.all (fun g => c.optMutex.contains g) &&
      c.declReqMutex.all (fun g => c.reqMutex.contains g)) = true := by decide +kernel

/-- the generated schema satisfies the premises of `C04_sound_full_*` -/
theorem schema_ok : SchemaOk schema := by
  intro ci c hc
  have hmem : c ∈ schema.classes := List.mem_of_getElem? hc
  exact ⟨gen_spec_nodup ci c hc, reqGroupsSupportedB_sound c ((List.all_eq_true.mp schema_reqGroupsSupported) c hmem)⟩

/-! ### 3. every instance that exists satisfies all constraints of its class -/

/-- **C04 for the generated schema, tree route**: every instance `from_etree` returns is valid, all the way down -/
theorem C04_generated_sound_full_tree (t : Tree) (n : Node) (h : fromEtree schema Types.conv t = .ok n) :
    ValidFull schema n :=
  C04_sound_full_tree schema schema_ok t n h

/-- **C04 for the generated schema, keyword route**: every instance `Cls(*args, **kwargs)` returns is valid, all the
    way down, given that the instances handed in are (no guard on the arguments) -/
theorem C04_generated_sound_full_kw (ci : Nat) (args : List Node) (kw : List (Str × Node)) (n : Node)
    (h : construct schema Types.conv ci args kw = .ok n)
    (hargs : ∀ m ∈ args, m.isAgg = true → ValidFull schema m)
    (hkw : ∀ k v, (k, v) ∈ kw → v.isAgg = true → ValidFull schema v) : ValidFull schema n :=
  C04_sound_full_kw schema schema_ok ci args kw n h hargs hkw

/-- … and the groups declared in any base class hold of every valid instance -/
theorem C04_generated_declared_groups (ci : Nat) (c : Cls) (fields : List (Str × Node)) (items : List Node)
    (h : ValidFull schema (.agg ci fields items)) (hc : schema.cls? ci = some c) :
    (∀ g ∈ c.declOptMutex, mutexCount fields g ≤ 1) ∧ (∀ g ∈ c.declReqMutex, mutexCount fields g = 1) := by
  have hmem : c ∈ schema.classes := List.mem_of_getElem? hc
  have hd := (List.all_eq_true.mp schema_declared_in_force) c hmem
  simp only [Bool.and_eq_true, List.all_eq_true] at hd
  exact C04_validFull_declared_groups schema ci c fields items h hc
    (fun g hg => by simpa using hd.1 g hg) (fun g hg => by simpa using hd.2 g hg)

/-! ### 1. order -/

/-- **C04 (order, adjacent known children) for the generated schema**: no exception. -/
theorem C04_generated_adjacent_out_of_order (tag : Str) (x tl : Option Str) (pre mid post : List Tree) (a b : Tree)
    (ci : Nat) (c : Cls) (ia ib : Nat)
    (hf : schema.findIdx? tag = some ci) (hc : schema.cls? ci = some c) (hg : c.groom = none)
    (hmid : ∀ t ∈ mid, Unknown c t.tag)
    (hdota : '.' ∉ a.tag) (hia : specIndex c (lower a.tag) = some ia)
    (hdotb : '.' ∉ b.tag) (hib : specIndex c (lower b.tag) = some ib) (hle : ib ≤ ia)
    (hnb : ¬ (isListMember c (lower a.tag) = true ∧ isListMember c (lower b.tag) = true)) :
    ∃ e, fromEtree schema Types.conv (.node tag x tl (pre ++ a :: (mid ++ b :: post))) = .error e :=
  C04_reject_adjacent_out_of_order schema Types.conv tag x tl pre mid post a b ci c ia ib hf hc hg hmid
    hdota hia hdotb hib hle hnb

theorem blockAt_of_schema (ci : Nat) (c : Cls) (hc : schema.cls? ci = some c) (j : Nat) (n : Str)
    (hj : specIndex c n = some j) (hnl : isListMember c n = false) (hx : (c.name, j) ∉ blockExceptions) :
    BlockAt c j := by
  have hmem : c ∈ schema.classes := List.mem_of_getElem? hc
  have hall := (List.all_eq_true.mp schema_blockAt) c hmem
  obtain ⟨aa, haa, han, _⟩ := specIndex_get c _ j hj
  have hlt : j < c.spec.length := by
    rcases Nat.lt_or_ge j c.spec.length with h | h
    · exact h
    · rw [List.getElem?_eq_none h] at haa; simp at haa
  have hjj := (List.all_eq_true.mp hall) j (by simpa using hlt)
  have hx' : blockExceptions.contains (c.name, j) = false := by simpa using hx
  simp only [blockOkAt, haa, han, hnl, hx', Bool.false_or] at hjj
  exact blockAtB_blockAt c j hjj

/-- **C04 (order, any distance) for the generated schema, one of the two children repeated.**  A known child `b`
    anywhere after a known child `a` whose spec position is not smaller is rejected whenever at least one of the two is
    a non-repeated child — the position of that non-repeated child (of `a` if both are) not being one of the three
    recorded exceptions. -/
theorem C04_generated_out_of_order_mixed (tag : Str) (x tl : Option Str) (pre mid post : List Tree) (a b : Tree)
    (ci : Nat) (c : Cls) (ia ib : Nat)
    (hf : schema.findIdx? tag = some ci) (hc : schema.cls? ci = some c) (hg : c.groom = none)
    (hdota : '.' ∉ a.tag) (hia : specIndex c (lower a.tag) = some ia)
    (hdotb : '.' ∉ b.tag) (hib : specIndex c (lower b.tag) = some ib) (hle : ib ≤ ia)
    (hcase : (isListMember c (lower a.tag) = false ∧ (c.name, ia) ∉ blockExceptions) ∨
             (isListMember c (lower b.tag) = false ∧ (c.name, ib) ∉ blockExceptions)) :
    ∃ e, fromEtree schema Types.conv (.node tag x tl (pre ++ a :: (mid ++ b :: post))) = .error e := by
  have hnd := gen_spec_nodup ci c hc
  rcases hcase with ⟨hnla, hxa⟩ | ⟨hnlb, hxb⟩
  · -- `lo = ia`
    refine C04_reject_out_of_order_gen schema Types.conv tag x tl pre mid post a b ci c ia ib ia hf hc hg hnd
      (blockAt_of_schema ci c hc ia _ hia hnla hxa) hle (Nat.le_refl _) hdota hia hdotb hib ?_
    intro hbl
    rcases Nat.lt_or_ge ib ia with h | h
    · exact h
    · -- same position ⇒ same attribute ⇒ same repeatedness
      have heq : ib = ia := by omega
      subst heq
      obtain ⟨a1, h1, hn1, _⟩ := specIndex_get c _ ib hia
      obtain ⟨a2, h2, hn2, _⟩ := specIndex_get c _ ib hib
      rw [h1] at h2; injection h2 with h2; subst h2
      rw [← hn1] at hnla; rw [← hn2] at hbl
      rw [hnla] at hbl; cases hbl
  · -- `lo = ib`
    exact C04_reject_out_of_order_gen schema Types.conv tag x tl pre mid post a b ci c ia ib ib hf hc hg hnd
      (blockAt_of_schema ci c hc ib _ hib hnlb hxb) (Nat.le_refl _) hle hdota hia hdotb hib
      (fun hbl => by rw [hnlb] at hbl; cases hbl)

/-! ### 2. per-type limits on the tree route and at-limit acceptance, `Nodup` discharged -/

theorem C04_generated_reject_overlong_string_tree (tag : Str) (x tl : Option Str) (pre post : List Tree)
    (ch : Tree) (ci : Nat) (c : Cls) (a : Attr) (n : Nat) (s : Str)
    (hf : schema.findIdx? tag = some ci) (hc : schema.cls? ci = some c) (hg : c.groom = none)
    (ha : a ∈ c.spec) (hname : a.name = lower ch.tag) (hdot : '.' ∉ ch.tag)
    (hk : a.kind = .string (some n) true) (htext : ch.text = some s) (hlong : n < (unescape s).length) :
    ∃ e, fromEtree schema Types.conv (.node tag x tl (pre ++ ch :: post)) = .error e :=
  C04_reject_overlong_string_tree schema tag x tl pre post ch ci c a n s hf hc hg (gen_spec_nodup ci c hc) ha hname
    hdot hk htext hlong

theorem C04_generated_reject_overlimit_integer_tree (tag : Str) (x tl : Option Str) (pre post : List Tree)
    (ch : Tree) (ci : Nat) (c : Cls) (a : Attr) (n : Nat) (s : Str) (i : Int)
    (hf : schema.findIdx? tag = some ci) (hc : schema.cls? ci = some c) (hg : c.groom = none)
    (ha : a ∈ c.spec) (hname : a.name = lower ch.tag) (hdot : '.' ∉ ch.tag)
    (hk : a.kind = .integer (some n)) (htext : ch.text = some s) (hp : pyIntParse s = some i)
    (hover : 10 ^ n ≤ i.natAbs) :
    ∃ e, fromEtree schema Types.conv (.node tag x tl (pre ++ ch :: post)) = .error e :=
  C04_reject_overlimit_integer_tree schema tag x tl pre post ch ci c a n s i hf hc hg (gen_spec_nodup ci c hc) ha
    hname hdot hk htext hp hover

theorem C04_generated_reject_foreign_token_tree (tag : Str) (x tl : Option Str) (pre post : List Tree)
    (ch : Tree) (ci : Nat) (c : Cls) (a : Attr) (e : Nat) (valid : List Str) (t0 : Char) (ts : Str)
    (hf : schema.findIdx? tag = some ci) (hc : schema.cls? ci = some c) (hg : c.groom = none)
    (ha : a ∈ c.spec) (hname : a.name = lower ch.tag) (hdot : '.' ∉ ch.tag)
    (hk : a.kind = .oneOf e) (he : schema.enums[e]? = some valid) (htext : ch.text = some (t0 :: ts))
    (hforeign : (t0 :: ts) ∉ valid) :
    ∃ e, fromEtree schema Types.conv (.node tag x tl (pre ++ ch :: post)) = .error e :=
  C04_reject_foreign_token_tree schema tag x tl pre post ch ci c a e valid t0 ts hf hc hg (gen_spec_nodup ci c hc) ha
    hname hdot hk he htext hforeign

theorem C04_generated_accept_at_limit_string_kw (ci : Nat) (c : Cls) (args : List Node) (kw : List (Str × Node))
    (a : Attr) (n : Nat) (s : Str) (hc : schema.cls? ci = some c) (ha : a ∈ c.spec)
    (hk : a.kind = .string (some n) true) (hlook : lookup a.name kw = some (.val (.str s))) (hs : s ≠ [])
    (hfit : (unescape s).length ≤ n) (ho : OthersOk schema Types.conv c args kw a) :
    ∃ fields items, construct schema Types.conv ci args kw = .ok (.agg ci fields items) ∧
      lookup a.name fields = some (.val (.str (unescape s))) :=
  C04_accept_at_limit_string_kw schema ci c args kw a n s hc (gen_spec_nodup ci c hc) ha hk hlook hs hfit ho

theorem C04_generated_accept_at_limit_integer_kw (ci : Nat) (c : Cls) (args : List Node) (kw : List (Str × Node))
    (a : Attr) (n : Nat) (i : Int) (w : Node) (hc : schema.cls? ci = some c)
    (ha : a ∈ c.spec) (hk : a.kind = .integer (some n)) (hlook : lookup a.name kw = some w)
    (hw : w = .val (.int i) ∨ ∃ s, w = .val (.str s) ∧ s ≠ [] ∧ pyIntParse s = some i)
    (hfit : i.natAbs < 10 ^ n) (ho : OthersOk schema Types.conv c args kw a) :
    ∃ fields items, construct schema Types.conv ci args kw = .ok (.agg ci fields items) ∧
      lookup a.name fields = some (.val (.int i)) :=
  C04_accept_at_limit_integer_kw schema ci c args kw a n i w hc (gen_spec_nodup ci c hc) ha hk hlook hw hfit ho

theorem C04_generated_accept_member_token_kw (ci : Nat) (c : Cls) (args : List Node) (kw : List (Str × Node))
    (a : Attr) (e : Nat) (valid : List Str) (s : Str) (hc : schema.cls? ci = some c)
    (ha : a ∈ c.spec) (hk : a.kind = .oneOf e) (he : schema.enums[e]? = some valid)
    (hlook : lookup a.name kw = some (.val (.str s))) (hs : s ≠ []) (hmem : s ∈ valid)
    (ho : OthersOk schema Types.conv c args kw a) :
    ∃ fields items, construct schema Types.conv ci args kw = .ok (.agg ci fields items) ∧
      lookup a.name fields = some (.val (.str s)) :=
  C04_accept_member_token_kw schema ci c args kw a e valid s hc (gen_spec_nodup ci c hc) ha hk he hlook hs hmem ho

/-! ### 4. every class with a hand-coded rule has a modelled one, and its tree-route theorems apply -/

/-- no class with a hand-coded `validate_args` has a `groom` rename (so `C04_reject_no_member_tree` and the other
    tree-route rule theorems, which assume `groom = none`, apply to all sixteen) -/
theorem schema_extra_no_groom :
    schema.classes.all (fun c => c.extra == .none || (c.groom.isNone && c.extra != .unknown)) = true := by
  decide +kernel

end Ofx.Gen
