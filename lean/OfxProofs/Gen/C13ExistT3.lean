/-
C13 constructibility table, part 3: the per-(class, child) obligation `rangeOk` (description exists, is accepted by
the constructors, the instance holds the child, is written with the child under its tag, is read back unchanged)
closed by kernel evaluation over the generated schema, one range of class indices per theorem (the ranges only
balance the evaluation time; `Gen/C13Exist.lean` checks that they cover every class index).
-/
import OfxProofs.Lemmas.C13Exist
import OfxModel.Generated.Schema
import OfxModel.Ofx.Types

namespace Ofx.Gen.C13Table
open Ofx Ofx.Agg Ofx.Generated Ofx.Spec.Witness

theorem tbl_28 : rangeOk schema Types.conv escapeCdata defaultFuel 177 13 = true := by decide +kernel
theorem tbl_29 : rangeOk schema Types.conv escapeCdata defaultFuel 190 2 = true := by decide +kernel
theorem tbl_30 : rangeOk schema Types.conv escapeCdata defaultFuel 192 3 = true := by decide +kernel
theorem tbl_31 : rangeOk schema Types.conv escapeCdata defaultFuel 195 7 = true := by decide +kernel
theorem tbl_32 : rangeOk schema Types.conv escapeCdata defaultFuel 202 12 = true := by decide +kernel
theorem tbl_33 : rangeOk schema Types.conv escapeCdata defaultFuel 214 13 = true := by decide +kernel
theorem tbl_34 : rangeOk schema Types.conv escapeCdata defaultFuel 227 10 = true := by decide +kernel
theorem tbl_35 : rangeOk schema Types.conv escapeCdata defaultFuel 237 8 = true := by decide +kernel
theorem tbl_36 : rangeOk schema Types.conv escapeCdata defaultFuel 245 4 = true := by decide +kernel
theorem tbl_37 : rangeOk schema Types.conv escapeCdata defaultFuel 249 7 = true := by decide +kernel
theorem tbl_38 : rangeOk schema Types.conv escapeCdata defaultFuel 256 7 = true := by decide +kernel
theorem tbl_39 : rangeOk schema Types.conv escapeCdata defaultFuel 263 1 = true := by decide +kernel
theorem tbl_40 : rangeOk schema Types.conv escapeCdata defaultFuel 264 8 = true := by decide +kernel
theorem tbl_41 : rangeOk schema Types.conv escapeCdata defaultFuel 272 4 = true := by decide +kernel

end Ofx.Gen.C13Table
