/-
C03 instantiated for the schema generated from /repo's model classes and the modelled converters.
-/
import OfxProofs.Props.C03
import OfxProofs.Gen.C01

namespace Ofx.Gen
open Ofx Ofx.Agg Ofx.Generated Ofx.Types

/-- attribute names are distinct within every generated class (no exception) -/
theorem schema_spec_nodup : schema.classes.all (fun c => decide ((c.spec.map (·.name)).Nodup)) = true := by
  decide +kernel

theorem gen_spec_nodup (ci : Nat) (c : Cls) (hc : schema.cls? ci = some c) : (c.spec.map (·.name)).Nodup := by
  have hmem : c ∈ schema.classes := List.mem_of_getElem? hc
  simpa using (List.all_eq_true.mp schema_spec_nodup) c hmem

/-- the modelled converters give `None` — never a value — for an absent element -/
theorem typesConv_none (enums : List (List Str)) : ∀ (k : Kind) (r : Bool) (v : Val),
    Types.conv.convert enums k r .none = .ok v → v = .none
  | .bool, r, v, h => by
    simp only [Types.conv, Types.convert, boolConvert, enforceRequired] at h
    split at h <;> simp_all
  | .string l st, r, v, h => by
    simp only [Types.conv, Types.convert, stringConvert, enforceRequired] at h
    split at h <;> simp_all
  | .oneOf e, r, v, h => by
    simp only [Types.conv, Types.convert] at h
    split at h
    · simp only [oneOfConvert, enforceRequired] at h
      split at h <;> simp_all
    · cases h
  | .integer l, r, v, h => by
    simp only [Types.conv, Types.convert, integerConvert, enforceRequired] at h
    split at h <;> simp_all
  | .decimal q, r, v, h => by
    simp only [Types.conv, Types.convert, decimalConvert, enforceRequired] at h
    split at h <;> simp_all
  | .datetime, r, v, h => by
    simp only [Types.conv, Types.convert, DateTime.dtConvert, DateTime.dtConvertWith, DateTime.enforceRequired] at h
    split at h <;> simp_all
  | .time, r, v, h => by
    simp only [Types.conv, Types.convert, DateTime.tmConvert, DateTime.tmConvertWith, DateTime.enforceRequired] at h
    split at h <;> simp_all
  | .listElem k ir, r, v, h => by
    simp only [Types.conv, Types.convert] at h
    exact typesConv_none enums k ir v h
  | .sub _, _, _, h => by simp [Types.conv, Types.convert] at h
  | .listAgg _, _, _, h => by simp [Types.conv, Types.convert] at h
  | .unsupported, _, _, h => by simp [Types.conv, Types.convert] at h

/-- **C03 for the generated schema: nothing dropped, right value.** -/
theorem C03_generated_value (tag : Str) (x tl : Option Str) (pre post : List Tree) (ch : Tree) (ci : Nat)
    (c : Cls) (a : Attr) (t0 : Char) (ts : Str) (fields : List (Str × Node)) (items : List Node) (cj : Nat)
    (hfind : schema.findIdx? tag = some ci) (hcls : schema.cls? ci = some c) (hg : c.groom = none)
    (ha : a ∈ c.spec) (hname : a.name = lower ch.tag) (hdot : '.' ∉ ch.tag)
    (hl : a.kind.isList = false) (hu : a.kind.isUnsupported = false) (hs : ∀ t, a.kind ≠ .sub t)
    (htext : ch.text = some (t0 :: ts))
    (h : fromEtree schema Types.conv (.node tag x tl (pre ++ ch :: post)) = .ok (.agg cj fields items)) :
    ∃ v, lookup a.name fields = some (.val v) ∧
      Types.convert schema.enums a.kind a.required (.str (t0 :: ts)) = .ok v :=
  C03_element_value schema Types.conv tag x tl pre post ch ci c a t0 ts fields items cj hfind hcls hg
    (gen_spec_nodup ci c hcls) ha hname hdot hl hu hs htext h

/-- **C03 for the generated schema: nothing invented.** -/
theorem C03_generated_nothing_invented (tag : Str) (x tl : Option Str) (children : List Tree) (ci : Nat)
    (c : Cls) (fields : List (Str × Node)) (items : List Node) (cj : Nat)
    (hfind : schema.findIdx? tag = some ci) (hcls : schema.cls? ci = some c) (hg : c.groom = none)
    (h : fromEtree schema Types.conv (.node tag x tl children) = .ok (.agg cj fields items))
    (n : Str) (w : Node) (hm : (n, w) ∈ fields) (hw : w ≠ .val .none) :
    ∃ a ∈ c.spec, a.name = n ∧ ∃ ch ∈ children, '.' ∉ ch.tag ∧ lower ch.tag = n ∧
      ∃ raw, childValue ch (fromEtree schema Types.conv ch) = .ok raw ∧
        setAttr schema Types.conv a raw = .ok (some w) :=
  C03_nothing_invented schema Types.conv tag x tl children ci c fields items cj hfind hcls hg
    (gen_spec_nodup ci c hcls) (typesConv_none schema.enums) h n w hm hw

end Ofx.Gen
