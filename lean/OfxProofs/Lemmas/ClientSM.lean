/-
Helper lemmas for C14: the cookie jar, one POST, what a public call puts on the wire, and the
cookie invariant of a system of client instances.
-/
import OfxModel.Ofx.ClientSM
import OfxModel.Spec.CacheSpec
import OfxProofs.Lemmas.Cache

namespace Ofx.ClientSM
open Ofx Ofx.Cache

/-! ### the jar -/

theorem mem_jarFor {jar : List Cookie} {h n v : Nat} : (n, v) ∈ jarFor jar h ↔ ⟨h, n, v⟩ ∈ jar := by
  simp only [jarFor, List.mem_map, List.mem_filter, decide_eq_true_eq]
  constructor
  · rintro ⟨c, ⟨hc, hh⟩, he⟩
    cases c; simp at he hh; obtain ⟨rfl, rfl⟩ := he; subst hh; exact hc
  · intro hc; exact ⟨⟨h, n, v⟩, ⟨hc, rfl⟩, rfl⟩

theorem mem_jarSet {jar : List Cookie} {c x : Cookie} :
    x ∈ jarSet jar c ↔ (x ∈ jar ∧ ¬ (x.host = c.host ∧ x.name = c.name)) ∨ x = c := by
  simp only [jarSet, List.mem_append, List.mem_filter, List.mem_singleton, decide_eq_true_eq]

/-- setting a cookie keeps "there is a cookie of this host and name" -/
theorem jarSet_keeps {jar : List Cookie} {c : Cookie} {h n : Nat} (hx : ∃ v, ⟨h, n, v⟩ ∈ jar) :
    ∃ v, ⟨h, n, v⟩ ∈ jarSet jar c := by
  obtain ⟨v, hv⟩ := hx
  by_cases hs : h = c.host ∧ n = c.name
  · obtain ⟨rfl, rfl⟩ := hs
    exact ⟨c.value, mem_jarSet.mpr (.inr rfl)⟩
  · exact ⟨v, mem_jarSet.mpr (.inl ⟨hv, hs⟩)⟩

theorem mem_jarExtract {jar : List Cookie} {h : Nat} {set : List (Nat × Nat)} {x : Cookie}
    (hx : x ∈ jarExtract jar h set) : x ∈ jar ∨ ∃ nv ∈ set, x = ⟨h, nv.1, nv.2⟩ := by
  induction set generalizing jar with
  | nil => exact .inl hx
  | cons nv rest ih =>
    simp only [jarExtract, List.foldl_cons] at hx
    rcases ih hx with h1 | ⟨nv', hin, e⟩
    · rcases mem_jarSet.mp h1 with ⟨h2, _⟩ | e
      · exact .inl h2
      · exact .inr ⟨nv, List.mem_cons_self, e⟩
    · exact .inr ⟨nv', List.mem_cons_of_mem _ hin, e⟩

theorem jarExtract_keeps {jar : List Cookie} {h : Nat} {set : List (Nat × Nat)} {h0 n : Nat}
    (hx : ∃ v, ⟨h0, n, v⟩ ∈ jar) : ∃ v, ⟨h0, n, v⟩ ∈ jarExtract jar h set := by
  induction set generalizing jar with
  | nil => exact hx
  | cons nv rest ih =>
    simp only [jarExtract, List.foldl_cons]
    exact ih (jarSet_keeps hx)

theorem jarExtract_has {jar : List Cookie} {h : Nat} {set : List (Nat × Nat)} {nv : Nat × Nat}
    (hin : nv ∈ set) : ∃ v, ⟨h, nv.1, v⟩ ∈ jarExtract jar h set := by
  induction set generalizing jar with
  | nil => cases hin
  | cons nv0 rest ih =>
    simp only [jarExtract, List.foldl_cons]
    rcases List.mem_cons.mp hin with rfl | hr
    · exact jarExtract_keeps (jar := jarSet jar ⟨h, nv.1, nv.2⟩) ⟨nv.2, mem_jarSet.mpr (.inr rfl)⟩
    · exact ih hr

/-! ### one POST -/

theorem post_req (w : World) (clock who : Nat) (st : ClientSt) (url : Url) (body : Body) :
    (post w clock who st url body).ev.req = mkReq st url body := by
  by_cases hb : (w.net clock (mkReq st url body)).beh = .transportError <;> simp [post, hb]

theorem post_who (w : World) (clock who : Nat) (st : ClientSt) (url : Url) (body : Body) :
    (post w clock who st url body).ev.who = who := by
  by_cases hb : (w.net clock (mkReq st url body)).beh = .transportError <;> simp [post, hb]

theorem post_cfg (w : World) (clock who : Nat) (st : ClientSt) (url : Url) (body : Body) :
    (post w clock who st url body).st.cfg = st.cfg := by
  by_cases hb : (w.net clock (mkReq st url body)).beh = .transportError <;> simp [post, hb]

/-- the jar after a POST: unchanged, or the response's cookies extracted -/
theorem post_jar (w : World) (clock who : Nat) (st : ClientSt) (url : Url) (body : Body) :
    ((post w clock who st url body).ev.set = [] ∧ (post w clock who st url body).st.jar = st.jar) ∨
    ((post w clock who st url body).st.jar = jarAfter st url.host (post w clock who st url body).ev.set) := by
  by_cases hb : (w.net clock (mkReq st url body)).beh = .transportError <;> simp [post, hb]

/-! ### what a public call puts on the wire -/

/-- the PROFRQ event of `requestProfile`, given what the cache holds -/
def profileEv (w : World) (clock who : Nat) (st : ClientSt) (h : Option Profile) : PostOut :=
  post w clock who st st.cfg.url (profileBody (h.map Profile.date))

theorem requestProfile_cases (w : World) (clock who : Nat) (fs : FS) (st : ClientSt) (dry : Bool) :
    let r := requestProfile w clock who fs st dry
    (r.evs = [] ∧ r.st = st) ∨
    (dry = false ∧ ∃ h, Cache.held (fs (cacheKey st.cfg.org st.cfg.fid)) = .ok h ∧
      r.evs = [(profileEv w clock who st h).ev] ∧ r.st = (profileEv w clock who st h).st) := by
  cases hh : Cache.held (fs (cacheKey st.cfg.org st.cfg.fid)) with
  | error e => left; simp [requestProfile, hh]
  | ok h =>
    cases dry with
    | true => left; simp [requestProfile, hh]
    | false =>
      right
      exact ⟨rfl, h, rfl, by simp [requestProfile, hh, profileEv], by simp [requestProfile, hh, profileEv]⟩

/-- Where the events of one public call come from.  Either it is the PROFRQ of this call, or the call is a
    non-profile request and the event is its one main POST — to the configured URL under `skip_profile`, to the
    URL the obtained profile advertises otherwise. -/
inductive EvOrigin (w : World) (clock who : Nat) (fs : FS) (st : ClientSt) (op : Op) (e : Ev) : Prop
  | profile (h : Option Profile) (hmode : op.mode ≠ .dryrun)
      (he : e = (profileEv w clock who st h).ev)
      (hheld : Cache.held (fs (cacheKey st.cfg.org st.cfg.fid)) = .ok h)
  | skip (hk : op.kind ≠ .profile) (hmode : op.mode = .skipProfile)
      (he : e = (post w clock who st st.cfg.url (mainBody st op)).ev)
  | normal (hk : op.kind ≠ .profile) (hmode : op.mode = .normal) (p : Profile) (url : Url) (st' : ClientSt) (clock' : Nat)
      (hp : (requestProfile w clock who fs st false).res = .ok (.prof p))
      (hst : st' = (requestProfile w clock who fs st false).st)
      (hu : serviceUrl w p = .ok url)
      (he : e = (post w clock' who st' url (mainBody st' op)).ev)

theorem requestProfile_cfg (w : World) (clock who : Nat) (fs : FS) (st : ClientSt) (dry : Bool) :
    (requestProfile w clock who fs st dry).st.cfg = st.cfg := by
  rcases requestProfile_cases w clock who fs st dry with ⟨_, h⟩ | ⟨_, h, _, _, hs⟩
  · rw [h]
  · rw [hs]; exact post_cfg ..

theorem step_origin (w : World) (clock who : Nat) (fs : FS) (st : ClientSt) (op : Op) (e : Ev)
    (he : e ∈ (step w clock who fs st op).evs) : EvOrigin w clock who fs st op e := by
  unfold step at he
  cases hk : op.kind with
  | profile =>
    simp only [hk] at he
    rcases requestProfile_cases w clock who fs st (decide (op.mode = .dryrun)) with ⟨h0, _⟩ | ⟨hd, h, hh, hevs, _⟩
    · rw [h0] at he; cases he
    · rw [hevs] at he
      exact .profile h (by simpa using hd) (by simpa using he) hh
  | statements | accounts | tax =>
    simp only [hk] at he
    have hk' : op.kind ≠ .profile := by rw [hk]; decide
    cases hm : op.mode with
    | dryrun => simp [hm] at he
    | skipProfile =>
      simp only [hm, postMain, List.nil_append, List.mem_singleton] at he
      exact .skip hk' hm he
    | normal =>
      simp only [hm] at he
      rcases requestProfile_cases w clock who fs st false with ⟨h0, hst0⟩ | ⟨_, h, hh, hevs, hst⟩
      · -- no PROFRQ went out: request_profile failed before the POST
        cases hr : (requestProfile w clock who fs st false).res with
        | error err => simp [hr, h0] at he
        | ok o =>
          cases o with
          | prof p =>
            simp only [hr] at he
            cases hu : serviceUrl w p with
            | error err => simp [hu, h0] at he
            | ok url =>
              simp only [hu, postMain, h0, List.nil_append, List.mem_singleton] at he
              exact .normal hk' hm p url _ _ hr rfl hu he
          | dryRequest => simp [hr, h0] at he
          | raw b => simp [hr, h0] at he
      · cases hr : (requestProfile w clock who fs st false).res with
        | error err =>
          simp only [hr, hevs, List.mem_singleton] at he
          exact .profile h (by rw [hm]; decide) he hh
        | ok o =>
          cases o with
          | prof p =>
            simp only [hr] at he
            cases hu : serviceUrl w p with
            | error err =>
              simp only [hu, hevs, List.mem_singleton] at he
              exact .profile h (by rw [hm]; decide) he hh
            | ok url =>
              simp only [hu, postMain, hevs, List.mem_append, List.mem_singleton] at he
              rcases he with he | he
              · exact .profile h (by rw [hm]; decide) he hh
              · exact .normal hk' hm p url _ _ hr rfl hu he
          | dryRequest =>
            simp only [hr, hevs, List.mem_singleton] at he
            exact .profile h (by rw [hm]; decide) he hh
          | raw b =>
            simp only [hr, hevs, List.mem_singleton] at he
            exact .profile h (by rw [hm]; decide) he hh

/-- `serviceUrl` returns a URL only if the profile advertises it and nothing else -/
theorem serviceUrl_ok {w : World} {p : Profile} {u : Url} (h : serviceUrl w p = .ok u) :
    u ∈ w.adv p.body ∧ ∀ x ∈ w.adv p.body, x = u := by
  unfold serviceUrl at h
  split at h
  · cases h
  · rename_i u0 rest heq
    split at h
    · rename_i hall
      cases h
      rw [heq]
      refine ⟨List.mem_cons_self, ?_⟩
      intro x hx
      rcases List.mem_cons.mp hx with rfl | hr
      · rfl
      · simpa using List.all_eq_true.mp hall x hr
    · cases h

/-! ### the cookie invariant -/

/-- The jar of client `who` is explained by the trace so far: (1) every cookie in it was set by a response to an
    earlier request of `who` at the cookie's host; (2) if the client keeps cookies, every cookie name a response
    to `who` set at some host is still in the jar for that host. -/
def JC (who : Nat) (st : ClientSt) (tr : List Ev) : Prop :=
  (∀ c ∈ st.jar, ∃ e0 ∈ tr, e0.who = who ∧ e0.req.url.host = c.host ∧ (c.name, c.value) ∈ e0.set) ∧
  (st.cfg.persistCookies = true → ∀ e0 ∈ tr, e0.who = who → ∀ nv ∈ e0.set,
      ∃ v', (⟨e0.req.url.host, nv.1, v'⟩ : Cookie) ∈ st.jar)

/-- What C14 demands of one request `e` given the requests `pre` before it. -/
def EvOK (persist : Nat → Bool) (pre : List Ev) (e : Ev) : Prop :=
  (∀ nv ∈ e.req.cookies, ∃ e0 ∈ pre, e0.who = e.who ∧ e0.req.url.host = e.req.url.host ∧ nv ∈ e0.set) ∧
  (persist e.who = true → ∀ e0 ∈ pre, e0.who = e.who → e0.req.url.host = e.req.url.host →
      ∀ nv ∈ e0.set, ∃ v', (nv.1, v') ∈ e.req.cookies)

def TraceOK (persist : Nat → Bool) (tr : List Ev) : Prop :=
  ∀ pre e post, tr = pre ++ e :: post → EvOK persist pre e

theorem traceOK_nil (persist : Nat → Bool) : TraceOK persist [] := by
  intro pre e post h; simp at h

theorem snoc_split {α} {tr pre post : List α} {e x : α} (h : tr ++ [e] = pre ++ x :: post) :
    (post = [] ∧ pre = tr ∧ x = e) ∨ ∃ post', post = post' ++ [e] ∧ tr = pre ++ x :: post' := by
  rcases List.eq_nil_or_concat post with rfl | ⟨post', y, hpost⟩
  · have := List.append_inj' h (by simp)
    simp at this
    exact .inl ⟨rfl, this.1.symm, this.2.symm⟩
  · rw [List.concat_eq_append] at hpost
    subst hpost
    have h' : tr ++ [e] = (pre ++ x :: post') ++ [y] := by simpa using h
    have := List.append_inj' h' (by simp)
    simp at this
    obtain ⟨h1, h2⟩ := this
    subst h2
    exact .inr ⟨post', rfl, h1⟩

theorem traceOK_snoc {persist : Nat → Bool} {tr : List Ev} {e : Ev}
    (ht : TraceOK persist tr) (he : EvOK persist tr e) : TraceOK persist (tr ++ [e]) := by
  intro pre x post h
  rcases snoc_split h with ⟨_, rfl, rfl⟩ | ⟨post', _, h2⟩
  · exact he
  · exact ht pre x post' h2

/-- a request of another client leaves this client's invariant alone -/
theorem JC_other {who : Nat} {st : ClientSt} {tr : List Ev} {e : Ev} (h : JC who st tr) (hw : e.who ≠ who) :
    JC who st (tr ++ [e]) := by
  obtain ⟨h1, h2⟩ := h
  refine ⟨?_, ?_⟩
  · intro c hc
    obtain ⟨e0, he0, r⟩ := h1 c hc
    exact ⟨e0, List.mem_append_left _ he0, r⟩
  · intro hp e0 he0 hw0 nv hnv
    rcases List.mem_append.mp he0 with hin | hin
    · exact h2 hp e0 hin hw0 nv hnv
    · simp at hin; subst hin; exact absurd hw0 hw

/-- one POST of client `who` preserves its invariant and the request it sends is justified by the trace -/
theorem post_step (w : World) (clock who : Nat) (st : ClientSt) (url : Url) (body : Body)
    (persist : Nat → Bool) (hp : persist who = st.cfg.persistCookies) (tr : List Ev) (h : JC who st tr) :
    JC who (post w clock who st url body).st (tr ++ [(post w clock who st url body).ev]) ∧
      EvOK persist tr (post w clock who st url body).ev := by
  obtain ⟨h1, h2⟩ := h
  have hreq := post_req w clock who st url body
  have hwho := post_who w clock who st url body
  have hcfg := post_cfg w clock who st url body
  have hjar := post_jar w clock who st url body
  generalize post w clock who st url body = o at *
  have hhost : o.ev.req.url.host = url.host := by rw [hreq]; rfl
  refine ⟨⟨?_, ?_⟩, ⟨?_, ?_⟩⟩
  · -- every cookie in the new jar is explained
    intro c hc
    have hold : c ∈ st.jar → ∃ e0 ∈ tr ++ [o.ev], e0.who = who ∧ e0.req.url.host = c.host ∧ (c.name, c.value) ∈ e0.set := by
      intro hc'
      obtain ⟨e0, he0, r⟩ := h1 c hc'
      exact ⟨e0, List.mem_append_left _ he0, r⟩
    rcases hjar with ⟨_, hj⟩ | hj
    · rw [hj] at hc; exact hold hc
    · rw [hj] at hc
      unfold jarAfter at hc
      split at hc
      · rcases mem_jarExtract hc with hc' | ⟨nv, hnv, rfl⟩
        · exact hold hc'
        · exact ⟨o.ev, by simp, hwho, hhost, hnv⟩
      · exact hold hc
  · -- every cookie name set so far is still there
    intro hpc e0 he0 hw0 nv hnv
    rw [hcfg] at hpc
    rcases List.mem_append.mp he0 with hin | hin
    · obtain ⟨v', hv'⟩ := h2 hpc e0 hin hw0 nv hnv
      rcases hjar with ⟨_, hj⟩ | hj
      · rw [hj]; exact ⟨v', hv'⟩
      · rw [hj]; unfold jarAfter; rw [if_pos hpc]; exact jarExtract_keeps ⟨v', hv'⟩
    · simp at hin; subst hin
      rcases hjar with ⟨hs, _⟩ | hj
      · rw [hs] at hnv; cases hnv
      · rw [hj, hhost]; unfold jarAfter; rw [if_pos hpc]; exact jarExtract_has hnv
  · -- origin of the cookies sent
    intro nv hnv
    rw [hreq] at hnv
    simp only [mkReq] at hnv
    split at hnv
    · have hc : (⟨url.host, nv.1, nv.2⟩ : Cookie) ∈ st.jar := mem_jarFor.mp hnv
      obtain ⟨e0, he0, hw0, hh0, hs0⟩ := h1 _ hc
      exact ⟨e0, he0, by rw [hwho]; exact hw0, by rw [hhost]; exact hh0, hs0⟩
    · cases hnv
  · -- replay
    intro hpw e0 he0 hw0 hh0 nv hnv
    rw [hwho] at hpw hw0
    rw [hp] at hpw
    obtain ⟨v', hv'⟩ := h2 hpw e0 he0 hw0 nv hnv
    refine ⟨v', ?_⟩
    rw [hreq]
    simp only [mkReq, if_pos hpw]
    rw [hhost] at hh0
    rw [hh0] at hv'
    exact mem_jarFor.mpr hv'

/-- the shape of what one public call does: no POST, one POST, or two POSTs in a row by the same client -/
theorem step_shape (w : World) (clock who : Nat) (fs : FS) (st : ClientSt) (op : Op) :
    let r := step w clock who fs st op
    (r.evs = [] ∧ r.st = st) ∨
    (∃ c u b, r.evs = [(post w c who st u b).ev] ∧ r.st = (post w c who st u b).st) ∨
    (∃ c1 u1 b1 c2 u2 b2, r.evs = [(post w c1 who st u1 b1).ev, (post w c2 who (post w c1 who st u1 b1).st u2 b2).ev] ∧
      r.st = (post w c2 who (post w c1 who st u1 b1).st u2 b2).st) := by
  unfold step
  cases hk : op.kind with
  | profile =>
    simp only
    rcases requestProfile_cases w clock who fs st (decide (op.mode = .dryrun)) with ⟨h0, hs⟩ | ⟨_, h, _, hevs, hs⟩
    · exact .inl ⟨h0, hs⟩
    · exact .inr (.inl ⟨_, _, _, hevs, hs⟩)
  | statements | accounts | tax =>
    simp only
    cases hm : op.mode with
    | dryrun => exact .inl ⟨rfl, rfl⟩
    | skipProfile => exact .inr (.inl ⟨_, _, _, rfl, rfl⟩)
    | normal =>
      simp only
      rcases requestProfile_cases w clock who fs st false with ⟨h0, hs⟩ | ⟨_, h, _, hevs, hs⟩
      · cases hr : (requestProfile w clock who fs st false).res with
        | error err => exact .inl ⟨h0, hs⟩
        | ok o =>
          cases o with
          | prof p =>
            simp only
            cases hu : serviceUrl w p with
            | error err => exact .inl ⟨h0, hs⟩
            | ok url =>
              simp only [postMain, h0, hs, List.nil_append]
              exact .inr (.inl ⟨_, _, _, rfl, rfl⟩)
          | dryRequest => exact .inl ⟨h0, hs⟩
          | raw b => exact .inl ⟨h0, hs⟩
      · cases hr : (requestProfile w clock who fs st false).res with
        | error err => exact .inr (.inl ⟨_, _, _, hevs, hs⟩)
        | ok o =>
          cases o with
          | prof p =>
            simp only
            cases hu : serviceUrl w p with
            | error err => exact .inr (.inl ⟨_, _, _, hevs, hs⟩)
            | ok url =>
              simp only [postMain, hevs, hs, List.cons_append, List.nil_append]
              exact .inr (.inr ⟨_, _, _, _, _, _, rfl, rfl⟩)
          | dryRequest => exact .inr (.inl ⟨_, _, _, hevs, hs⟩)
          | raw b => exact .inr (.inl ⟨_, _, _, hevs, hs⟩)

/-- a whole public call preserves the invariant of the calling client and of every other client, and the
    trace stays justified -/
theorem step_inv (w : World) (clock who : Nat) (fs : FS) (st : ClientSt) (op : Op) (persist : Nat → Bool)
    (hp : persist who = st.cfg.persistCookies) (tr : List Ev) (h : JC who st tr) (ht : TraceOK persist tr) :
    let r := step w clock who fs st op
    JC who r.st (tr ++ r.evs) ∧ TraceOK persist (tr ++ r.evs) ∧ r.st.cfg = st.cfg ∧
      (∀ who' st', who' ≠ who → JC who' st' tr → JC who' st' (tr ++ r.evs)) := by
  intro r
  rcases step_shape w clock who fs st op with ⟨he, hs⟩ | ⟨c, u, b, he, hs⟩ | ⟨c1, u1, b1, c2, u2, b2, he, hs⟩
  · simp only [r, he, hs, List.append_nil]
    exact ⟨h, ht, trivial, fun _ _ _ h' => h'⟩
  · simp only [r, he, hs]
    obtain ⟨hj, hev⟩ := post_step w c who st u b persist hp tr h
    refine ⟨hj, traceOK_snoc ht hev, post_cfg .., ?_⟩
    intro who' st' hne h'
    exact JC_other h' (by rw [post_who]; exact fun e => hne e.symm)
  · simp only [r, he, hs]
    obtain ⟨hj1, hev1⟩ := post_step w c1 who st u1 b1 persist hp tr h
    have hp1 : persist who = (post w c1 who st u1 b1).st.cfg.persistCookies := by rw [post_cfg]; exact hp
    obtain ⟨hj2, hev2⟩ := post_step w c2 who (post w c1 who st u1 b1).st u2 b2 persist hp1 _ hj1
    have hl : ∀ (a b : Ev), tr ++ [a, b] = tr ++ [a] ++ [b] := by intro a b; simp
    rw [hl]
    refine ⟨hj2, traceOK_snoc (traceOK_snoc ht hev1) hev2, by rw [post_cfg, post_cfg], ?_⟩
    intro who' st' hne h'
    exact JC_other (JC_other h' (by rw [post_who]; exact fun e => hne e.symm))
      (by rw [post_who]; exact fun e => hne e.symm)

/-- the invariant of a system of client instances -/
def SysInv (persist : Nat → Bool) (s : Sys) (tr : List Ev) : Prop :=
  (∀ who, JC who (s.clients who) tr) ∧ (∀ who, persist who = (s.clients who).cfg.persistCookies) ∧
    TraceOK persist tr

theorem sys_step_inv (w : World) (persist : Nat → Bool) (s : Sys) (tr : List Ev) (who : Nat) (op : Op)
    (h : SysInv persist s tr) : SysInv persist (s.step w who op).1 (tr ++ (s.step w who op).2.evs) := by
  obtain ⟨hj, hp, ht⟩ := h
  obtain ⟨h1, h2, h3, h4⟩ := step_inv w s.clock who s.fs (s.clients who) op persist (hp who) tr (hj who) ht
  refine ⟨?_, ?_, h2⟩
  · intro who'
    by_cases hw : who' = who
    · subst hw; simpa [Sys.step, Sys.setClient] using h1
    · simpa [Sys.step, Sys.setClient, hw] using h4 who' (s.clients who') hw (hj who')
  · intro who'
    by_cases hw : who' = who
    · subst hw; simpa [Sys.step, Sys.setClient, h3] using hp who'
    · simpa [Sys.step, Sys.setClient, hw] using hp who'

theorem sys_run_inv (w : World) (persist : Nat → Bool) (hist : List (Nat × Op)) (s : Sys) (tr : List Ev)
    (h : SysInv persist s tr) : TraceOK persist (tr ++ Sys.trace w s hist) := by
  induction hist generalizing s tr with
  | nil => simpa [Sys.trace, Sys.run] using h.2.2
  | cons x rest ih =>
    obtain ⟨who, op⟩ := x
    have := ih (s.step w who op).1 _ (sys_step_inv w persist s tr who op h)
    simpa [Sys.trace, Sys.run, List.append_assoc] using this

end Ofx.ClientSM
