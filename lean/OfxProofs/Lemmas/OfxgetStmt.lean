/-
Lemmas for C19: the request loops equal the declarative request list; `sorted`/`groupby` by class name hand every
parser exactly the `*ACCTINFO`s of its class in document order; what the discovered mapping says key by key;
multiset bookkeeping.
-/
import OfxProofs.Lemmas.Ofxget
namespace Ofx.Ofxget
open Ofx Ofx.Spec.Ofxget

/-! ### `strLe` is a total order -/

theorem char_eq_of_toNat_eq {a b : Char} (h : a.toNat = b.toNat) : a = b := by
  apply Char.ext
  apply UInt32.toNat_inj.mp
  exact h

theorem strLe_cons (a b : Char) (as bs : Str) :
    strLe (a :: as) (b :: bs) = true ↔ a.toNat < b.toNat ∨ (a = b ∧ strLe as bs = true) := by
  simp [strLe]

theorem strLe_refl (a : Str) : strLe a a = true := by
  induction a with
  | nil => rfl
  | cons c cs ih => rw [strLe_cons]; exact Or.inr ⟨rfl, ih⟩

theorem strLe_total (a b : Str) : strLe a b = true ∨ strLe b a = true := by
  induction a generalizing b with
  | nil => left; rfl
  | cons c cs ih =>
    cases b with
    | nil => right; rfl
    | cons d ds =>
      rw [strLe_cons, strLe_cons]
      rcases Nat.lt_trichotomy c.toNat d.toNat with h | h | h
      · exact Or.inl (Or.inl h)
      · have := char_eq_of_toNat_eq h
        subst this
        rcases ih ds with h' | h'
        · exact Or.inl (Or.inr ⟨rfl, h'⟩)
        · exact Or.inr (Or.inr ⟨rfl, h'⟩)
      · exact Or.inr (Or.inl h)

theorem strLe_trans {a b c : Str} (h1 : strLe a b = true) (h2 : strLe b c = true) : strLe a c = true := by
  induction a generalizing b c with
  | nil => rfl
  | cons x xs ih =>
    cases b with
    | nil => simp [strLe] at h1
    | cons y ys =>
      cases c with
      | nil => simp [strLe] at h2
      | cons z zs =>
        rw [strLe_cons] at h1 h2 ⊢
        rcases h1 with h1 | ⟨rfl, h1⟩
        · rcases h2 with h2 | ⟨rfl, h2⟩
          · exact Or.inl (Nat.lt_trans h1 h2)
          · exact Or.inl h1
        · rcases h2 with h2 | ⟨rfl, h2⟩
          · exact Or.inl h2
          · exact Or.inr ⟨rfl, ih h1 h2⟩

theorem strLe_antisymm {a b : Str} (h1 : strLe a b = true) (h2 : strLe b a = true) : a = b := by
  induction a generalizing b with
  | nil => cases b with
    | nil => rfl
    | cons y ys => simp [strLe] at h2
  | cons x xs ih =>
    cases b with
    | nil => simp [strLe] at h1
    | cons y ys =>
      rw [strLe_cons] at h1 h2
      rcases h1 with h1 | ⟨rfl, h1⟩
      · rcases h2 with h2 | ⟨rfl, h2⟩
        · omega
        · omega
      · rcases h2 with h2 | ⟨_, h2⟩
        · omega
        · rw [ih h1 h2]

/-! ### stable insertion sort and `groupby` -/

section sort
variable {α : Type} (key : α → Str)

/-- the comparison `sorted(key=…)` makes -/
def leKey (a b : α) : Bool := strLe (key a) (key b)

theorem mem_insertSorted (x z : α) (acc : List α) :
    z ∈ insertSorted (leKey key) x acc ↔ z = x ∨ z ∈ acc := by
  induction acc with
  | nil => simp [insertSorted]
  | cons y ys ih =>
    simp only [insertSorted]
    split
    · simp only [List.mem_cons, ih]
      constructor
      · rintro (h | h | h)
        · exact Or.inr (Or.inl h)
        · exact Or.inl h
        · exact Or.inr (Or.inr h)
      · rintro (h | h | h)
        · exact Or.inr (Or.inl h)
        · exact Or.inl h
        · exact Or.inr (Or.inr h)
    · simp [List.mem_cons]

theorem pairwise_insertSorted (x : α) (acc : List α) (h : acc.Pairwise (fun a b => leKey key a b = true)) :
    (insertSorted (leKey key) x acc).Pairwise (fun a b => leKey key a b = true) := by
  induction acc with
  | nil => simp [insertSorted]
  | cons y ys ih =>
    rw [List.pairwise_cons] at h
    simp only [insertSorted]
    split
    · rename_i hyx
      rw [List.pairwise_cons]
      refine ⟨?_, ih h.2⟩
      intro z hz
      rcases (mem_insertSorted key x z ys).mp hz with rfl | hz
      · exact hyx
      · exact h.1 z hz
    · rename_i hyx
      have hxy : leKey key x y = true := by
        rcases strLe_total (key x) (key y) with h' | h'
        · exact h'
        · exact absurd h' hyx
      rw [List.pairwise_cons]
      refine ⟨?_, List.pairwise_cons.mpr h⟩
      intro z hz
      rcases List.mem_cons.mp hz with rfl | hz
      · exact hxy
      · exact strLe_trans hxy (h.1 z hz)

theorem filter_insertSorted (c : Str) (x : α) (acc : List α) (h : acc.Pairwise (fun a b => leKey key a b = true)) :
    (insertSorted (leKey key) x acc).filter (fun a => key a == c) =
      acc.filter (fun a => key a == c) ++ (if key x == c then [x] else []) := by
  induction acc with
  | nil => cases hx : key x == c <;> simp [insertSorted, List.filter, hx]
  | cons y ys ih =>
    rw [List.pairwise_cons] at h
    simp only [insertSorted]
    split
    · simp only [List.filter_cons, ih h.2]
      split <;> simp
    · rename_i hyx
      by_cases hx : (key x == c) = true
      · have hxc : key x = c := by simpa using hx
        have hnone : (y :: ys).filter (fun a => key a == c) = [] := by
          rw [List.filter_eq_nil_iff]
          intro z hz hzc
          have hzc' : key z = c := by simpa using hzc
          apply hyx
          rcases List.mem_cons.mp hz with rfl | hz
          · show strLe (key z) (key x) = true
            rw [hzc', hxc]; exact strLe_refl _
          · have := h.1 z hz
            show strLe (key y) (key x) = true
            rw [hxc, ← hzc']; exact this
        rw [hnone]
        simp [List.filter_cons, hx, hnone]
      · simp [List.filter_cons, hx]

theorem sortBy_spec (l : List α) :
    (sortBy (leKey key) l).Pairwise (fun a b => leKey key a b = true) ∧
    ∀ c, (sortBy (leKey key) l).filter (fun a => key a == c) = l.filter (fun a => key a == c) := by
  unfold sortBy
  suffices H : ∀ (l acc pre : List α), acc.Pairwise (fun a b => leKey key a b = true) →
      (∀ c, acc.filter (fun a => key a == c) = pre.filter (fun a => key a == c)) →
      (l.foldl (fun acc x => insertSorted (leKey key) x acc) acc).Pairwise (fun a b => leKey key a b = true) ∧
      ∀ c, (l.foldl (fun acc x => insertSorted (leKey key) x acc) acc).filter (fun a => key a == c) =
        (pre ++ l).filter (fun a => key a == c) by
    simpa using H l [] [] (by simp) (by simp)
  intro l
  induction l with
  | nil => intro acc pre h1 h2; simpa using ⟨h1, h2⟩
  | cons x xs ih =>
    intro acc pre h1 h2
    simp only [List.foldl_cons]
    have := ih (insertSorted (leKey key) x acc) (pre ++ [x]) (pairwise_insertSorted key x acc h1)
      (by intro c; rw [filter_insertSorted key c x acc h1, h2 c]; simp [List.filter_append, List.filter_cons])
    simpa [List.append_assoc] using this

theorem groupByKey_ne_nil (x : α) (xs : List α) : groupByKey key (x :: xs) ≠ [] := by
  simp only [groupByKey]
  split
  · split <;> simp
  · simp

/-- what `groupby` yields on a list sorted by the key -/
structure Grouped (s : List α) (gs : List (Str × List α)) : Prop where
  group : ∀ kg ∈ gs, kg.2 = s.filter (fun a => key a == kg.1) ∧ kg.2 ≠ []
  cover : ∀ z ∈ s, ∃ g, (key z, g) ∈ gs
  head : ∀ x xs, s = x :: xs → ∃ g rest, gs = (key x, g) :: rest
  nodup : (gs.map (·.1)).Nodup

theorem groupByKey_spec (s : List α) (h : s.Pairwise (fun a b => leKey key a b = true)) :
    Grouped key s (groupByKey key s) := by
  induction s with
  | nil =>
    refine ⟨?_, ?_, ?_, ?_⟩
    · intro kg hkg; simp [groupByKey] at hkg
    · intro z hz; cases hz
    · intro x xs hx; cases hx
    · simp [groupByKey]
  | cons x xs ih =>
    rw [List.pairwise_cons] at h
    have IH := ih h.2
    cases hg : groupByKey key xs with
    | nil =>
      have hxs : xs = [] := by
        cases xs with
        | nil => rfl
        | cons y ys => exact absurd hg (groupByKey_ne_nil key y ys)
      subst hxs
      simp only [groupByKey]
      refine ⟨?_, ?_, ?_, by simp⟩
      · intro kg hkg
        simp only [List.mem_singleton] at hkg
        subst hkg
        simp
      · intro z hz
        simp only [List.mem_singleton] at hz
        subst hz
        exact ⟨[z], by simp⟩
      · intro y ys hy
        cases hy
        exact ⟨_, _, rfl⟩
    | cons kg rest =>
      obtain ⟨k, g⟩ := kg
      rw [hg] at IH
      simp only [groupByKey, hg]
      by_cases hk : (k == key x) = true
      · have hk' : k = key x := by simpa using hk
        simp only [hk, if_true]
        have hnd := IH.nodup
        simp only [List.map_cons, List.nodup_cons] at hnd
        refine ⟨?_, ?_, ?_, ?_⟩
        · intro kg hkg
          rcases List.mem_cons.mp hkg with rfl | hkg
          · have := IH.group (k, g) (by simp)
            simp only at this ⊢
            refine ⟨?_, by simp⟩
            rw [List.filter_cons, this.1]
            simp [hk']
          · have hkg' := IH.group kg (by simp [hkg])
            refine ⟨?_, hkg'.2⟩
            rw [List.filter_cons]
            have hx : (key x == kg.1) = false := by
              cases hx : key x == kg.1 with
              | false => rfl
              | true =>
                exfalso
                have hx' : key x = kg.1 := by simpa using hx
                apply hnd.1
                rw [hk', hx']
                exact List.mem_map_of_mem hkg
            simp [hx, hkg'.1]
        · intro z hz
          rcases List.mem_cons.mp hz with rfl | hz
          · exact ⟨z :: g, by simp [hk']⟩
          · obtain ⟨g', hg'⟩ := IH.cover z hz
            rcases List.mem_cons.mp hg' with h' | h'
            · refine ⟨x :: g, ?_⟩
              have : key z = k := by cases h'; rfl
              simp [this]
            · exact ⟨g', by simp [h']⟩
        · intro y ys hy
          cases hy
          exact ⟨_, _, by rw [hk']⟩
        · simpa [List.map_cons, List.nodup_cons] using hnd
      · have hk' : ¬ k = key x := by simpa using hk
        simp only [hk, Bool.false_eq_true, if_false]
        -- the first element of xs carries key k
        have hfresh : ∀ z ∈ xs, key z ≠ key x := by
          cases xs with
          | nil => intro z hz; cases hz
          | cons y ys =>
            obtain ⟨g0, rest0, hhead⟩ := IH.head y ys rfl
            have hky : k = key y := by
              have := List.cons.inj hhead
              exact congrArg Prod.fst this.1
            have hpw := h.2
            rw [List.pairwise_cons] at hpw
            intro z hz hzx
            have hxy : strLe (key x) (key y) = true := h.1 y (by simp)
            rcases List.mem_cons.mp hz with rfl | hz
            · exact hk' (by rw [hky, hzx])
            · have hyz : strLe (key y) (key z) = true := hpw.1 z hz
              rw [hzx] at hyz
              exact hk' (by rw [hky]; exact strLe_antisymm hyz hxy)
        have hkeys : ∀ kg ∈ (k, g) :: rest, kg.1 ≠ key x := by
          intro kg hkg heq
          have := IH.group kg hkg
          have hne := this.2
          rw [this.1] at hne
          obtain ⟨z, hz⟩ := List.exists_mem_of_ne_nil _ hne
          rw [List.mem_filter] at hz
          have : key z = kg.1 := by simpa using hz.2
          exact hfresh z hz.1 (by rw [this, heq])
        refine ⟨?_, ?_, ?_, ?_⟩
        · intro kg hkg
          rcases List.mem_cons.mp hkg with rfl | hkg
          · refine ⟨?_, by simp⟩
            have : xs.filter (fun a => key a == key x) = [] := by
              rw [List.filter_eq_nil_iff]
              intro z hz hzc
              exact hfresh z hz (by simpa using hzc)
            simp [List.filter_cons, this]
          · have hkg' := IH.group kg hkg
            refine ⟨?_, hkg'.2⟩
            have hx : (key x == kg.1) = false := by
              have := hkeys kg hkg
              simpa using fun e : key x = kg.1 => this e.symm
            simp [List.filter_cons, hx, hkg'.1]
        · intro z hz
          rcases List.mem_cons.mp hz with rfl | hz
          · exact ⟨[z], by simp⟩
          · obtain ⟨g', hg'⟩ := IH.cover z hz
            exact ⟨g', List.mem_cons_of_mem _ hg'⟩
        · intro y ys hy
          cases hy
          exact ⟨_, _, rfl⟩
        · rw [List.map_cons, List.nodup_cons]
          refine ⟨?_, IH.nodup⟩
          intro hmem
          obtain ⟨kg, hkg, hkx⟩ := List.mem_map.mp hmem
          exact hkeys kg hkg hkx

end sort

/-! ### the discovered mapping -/

/-- the `*ACCTINFO`s of one class, in document order: what `sorted` + `groupby` hand to each parser -/
theorem acct_groups (infos : List AcctInfo) :
    let groups := acctGroups infos
    (∀ kg ∈ groups, kg.2 = infos.filter (fun a => a.clsName == kg.1) ∧ kg.2 ≠ []) ∧
    (∀ k, infos.filter (fun a => a.clsName == k) ≠ [] → ∃ g, (k, g) ∈ groups) := by
  intro groups
  have hs := sortBy_spec AcctInfo.clsName infos
  have hg := groupByKey_spec AcctInfo.clsName _ hs.1
  refine ⟨?_, ?_⟩
  · intro kg hkg
    have := hg.group kg hkg
    rw [hs.2 kg.1] at this
    exact this
  · intro k hk
    obtain ⟨z, hz⟩ := List.exists_mem_of_ne_nil _ hk
    rw [List.mem_filter] at hz
    have hzs : z ∈ sortBy (leKey AcctInfo.clsName) infos := by
      have : z ∈ (sortBy (leKey AcctInfo.clsName) infos).filter (fun a => a.clsName == z.clsName) := by
        rw [hs.2 z.clsName, List.mem_filter]; exact ⟨hz.1, by simp⟩
      exact (List.mem_filter.mp this).1
    obtain ⟨g, hg'⟩ := hg.cover z hzs
    have hk' : z.clsName = k := by simpa using hz.2
    exact ⟨g, by rw [← hk']; exact hg'⟩

theorem mapM_ok_mem {α β : Type} (f : α → PyM β) (l : List α) (r : List β) (h : l.mapM f = .ok r) :
    (∀ b ∈ r, ∃ a ∈ l, f a = .ok b) ∧ (∀ a ∈ l, ∃ b ∈ r, f a = .ok b) := by
  induction l generalizing r with
  | nil =>
    simp [List.mapM_nil, pure, Except.pure] at h
    subst h
    simp
  | cons a l ih =>
    rw [List.mapM_cons] at h
    simp only [bind, Except.bind] at h
    cases ha : f a with
    | error e => rw [ha] at h; cases h
    | ok b =>
      rw [ha] at h
      simp only at h
      cases hl : l.mapM f with
      | error e => rw [hl] at h; cases h
      | ok bs =>
        rw [hl] at h
        simp only [pure, Except.pure, Except.ok.injEq] at h
        subst h
        have IH := ih bs hl
        refine ⟨?_, ?_⟩
        · intro b' hb'
          rcases List.mem_cons.mp hb' with rfl | hb'
          · exact ⟨a, by simp, ha⟩
          · obtain ⟨a', ha', hfa'⟩ := IH.1 b' hb'
            exact ⟨a', by simp [ha'], hfa'⟩
        · intro a' ha'
          rcases List.mem_cons.mp ha' with rfl | ha'
          · exact ⟨b, by simp, ha⟩
          · obtain ⟨b', hb', hfa'⟩ := IH.2 a' ha'
            exact ⟨b', by simp [hb'], hfa'⟩

theorem lookup_flatten (maps : List Map) (k : Name) :
    maps.flatten.lookup k = maps.findSome? (fun m => m.lookup k) := by
  induction maps with
  | nil => rfl
  | cons m ms ih =>
    simp only [List.flatten_cons, List.findSome?_cons]
    induction m with
    | nil => simpa using ih
    | cons kv rest ihm =>
      obtain ⟨a, b⟩ := kv
      simp only [List.cons_append, List.lookup_cons]
      cases k == a with
      | true => rfl
      | false => simpa using ihm

/-- values that are lists -/
def lookupList (m : Map) (k : Name) : List Str :=
  match m.lookup k with
  | some (.list l) => l
  | _ => []

def AllLists (m : Map) : Prop := ∀ kv ∈ m, ∃ l, kv.2 = CfgVal.list l

theorem mapAppend_spec (k : Name) (v : Str) (m : Map) (h : AllLists m) :
    AllLists (mapAppend k v m) ∧
    ∀ k', (mapAppend k v m).lookup k' =
      if k' = k then some (.list (lookupList m k ++ [v])) else m.lookup k' := by
  induction m with
  | nil =>
    refine ⟨?_, ?_⟩
    · intro kv hkv
      simp only [mapAppend, List.mem_singleton] at hkv
      subst hkv
      exact ⟨_, rfl⟩
    · intro k'
      simp only [mapAppend, List.lookup_cons, List.lookup_nil, lookupList, List.nil_append]
      by_cases hk : k' = k
      · simp [hk]
      · have : (k' == k) = false := by simpa using hk
        simp [hk, this]
  | cons kv rest ih =>
    obtain ⟨a, b⟩ := kv
    obtain ⟨l, hl⟩ := h (a, b) (by simp)
    simp only at hl
    subst hl
    have hrest : AllLists rest := fun kv hkv => h kv (by simp [hkv])
    have IH := ih hrest
    simp only [mapAppend]
    by_cases hak : (a == k) = true
    · have hak' : a = k := by simpa using hak
      subst hak'
      simp only [hak, if_true]
      refine ⟨?_, ?_⟩
      · intro kv hkv
        rcases List.mem_cons.mp hkv with rfl | hkv
        · exact ⟨_, rfl⟩
        · exact hrest kv hkv
      · intro k'
        simp only [List.lookup_cons, lookupList, BEq.rfl]
        by_cases hk : k' = a
        · subst hk; simp
        · have : (k' == a) = false := by simpa using hk
          simp [hk, this]
    · have hak' : ¬ a = k := by simpa using hak
      have hakf : (a == k) = false := by simpa using hak'
      simp only [hakf, Bool.false_eq_true, if_false]
      refine ⟨?_, ?_⟩
      · intro kv hkv
        rcases List.mem_cons.mp hkv with rfl | hkv
        · exact ⟨_, rfl⟩
        · exact IH.1 kv hkv
      · intro k'
        have hka : (k == a) = false := by simpa using fun e : k = a => hak' e.symm
        simp only [List.lookup_cons, IH.2 k', lookupList, hka]
        by_cases hk : k' = k
        · subst hk
          simp [hka]
        · by_cases hk2 : k' = a
          · subst hk2; simp [hk]
          · have : (k' == a) = false := by simpa using hk2
            simp [hk, this]

/-- generic form of the loops of `parse_bankacctinfos` / `parse_invacctinfos`: `sel` picks, for an ACTIVE
    account, (bank/broker id, key to append under, account id) -/
def collectStep (sel : AcctInfo → Option (Str × Name × Str)) (st : List Str × Map) (inf : AcctInfo) : List Str × Map :=
  match sel inf with
  | some (gid, k, v) => (st.1 ++ [gid], mapAppend k v st.2)
  | none => st

/-- the account ids appended under key `k'` -/
def extraFor (sel : AcctInfo → Option (Str × Name × Str)) (k' : Name) (infos : List AcctInfo) : List Str :=
  infos.filterMap fun inf =>
    match sel inf with
    | some (_, k, v) => if k = k' then some v else none
    | none => none

theorem lookupList_mapAppend (k k' : Name) (v : Str) (m : Map) (h : AllLists m) :
    lookupList (mapAppend k v m) k' = if k' = k then lookupList m k ++ [v] else lookupList m k' := by
  unfold lookupList
  rw [(mapAppend_spec k v m h).2 k']
  by_cases hk : k' = k
  · simp [hk, lookupList]
  · simp [hk]

theorem collect_spec (sel : AcctInfo → Option (Str × Name × Str)) (infos : List AcctInfo) (st : List Str × Map)
    (h : AllLists st.2) :
    AllLists (infos.foldl (collectStep sel) st).2 ∧
    ∀ k', (infos.foldl (collectStep sel) st).2.lookup k' =
      if extraFor sel k' infos = [] then st.2.lookup k'
      else some (.list (lookupList st.2 k' ++ extraFor sel k' infos)) := by
  induction infos generalizing st with
  | nil => exact ⟨h, fun k' => by simp [extraFor]⟩
  | cons inf infos ih =>
    simp only [List.foldl_cons]
    cases hsel : sel inf with
    | none =>
      have hst : collectStep sel st inf = st := by simp [collectStep, hsel]
      rw [hst]
      have IH := ih st h
      refine ⟨IH.1, fun k' => ?_⟩
      rw [IH.2 k']
      simp [extraFor, List.filterMap_cons, hsel]
    | some t =>
      obtain ⟨gid, k, v⟩ := t
      have hst : collectStep sel st inf = (st.1 ++ [gid], mapAppend k v st.2) := by simp [collectStep, hsel]
      rw [hst]
      have hA := (mapAppend_spec k v st.2 h)
      have IH := ih (st.1 ++ [gid], mapAppend k v st.2) hA.1
      refine ⟨IH.1, fun k' => ?_⟩
      rw [IH.2 k']
      simp only [hA.2 k', lookupList_mapAppend k k' v st.2 h]
      by_cases hk : k' = k
      · subst hk
        have hE : extraFor sel k' (inf :: infos) = v :: extraFor sel k' infos := by
          simp [extraFor, List.filterMap_cons, hsel]
        rw [hE]
        simp only [if_true]
        by_cases hE' : extraFor sel k' infos = []
        · simp [hE']
        · simp [hE']
      · have hk2 : ¬ k = k' := fun e => hk e.symm
        have hE : extraFor sel k' (inf :: infos) = extraFor sel k' infos := by
          simp [extraFor, List.filterMap_cons, hsel, hk2]
        rw [hE]
        simp [hk]

def selBank : AcctInfo → Option (Str × Name × Str)
  | .bank bankid acctid accttype st => if st == "ACTIVE".toList then some (bankid, lower accttype, acctid) else none
  | _ => none

def selInv : AcctInfo → Option (Str × Name × Str)
  | .inv brokerid acctid st => if st == "ACTIVE".toList then some (brokerid, "investment".toList, acctid) else none
  | _ => none

theorem allLists_nil : AllLists [] := by intro kv hkv; cases hkv

theorem bankStep_eq : bankStep = collectStep selBank := by
  funext st inf
  cases inf with
  | bank b a t s =>
    by_cases hs : (s == "ACTIVE".toList) = true
    · have h1 : (AcctInfo.bank b a t s).isActive = true := hs
      simp only [bankStep, collectStep, selBank, h1, hs, if_true]
    · have h2 : (s == "ACTIVE".toList) = false := by simpa using hs
      have h1 : (AcctInfo.bank b a t s).isActive = false := h2
      simp only [bankStep, collectStep, selBank, h1, h2, Bool.false_eq_true, if_false]
  | cc a s => rfl
  | inv b a s => rfl
  | other n => rfl

theorem invStep_eq : invStep = collectStep selInv := by
  funext st inf
  cases inf with
  | bank b a t s => rfl
  | cc a s => rfl
  | inv b a s =>
    by_cases hs : (s == "ACTIVE".toList) = true
    · have h1 : (AcctInfo.inv b a s).isActive = true := hs
      simp only [invStep, collectStep, selInv, h1, hs, if_true]
    · have h2 : (s == "ACTIVE".toList) = false := by simpa using hs
      have h1 : (AcctInfo.inv b a s).isActive = false := h2
      simp only [invStep, collectStep, selInv, h1, h2, Bool.false_eq_true, if_false]
  | other n => rfl

theorem parseBank_spec (infos : List AcctInfo) (mb : Map) (h : parseBankAcctinfos infos = .ok mb)
    (k' : Name) (hk : k' ≠ "bankid".toList) :
    mb.lookup k' = if extraFor selBank k' infos = [] then none else some (.list (extraFor selBank k' infos)) := by
  unfold parseBankAcctinfos at h
  rw [bankStep_eq] at h
  have hc := collect_spec selBank infos ([], []) allLists_nil
  generalize infos.foldl (collectStep selBank) ([], []) = r at h hc
  have hlook := hc.2 k'
  by_cases he : r.1.isEmpty = true
  · simp only [he, if_true, pure, Except.pure, Except.ok.injEq] at h
    subst h
    simpa [lookupList] using hlook
  · simp only [he, Bool.false_eq_true, if_false, bind, Except.bind] at h
    cases hcol : collapseToSingle r.1 with
    | error e => rw [hcol] at h; cases h
    | ok b =>
      rw [hcol] at h
      simp only [pure, Except.pure, Except.ok.injEq] at h
      subst h
      rw [lookup_mapSet]
      simp only [hk, if_false]
      simpa [lookupList] using hlook

theorem parseInv_spec (infos : List AcctInfo) (mi : Map) (h : parseInvAcctinfos infos = .ok mi)
    (k' : Name) (hk : k' ≠ "brokerid".toList) :
    mi.lookup k' = if extraFor selInv k' infos = [] then none else some (.list (extraFor selInv k' infos)) := by
  unfold parseInvAcctinfos at h
  rw [invStep_eq] at h
  have hc := collect_spec selInv infos ([], []) allLists_nil
  generalize infos.foldl (collectStep selInv) ([], []) = r at h hc
  have hlook := hc.2 k'
  by_cases he : r.1.isEmpty = true
  · simp only [he, if_true, pure, Except.pure, Except.ok.injEq] at h
    subst h
    simpa [lookupList] using hlook
  · simp only [he, Bool.false_eq_true, if_false, bind, Except.bind] at h
    cases hcol : collapseToSingle r.1 with
    | error e => rw [hcol] at h; cases h
    | ok b =>
      rw [hcol] at h
      simp only [pure, Except.pure, Except.ok.injEq] at h
      subst h
      rw [lookup_mapSet]
      simp only [hk, if_false]
      simpa [lookupList] using hlook

/-- one key of the discovered mapping: only the parser of class `cls` can set it -/
theorem parsed_key (infos : List AcctInfo) (m : Map) (hm : parsedAcctinfo infos = .ok m) (k' : Name) (cls : Str)
    (hothers : ∀ kg ∈ acctGroups infos, ∀ mp, kg.1 ≠ cls → parseGroup kg = .ok mp → mp.lookup k' = none) :
    m.lookup k' =
      if infos.filter (fun a => a.clsName == cls) = [] then none
      else match parseGroup (cls, infos.filter (fun a => a.clsName == cls)) with
        | .ok mp => mp.lookup k'
        | .error _ => none := by
  unfold parsedAcctinfo at hm
  simp only [bind, Except.bind] at hm
  cases hmaps : (acctGroups infos).mapM parseGroup with
  | error e => rw [hmaps] at hm; cases hm
  | ok maps =>
    rw [hmaps] at hm
    simp only [pure, Except.pure, Except.ok.injEq] at hm
    subst hm
    have hmem := mapM_ok_mem parseGroup _ _ hmaps
    have hgr := acct_groups infos
    simp only at hgr
    rw [lookup_flatten]
    cases hfs : maps.findSome? (fun m => m.lookup k') with
    | some v =>
      obtain ⟨mp, hmp, hv⟩ := List.exists_of_findSome?_eq_some hfs
      obtain ⟨kg, hkg, hpg⟩ := hmem.1 mp hmp
      have hkg' := hgr.1 kg hkg
      by_cases hc : kg.1 = cls
      · have hG : infos.filter (fun a => a.clsName == cls) ≠ [] := by rw [← hc, ← hkg'.1]; exact hkg'.2
        have hkgeq : kg = (cls, infos.filter (fun a => a.clsName == cls)) := by
          obtain ⟨k, g⟩ := kg
          simp only at hc hkg'
          subst hc
          rw [hkg'.1]
        rw [if_neg hG, ← hkgeq, hpg]
        exact hv.symm
      · have := hothers kg hkg mp hc hpg
        rw [this] at hv
        cases hv
    | none =>
      rw [List.findSome?_eq_none_iff] at hfs
      by_cases hG : infos.filter (fun a => a.clsName == cls) = []
      · rw [if_pos hG]
      · rw [if_neg hG]
        obtain ⟨g, hg⟩ := hgr.2 cls hG
        have hg' := hgr.1 (cls, g) hg
        simp only at hg'
        obtain ⟨mp, hmp, hpg⟩ := hmem.2 (cls, g) hg
        rw [← hg'.1, hpg]
        exact (hfs mp hmp).symm

theorem extraFor_filter (sel : AcctInfo → Option (Str × Name × Str)) (p : AcctInfo → Bool) (k : Name)
    (infos : List AcctInfo) (h : ∀ inf, p inf = false → sel inf = none) :
    extraFor sel k (infos.filter p) = extraFor sel k infos := by
  induction infos with
  | nil => rfl
  | cons inf infos ih =>
    unfold extraFor at ih ⊢
    cases hp : p inf with
    | true => simp only [List.filter_cons, hp, if_true, List.filterMap_cons, ih]
    | false =>
      simp only [List.filter_cons, hp, Bool.false_eq_true, if_false, List.filterMap_cons, h inf hp, ih]

theorem parsed_group_ok (infos : List AcctInfo) (m : Map) (hm : parsedAcctinfo infos = .ok m) (cls : Str)
    (hG : infos.filter (fun a => a.clsName == cls) ≠ []) :
    ∃ mp, parseGroup (cls, infos.filter (fun a => a.clsName == cls)) = .ok mp := by
  unfold parsedAcctinfo at hm
  simp only [bind, Except.bind] at hm
  cases hmaps : (acctGroups infos).mapM parseGroup with
  | error e => rw [hmaps] at hm; cases hm
  | ok maps =>
    have hmem := mapM_ok_mem parseGroup _ _ hmaps
    have hgr := acct_groups infos
    simp only at hgr
    obtain ⟨g, hg⟩ := hgr.2 cls hG
    have hg' := hgr.1 (cls, g) hg
    simp only at hg'
    obtain ⟨mp, _, hpg⟩ := hmem.2 (cls, g) hg
    exact ⟨mp, by rw [← hg'.1]; exact hpg⟩

def clsBank : Str := "BANKACCTINFO".toList
def clsCc : Str := "CCACCTINFO".toList
def clsInv : Str := "INVACCTINFO".toList

theorem parseGroup_bank (g : List AcctInfo) : parseGroup (clsBank, g) = parseBankAcctinfos g := rfl
theorem parseGroup_cc (g : List AcctInfo) : parseGroup (clsCc, g) = .ok (parseCcAcctinfos g) := rfl
theorem parseGroup_inv (g : List AcctInfo) : parseGroup (clsInv, g) = parseInvAcctinfos g := rfl

theorem parseGroup_other (k : Str) (g : List AcctInfo) (h1 : k ≠ clsBank) (h2 : k ≠ clsCc) (h3 : k ≠ clsInv) :
    parseGroup (k, g) = .ok [] := by
  have b1 : (k == clsBank) = false := by simpa using h1
  have b2 : (k == clsCc) = false := by simpa using h2
  have b3 : (k == clsInv) = false := by simpa using h3
  have e1 : "BANKACCTINFO".toList = clsBank := rfl
  have e2 : "CCACCTINFO".toList = clsCc := rfl
  have e3 : "INVACCTINFO".toList = clsInv := rfl
  unfold parseGroup
  simp only [e1, e2, e3, b1, b2, b3, Bool.false_eq_true, if_false]
  rfl

/-- a filter by class does not lose what the class's selector picks -/
theorem selBank_cls (inf : AcctInfo) (h : (inf.clsName == clsBank) = false) : selBank inf = none := by
  cases inf with
  | bank b a t s =>
    have : ((AcctInfo.bank b a t s).clsName == clsBank) = true := rfl
    rw [this] at h; cases h
  | cc a s => rfl
  | inv b a s => rfl
  | other n => rfl

theorem selInv_cls (inf : AcctInfo) (h : (inf.clsName == clsInv) = false) : selInv inf = none := by
  cases inf with
  | bank b a t s => rfl
  | cc a s => rfl
  | inv b a s =>
    have : ((AcctInfo.inv b a s).clsName == clsInv) = true := rfl
    rw [this] at h; cases h
  | other n => rfl

theorem extraFor_selInv_ne (k : Name) (hk : k ≠ "investment".toList) (infos : List AcctInfo) :
    extraFor selInv k infos = [] := by
  unfold extraFor
  rw [List.filterMap_eq_nil_iff]
  intro inf _
  cases inf with
  | bank b a t s => rfl
  | cc a s => rfl
  | inv b a s =>
    simp only [selInv]
    by_cases hs : (s == "ACTIVE".toList) = true
    · have hk' : ¬ "investment".toList = k := fun e => hk e.symm
      simp only [hs, if_true, hk', if_false]
    · have h2 : (s == "ACTIVE".toList) = false := by simpa using hs
      simp only [h2, Bool.false_eq_true, if_false]
  | other n => rfl

/-! ### what the discovered mapping says for the six account-type keys -/

def validAcctTypes : List Str :=
  ["CHECKING".toList, "SAVINGS".toList, "MONEYMRKT".toList, "CREDITLINE".toList, "CD".toList]

/-- the account types in the response are members of `ACCTTYPES` (what the `OneOf` converter guarantees) -/
def ValidInfos (infos : List AcctInfo) : Prop :=
  ∀ inf ∈ infos, match inf with
    | .bank _ _ ty _ => ty ∈ validAcctTypes
    | _ => True

theorem valid_lower_facts :
    ∀ ty ∈ validAcctTypes, lower ty ≠ "creditcard".toList ∧ lower ty ≠ "investment".toList ∧
      (∀ t ∈ bankTypes, lower ty = t ↔ ty = upper t) ∧
      (ty ∈ requestableBankTypes ↔ lower ty ∈ bankTypes) := by decide

theorem bankTypes_facts :
    ∀ t ∈ bankTypes, t ≠ "creditcard".toList ∧ t ≠ "investment".toList ∧ t ≠ "brokerid".toList ∧
      t ≠ "bankid".toList ∧ upper t ∈ requestableBankTypes := by decide

theorem extraFor_selBank_none (k : Name) (infos : List AcctInfo) (hv : ValidInfos infos)
    (hk : ∀ ty ∈ validAcctTypes, lower ty ≠ k) : extraFor selBank k infos = [] := by
  unfold extraFor
  rw [List.filterMap_eq_nil_iff]
  intro inf hinf
  have := hv inf hinf
  cases inf with
  | bank b a t s =>
    simp only at this
    simp only [selBank]
    by_cases hs : (s == "ACTIVE".toList) = true
    · simp only [hs, if_true, hk t this, if_false]
    · have h2 : (s == "ACTIVE".toList) = false := by simpa using hs
      simp only [h2, Bool.false_eq_true, if_false]
  | cc a s => rfl
  | inv b a s => rfl
  | other n => rfl

theorem validInfos_filter (infos : List AcctInfo) (p : AcctInfo → Bool) (hv : ValidInfos infos) :
    ValidInfos (infos.filter p) := fun inf hinf => hv inf (List.mem_filter.mp hinf).1

/-- ACTIVE credit-card account ids, in document order -/
def ccActiveIds (infos : List AcctInfo) : List Str :=
  infos.filterMap fun inf =>
    match inf with
    | .cc acctid _ => if inf.isActive then some acctid else none
    | _ => none

theorem ccActiveIds_filter (infos : List AcctInfo) :
    ccActiveIds (infos.filter (fun a => a.clsName == clsCc)) = ccActiveIds infos := by
  induction infos with
  | nil => rfl
  | cons inf infos ih =>
    cases inf with
    | cc a s =>
      have : ((AcctInfo.cc a s).clsName == clsCc) = true := rfl
      simp only [List.filter_cons, this, if_true, ccActiveIds, List.filterMap_cons] at ih ⊢
      rw [ih]
    | bank b a t s =>
      have : ((AcctInfo.bank b a t s).clsName == clsCc) = false := rfl
      simp only [List.filter_cons, this, Bool.false_eq_true, if_false, ccActiveIds, List.filterMap_cons] at ih ⊢
      exact ih
    | inv b a s =>
      have : ((AcctInfo.inv b a s).clsName == clsCc) = false := rfl
      simp only [List.filter_cons, this, Bool.false_eq_true, if_false, ccActiveIds, List.filterMap_cons] at ih ⊢
      exact ih
    | other n =>
      by_cases hn : ((AcctInfo.other n).clsName == clsCc) = true
      · simp only [List.filter_cons, hn, if_true, ccActiveIds, List.filterMap_cons] at ih ⊢
        exact ih
      · have hn' : ((AcctInfo.other n).clsName == clsCc) = false := by simpa using hn
        simp only [List.filter_cons, hn', Bool.false_eq_true, if_false, ccActiveIds, List.filterMap_cons] at ih ⊢
        exact ih

/-- what `--all` discovers for an account-type key: `none` = the key is absent from the discovered mapping -/
def discovered (infos : List AcctInfo) (t : Name) : Option (List Str) :=
  if t ∈ bankTypes then
    (if extraFor selBank t infos = [] then none else some (extraFor selBank t infos))
  else if t = "creditcard".toList then
    (if infos.filter (fun a => a.clsName == clsCc) = [] then none else some (ccActiveIds infos))
  else if t = "investment".toList then
    (if extraFor selInv t infos = [] then none else some (extraFor selInv t infos))
  else none

theorem lookup_cc_map (l : List Str) (k : Name) (hk : k ≠ "creditcard".toList) :
    List.lookup k [("creditcard".toList, CfgVal.list l)] = none := by
  have : (k == "creditcard".toList) = false := by simpa using hk
  simp only [List.lookup_cons, this, List.lookup_nil]

theorem discovered_bank (infos : List AcctInfo) (m : Map) (hm : parsedAcctinfo infos = .ok m)
    (t : Name) (ht : t ∈ bankTypes) :
    m.lookup t = if extraFor selBank t infos = [] then none else some (.list (extraFor selBank t infos)) := by
  obtain ⟨h1, h2, h3, h4, _⟩ := bankTypes_facts t ht
  have hf : extraFor selBank t (infos.filter (fun a => a.clsName == clsBank)) = extraFor selBank t infos :=
    extraFor_filter selBank _ t infos selBank_cls
  rw [parsed_key infos m hm t clsBank]
  · by_cases hB : infos.filter (fun a => a.clsName == clsBank) = []
    · rw [if_pos hB]
      rw [hB] at hf
      rw [← hf]
      rfl
    · rw [if_neg hB]
      obtain ⟨mb, hmb⟩ := parsed_group_ok infos m hm clsBank hB
      rw [hmb]
      rw [parseGroup_bank] at hmb
      simp only
      rw [parseBank_spec _ mb hmb t h4, hf]
  · intro kg hkg mp hne hpg
    obtain ⟨k, g⟩ := kg
    simp only at hne
    by_cases hc : k = clsCc
    · subst hc
      rw [parseGroup_cc] at hpg
      cases hpg
      exact lookup_cc_map _ t h1
    · by_cases hi : k = clsInv
      · subst hi
        rw [parseGroup_inv] at hpg
        rw [parseInv_spec g mp hpg t h3, extraFor_selInv_ne t h2]
        rfl
      · rw [parseGroup_other k g hne hc hi] at hpg
        cases hpg
        rfl

theorem parseCc_eq (g : List AcctInfo) :
    parseCcAcctinfos g = [("creditcard".toList, CfgVal.list (ccActiveIds g))] := by
  rfl

theorem group_valid (infos : List AcctInfo) (hv : ValidInfos infos) (kg : Str × List AcctInfo)
    (hkg : kg ∈ acctGroups infos) : ValidInfos kg.2 := by
  have := (acct_groups infos).1 kg hkg
  rw [this.1]
  exact validInfos_filter infos _ hv

theorem discovered_cc (infos : List AcctInfo) (hv : ValidInfos infos) (m : Map) (hm : parsedAcctinfo infos = .ok m) :
    m.lookup "creditcard".toList =
      if infos.filter (fun a => a.clsName == clsCc) = [] then none else some (.list (ccActiveIds infos)) := by
  rw [parsed_key infos m hm "creditcard".toList clsCc]
  · by_cases hC : infos.filter (fun a => a.clsName == clsCc) = []
    · rw [if_pos hC, if_pos hC]
    · rw [if_neg hC, if_neg hC, parseGroup_cc, parseCc_eq, ccActiveIds_filter]
      rfl
  · intro kg hkg mp hne hpg
    have hval := group_valid infos hv kg hkg
    obtain ⟨k, g⟩ := kg
    simp only at hne hval
    by_cases hb : k = clsBank
    · subst hb
      rw [parseGroup_bank] at hpg
      rw [parseBank_spec g mp hpg _ (by decide),
        extraFor_selBank_none _ g hval (fun ty hty => (valid_lower_facts ty hty).1)]
      rfl
    · by_cases hi : k = clsInv
      · subst hi
        rw [parseGroup_inv] at hpg
        rw [parseInv_spec g mp hpg _ (by decide), extraFor_selInv_ne _ (by decide)]
        rfl
      · rw [parseGroup_other k g hb hne hi] at hpg
        cases hpg
        rfl

theorem discovered_inv (infos : List AcctInfo) (hv : ValidInfos infos) (m : Map) (hm : parsedAcctinfo infos = .ok m) :
    m.lookup "investment".toList =
      if extraFor selInv "investment".toList infos = [] then none
      else some (.list (extraFor selInv "investment".toList infos)) := by
  have hf : extraFor selInv "investment".toList (infos.filter (fun a => a.clsName == clsInv)) =
      extraFor selInv "investment".toList infos := extraFor_filter selInv _ _ infos selInv_cls
  rw [parsed_key infos m hm "investment".toList clsInv]
  · by_cases hI : infos.filter (fun a => a.clsName == clsInv) = []
    · rw [if_pos hI]
      rw [hI] at hf
      rw [← hf]
      rfl
    · rw [if_neg hI]
      obtain ⟨mi, hmi⟩ := parsed_group_ok infos m hm clsInv hI
      rw [hmi]
      rw [parseGroup_inv] at hmi
      simp only
      rw [parseInv_spec _ mi hmi _ (by decide), hf]
  · intro kg hkg mp hne hpg
    have hval := group_valid infos hv kg hkg
    obtain ⟨k, g⟩ := kg
    simp only at hne hval
    by_cases hb : k = clsBank
    · subst hb
      rw [parseGroup_bank] at hpg
      rw [parseBank_spec g mp hpg _ (by decide),
        extraFor_selBank_none _ g hval (fun ty hty => (valid_lower_facts ty hty).2.1)]
      rfl
    · by_cases hc : k = clsCc
      · subst hc
        rw [parseGroup_cc] at hpg
        cases hpg
        exact lookup_cc_map _ _ (by decide)
      · rw [parseGroup_other k g hb hc hne] at hpg
        cases hpg
        rfl

/-- the six account-type keys of `request_stmt` -/
def acctKeys : List Name := bankTypes ++ ["creditcard".toList, "investment".toList]

/-- **the discovered mapping, key by key** -/
theorem discovered_lookup (infos : List AcctInfo) (hv : ValidInfos infos) (m : Map) (hm : parsedAcctinfo infos = .ok m)
    (t : Name) (ht : t ∈ acctKeys) : m.lookup t = (discovered infos t).map CfgVal.list := by
  simp only [acctKeys, List.mem_append, List.mem_cons, List.mem_nil_iff, or_false] at ht
  rcases ht with ht | rfl | rfl
  · rw [discovered_bank infos m hm t ht]
    simp only [discovered, ht, if_true]
    split <;> rfl
  · rw [discovered_cc infos hv m hm]
    have h1 : ¬ "creditcard".toList ∈ bankTypes := by decide
    simp only [discovered, h1, if_false, if_true]
    split <;> rfl
  · rw [discovered_inv infos hv m hm]
    have h1 : ¬ "investment".toList ∈ bankTypes := by decide
    have h2 : ¬ "investment".toList = "creditcard".toList := by decide
    simp only [discovered, h1, h2, if_false, if_true]
    split <;> rfl

/-! ### multiset bookkeeping -/

theorem filterMap_congr_mem {α β : Type} (f g : α → Option β) (l : List α) (h : ∀ x ∈ l, f x = g x) :
    l.filterMap f = l.filterMap g := by
  induction l with
  | nil => rfl
  | cons x xs ih =>
    simp only [List.filterMap_cons, h x (by simp)]
    rw [ih (fun y hy => h y (by simp [hy]))]

theorem perm_filterMap_split {α β : Type} (f g h : α → Option β) (l : List α)
    (hs : ∀ x ∈ l, (g x = f x ∧ h x = none) ∨ (g x = none ∧ h x = f x)) :
    (l.filterMap f).Perm (l.filterMap g ++ l.filterMap h) := by
  induction l with
  | nil => exact List.Perm.refl _
  | cons x xs ih =>
    have IH := ih (fun y hy => hs y (by simp [hy]))
    simp only [List.filterMap_cons]
    rcases hs x (by simp) with ⟨hg, hh⟩ | ⟨hg, hh⟩
    · rw [hg, hh]
      cases f x with
      | none => exact IH
      | some y => exact List.Perm.cons y IH
    · rw [hg, hh]
      cases f x with
      | none => exact IH
      | some y =>
        simp only
        exact (List.Perm.cons y IH).trans List.perm_middle.symm

/-- split a `filterMap` by a tag: one piece per key -/
theorem perm_filterMap_by_tag {α β : Type} (f : α → Option β) (tag : α → Option Name) (l : List α) (ks : List Name)
    (hnd : ks.Nodup) :
    (l.filterMap (fun x => if (tag x).any (fun t => ks.contains t) then f x else none)).Perm
      (ks.flatMap fun t => l.filterMap (fun x => if tag x = some t then f x else none)) := by
  induction ks with
  | nil => simp
  | cons t ks ih =>
    rw [List.nodup_cons] at hnd
    simp only [List.flatMap_cons]
    refine (perm_filterMap_split _ (fun x => if tag x = some t then f x else none)
      (fun x => if (tag x).any (fun t => ks.contains t) then f x else none) l ?_).trans
      (List.Perm.append_left _ (ih hnd.2))
    intro x _
    by_cases hx : tag x = some t
    · left
      have h1 : ((tag x).any fun t' => (t :: ks).contains t') = true := by simp [hx]
      have h2 : ((tag x).any fun t' => ks.contains t') = false := by
        simp only [hx, Option.any_some]
        simpa using hnd.1
      refine ⟨?_, ?_⟩
      · show (if tag x = some t then f x else none) = (if ((tag x).any fun t' => (t :: ks).contains t') = true then f x else none)
        rw [if_pos hx, if_pos h1]
      · show (if ((tag x).any fun t' => ks.contains t') = true then f x else none) = none
        rw [h2]; rfl
    · right
      have h1 : ((tag x).any fun t' => (t :: ks).contains t') = ((tag x).any fun t' => ks.contains t') := by
        cases htx : tag x with
        | none => rfl
        | some t' =>
          have : ¬ t' = t := fun e => hx (by rw [htx, e])
          simp [this]
      refine ⟨?_, ?_⟩
      · show (if tag x = some t then f x else none) = none
        rw [if_neg hx]
      · show (if ((tag x).any fun t' => ks.contains t') = true then f x else none) =
          (if ((tag x).any fun t' => (t :: ks).contains t') = true then f x else none)
        rw [h1]

end Ofx.Ofxget

namespace Ofx.Ofxget
open Ofx Ofx.Spec.Ofxget

theorem mapM_pure_ok {α β : Type} (f : α → β) (l : List α) :
    l.mapM (fun a => (Except.ok (f a) : PyM β)) = .ok (l.map f) := by
  induction l with
  | nil => rfl
  | cons a l ih => simp [List.mapM_cons, ih, bind, Except.bind, pure, Except.pure]

theorem upper_bankTypes :
    upper "checking".toList = "CHECKING".toList ∧ upper "savings".toList = "SAVINGS".toList ∧
    upper "moneymrkt".toList = "MONEYMRKT".toList ∧ upper "creditline".toList = "CREDITLINE".toList := by decide

structure HasAccounts (args : Chain) (a : Accounts) : Prop where
  checking : args.get? "checking".toList = some (.list a.checking)
  savings : args.get? "savings".toList = some (.list a.savings)
  moneymrkt : args.get? "moneymrkt".toList = some (.list a.moneymrkt)
  creditline : args.get? "creditline".toList = some (.list a.creditline)
  creditcard : args.get? "creditcard".toList = some (.list a.creditcard)
  investment : args.get? "investment".toList = some (.list a.investment)

structure HasFlags (args : Chain) (inctran incoo incpos incbal : CfgVal) : Prop where
  inctran : args.get? "inctran".toList = some inctran
  incoo : args.get? "incoo".toList = some incoo
  incpos : args.get? "incpos".toList = some incpos
  incbal : args.get? "incbal".toList = some incbal

theorem getItem_of_get? (args : Chain) (k : Name) (v : CfgVal) (h : args.get? k = some v) :
    args.getItem k = .ok v := by simp [Chain.getItem, h]

theorem acctIds_of_get? (args : Chain) (k : Name) (ids : List Str) (h : args.get? k = some (.list ids)) :
    acctIds args k = .ok ids := by
  simp [acctIds, Chain.getItem, h, bind, Except.bind, pure, Except.pure]

theorem stmtRequests_eq {δ : Type} (dt : Dates δ) (args : Chain) (a : Accounts) (t oo pos bal : CfgVal)
    (ha : HasAccounts args a) (hf : HasFlags args t oo pos bal) :
    stmtRequests dt args = .ok (specStmt a ⟨dt.start, dt.end, dt.asof, t, oo, pos, bal⟩) := by
  unfold stmtRequests
  simp only [bankTypes, List.foldlM, acctIds_of_get? _ _ _ ha.checking, acctIds_of_get? _ _ _ ha.savings,
    acctIds_of_get? _ _ _ ha.moneymrkt, acctIds_of_get? _ _ _ ha.creditline, acctIds_of_get? _ _ _ ha.creditcard,
    acctIds_of_get? _ _ _ ha.investment, getItem_of_get? _ _ _ hf.inctran, getItem_of_get? _ _ _ hf.incoo,
    getItem_of_get? _ _ _ hf.incpos, getItem_of_get? _ _ _ hf.incbal, bind, Except.bind, pure, Except.pure,
    mapM_pure_ok, upper_bankTypes.1, upper_bankTypes.2.1, upper_bankTypes.2.2.1, upper_bankTypes.2.2.2,
    List.nil_append]
  simp only [specStmt, bankStmts, List.append_assoc]
end Ofx.Ofxget

namespace Ofx.Ofxget
open Ofx Ofx.Spec.Ofxget

theorem discover_no_all (args : Chain) (acct : PyM (List AcctInfo)) (v : CfgVal)
    (hv : args.get? "all".toList = some v) (hf : truthy v = false) : discover args acct = .ok args := by
  unfold discover
  generalize "all".toList = key at hv ⊢
  simp [Chain.getItem, hv, hf, bind, Except.bind, pure, Except.pure]

theorem requestStmt_configured {δ : Type} (D : Option Str → PyM (Option δ)) (args : Chain) (acct : PyM (List AcctInfo))
    (a : Accounts) (t oo pos bal v : CfgVal)
    (hall : args.get? "all".toList = some v) (hnot : truthy v = false)
    (ha : HasAccounts args a) (hf : HasFlags args t oo pos bal)
    (p : Plan δ) (h : requestStmt D args acct = .ok p) :
    ∃ dt, convertDatetime D args = .ok dt ∧
      p.requests = specStmt a ⟨dt.start, dt.end, dt.asof, t, oo, pos, bal⟩ ∧
      initClient args = .ok p.client ∧ p.args = args := by
  unfold requestStmt at h
  simp only [bind, Except.bind] at h
  cases hdt : convertDatetime D args with
  | error e => rw [hdt] at h; cases h
  | ok dt =>
    rw [hdt] at h
    simp only at h
    cases hdry : args.getItem "dryrun".toList with
    | error e => rw [hdry] at h; cases h
    | ok d =>
      rw [hdry] at h
      simp only [discover_no_all args acct v hall hnot, stmtRequests_eq dt args a t oo pos bal ha hf] at h
      cases hc : initClient args with
      | error e => rw [hc] at h; cases h
      | ok cl =>
        rw [hc] at h
        simp only [pure, Except.pure, Except.ok.injEq] at h
        subst h
        exact ⟨dt, rfl, rfl, rfl, rfl⟩

theorem initClient_ids (args : Chain) (cl : Map) (h : initClient args = .ok cl) (b k : CfgVal)
    (hb : args.get? "bankid".toList = some b) (hk : args.get? "brokerid".toList = some k) :
    cl.lookup "bankid".toList = some (orNone b) ∧ cl.lookup "brokerid".toList = some (orNone k) := by
  unfold initClient at h
  simp only [bind, Except.bind, getItem_of_get? _ _ _ hb, getItem_of_get? _ _ _ hk] at h
  repeat (split at h; · cases h)
  simp only [pure, Except.pure, Except.ok.injEq] at h
  subst h
  constructor <;> rfl
end Ofx.Ofxget
