/-
The `groom` / `ungroom` rename (MFINFO, STOCKINFO: YLD ↔ YIELD; MAIL: FRM ↔ FROM).

`to_etree` renames the first child tagged `u.fromTag` to `u.toTag`; `from_etree` renames the first child tagged
`r.fromTag` back to `r.toTag` before converting.  When the two renames are inverse, the written children contain no
`r.fromTag` of their own and the renamed child is a data element, reading the renamed list with the class is the same
as reading the original list with the class stripped of its hooks (`noGroom c`) — up to the "already renamed" flag.
-/
import OfxProofs.Lemmas.AggRound
namespace Ofx.Agg
open Ofx

/-- the class without its `groom` / `ungroom` hooks (same spec, same everything else) -/
def noGroom (c : Cls) : Cls := { c with groom := none, ungroom := none }

/-- `update_args` after the tag has been groomed -/
def stepCore (c : Cls) (acc : Accum) (tag : Str) (value : PyM Node) : PyM Accum :=
  match specIndex c (lower tag) with
  | none => .ok acc
  | some index =>
    if outOfOrder acc.prev index && !(isListMember c (lower tag) && acc.prevIsList) then .error .spec
    else
      Except.bind (if unsupportedAt c index then (.ok (Node.val .none) : PyM Node) else value) fun v =>
        if isListMember c (lower tag) then
          .ok { acc with args := acc.args ++ [v], prev := some index, prevIsList := true }
        else if hasKey (lower tag) acc.kwargs then .error .spec
        else .ok { acc with kwargs := acc.kwargs ++ [(lower tag, v)], prev := some index, prevIsList := false }

theorem updateArgs_core (c : Cls) (acc : Accum) (ch : Tree) (sub : PyM Node) :
    updateArgs c acc ch sub =
      match groomTag c acc.renamed ch.tag with
      | (none, rn) => .ok { acc with renamed := rn }
      | (some tag, rn) => stepCore c { acc with renamed := rn } tag (childValue ch sub) := by
  unfold updateArgs stepCore
  generalize groomTag c acc.renamed ch.tag = g
  obtain ⟨o, rn⟩ := g
  cases o with
  | none => rfl
  | some tag =>
    simp only
    cases hidx : specIndex c (lower tag) with
    | none => rfl
    | some idx =>
      simp only
      by_cases ho : (outOfOrder acc.prev idx && !(isListMember c (lower tag) && acc.prevIsList)) = true
      · rw [if_pos ho, if_pos ho]
      · rw [if_neg ho, if_neg ho]
        by_cases hu : unsupportedAt c idx = true
        · by_cases hl : isListMember c (lower tag) = true
          · simp [hu, hl, bind, Except.bind, pure, Except.pure]
          · by_cases hk : hasKey (lower tag) acc.kwargs = true <;>
              simp [hu, hl, hk, bind, Except.bind, pure, Except.pure]
        · cases hv : childValue ch sub with
          | error e => simp [hu, bind, Except.bind]
          | ok value =>
            by_cases hl : isListMember c (lower tag) = true
            · simp [hu, hl, bind, Except.bind, pure, Except.pure]
            · by_cases hk : hasKey (lower tag) acc.kwargs = true <;>
                simp [hu, hl, hk, bind, Except.bind, pure, Except.pure]

theorem stepCore_noGroom (c : Cls) (acc : Accum) (tag : Str) (value : PyM Node) :
    stepCore (noGroom c) acc tag value = stepCore c acc tag value := rfl

/-- equal but for the "already renamed" flag -/
def SameBut (a b : Accum) : Prop :=
  a.args = b.args ∧ a.kwargs = b.kwargs ∧ a.prev = b.prev ∧ a.prevIsList = b.prevIsList

theorem SameBut.refl (a : Accum) : SameBut a a := ⟨rfl, rfl, rfl, rfl⟩

/-- the step does not look at the flag -/
theorem stepCore_sameBut (c : Cls) (a b : Accum) (tag : Str) (value : PyM Node) (h : SameBut a b) :
    (∃ e, stepCore c a tag value = .error e ∧ stepCore c b tag value = .error e) ∨
    (∃ a' b', stepCore c a tag value = .ok a' ∧ stepCore c b tag value = .ok b' ∧ SameBut a' b' ∧
      a'.renamed = a.renamed ∧ b'.renamed = b.renamed) := by
  obtain ⟨h1, h2, h3, h4⟩ := h
  cases hidx : specIndex c (lower tag) with
  | none =>
    refine Or.inr ⟨a, b, ?_, ?_, ⟨h1, h2, h3, h4⟩, rfl, rfl⟩ <;> simp only [stepCore, hidx]
  | some idx =>
    simp only [stepCore, hidx, h3, h4]
    by_cases ho : (outOfOrder b.prev idx && !(isListMember c (lower tag) && b.prevIsList)) = true
    · rw [if_pos ho, if_pos ho]; exact Or.inl ⟨_, rfl, rfl⟩
    · rw [if_neg ho, if_neg ho]
      generalize (if unsupportedAt c idx = true then (Except.ok (Node.val Val.none) : PyM Node) else value) = rv
      cases rv with
      | error e => exact Or.inl ⟨e, rfl, rfl⟩
      | ok v =>
        simp only [Except.bind]
        by_cases hl : isListMember c (lower tag) = true
        · rw [if_pos hl, if_pos hl]
          exact Or.inr ⟨_, _, rfl, rfl, ⟨by simp [h1], h2, rfl, rfl⟩, rfl, rfl⟩
        · rw [if_neg hl, if_neg hl, h2]
          by_cases hk : hasKey (lower tag) b.kwargs = true
          · rw [if_pos hk, if_pos hk]; exact Or.inl ⟨_, rfl, rfl⟩
          · rw [if_neg hk, if_neg hk]
            exact Or.inr ⟨_, _, rfl, rfl, ⟨h1, by simp [h2], rfl, rfl⟩, rfl, rfl⟩

theorem groomTag_other (c : Cls) (r : Rename) (hg : c.groom = some r) (rn : Bool) (tag : Str)
    (h : rn = true ∨ tag ≠ r.fromTag) :
    groomTag c rn tag = (if tag.contains '.' then none else some tag, rn) := by
  unfold groomTag; rw [hg]
  rcases h with h | h
  · subst h; simp
  · simp [h]

theorem groomTag_hit (c : Cls) (r : Rename) (hg : c.groom = some r) (hdot : '.' ∉ r.toTag) :
    groomTag c false r.fromTag = (some r.toTag, true) := by
  unfold groomTag; rw [hg]
  have : r.toTag.contains '.' = false := by simpa using hdot
  simp [hdot]

theorem groomTag_noGroom (c : Cls) (rn : Bool) (tag : Str) :
    groomTag (noGroom c) rn tag = (if tag.contains '.' then none else some tag, rn) := rfl

/-- reading a list none of whose tags is the groom source, with the flag in either state -/
theorem fold_noHit (S : Schema) (cv : Conv) (c : Cls) (r : Rename) (hg : c.groom = some r) :
    ∀ (L : List Tree) (ss : List (PyM Node)) (a b b' : Accum), SameBut a b →
    (a.renamed = true ∨ ∀ ch ∈ L, ch.tag ≠ r.fromTag) →
    foldChildren (noGroom c) L ss b = .ok b' →
    ∃ a', foldChildren c L ss a = .ok a' ∧ SameBut a' b'
  | [], ss, a, b, b', hs, _, h => by
    cases ss <;> simp [foldChildren] at h ⊢ <;> subst h <;> exact hs
  | t :: L, [], a, b, b', hs, _, h => by
    simp [foldChildren] at h ⊢; subst h; exact hs
  | t :: L, s :: ss, a, b, b', hs, hno, h => by
    simp only [foldChildren] at h ⊢
    cases hu : updateArgs (noGroom c) b t s with
    | error e => simp [hu, bind, Except.bind] at h
    | ok b1 =>
      simp only [hu, bind, Except.bind] at h
      rw [updateArgs_core, groomTag_noGroom] at hu
      have hgt : groomTag c a.renamed t.tag = (if t.tag.contains '.' then none else some t.tag, a.renamed) :=
        groomTag_other c r hg a.renamed t.tag (by
          rcases hno with h1 | h2
          · exact Or.inl h1
          · exact Or.inr (h2 t (by simp)))
      rw [updateArgs_core, hgt]
      by_cases hd : t.tag.contains '.' = true
      · simp only [hd, if_true] at hu ⊢
        injection hu with hu; subst hu
        exact fold_noHit S cv c r hg L ss _ _ b' ⟨hs.1, hs.2.1, hs.2.2.1, hs.2.2.2⟩
          (by rcases hno with h1 | h2
              · exact Or.inl h1
              · exact Or.inr (fun ch hch => h2 ch (by simp [hch]))) h
      · simp only [hd, Bool.false_eq_true, if_false] at hu ⊢
        rw [stepCore_noGroom] at hu
        have hs' : SameBut { a with renamed := a.renamed } { b with renamed := b.renamed } := hs
        rcases stepCore_sameBut c _ _ t.tag (childValue t s) hs' with ⟨e, _, he⟩ | ⟨a1, b1', ha1, hb1, hs1, hr1, _⟩
        · rw [he] at hu; cases hu
        · rw [hb1] at hu; injection hu with hu; subst hu
          rw [ha1]
          exact fold_noHit S cv c r hg L ss a1 b1' b' hs1
            (by rcases hno with h1 | h2
                · exact Or.inl (by rw [hr1]; exact h1)
                · exact Or.inr (fun ch hch => h2 ch (by simp [hch]))) h

theorem renameFirst_cons_hit (u : Rename) (x tl : Option Str) (cs : List Tree) (rest : List Tree) :
    renameFirst u (.node u.fromTag x tl cs :: rest) = .node u.toTag x tl cs :: rest := by
  simp [renameFirst]

theorem renameFirst_cons_miss (u : Rename) (t : Tree) (rest : List Tree) (h : t.tag ≠ u.fromTag) :
    renameFirst u (t :: rest) = t :: renameFirst u rest := by
  cases t with
  | node tg x tl cs => simp only [Tree.tag] at h; simp [renameFirst, h]

/-- **the rename round trip at the level of the reader's fold** -/
theorem fold_groom (S : Schema) (cv : Conv) (c : Cls) (r u : Rename) (hg : c.groom = some r)
    (hinv1 : u.fromTag = r.toTag) (hinv2 : u.toTag = r.fromTag) (hdot : '.' ∉ r.toTag) :
    ∀ (L : List Tree) (a b b' : Accum), SameBut a b → a.renamed = false →
    (∀ ch ∈ L, ch.tag ≠ r.fromTag) →
    (∀ ch ∈ L, ch.tag = u.fromTag → ∃ t0 ts, ch.text = some (t0 :: ts)) →
    foldChildren (noGroom c) L (childInsts S cv L) b = .ok b' →
    ∃ a', foldChildren c (renameFirst u L) (childInsts S cv (renameFirst u L)) a = .ok a' ∧ SameBut a' b'
  | [], a, b, b', hs, _, _, _, h => by
    simp [renameFirst, childInsts, foldChildren] at h ⊢; subst h; exact hs
  | t :: L, a, b, b', hs, hrn, hno, htext, h => by
    by_cases hit : t.tag = u.fromTag
    · -- this child is renamed; the rest is read with the flag set
      cases t with
      | node tg x tl cs =>
        simp only [Tree.tag] at hit; subst hit
        rw [renameFirst_cons_hit]
        obtain ⟨t0, ts, htx⟩ := htext (.node u.fromTag x tl cs) (by simp) rfl
        simp only [Tree.text] at htx; subst htx
        simp only [childInsts, foldChildren] at h ⊢
        cases hu : updateArgs (noGroom c) b (.node u.fromTag (some (t0 :: ts)) tl cs)
            (fromEtree S cv (.node u.fromTag (some (t0 :: ts)) tl cs)) with
        | error e => simp [hu, bind, Except.bind] at h
        | ok b1 =>
          simp only [hu, bind, Except.bind] at h
          rw [updateArgs_core, groomTag_noGroom] at hu
          have hd : u.fromTag.contains '.' = false := by rw [hinv1]; simpa using hdot
          simp only [Tree.tag, hd, Bool.false_eq_true, if_false, stepCore_noGroom] at hu
          rw [updateArgs_core]
          simp only [Tree.tag, hinv2, hrn, groomTag_hit c r hg hdot]
          have hcv : childValue (.node r.fromTag (some (t0 :: ts)) tl cs)
              (fromEtree S cv (.node r.fromTag (some (t0 :: ts)) tl cs)) =
              childValue (.node u.fromTag (some (t0 :: ts)) tl cs)
                (fromEtree S cv (.node u.fromTag (some (t0 :: ts)) tl cs)) := by
            simp [childValue, Tree.text]
          rw [hcv, ← hinv1]
          have hs' : SameBut { a with renamed := true } { b with renamed := b.renamed } := hs
          rcases stepCore_sameBut c _ _ u.fromTag _ hs' with ⟨e, _, he⟩ | ⟨a1, b1', ha1, hb1, hs1, hr1, _⟩
          · rw [he] at hu; cases hu
          · rw [hb1] at hu; injection hu with hu; subst hu
            rw [ha1]
            exact fold_noHit S cv c r hg L _ a1 b1' b' hs1 (Or.inl (by rw [hr1])) h
    · rw [renameFirst_cons_miss u t L hit]
      simp only [childInsts, foldChildren] at h ⊢
      cases hu : updateArgs (noGroom c) b t (fromEtree S cv t) with
      | error e => simp [hu, bind, Except.bind] at h
      | ok b1 =>
        simp only [hu, bind, Except.bind] at h
        rw [updateArgs_core, groomTag_noGroom] at hu
        have hgt := groomTag_other c r hg a.renamed t.tag (Or.inr (hno t (by simp)))
        rw [updateArgs_core, hgt]
        by_cases hd : t.tag.contains '.' = true
        · simp only [hd, if_true] at hu ⊢
          injection hu with hu; subst hu
          exact fold_groom S cv c r u hg hinv1 hinv2 hdot L _ _ b' ⟨hs.1, hs.2.1, hs.2.2.1, hs.2.2.2⟩ hrn
            (fun ch hch => hno ch (by simp [hch])) (fun ch hch => htext ch (by simp [hch])) h
        · simp only [hd, Bool.false_eq_true, if_false] at hu ⊢
          rw [stepCore_noGroom] at hu
          have hs' : SameBut { a with renamed := a.renamed } { b with renamed := b.renamed } := hs
          rcases stepCore_sameBut c _ _ t.tag (childValue t (fromEtree S cv t)) hs' with
            ⟨e, _, he⟩ | ⟨a1, b1', ha1, hb1, hs1, hr1, _⟩
          · rw [he] at hu; cases hu
          · rw [hb1] at hu; injection hu with hu; subst hu
            rw [ha1]
            exact fold_groom S cv c r u hg hinv1 hinv2 hdot L a1 b1' b' hs1 (by rw [hr1]; exact hrn)
              (fun ch hch => hno ch (by simp [hch])) (fun ch hch => htext ch (by simp [hch])) h

end Ofx.Agg

namespace Ofx.Agg
open Ofx

/-- the class has no rename hooks, or a pair of inverse ones around a non-repeated data element whose source tag
    is no child's tag -/
def GroomOk (c : Cls) : Prop :=
  (c.groom = none ∧ c.ungroom = none) ∨
  ∃ r u, c.groom = some r ∧ c.ungroom = some u ∧ u.fromTag = r.toTag ∧ u.toTag = r.fromTag ∧ '.' ∉ r.toTag ∧
    lower r.fromTag ∉ c.spec.map (·.name) ∧
    ∃ a ∈ c.spec, a.name = lower u.fromTag ∧ a.kind.isList = false ∧ Kind.subTarget a.kind = none

theorem noGroom_eq (c : Cls) (hg : c.groom = none) (hug : c.ungroom = none) : noGroom c = c := by
  cases c; simp_all [noGroom]

theorem clsWF_noGroom (S : Schema) (c : Cls) (wf : ClsWF S c) : ClsWF S (noGroom c) :=
  ⟨wf.nodup, wf.nameOk, wf.subOk, wf.enumOk, wf.listBlock, wf.elOk⟩

theorem listAppend_noGroom (S : Schema) (cv : Conv) (c : Cls) (items : List Node) (its : List (PyM Tree)) :
    listAppend S cv (noGroom c) items its = listAppend S cv c items its := rfl

theorem emitSpec_noGroom (S : Schema) (cv : Conv) (c : Cls) (fields : List (Str × Node))
    (fts : List (Str × PyM Tree)) (items : List Node) (its : List (PyM Tree)) :
    ∀ (L : List Attr) (d : Bool),
    emitSpec S cv (noGroom c) fields fts items its L d = emitSpec S cv c fields fts items its L d
  | [], _ => rfl
  | a :: L, d => by
    simp only [emitSpec, listAppend_noGroom, emitSpec_noGroom S cv c fields fts items its L]

theorem mapTextList_renameFirst (f : Str → Str) (u : Rename) : ∀ (L : List Tree),
    mapTextList f (renameFirst u L) = renameFirst u (mapTextList f L)
  | [] => rfl
  | .node t x tl cs :: rest => by
    by_cases h : t = u.fromTag
    · simp [renameFirst, mapTextList, mapText, h]
    · simp [renameFirst, mapTextList, mapText, h, mapTextList_renameFirst f u rest]

theorem renameFirst_isEmpty (u : Rename) : ∀ (L : List Tree), (renameFirst u L).isEmpty = L.isEmpty
  | [] => rfl
  | .node t x tl cs :: rest => by
    by_cases h : t = u.fromTag <;> simp [renameFirst, h]

end Ofx.Agg
