/-
Helper lemmas about the aggregate model (`OfxModel/Ofx/Agg.lean`).
-/
import OfxModel.Ofx.Agg
namespace Ofx.Agg
open Ofx

/-- a tag the class does not define: not the source of its `groom` rename and either vendor-prefixed
    (contains `.`) or not (the upper-case form of) a spec name -/
def Unknown (c : Cls) (tag : Str) : Prop :=
  (∀ r, c.groom = some r → tag ≠ r.fromTag) ∧ ('.' ∈ tag ∨ specIndex c (lower tag) = none)

theorem groomTag_unknown (c : Cls) (rn : Bool) (tag : Str)
    (hg : ∀ r, c.groom = some r → tag ≠ r.fromTag) :
    groomTag c rn tag = (if tag.contains '.' then none else some tag, rn) := by
  unfold groomTag
  cases hgr : c.groom with
  | none => rfl
  | some r =>
    have hne : tag ≠ r.fromTag := hg r hgr
    simp [hne]

theorem updateArgs_unknown (c : Cls) (acc : Accum) (ch : Tree) (sub : PyM Node)
    (h : Unknown c ch.tag) : updateArgs c acc ch sub = .ok acc := by
  obtain ⟨hg, hu⟩ := h
  unfold updateArgs
  rw [groomTag_unknown c acc.renamed ch.tag hg]
  by_cases hd : '.' ∈ ch.tag
  · simp [hd]
  · have hs : specIndex c (lower ch.tag) = none := by
      rcases hu with h | h
      · exact absurd h hd
      · exact h
    simp [hd, hs]

theorem updateArgs_congr (c : Cls) (acc : Accum) (ch ch' : Tree) (sub : PyM Node)
    (ht : ch'.tag = ch.tag) (hx : ch'.text = ch.text) :
    updateArgs c acc ch' sub = updateArgs c acc ch sub := by
  unfold updateArgs childValue; rw [ht, hx]

theorem childInsts_append (S : Schema) (cv : Conv) (a b : List Tree) :
    childInsts S cv (a ++ b) = childInsts S cv a ++ childInsts S cv b := by
  induction a with
  | nil => rfl
  | cons x xs ih => simp [childInsts, ih]

theorem childInsts_length (S : Schema) (cv : Conv) (a : List Tree) :
    (childInsts S cv a).length = a.length := by
  induction a with
  | nil => rfl
  | cons x xs ih => simp [childInsts, ih]

theorem foldChildren_insert (c : Cls) (u : Tree) (su : PyM Node) (hu : Unknown c u.tag) :
    ∀ (pre post : List Tree) (sp sq : List (PyM Node)) (acc : Accum), sp.length = pre.length →
    foldChildren c (pre ++ u :: post) (sp ++ su :: sq) acc = foldChildren c (pre ++ post) (sp ++ sq) acc
  | [], post, [], sq, acc, _ => by
    simp [foldChildren, updateArgs_unknown c acc u su hu, bind, Except.bind]
  | [], _, _ :: _, _, _, h => by simp at h
  | _ :: _, _, [], _, _, h => by simp at h
  | p :: pre, post, s :: sp, sq, acc, h => by
    simp only [List.cons_append, foldChildren]
    cases hupd : updateArgs c acc p s with
    | error e => simp [bind, Except.bind]
    | ok acc' =>
      simp only [bind, Except.bind]
      exact foldChildren_insert c u su hu pre post sp sq acc' (by simpa using h)

theorem foldChildren_replace (c : Cls) (ch ch' : Tree) (s : PyM Node)
    (ht : ch'.tag = ch.tag) (hx : ch'.text = ch.text) :
    ∀ (pre post : List Tree) (sp sq : List (PyM Node)) (acc : Accum), sp.length = pre.length →
    foldChildren c (pre ++ ch' :: post) (sp ++ s :: sq) acc = foldChildren c (pre ++ ch :: post) (sp ++ s :: sq) acc
  | [], post, [], sq, acc, _ => by
    simp [foldChildren, updateArgs_congr c acc ch ch' s ht hx]
  | [], _, _ :: _, _, _, h => by simp at h
  | _ :: _, _, [], _, _, h => by simp at h
  | p :: pre, post, s' :: sp, sq, acc, h => by
    simp only [List.cons_append, foldChildren]
    cases hupd : updateArgs c acc p s' with
    | error e => simp [bind, Except.bind]
    | ok acc' =>
      simp only [bind, Except.bind]
      exact foldChildren_replace c ch ch' s ht hx pre post sp sq acc' (by simpa using h)

end Ofx.Agg
