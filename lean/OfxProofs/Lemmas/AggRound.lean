/-
Lemmas towards the aggregate round trip  from_etree ∘ (text map) ∘ to_etree = id  (C01, C13).
-/
import OfxProofs.Lemmas.Agg
namespace Ofx.Agg
open Ofx

mutual
  /-- apply `f` to every element text (what `parse ∘ serialize` does to a tree, with `f = _escape_cdata`) -/
  def mapText (f : Str → Str) : Tree → Tree
    | .node t x tl cs => .node t (x.map f) tl (mapTextList f cs)
  def mapTextList (f : Str → Str) : List Tree → List Tree
    | [] => []
    | c :: cs => mapText f c :: mapTextList f cs
end

theorem mapTextList_append (f : Str → Str) (a b : List Tree) :
    mapTextList f (a ++ b) = mapTextList f a ++ mapTextList f b := by
  induction a with
  | nil => rfl
  | cons x xs ih => simp [mapTextList, ih]

theorem mapTextList_length (f : Str → Str) (a : List Tree) : (mapTextList f a).length = a.length := by
  induction a with
  | nil => rfl
  | cons x xs ih => simp [mapTextList, ih]

theorem lookup_fieldTrees (S : Schema) (cv : Conv) (n : Str) :
    ∀ fs : List (Str × Node), lookup n (fieldTrees S cv fs) = (lookup n fs).map (toEtree S cv)
  | [] => rfl
  | (k, v) :: r => by
    simp only [fieldTrees, lookup]
    split
    · rfl
    · exact lookup_fieldTrees S cv n r

theorem foldChildren_append (c : Cls) :
    ∀ (a b : List Tree) (sa sb : List (PyM Node)) (acc : Accum), sa.length = a.length →
    foldChildren c (a ++ b) (sa ++ sb) acc =
      (foldChildren c a sa acc >>= fun acc' => foldChildren c b sb acc')
  | [], b, [], sb, acc, _ => by simp [foldChildren, bind, Except.bind]
  | [], _, _ :: _, _, _, h => by simp at h
  | _ :: _, _, [], _, _, h => by simp at h
  | x :: a, b, s :: sa, sb, acc, h => by
    simp only [List.cons_append, foldChildren]
    cases hu : updateArgs c acc x s with
    | error e => simp [bind, Except.bind]
    | ok acc' =>
      simp only [bind, Except.bind]
      have := foldChildren_append c a b sa sb acc' (by simpa using h)
      simpa [bind, Except.bind] using this

theorem foldChildren_nil (c : Cls) (acc : Accum) : foldChildren c [] [] acc = .ok acc := rfl

theorem foldChildren_single (c : Cls) (t : Tree) (s : PyM Node) (acc : Accum) :
    foldChildren c [t] [s] acc = updateArgs c acc t s := by
  simp only [foldChildren]
  cases updateArgs c acc t s <;> simp [bind, Except.bind, foldChildren]


theorem groomTag_none (c : Cls) (rn : Bool) (tag : Str) (hg : c.groom = none) :
    groomTag c rn tag = (if tag.contains '.' then none else some tag, rn) := by
  unfold groomTag; rw [hg]

/-- one step of the reader on a child the class knows (no `groom` rename in play) -/
theorem updateArgs_known (c : Cls) (acc : Accum) (child : Tree) (sub : PyM Node) (idx : Nat) (value : Node)
    (hg : c.groom = none) (hdot : '.' ∉ child.tag)
    (hidx : specIndex c (lower child.tag) = some idx)
    (hord : (outOfOrder acc.prev idx && !(isListMember c (lower child.tag) && acc.prevIsList)) = false)
    (hun : unsupportedAt c idx = false)
    (hval : childValue child sub = .ok value) :
    updateArgs c acc child sub =
      if isListMember c (lower child.tag) then
        .ok { acc with args := acc.args ++ [value], prev := some idx, prevIsList := true }
      else if hasKey (lower child.tag) acc.kwargs then .error .spec
      else .ok { acc with kwargs := acc.kwargs ++ [(lower child.tag, value)], prev := some idx,
                          prevIsList := false } := by
  unfold updateArgs
  rw [groomTag_none c acc.renamed child.tag hg]
  have hd : child.tag.contains '.' = false := by simpa using hdot
  simp only [hd, Bool.false_eq_true, if_false, hidx, hord, hun, hval]
  by_cases hl : isListMember c (lower child.tag) = true
  · simp [hl, bind, Except.bind, pure, Except.pure]
  · by_cases hk : hasKey (lower child.tag) acc.kwargs = true
    · simp [hl, hk, bind, Except.bind]
    · simp [hl, hk, bind, Except.bind, pure, Except.pure]

section
variable (S : Schema) (cv : Conv)

/-- what `to_etree` emits for a non-list supported attribute `a` holding `v` -/
def fieldTree (a : Attr) (v : Node) : PyM (Option Tree) :=
  match v with
  | .val .none => .ok none
  | .agg ci f i => (toEtree S cv (.agg ci f i)).map some
  | .val x => do
    let t ← cv.unconvert S.enums a.kind a.required x
    let child ← leafOf a t
    pure (some child)

theorem emitSpec_nil (c : Cls) (fields : List (Str × Node)) (fts : List (Str × PyM Tree))
    (items : List Node) (its : List (PyM Tree)) (d : Bool) :
    emitSpec S cv c fields fts items its [] d = .ok [] := rfl

theorem emitSpec_unsupported (c : Cls) (fields : List (Str × Node)) (items : List Node)
    (a : Attr) (rest : List Attr) (d : Bool) (hl : a.kind.isList = false) (hu : a.kind.isUnsupported = true) :
    emitSpec S cv c fields (fieldTrees S cv fields) items (itemTrees S cv items) (a :: rest) d =
      emitSpec S cv c fields (fieldTrees S cv fields) items (itemTrees S cv items) rest d := by
  simp [emitSpec, hl, hu]

theorem emitSpec_list_later (c : Cls) (fields : List (Str × Node)) (items : List Node)
    (a : Attr) (rest : List Attr) (hl : a.kind.isList = true) :
    emitSpec S cv c fields (fieldTrees S cv fields) items (itemTrees S cv items) (a :: rest) false =
      emitSpec S cv c fields (fieldTrees S cv fields) items (itemTrees S cv items) rest false := by
  simp [emitSpec, hl]

theorem emitSpec_list_first (c : Cls) (fields : List (Str × Node)) (items : List Node)
    (a : Attr) (rest : List Attr) (hl : a.kind.isList = true) :
    emitSpec S cv c fields (fieldTrees S cv fields) items (itemTrees S cv items) (a :: rest) true =
      (do let ms ← listAppend S cv c items (itemTrees S cv items)
          let more ← emitSpec S cv c fields (fieldTrees S cv fields) items (itemTrees S cv items) rest false
          pure (ms ++ more)) := by
  simp [emitSpec, hl]

theorem emitSpec_field (c : Cls) (fields : List (Str × Node)) (items : List Node)
    (a : Attr) (rest : List Attr) (d : Bool) (v : Node)
    (hl : a.kind.isList = false) (hu : a.kind.isUnsupported = false) (hv : lookup a.name fields = some v) :
    emitSpec S cv c fields (fieldTrees S cv fields) items (itemTrees S cv items) (a :: rest) d =
      (do let o ← fieldTree S cv a v
          let more ← emitSpec S cv c fields (fieldTrees S cv fields) items (itemTrees S cv items) rest d
          pure (o.toList ++ more)) := by
  simp only [emitSpec, hl, hu, hv, Bool.false_eq_true, if_false]
  cases v with
  | agg ci f i =>
    simp only [fieldTree, lookup_fieldTrees, hv, Option.map, Option.getD]
    cases toEtree S cv (.agg ci f i) <;> simp [bind, Except.bind, Except.map, pure, Except.pure]
  | val x =>
    cases x with
    | none =>
      simp only [fieldTree, bind, Except.bind]
      cases emitSpec S cv c fields (fieldTrees S cv fields) items (itemTrees S cv items) rest d <;>
        simp [pure, Except.pure]
    | _ =>
      simp only [fieldTree]
      generalize emitSpec S cv c fields (fieldTrees S cv fields) items (itemTrees S cv items) rest d = rm
      generalize cv.unconvert S.enums a.kind a.required _ = ru
      cases ru with
      | error e => simp [bind, Except.bind]
      | ok t =>
        simp only [bind, Except.bind]
        generalize leafOf a t = rl
        cases rl <;> cases rm <;> simp [pure, Except.pure]
end

/-- element kinds: converted by `cv` (not sub-aggregates, lists or unsupported) -/
def Kind.subTarget : Kind → Option Nat
  | .sub t => some t
  | _ => none

/-- every enumeration an attribute kind refers to exists -/
def Kind.enumOk (enums : List (List Str)) : Kind → Bool
  | .oneOf e => decide (e < enums.length)
  | .listElem k _ => Kind.enumOk enums k
  | _ => true

/-- what the generic theorems need of the element converters, for the values in `Dom`:
    a non-`None` value is written as a text whose wire image (`esc`) is non-empty and reads back
    to the same value; an optional element accepts `None`. -/
structure ConvLaws (cv : Conv) (enums : List (List Str)) (esc : Str → Str)
    (Dom : Kind → Bool → Val → Prop) : Prop where
  none_ok : ∀ k, k.isList = false → k.isUnsupported = false → Kind.subTarget k = none →
    Kind.enumOk enums k = true → cv.convert enums k false .none = .ok .none
  round : ∀ k r v, Dom k r v → v ≠ .none →
    ∃ s, cv.unconvert enums k r v = .ok (.str s) ∧ esc s ≠ [] ∧ cv.convert enums k r (.str (esc s)) = .ok v

/-- the value a field may hold -/
def FieldOk (Dom : Kind → Bool → Val → Prop) (a : Attr) (v : Node) : Prop :=
  match Kind.subTarget a.kind with
  | some t => (v = .val .none ∧ a.required = false) ∨ (∃ f i, v = .agg t f i)
  | none => ∃ x, v = .val x ∧ (x = .none → a.required = false) ∧ (x ≠ .none → Dom a.kind a.required x)

section
variable (S : Schema) (cv : Conv) (esc : Str → Str)

/-- the raw kwarg a field contributes when the written tree is read back -/
def rawField (a : Attr) (v : Node) : Option Node :=
  match v with
  | .val .none => none
  | .agg ci f i => some (.agg ci f i)
  | .val x =>
    match cv.unconvert S.enums a.kind a.required x with
    | .ok (.str s) => some (.val (.str (esc s)))
    | _ => none

def rawKwOf (fields : List (Str × Node)) : List Attr → List (Str × Node)
  | [] => []
  | a :: rest =>
    if a.kind.isList || a.kind.isUnsupported then rawKwOf fields rest
    else
      match lookup a.name fields with
      | some v =>
        match rawField S cv esc a v with
        | some r => (a.name, r) :: rawKwOf fields rest
        | none => rawKwOf fields rest
      | none => rawKwOf fields rest

/-- the round-trip statement for one node -/
def RT (v : Node) : Prop :=
  ∃ t, toEtree S cv v = .ok t ∧ fromEtree S cv (mapText esc t) = .ok v

/-- the raw positional argument an `ElementList` member contributes when the written tree is read back -/
def rawEl (inner : Kind) (ireq : Bool) (m : Node) : Node :=
  match cv.unconvert S.enums inner ireq (Node.toVal m) with
  | .ok (.str s) => .val (.str (esc s))
  | _ => m

/-- the positional arguments `from_etree` collects from the written tree: the members themselves for a plain
    aggregate, the (escaped) texts of the members for an `ElementList` -/
def rawItemsOf (c : Cls) (items : List Node) : List Node :=
  if c.elementList then
    match c.spec.filter (fun a => a.kind.isListElem) with
    | [a] =>
      match a.kind with
      | .listElem inner ireq => items.map (rawEl S cv esc inner ireq)
      | _ => items
    | _ => items
  else items

theorem rawItemsOf_plain (c : Cls) (items : List Node) (hel : c.elementList = false) :
    rawItemsOf S cv esc c items = items := by simp [rawItemsOf, hel]

theorem rawItemsOf_nil (c : Cls) : rawItemsOf S cv esc c [] = [] := by
  unfold rawItemsOf
  split
  · split
    · split <;> rfl
    · rfl
  · rfl

end

/-- class-level facts the round trip relies on (consequences of the decidable `WF.clsOk`) -/
structure ClsWF (S : Schema) (c : Cls) : Prop where
  nodup : (c.spec.map (·.name)).Nodup
  nameOk : ∀ a ∈ c.spec, lower (upper a.name) = a.name ∧ '.' ∉ upper a.name
  subOk : ∀ a ∈ c.spec, ∀ t, (a.kind = .sub t ∨ a.kind = .listAgg t) →
    ∃ tc, S.cls? t = some tc ∧ lower tc.name = a.name ∧ '.' ∉ tc.name ∧ S.findIdx? tc.name = some t
  enumOk : ∀ a ∈ c.spec, Kind.enumOk S.enums a.kind = true
  listBlock : ∀ (i j q : Nat) (ai aj aq : Attr), c.spec[i]? = some ai → ai.kind.isList = true → i < j →
    c.spec[j]? = some aj → aj.kind.isList = false → aj.kind.isUnsupported = false →
    c.spec[q]? = some aq → aq.kind.isList = true → q < j
  elOk : c.elementList = true → ∃ a inner ireq, c.spec.filter (fun a => a.kind.isListElem) = [a] ∧
    a.kind = .listElem inner ireq ∧ ∀ b ∈ c.spec, b.kind.isList = true → b = a

theorem specIndex_at (c : Cls) (pre rest : List Attr) (a : Attr) (hspec : c.spec = pre ++ a :: rest)
    (hnd : (c.spec.map (·.name)).Nodup) : specIndex c a.name = some pre.length := by
  unfold specIndex
  rw [hspec] at hnd ⊢
  rw [List.findIdx?_append]
  have hpre : List.findIdx? (fun x => decide (x.name = a.name)) pre = none := by
    rw [List.findIdx?_eq_none_iff]
    intro x hx
    simp only [decide_eq_false_iff_not]
    intro heq
    rw [List.map_append, List.nodup_append] at hnd
    exact hnd.2.2 x.name (List.mem_map_of_mem hx) a.name (by simp) heq
  simp [hpre, List.findIdx?_cons]


theorem toEtree_shape (S : Schema) (cv : Conv) (ci : Nat) (f : List (Str × Node)) (i : List Node)
    (c : Cls) (t : Tree) (hc : S.cls? ci = some c) (h : toEtree S cv (.agg ci f i) = .ok t) :
    t.tag = c.name ∧ t.text = none := by
  simp only [toEtree, assemble, hc] at h
  generalize emitSpec S cv c f (fieldTrees S cv f) i (itemTrees S cv i) c.spec true = r at h
  cases r with
  | error e => simp [bind, Except.bind] at h
  | ok ch =>
    simp [bind, Except.bind, pure, Except.pure] at h
    subst h
    exact ⟨rfl, rfl⟩

theorem mapText_tag (f : Str → Str) (t : Tree) : (mapText f t).tag = t.tag := by
  cases t; rfl

theorem mapText_text (f : Str → Str) (t : Tree) : (mapText f t).text = t.text.map f := by
  cases t; rfl

theorem spec_split {c : Cls} {a : Attr} (ha : a ∈ c.spec) : ∃ pre rest, c.spec = pre ++ a :: rest :=
  List.append_of_mem ha

theorem getElem_at (pre rest : List Attr) (a : Attr) : (pre ++ a :: rest)[pre.length]? = some a := by
  simp

/-- position of a list attribute by name -/
theorem listAgg_index (c : Cls) (n : Str) (hel : c.elementList = false)
    (hnd : (c.spec.map (·.name)).Nodup)
    (h : (listAggNames c).contains n = true) :
    ∃ idx a, specIndex c n = some idx ∧ c.spec[idx]? = some a ∧ a.kind.isList = true ∧
      a.kind.isUnsupported = false ∧ isListMember c n = true := by
  have hmem : n ∈ listAggNames c := by simpa using h
  have hmem' := hmem
  simp only [listAggNames, hel, Bool.false_eq_true, if_false, List.mem_map, List.mem_filter] at hmem'
  obtain ⟨a, ⟨ha, hk⟩, rfl⟩ := hmem'
  obtain ⟨pre, rest, hspec⟩ := spec_split ha
  refine ⟨pre.length, a, specIndex_at c pre rest a hspec hnd, by rw [hspec]; exact getElem_at pre rest a, ?_, ?_, ?_⟩
  · cases hk' : a.kind <;> simp_all [Kind.isList, Kind.isListAgg]
  · cases hk' : a.kind <;> simp_all [Kind.isUnsupported, Kind.isListAgg]
  · simp only [isListMember, h, Bool.true_or]


section
variable (S : Schema) (cv : Conv) (esc : Str → Str)

/-- a list member of a plain aggregate -/
structure ItemOk (c : Cls) (m : Node) : Prop where
  ex : ∃ cj f i cjc, m = .agg cj f i ∧ S.cls? cj = some cjc ∧
        (listAggNames c).contains (lower cjc.name) = true ∧ '.' ∉ cjc.name
  rt : RT S cv esc m

theorem mapM_id_cons_ok {α} (x : PyM α) (xs : List (PyM α)) (a : α) (as : List α)
    (hx : x = .ok a) (hxs : xs.mapM id = .ok as) : (x :: xs).mapM id = .ok (a :: as) := by
  simp [List.mapM_cons, hx, hxs, bind, Except.bind, pure, Except.pure]

theorem items_fold (c : Cls) (hel : c.elementList = false) (hg : c.groom = none)
    (hnd : (c.spec.map (·.name)).Nodup) :
    ∀ (ms : List Node) (acc : Accum), (∀ m ∈ ms, ItemOk S cv esc c m) →
    (acc.prevIsList = true ∨ ∀ q, acc.prev = some q → ∀ idx a, c.spec[idx]? = some a →
        a.kind.isList = true → q < idx) →
    ∃ ts acc', (itemTrees S cv ms).mapM id = .ok ts ∧
      foldChildren c (mapTextList esc ts) (childInsts S cv (mapTextList esc ts)) acc = .ok acc' ∧
      acc'.args = acc.args ++ ms ∧ acc'.kwargs = acc.kwargs ∧
      (ms = [] → acc' = acc) ∧
      (ms ≠ [] → acc'.prevIsList = true ∧ ∃ q aq, acc'.prev = some q ∧ c.spec[q]? = some aq ∧
        aq.kind.isList = true)
  | [], acc, _, _ => ⟨[], acc, rfl, rfl, by simp, rfl, fun _ => rfl, fun h => absurd rfl h⟩
  | m :: ms, acc, hms, hacc => by
    have hm := hms m (by simp)
    obtain ⟨cj, f, i, cjc, rfl, hcj, hin, hdot⟩ := hm.ex
    obtain ⟨t, ht, hback⟩ := hm.rt
    obtain ⟨htag, htext⟩ := toEtree_shape S cv cj f i cjc t hcj ht
    obtain ⟨idx, a, hidx, hget, hlist, hunsup, hmember⟩ := listAgg_index c (lower cjc.name) hel hnd hin
    -- the step on this member
    have hstep : updateArgs c acc (mapText esc t) (fromEtree S cv (mapText esc t)) =
        .ok { acc with args := acc.args ++ [Node.agg cj f i], prev := some idx, prevIsList := true } := by
      have := updateArgs_known c acc (mapText esc t) (fromEtree S cv (mapText esc t)) idx (.agg cj f i) hg
        (by rw [mapText_tag, htag]; exact hdot)
        (by rw [mapText_tag, htag]; exact hidx)
        (by
          rw [mapText_tag, htag, hmember]
          rcases hacc with hp | hq
          · simp [hp]
          · cases hprev : acc.prev with
            | none => simp [outOfOrder]
            | some q =>
              have := hq q hprev idx a hget hlist
              simp [outOfOrder]; omega)
        (by simp [unsupportedAt, hget, hunsup])
        (by simp [childValue, mapText_text, htext, hback])
      rw [this, mapText_tag, htag, hmember]; simp
    obtain ⟨ts, acc', hts, hfold, hargs, hkw, hnil, hcons⟩ :=
      items_fold c hel hg hnd ms
        { acc with args := acc.args ++ [Node.agg cj f i], prev := some idx, prevIsList := true }
        (fun x hx => hms x (by simp [hx])) (Or.inl rfl)
    refine ⟨t :: ts, acc', ?_, ?_, ?_, ?_, ?_, ?_⟩
    · exact mapM_id_cons_ok _ _ t ts ht hts
    · simp only [mapTextList, childInsts, foldChildren, hstep, bind, Except.bind]
      exact hfold
    · simp [hargs]
    · simp [hkw]
    · intro h; simp at h
    · intro _
      by_cases hms' : ms = []
      · subst hms'
        have : acc' = { acc with args := acc.args ++ [Node.agg cj f i], prev := some idx, prevIsList := true } := by
          exact hnil rfl
        subst this
        exact ⟨rfl, idx, a, rfl, hget, hlist⟩
      · exact hcons hms'
end

section
variable (S : Schema) (cv : Conv) (esc : Str → Str) (Dom : Kind → Bool → Val → Prop)

/-- everything the per-node round trip needs to know about a node `agg ci fields items` of class `c` -/
structure RTCtx (c : Cls) (fields : List (Str × Node)) (items : List Node) : Prop where
  wf : ClsWF S c
  hg : c.groom = none
  laws : ConvLaws cv S.enums esc Dom
  fieldOk : ∀ a ∈ c.spec, a.kind.isList = false → a.kind.isUnsupported = false →
    ∃ v, lookup a.name fields = some v ∧ FieldOk Dom a v
  subRT : ∀ a ∈ c.spec, ∀ v, lookup a.name fields = some v → v.isAgg = true → RT S cv esc v
  /-- a plain aggregate's members are instances of its list classes … -/
  itemsOk : c.elementList = false → ∀ m ∈ items, ItemOk S cv esc c m
  /-- … an `ElementList`'s members are values of its list element's type -/
  elItems : c.elementList = true → ∀ a ∈ c.spec, ∀ inner ireq, a.kind = .listElem inner ireq →
    ∀ m ∈ items, ∃ x, m = .val x ∧ x ≠ .none ∧ Dom inner ireq x

def PrevOk (c : Cls) (pre : List Attr) (doList : Bool) (acc : Accum) : Prop :=
  match acc.prev with
  | none => True
  | some q => q < pre.length ∨ (doList = false ∧ ∃ aq, c.spec[q]? = some aq ∧ aq.kind.isList = true)

theorem PrevOk.snoc {c : Cls} {pre : List Attr} {d : Bool} {acc : Accum} (a : Attr)
    (h : PrevOk c pre d acc) : PrevOk c (pre ++ [a]) d acc := by
  unfold PrevOk at *
  cases hp : acc.prev with
  | none => simp
  | some q =>
    simp only [hp] at h ⊢
    rcases h with h | h
    · left; simp; omega
    · right; exact h

theorem hasKey_append {α} (k : Str) (l : List (Str × α)) (n : Str) (v : α) :
    hasKey k (l ++ [(n, v)]) = (hasKey k l || decide (n = k)) := by
  induction l with
  | nil => simp [hasKey, lookup]; by_cases h : n = k <;> simp [h]
  | cons x xs ih =>
    obtain ⟨k', v'⟩ := x
    simp only [List.cons_append, hasKey, lookup] at ih ⊢
    by_cases h : k' = k
    · simp [h]
    · simp [h, ih]

end

theorem nodup_map_inj {α β} {f : α → β} : ∀ {l : List α}, (l.map f).Nodup → ∀ {a b}, a ∈ l → b ∈ l →
    f a = f b → a = b
  | [], _, _, _, ha, _, _ => by simp at ha
  | x :: xs, h, a, b, ha, hb, hab => by
    simp only [List.map_cons, List.nodup_cons, List.mem_map, not_exists, not_and] at h
    simp only [List.mem_cons] at ha hb
    rcases ha with rfl | ha <;> rcases hb with rfl | hb
    · rfl
    · exact absurd hab.symm (h.1 b hb)
    · exact absurd hab (h.1 a ha)
    · exact nodup_map_inj h.2 ha hb hab

theorem pre_list_index {c : Cls} {pre rest : List Attr} (hspec : c.spec = pre ++ rest)
    (h : ¬ ∀ a ∈ pre, a.kind.isList = false) :
    ∃ i ai, i < pre.length ∧ c.spec[i]? = some ai ∧ ai.kind.isList = true := by
  have h' : ∃ a, a ∈ pre ∧ a.kind.isList = true := by
    apply Classical.byContradiction
    intro hne
    apply h
    intro a ha
    cases hk : a.kind.isList with
    | false => rfl
    | true => exact absurd ⟨a, ha, hk⟩ hne
  obtain ⟨a, ha, hl⟩ := h'
  obtain ⟨i, hi, hget⟩ := List.getElem_of_mem ha
  refine ⟨i, a, hi, ?_, by simpa using hl⟩
  rw [hspec, List.getElem?_append_left hi, List.getElem?_eq_getElem hi, hget]

theorem list_index_ge {c : Cls} {pre rest : List Attr} (hspec : c.spec = pre ++ rest)
    (h : ∀ a ∈ pre, a.kind.isList = false) (idx : Nat) (a : Attr) (hget : c.spec[idx]? = some a)
    (hl : a.kind.isList = true) : pre.length ≤ idx := by
  rcases Nat.lt_or_ge idx pre.length with hlt | hge
  case inr => exact hge
  rw [hspec, List.getElem?_append_left hlt] at hget
  have hmem : a ∈ pre := List.mem_of_getElem? hget
  have := h a hmem
  simp [hl] at this

theorem isListMember_false_of_nonlist {c : Cls} {pre rest : List Attr} {a : Attr}
    (hspec : c.spec = pre ++ a :: rest) (hnd : (c.spec.map (·.name)).Nodup)
    (hl : a.kind.isList = false) : isListMember c a.name = false := by
  have key : ∀ b ∈ c.spec, b.kind.isList = true → b.name ≠ a.name := by
    intro b hb hbl heq
    have ha : a ∈ c.spec := by rw [hspec]; simp
    have : b = a := nodup_map_inj hnd hb ha heq
    subst this; simp [hl] at hbl
  simp only [isListMember, listAggNames, listElemNames, Bool.or_eq_false_iff]
  constructor
  · split
    · simp only [List.contains_eq_mem, decide_eq_false_iff_not, List.mem_map, List.mem_filter, not_exists, not_and]
      intro b ⟨hb, hk⟩ heq
      exact key b hb (by cases hkk : b.kind <;> simp_all [Kind.isList, Kind.isListElem]) heq
    · simp only [List.contains_eq_mem, decide_eq_false_iff_not, List.mem_map, List.mem_filter, not_exists, not_and]
      intro b ⟨hb, hk⟩ heq
      exact key b hb (by cases hkk : b.kind <;> simp_all [Kind.isList, Kind.isListAgg]) heq
  · simp only [List.contains_eq_mem, decide_eq_false_iff_not, List.mem_map, List.mem_filter, not_exists, not_and]
    intro b ⟨hb, hk⟩ heq
    exact key b hb (by cases hkk : b.kind <;> simp_all [Kind.isList, Kind.isListElem]) heq


section
variable (S : Schema) (cv : Conv) (esc : Str → Str) (Dom : Kind → Bool → Val → Prop)

theorem name_not_in_pre {c : Cls} {pre rest : List Attr} {a : Attr} (hspec : c.spec = pre ++ a :: rest)
    (hnd : (c.spec.map (·.name)).Nodup) : a.name ∉ pre.map (·.name) := by
  rw [hspec, List.map_append, List.nodup_append] at hnd
  intro hmem
  exact hnd.2.2 a.name hmem a.name (by simp) rfl

/-- the reader's step on the tree written for a non-repeated supported attribute -/
theorem known_field_step (c : Cls) (wf : ClsWF S c) (hg : c.groom = none) (acc : Accum) (tr : Tree)
    (sub : PyM Node) (a : Attr) (pre rest : List Attr) (raw : Node) (doList : Bool)
    (hspec : c.spec = pre ++ a :: rest)
    (hl : a.kind.isList = false) (hu : a.kind.isUnsupported = false)
    (htag : lower tr.tag = a.name) (hdot : '.' ∉ tr.tag) (hval : childValue tr sub = .ok raw)
    (hdl : doList = true ↔ ∀ x ∈ pre, x.kind.isList = false)
    (hkeys : ∀ k, hasKey k acc.kwargs = true → k ∈ pre.map (·.name))
    (hprev : PrevOk c pre doList acc) :
    updateArgs c acc tr sub =
      .ok { acc with kwargs := acc.kwargs ++ [(a.name, raw)], prev := some pre.length, prevIsList := false } := by
  have hidx : specIndex c a.name = some pre.length := specIndex_at c pre rest a hspec wf.nodup
  have hget : c.spec[pre.length]? = some a := by rw [hspec]; exact getElem_at pre rest a
  have hnl : isListMember c a.name = false := isListMember_false_of_nonlist hspec wf.nodup hl
  have hnk : hasKey a.name acc.kwargs = false := by
    cases hk : hasKey a.name acc.kwargs with
    | false => rfl
    | true => exact absurd (hkeys _ hk) (name_not_in_pre hspec wf.nodup)
  have hord : outOfOrder acc.prev pre.length = false := by
    unfold PrevOk at hprev
    cases hp : acc.prev with
    | none => rfl
    | some q =>
      rw [hp] at hprev
      have hq : q < pre.length := by
        rcases hprev with h | ⟨hd, aq, hgq, hql⟩
        · exact h
        · have hnot : ¬ ∀ x ∈ pre, x.kind.isList = false := by
            intro hall; have := hdl.mpr hall; simp [hd] at this
          obtain ⟨i, ai, hi, hgi, hil⟩ := pre_list_index (rest := a :: rest) hspec hnot
          exact wf.listBlock i pre.length q ai a aq hgi hil hi hget hl hu hgq hql
      simp [outOfOrder]; omega
  have := updateArgs_known c acc tr sub pre.length raw hg hdot (by rw [htag]; exact hidx)
    (by rw [hord]; simp) (by simp [unsupportedAt, hget, hu]) hval
  rw [this, htag, hnl, hnk]; simp


theorem lookup_mem {α} {k : Str} {v : α} : ∀ {l : List (Str × α)}, lookup k l = some v → (k, v) ∈ l
  | [], h => by simp [lookup] at h
  | (k', v') :: r, h => by
    simp only [lookup] at h
    split at h
    · rename_i hk; simp at h; subst hk; subst h; simp
    · exact List.mem_cons_of_mem _ (lookup_mem h)

/-- what a child of the written tree is: the leaf of a supported non-repeated element attribute, or the
    written tree of a sub-aggregate field / list member -/
def ChildOk (c : Cls) (fields : List (Str × Node)) (items : List Node) (ch : Tree) : Prop :=
  (∃ a ∈ c.spec, ∃ x s, a.kind.isList = false ∧ a.kind.isUnsupported = false ∧ x ≠ .none ∧
      lookup a.name fields = some (.val x) ∧ cv.unconvert S.enums a.kind a.required x = .ok (.str s) ∧
      ch = Tree.node (upper a.name) (some s) none []) ∨
  (∃ v, ((∃ n, (n, v) ∈ fields) ∨ v ∈ items) ∧ v.isAgg = true ∧ toEtree S cv v = .ok ch) ∨
  (∃ a ∈ c.spec, ∃ inner ireq x s, c.elementList = true ∧ a.kind = .listElem inner ireq ∧ Node.val x ∈ items ∧
      x ≠ .none ∧ cv.unconvert S.enums inner ireq x = .ok (.str s) ∧
      ch = Tree.node (upper a.name) (some s) none [])

theorem itemTrees_mapM (items : List Node) : ∀ (ts : List Tree),
    (itemTrees S cv items).mapM id = .ok ts → ∀ ch ∈ ts, ∃ v ∈ items, toEtree S cv v = .ok ch := by
  induction items with
  | nil =>
    intro ts h ch hch
    simp [itemTrees, pure, Except.pure] at h
    subst h; simp at hch
  | cons v vs ih =>
    intro ts h ch hch
    simp only [itemTrees, List.mapM_cons, id] at h
    cases hv : toEtree S cv v with
    | error e => simp [hv, bind, Except.bind] at h
    | ok tv =>
      cases hvs : (itemTrees S cv vs).mapM id with
      | error e => simp [hv, hvs, bind, Except.bind] at h
      | ok tvs =>
        simp [hv, hvs, bind, Except.bind, pure, Except.pure] at h
        subst h
        simp only [List.mem_cons] at hch
        rcases hch with rfl | hch
        · exact ⟨v, by simp, hv⟩
        · obtain ⟨w, hw, hwt⟩ := ih tvs hvs ch hch
          exact ⟨w, by simp [hw], hwt⟩

/-- what `ElementList._listAppend` writes for one member -/
def elLeaf (a : Attr) (inner : Kind) (ireq : Bool) (m : Node) : PyM Tree := do
  let t ← cv.unconvert S.enums inner ireq (Node.toVal m)
  leafOf a t

/-- `ElementList`: the list element's name is the one list member name -/
theorem el_listMember (c : Cls) (a : Attr) (hel : c.elementList = true)
    (hfilt : c.spec.filter (fun a => a.kind.isListElem) = [a]) : isListMember c a.name = true := by
  simp [isListMember, listAggNames, listElemNames, hel, hfilt]

/-- the members of an `ElementList`: written as leaves under the list element's tag, read back as the
    (escaped) texts in order -/
theorem items_fold_el (c : Cls) (wf : ClsWF S c) (hel : c.elementList = true) (hg : c.groom = none)
    (laws : ConvLaws cv S.enums esc Dom) (a : Attr) (inner : Kind) (ireq : Bool)
    (hfilt : c.spec.filter (fun a => a.kind.isListElem) = [a]) (hk : a.kind = .listElem inner ireq) :
    ∀ (ms : List Node) (acc : Accum), (∀ m ∈ ms, ∃ x, m = .val x ∧ x ≠ .none ∧ Dom inner ireq x) →
    (acc.prevIsList = true ∨ ∀ q, acc.prev = some q → ∀ idx b, c.spec[idx]? = some b →
        b.kind.isList = true → q < idx) →
    ∃ ts acc', ms.mapM (elLeaf S cv a inner ireq) = (.ok ts : PyM (List Tree)) ∧
      foldChildren c (mapTextList esc ts) (childInsts S cv (mapTextList esc ts)) acc = .ok acc' ∧
      acc'.args = acc.args ++ ms.map (rawEl S cv esc inner ireq) ∧ acc'.kwargs = acc.kwargs ∧
      (ms = [] → acc' = acc) ∧
      (ms ≠ [] → acc'.prevIsList = true ∧ ∃ q aq, acc'.prev = some q ∧ c.spec[q]? = some aq ∧
        aq.kind.isList = true) ∧
      (∀ ch ∈ ts, ∃ x s, Node.val x ∈ ms ∧ x ≠ .none ∧ cv.unconvert S.enums inner ireq x = .ok (.str s) ∧
        ch = Tree.node (upper a.name) (some s) none [])
  | [], acc, _, _ => ⟨[], acc, rfl, rfl, by simp, rfl, fun _ => rfl, fun h => absurd rfl h, by simp⟩
  | m :: ms, acc, hms, hacc => by
    obtain ⟨x, rfl, hx, hdom⟩ := hms m (by simp)
    obtain ⟨s, hunc, hne, hconv⟩ := laws.round inner ireq x hdom hx
    have ha : a ∈ c.spec := by
      have : a ∈ c.spec.filter (fun a => a.kind.isListElem) := by rw [hfilt]; simp
      exact (List.mem_filter.mp this).1
    obtain ⟨pre, rest, hspec⟩ := spec_split ha
    have hidx : specIndex c a.name = some pre.length := specIndex_at c pre rest a hspec wf.nodup
    have hget : c.spec[pre.length]? = some a := by rw [hspec]; exact getElem_at pre rest a
    have hlist : a.kind.isList = true := by simp [hk, Kind.isList]
    have hunsup : a.kind.isUnsupported = false := by simp [hk, Kind.isUnsupported]
    have hmember := el_listMember c a hel hfilt
    obtain ⟨hname, hdot⟩ := wf.nameOk a ha
    -- the step on this member's leaf
    obtain ⟨t0, ts0, hes⟩ : ∃ t0 ts0, esc s = t0 :: ts0 := by
      cases h : esc s with
      | nil => exact absurd h hne
      | cons t0 ts0 => exact ⟨t0, ts0, rfl⟩
    have hstep : ∀ sub, updateArgs c acc (Tree.node (upper a.name) (some (esc s)) none []) sub =
        .ok { acc with args := acc.args ++ [Node.val (.str (esc s))], prev := some pre.length, prevIsList := true } := by
      intro sub
      have := updateArgs_known c acc (Tree.node (upper a.name) (some (esc s)) none []) sub pre.length
        (.val (.str (esc s))) hg (by simpa [Tree.tag] using hdot)
        (by simp only [Tree.tag]; rw [hname]; exact hidx)
        (by
          simp only [Tree.tag]; rw [hname, hmember]
          rcases hacc with hp | hq
          · simp [hp]
          · cases hprev : acc.prev with
            | none => simp [outOfOrder]
            | some q =>
              have := hq q hprev pre.length a hget hlist
              simp [outOfOrder]; omega)
        (by simp [unsupportedAt, hget, hunsup])
        (by simp [childValue, Tree.text, hes])
      rw [this]; simp [Tree.tag, hname, hmember]
    obtain ⟨ts, acc', hts, hfold, hargs, hkw, hnil, hcons, hch⟩ :=
      items_fold_el c wf hel hg laws a inner ireq hfilt hk ms
        { acc with args := acc.args ++ [Node.val (.str (esc s))], prev := some pre.length, prevIsList := true }
        (fun y hy => hms y (by simp [hy])) (Or.inl rfl)
    refine ⟨Tree.node (upper a.name) (some s) none [] :: ts, acc', ?_, ?_, ?_, ?_, ?_, ?_, ?_⟩
    · have h1 : elLeaf S cv a inner ireq (.val x) = .ok (Tree.node (upper a.name) (some s) none []) := by
        simp [elLeaf, Node.toVal, hunc, leafOf, bind, Except.bind]
      rw [List.mapM_cons, h1, hts]; rfl
    · simp only [mapTextList, mapText, Option.map, childInsts, foldChildren, hstep, bind, Except.bind]
      exact hfold
    · simp [hargs, rawEl, Node.toVal, hunc]
    · simp [hkw]
    · intro h; simp at h
    · intro _
      by_cases hms' : ms = []
      · subst hms'
        have := hnil rfl
        subst this
        exact ⟨rfl, pre.length, a, rfl, hget, hlist⟩
      · exact hcons hms'
    · intro ch hmem
      simp only [List.mem_cons] at hmem
      rcases hmem with rfl | hmem
      · exact ⟨x, s, by simp, hx, hunc, rfl⟩
      · obtain ⟨y, sy, hy, h2⟩ := hch ch hmem
        exact ⟨y, sy, by simp [hy], h2⟩

/-- the list block of either kind of aggregate: written by `_listAppend`, read back as `rawItemsOf` -/
theorem members_fold (c : Cls) (fields : List (Str × Node)) (items : List Node)
    (ctx : RTCtx S cv esc Dom c fields items) (acc : Accum)
    (hacc : acc.prevIsList = true ∨ ∀ q, acc.prev = some q → ∀ idx b, c.spec[idx]? = some b →
        b.kind.isList = true → q < idx) :
    ∃ ts acc', listAppend S cv c items (itemTrees S cv items) = .ok ts ∧
      foldChildren c (mapTextList esc ts) (childInsts S cv (mapTextList esc ts)) acc = .ok acc' ∧
      acc'.args = acc.args ++ rawItemsOf S cv esc c items ∧ acc'.kwargs = acc.kwargs ∧
      (items = [] → acc' = acc) ∧
      (items ≠ [] → acc'.prevIsList = true ∧ ∃ q aq, acc'.prev = some q ∧ c.spec[q]? = some aq ∧
        aq.kind.isList = true) ∧
      (∀ ch ∈ ts, ChildOk S cv c fields items ch) := by
  cases hel : c.elementList with
  | false =>
    obtain ⟨ts, acc', hts, hfold, hargs, hkw, hnil, hcons⟩ :=
      items_fold S cv esc c hel ctx.hg ctx.wf.nodup items acc (ctx.itemsOk hel) hacc
    refine ⟨ts, acc', by simp [listAppend, hel, hts], hfold, by rw [rawItemsOf_plain S cv esc c items hel]; exact hargs,
      hkw, hnil, hcons, ?_⟩
    intro ch hmem
    obtain ⟨v, hv, hvt⟩ := itemTrees_mapM S cv items ts hts ch hmem
    obtain ⟨cj, f, i, _, rfl, _⟩ := (ctx.itemsOk hel v hv).ex
    exact Or.inr (Or.inl ⟨_, Or.inr hv, rfl, hvt⟩)
  | true =>
    obtain ⟨a, inner, ireq, hfilt, hk, _⟩ := ctx.wf.elOk hel
    have ha : a ∈ c.spec := by
      have : a ∈ c.spec.filter (fun a => a.kind.isListElem) := by rw [hfilt]; simp
      exact (List.mem_filter.mp this).1
    obtain ⟨ts, acc', hts, hfold, hargs, hkw, hnil, hcons, hch⟩ :=
      items_fold_el S cv esc Dom c ctx.wf hel ctx.hg ctx.laws a inner ireq hfilt hk items acc
        (ctx.elItems hel a ha inner ireq hk) hacc
    refine ⟨ts, acc', ?_, hfold, ?_, hkw, hnil, hcons, ?_⟩
    · simp only [listAppend, hel, if_true, hfilt, hk]; exact hts
    · simp only [rawItemsOf, hel, if_true, hfilt, hk]; exact hargs
    · intro ch hmem
      obtain ⟨x, s, hx, hxn, hunc, rfl⟩ := hch ch hmem
      exact Or.inr (Or.inr ⟨a, ha, inner, ireq, x, s, hel, hk, hx, hxn, hunc, rfl⟩)

theorem emit_fold (c : Cls) (fields : List (Str × Node)) (items : List Node)
    (ctx : RTCtx S cv esc Dom c fields items) :
    ∀ (rest pre : List Attr) (doList : Bool) (acc : Accum), c.spec = pre ++ rest →
    (doList = true ↔ ∀ a ∈ pre, a.kind.isList = false) →
    (∀ k, hasKey k acc.kwargs = true → k ∈ pre.map (·.name)) →
    PrevOk c pre doList acc →
    ∃ ts acc',
      emitSpec S cv c fields (fieldTrees S cv fields) items (itemTrees S cv items) rest doList = .ok ts ∧
      foldChildren c (mapTextList esc ts) (childInsts S cv (mapTextList esc ts)) acc = .ok acc' ∧
      acc'.kwargs = acc.kwargs ++ rawKwOf S cv esc fields rest ∧
      acc'.args = acc.args ++ (if doList && rest.any (·.kind.isList) then rawItemsOf S cv esc c items else []) ∧
      (∀ ch ∈ ts, ChildOk S cv c fields items ch)
  | [], pre, doList, acc, _, _, _, _ =>
    ⟨[], acc, rfl, rfl, by simp [rawKwOf], by simp, by simp⟩
  | a :: rest, pre, doList, acc, hspec, hdl, hkeys, hprev => by
    have hspec' : c.spec = (pre ++ [a]) ++ rest := by simp [hspec]
    have ha : a ∈ c.spec := by rw [hspec]; simp
    have hkeys' : ∀ (acc2 : Accum), (∀ k, hasKey k acc2.kwargs = true → k ∈ (pre ++ [a]).map (·.name)) →
        True := fun _ _ => trivial
    by_cases hl : a.kind.isList = true
    · -- a list attribute
      cases hd : doList with
      | false =>
        subst hd
        have hdl' : (false = true ↔ ∀ x ∈ pre ++ [a], x.kind.isList = false) := by
          constructor
          · intro h; exact absurd h (by simp)
          · intro h; have := h a (by simp); simp [hl] at this
        obtain ⟨ts, acc', hemit, hfold, hkw, hargs, hch⟩ :=
          emit_fold c fields items ctx rest (pre ++ [a]) false acc hspec' hdl'
            (fun k hk => by
              have := hkeys k hk
              simp only [List.map_append, List.mem_append]; exact Or.inl this)
            (hprev.snoc a)
        refine ⟨ts, acc', ?_, hfold, ?_, ?_, hch⟩
        · rw [emitSpec_list_later S cv c fields items a rest hl]; exact hemit
        · simp [rawKwOf, hl, hkw]
        · simpa using hargs
      | true =>
        subst hd
        have hpre : ∀ x ∈ pre, x.kind.isList = false := hdl.mp rfl
        -- all members first
        have hacc : acc.prevIsList = true ∨ ∀ q, acc.prev = some q → ∀ idx b, c.spec[idx]? = some b →
            b.kind.isList = true → q < idx := by
          right
          intro q hq idx b hget hbl
          have hge := list_index_ge hspec hpre idx b hget hbl
          unfold PrevOk at hprev
          rw [hq] at hprev
          rcases hprev with h | h
          · omega
          · exact absurd h.1 (by simp)
        obtain ⟨tsI, accI, hla, hfoldI, hargsI, hkwI, hnilI, hconsI, hchI⟩ :=
          members_fold S cv esc Dom c fields items ctx acc hacc
        have hdl' : (false = true ↔ ∀ x ∈ pre ++ [a], x.kind.isList = false) := by
          constructor
          · intro h; exact absurd h (by simp)
          · intro h; have := h a (by simp); simp [hl] at this
        have hprevI : PrevOk c (pre ++ [a]) false accI := by
          by_cases hit : items = []
          · rw [hnilI hit]
            have := hprev.snoc a
            unfold PrevOk at this ⊢
            cases hp : acc.prev with
            | none => simp
            | some q =>
              simp only [hp] at this ⊢
              rcases this with h | h
              · exact Or.inl h
              · exact absurd h.1 (by simp)
          · obtain ⟨_, q, aq, hq, hget, hql⟩ := hconsI hit
            unfold PrevOk; rw [hq]; exact Or.inr ⟨rfl, aq, hget, hql⟩
        obtain ⟨ts, acc', hemit, hfold, hkw, hargs, hch⟩ :=
          emit_fold c fields items ctx rest (pre ++ [a]) false accI hspec' hdl'
            (fun k hk => by
              rw [hkwI] at hk
              have := hkeys k hk
              simp only [List.map_append, List.mem_append]; exact Or.inl this)
            hprevI
        refine ⟨tsI ++ ts, acc', ?_, ?_, ?_, ?_, ?_⟩
        · rw [emitSpec_list_first S cv c fields items a rest hl]
          simp [hla, hemit, bind, Except.bind, pure, Except.pure]
        · rw [mapTextList_append, childInsts_append,
            foldChildren_append c _ _ _ _ acc (by rw [childInsts_length])]
          simp [hfoldI, bind, Except.bind, hfold]
        · simp [rawKwOf, hl, hkw, hkwI]
        · simp [hargs, hargsI, hl]
        · intro ch hmem
          simp only [List.mem_append] at hmem
          rcases hmem with hmem | hmem
          · exact hchI ch hmem
          · exact hch ch hmem
    · -- a non-list attribute
      have hl : a.kind.isList = false := by simpa using hl
      have hdl' : (doList = true ↔ ∀ x ∈ pre ++ [a], x.kind.isList = false) := by
        rw [hdl]
        constructor
        · intro h x hx
          simp only [List.mem_append, List.mem_singleton] at hx
          rcases hx with hx | rfl
          · exact h x hx
          · exact hl
        · intro h x hx; exact h x (by simp [hx])
      by_cases hu : a.kind.isUnsupported = true
      · obtain ⟨ts, acc', hemit, hfold, hkw, hargs, hch⟩ :=
          emit_fold c fields items ctx rest (pre ++ [a]) doList acc hspec' hdl'
            (fun k hk => by
              have := hkeys k hk
              simp only [List.map_append, List.mem_append]; exact Or.inl this)
            (hprev.snoc a)
        refine ⟨ts, acc', ?_, hfold, ?_, ?_, hch⟩
        · rw [emitSpec_unsupported S cv c fields items a rest doList hl hu]; exact hemit
        · simp [rawKwOf, hl, hu, hkw]
        · simpa [hl] using hargs
      · have hu : a.kind.isUnsupported = false := by simpa using hu
        obtain ⟨v, hv, hfo⟩ := ctx.fieldOk a ha hl hu
        have hprev1 : ∀ raw, PrevOk c (pre ++ [a]) doList
            { acc with kwargs := acc.kwargs ++ [(a.name, raw)], prev := some pre.length, prevIsList := false } := by
          intro raw; unfold PrevOk; simp
        have hkeys1 : ∀ raw k, hasKey k (acc.kwargs ++ [(a.name, raw)]) = true → k ∈ (pre ++ [a]).map (·.name) := by
          intro raw k hk
          rw [hasKey_append] at hk
          simp only [List.map_append, List.mem_append, List.map_cons, List.map_nil, List.mem_singleton]
          rcases Bool.or_eq_true_iff.mp hk with h | h
          · exact Or.inl (hkeys k h)
          · right; exact (of_decide_eq_true h).symm
        -- the common continuation: one tree `tr` emitted for this attribute, read back as `raw`
        have cont : ∀ (tr : Tree) (raw : Node),
            fieldTree S cv a v = .ok (some tr) → rawField S cv esc a v = some raw →
            ChildOk S cv c fields items tr →
            lower (mapText esc tr).tag = a.name → '.' ∉ (mapText esc tr).tag →
            childValue (mapText esc tr) (fromEtree S cv (mapText esc tr)) = .ok raw →
            ∃ ts acc',
              emitSpec S cv c fields (fieldTrees S cv fields) items (itemTrees S cv items) (a :: rest) doList = .ok ts ∧
              foldChildren c (mapTextList esc ts) (childInsts S cv (mapTextList esc ts)) acc = .ok acc' ∧
              acc'.kwargs = acc.kwargs ++ rawKwOf S cv esc fields (a :: rest) ∧
              acc'.args = acc.args ++ (if doList && (a :: rest).any (·.kind.isList) then rawItemsOf S cv esc c items else []) ∧
              (∀ ch ∈ ts, ChildOk S cv c fields items ch) := by
          intro tr raw hft hraw hchild htag hdot hval
          have hstep := known_field_step S c ctx.wf ctx.hg acc (mapText esc tr) (fromEtree S cv (mapText esc tr))
            a pre rest raw doList hspec hl hu htag hdot hval hdl hkeys hprev
          obtain ⟨ts, acc', hemit, hfold, hkw, hargs, hch⟩ :=
            emit_fold c fields items ctx rest (pre ++ [a]) doList _ hspec' hdl' (hkeys1 raw) (hprev1 raw)
          refine ⟨tr :: ts, acc', ?_, ?_, ?_, ?_, ?_⟩
          · rw [emitSpec_field S cv c fields items a rest doList v hl hu hv]
            simp [hft, hemit, bind, Except.bind, pure, Except.pure]
          · simp only [mapTextList, childInsts, foldChildren, hstep, bind, Except.bind]
            exact hfold
          · simp [rawKwOf, hl, hu, hv, hraw, hkw]
          · simpa [hl] using hargs
          · intro ch hmem
            simp only [List.mem_cons] at hmem
            rcases hmem with rfl | hmem
            · exact hchild
            · exact hch ch hmem
        -- nothing emitted for this attribute
        have skip : fieldTree S cv a v = .ok none → rawField S cv esc a v = none →
            ∃ ts acc',
              emitSpec S cv c fields (fieldTrees S cv fields) items (itemTrees S cv items) (a :: rest) doList = .ok ts ∧
              foldChildren c (mapTextList esc ts) (childInsts S cv (mapTextList esc ts)) acc = .ok acc' ∧
              acc'.kwargs = acc.kwargs ++ rawKwOf S cv esc fields (a :: rest) ∧
              acc'.args = acc.args ++ (if doList && (a :: rest).any (·.kind.isList) then rawItemsOf S cv esc c items else []) ∧
              (∀ ch ∈ ts, ChildOk S cv c fields items ch) := by
          intro hft hraw
          obtain ⟨ts, acc', hemit, hfold, hkw, hargs, hch⟩ :=
            emit_fold c fields items ctx rest (pre ++ [a]) doList acc hspec' hdl'
              (fun k hk => by
                have := hkeys k hk
                simp only [List.map_append, List.mem_append]; exact Or.inl this)
              (hprev.snoc a)
          refine ⟨ts, acc', ?_, hfold, ?_, ?_, hch⟩
          · rw [emitSpec_field S cv c fields items a rest doList v hl hu hv]
            simp [hft, hemit, bind, Except.bind, pure, Except.pure]
          · simp [rawKwOf, hl, hu, hv, hraw, hkw]
          · simpa [hl] using hargs
        unfold FieldOk at hfo
        cases hst : Kind.subTarget a.kind with
        | some t =>
          rw [hst] at hfo
          have hkind : a.kind = .sub t := by
            cases hk : a.kind <;> simp_all [Kind.subTarget]
          rcases hfo with ⟨rfl, _⟩ | ⟨f, i, rfl⟩
          · exact skip rfl rfl
          · obtain ⟨tv, htv, hback⟩ := ctx.subRT a ha _ hv rfl
            obtain ⟨tc, htc, hlow, hdot, _⟩ := ctx.wf.subOk a ha t (Or.inl hkind)
            obtain ⟨htag, htext⟩ := toEtree_shape S cv t f i tc tv htc htv
            refine cont tv (.agg t f i) ?_ rfl (Or.inr (Or.inl ⟨_, Or.inl ⟨a.name, lookup_mem hv⟩, rfl, htv⟩)) ?_ ?_ ?_
            · simp [fieldTree, htv, Except.map]
            · rw [mapText_tag, htag]; exact hlow
            · rw [mapText_tag, htag]; exact hdot
            · simp [childValue, mapText_text, htext, hback]
        | none =>
          rw [hst] at hfo
          obtain ⟨x, rfl, hreq, hdom⟩ := hfo
          by_cases hx : x = .none
          · subst hx; exact skip rfl rfl
          · obtain ⟨s, hunc, hne, _⟩ := ctx.laws.round a.kind a.required x (hdom hx) hx
            obtain ⟨nk1, nk2⟩ := ctx.wf.nameOk a ha
            have hft : fieldTree S cv a (.val x) = .ok (some (Tree.node (upper a.name) (some s) none [])) := by
              cases x <;> simp_all [fieldTree, leafOf, bind, Except.bind, pure, Except.pure]
            have hraw : rawField S cv esc a (.val x) = some (.val (.str (esc s))) := by
              cases x <;> simp_all [rawField]
            refine cont _ _ hft hraw (Or.inl ⟨a, ha, x, s, hl, hu, hx, hv, hunc, rfl⟩) ?_ ?_ ?_
            · simpa [mapText, Tree.tag] using nk1
            · simpa [mapText, Tree.tag] using nk2
            · cases hes : esc s with
              | nil => exact absurd hes hne
              | cons t ts => simp [childValue, mapText, Tree.text, hes]

end

section
variable (S : Schema) (cv : Conv) (esc : Str → Str) (Dom : Kind → Bool → Val → Prop)

/-- the instance dict holds exactly one value per supported non-repeated attribute, in spec order, each
    satisfying `P` -/
inductive FieldsMatch (P : Attr → Node → Prop) : List Attr → List (Str × Node) → Prop
  | nil : FieldsMatch P [] []
  | unsup (a : Attr) (L : List Attr) (fs : List (Str × Node)) :
      a.kind.isUnsupported = true → FieldsMatch P L fs → FieldsMatch P (a :: L) fs
  | field (a : Attr) (v : Node) (L : List Attr) (fs : List (Str × Node)) :
      a.kind.isUnsupported = false → P a v → FieldsMatch P L fs →
      FieldsMatch P (a :: L) ((a.name, v) :: fs)

theorem FieldsMatch.imp {P Q : Attr → Node → Prop} {L : List Attr} {fs : List (Str × Node)}
    (h : FieldsMatch P L fs) (hpq : ∀ a ∈ L, ∀ v, P a v → Q a v) : FieldsMatch Q L fs := by
  induction h with
  | nil => exact .nil
  | unsup b L fs hb _ ih => exact .unsup b L fs hb (ih (fun a ha => hpq a (by simp [ha])))
  | field b v L fs hb hp _ ih =>
    exact .field b v L fs hb (hpq b (by simp) v hp) (ih (fun a ha => hpq a (by simp [ha])))

/-- every entry belongs to a supported attribute and can be found by name -/
theorem FieldsMatch.withLookup {P : Attr → Node → Prop} {L : List Attr} {fs : List (Str × Node)}
    (h : FieldsMatch P L fs) (hnd : (L.map (·.name)).Nodup) :
    FieldsMatch (fun a v => P a v ∧ a.kind.isUnsupported = false ∧ Agg.lookup a.name fs = some v) L fs := by
  induction h with
  | nil => exact .nil
  | unsup b L fs hb _ ih =>
    simp only [List.map_cons, List.nodup_cons] at hnd
    exact .unsup b L fs hb (ih hnd.2)
  | field b v L fs hb hp _ ih =>
    simp only [List.map_cons, List.nodup_cons] at hnd
    refine .field b v L fs hb ⟨hp, hb, by simp [Agg.lookup]⟩ ((ih hnd.2).imp ?_)
    intro a ha w ⟨hpw, hua, hlw⟩
    have hne : b.name ≠ a.name := by
      intro heq; exact hnd.1 (by rw [heq]; exact List.mem_map_of_mem ha)
    exact ⟨hpw, hua, by simp [Agg.lookup, hne, hlw]⟩

theorem FieldsMatch.lookup {P : Attr → Node → Prop} {L : List Attr} {fs : List (Str × Node)}
    (h : FieldsMatch P L fs) (hnd : (L.map (·.name)).Nodup) :
    ∀ a ∈ L, a.kind.isUnsupported = false → ∃ v, Agg.lookup a.name fs = some v ∧ P a v := by
  induction h with
  | nil => intro a ha; simp at ha
  | unsup b L fs hb _ ih =>
    intro a ha hu
    simp only [List.map_cons, List.nodup_cons] at hnd
    simp only [List.mem_cons] at ha
    rcases ha with rfl | ha
    · simp [hb] at hu
    · exact ih hnd.2 a ha hu
  | field b v L fs hb hfo hm ih =>
    intro a ha hu
    simp only [List.map_cons, List.nodup_cons] at hnd
    simp only [List.mem_cons] at ha
    rcases ha with rfl | ha
    · exact ⟨v, by simp [Agg.lookup], hfo⟩
    · have hne : b.name ≠ a.name := by
        intro heq
        exact hnd.1 (by rw [heq]; exact List.mem_map_of_mem ha)
      obtain ⟨w, hw, hfw⟩ := ih hnd.2 a ha hu
      exact ⟨w, by simp [Agg.lookup, hne, hw], hfw⟩

theorem lookup_append_single {α} (k n : Str) (v : α) (l : List (Str × α)) :
    lookup k (l ++ [(n, v)]) = (lookup k l).orElse (fun _ => if n = k then some v else none) := by
  induction l with
  | nil => simp [lookup]
  | cons x xs ih =>
    obtain ⟨k', v'⟩ := x
    simp only [List.cons_append, lookup]
    by_cases h : k' = k
    · simp [h]
    · simp [h, ih]

/-- reading the raw kwargs back by name -/
theorem lookup_rawKwOf (fields : List (Str × Node)) :
    ∀ (L : List Attr), (L.map (·.name)).Nodup → ∀ a ∈ L, a.kind.isList = false →
    a.kind.isUnsupported = false → ∀ v, lookup a.name fields = some v →
    lookup a.name (rawKwOf S cv esc fields L) = rawField S cv esc a v
  | [], _, a, ha, _, _, _, _ => by simp at ha
  | b :: L, hnd, a, ha, hl, hu, v, hv => by
    simp only [List.map_cons, List.nodup_cons] at hnd
    simp only [List.mem_cons] at ha
    rcases ha with rfl | ha
    · simp only [rawKwOf, hl, hu, Bool.or_self, Bool.false_eq_true, if_false, hv]
      cases hr : rawField S cv esc a v with
      | some r => simp [lookup]
      | none =>
        simp only
        -- not found later either: the name does not occur in `L`
        have : ∀ (M : List Attr), a.name ∉ M.map (·.name) → lookup a.name (rawKwOf S cv esc fields M) = none := by
          intro M
          induction M with
          | nil => intro _; rfl
          | cons m M ih =>
            intro hn
            simp only [List.map_cons, List.mem_cons, not_or] at hn
            simp only [rawKwOf]
            split
            · exact ih hn.2
            · split
              · split
                · simp [lookup, Ne.symm hn.1, ih hn.2]
                · exact ih hn.2
              · exact ih hn.2
        exact this L hnd.1
    · have hne : b.name ≠ a.name := by
        intro heq; exact hnd.1 (by rw [heq]; exact List.mem_map_of_mem ha)
      have ih := lookup_rawKwOf fields L hnd.2 a ha hl hu v hv
      simp only [rawKwOf]
      split
      · exact ih
      · split
        · split
          · simp [lookup, hne, ih]
          · exact ih
        · exact ih

/-- a name that is not a supported non-repeated attribute of `L` is not a raw kwarg -/
theorem lookup_rawKwOf_none (fields : List (Str × Node)) :
    ∀ (L : List Attr) (n : Str), (∀ a ∈ L, a.name = n → (a.kind.isList || a.kind.isUnsupported) = true) →
    lookup n (rawKwOf S cv esc fields L) = none
  | [], _, _ => rfl
  | b :: L, n, h => by
    have ih := lookup_rawKwOf_none fields L n (fun a ha => h a (by simp [ha]))
    simp only [rawKwOf]
    split
    · exact ih
    · rename_i hb
      have hne : b.name ≠ n := by
        intro heq; exact hb (h b (by simp) heq)
      split
      · split
        · simp [lookup, hne, ih]
        · exact ih
      · exact ih


end

section
variable (S : Schema) (cv : Conv) (esc : Str → Str) (Dom : Kind → Bool → Val → Prop)

theorem isInstance_self (ci : Nat) : isInstance S ci ci = true := by simp [isInstance]

theorem setAttr_rt (laws : ConvLaws cv S.enums esc Dom) (a : Attr) (v : Node) (kw : List (Str × Node))
    (hl : a.kind.isList = false) (hu : a.kind.isUnsupported = false)
    (hek : Kind.enumOk S.enums a.kind = true)
    (hfo : FieldOk Dom a v) (hkw : lookup a.name kw = rawField S cv esc a v) :
    setAttr S cv a ((lookup a.name kw).getD (.val .none)) = .ok (some v) := by
  unfold FieldOk at hfo
  cases hst : Kind.subTarget a.kind with
  | some t =>
    rw [hst] at hfo
    have hkind : a.kind = .sub t := by cases hk : a.kind <;> simp_all [Kind.subTarget]
    rcases hfo with ⟨rfl, hreq⟩ | ⟨f, i, rfl⟩
    · simp [hkw, rawField, setAttr, hkind, convertSub, hreq, Except.map]
    · simp [hkw, rawField, setAttr, hkind, convertSub, isInstance_self, Except.map]
  | none =>
    rw [hst] at hfo
    obtain ⟨x, rfl, hreq, hdom⟩ := hfo
    have hset : ∀ w, setAttr S cv a w = (cv.convert S.enums a.kind a.required (Node.toVal w)).map
        (fun r => some (.val r)) := by
      intro w
      cases hk : a.kind <;> simp_all [setAttr, Kind.subTarget, Kind.isList, Kind.isUnsupported]
    by_cases hx : x = .none
    · subst hx
      have hr := hreq rfl
      have := laws.none_ok a.kind hl hu hst hek
      simp [hkw, rawField, hset, Node.toVal, hr, this, Except.map]
    · obtain ⟨s, hunc, hne, hconv⟩ := laws.round a.kind a.required x (hdom hx) hx
      have hraw : rawField S cv esc a (.val x) = some (.val (.str (esc s))) := by
        cases x <;> simp_all [rawField]
      simp [hkw, hraw, hset, Node.toVal, hconv, Except.map]

theorem setAttrs_rt (laws : ConvLaws cv S.enums esc Dom) (kw : List (Str × Node)) :
    ∀ {L : List Attr} {fs : List (Str × Node)},
    FieldsMatch (fun a v => FieldOk Dom a v ∧ lookup a.name kw = rawField S cv esc a v) L fs →
    (∀ a ∈ L, a.kind.isList = false ∧ Kind.enumOk S.enums a.kind = true) → setAttrs S cv L kw = .ok fs := by
  intro L fs h
  induction h with
  | nil => intro _; rfl
  | unsup b L fs hb _ ih =>
    intro hl
    have hk : b.kind = .unsupported := by cases hk : b.kind <;> simp_all [Kind.isUnsupported]
    simp [setAttrs, setAttr, hk, ih (fun a ha => hl a (by simp [ha])), bind, Except.bind, pure, Except.pure]
  | field b v L fs hb hp _ ih =>
    intro hl
    have := setAttr_rt S cv esc Dom laws b v kw (hl b (by simp)).1 hb (hl b (by simp)).2 hp.1 hp.2
    simp [setAttrs, this, ih (fun a ha => hl a (by simp [ha])), bind, Except.bind, pure, Except.pure]


end

section
variable (S : Schema) (cv : Conv) (esc : Str → Str) (Dom : Kind → Bool → Val → Prop)

theorem mapM_self {α} (f : α → PyM α) : ∀ (l : List α), (∀ x ∈ l, f x = .ok x) → List.mapM (m := PyM) f l = Except.ok l
  | [], _ => rfl
  | x :: xs, h => by
    have h1 := h x (by simp)
    have h2 := mapM_self f xs (fun y hy => h y (by simp [hy]))
    rw [List.mapM_cons, h1, h2]
    rfl

theorem applyArg_ok (c : Cls) (cj : Nat) (f : List (Str × Node)) (i : List Node) (cjc : Cls)
    (hcj : S.cls? cj = some cjc) (hin : (listAggNames c).contains (lower cjc.name) = true) :
    applyArg S c (.agg cj f i) = .ok (.agg cj f i) := by
  have hn : argClassName S (.agg cj f i) = cjc.name := by
    show clsName S cj = cjc.name
    unfold clsName; rw [hcj]
  show (if (listAggNames c).contains (lower (argClassName S (.agg cj f i))) then _ else _) = _
  rw [hn, hin]
  rfl

theorem applyArgs_rt_plain (c : Cls) (items : List Node) (hel : c.elementList = false)
    (hit : ∀ m ∈ items, ItemOk S cv esc c m) : applyArgs S cv c items = .ok items := by
  have h : (List.mapM (m := PyM) (applyArg S c) items) = Except.ok items := by
    apply mapM_self
    intro m hm
    obtain ⟨cj, f, i, cjc, rfl, hcj, hin, _⟩ := (hit m hm).ex
    exact applyArg_ok S c cj f i cjc hcj hin
  unfold applyArgs
  rw [hel]
  exact h

/-- `ElementList._apply_args` converts the texts read back into the members written -/
theorem el_args_back (laws : ConvLaws cv S.enums esc Dom) (inner : Kind) (ireq : Bool) :
    ∀ (ms : List Node), (∀ m ∈ ms, ∃ x, m = .val x ∧ x ≠ .none ∧ Dom inner ireq x) →
    (ms.map (rawEl S cv esc inner ireq)).mapM (m := PyM)
      (fun m => (cv.convert S.enums inner ireq (Node.toVal m)).map Node.val) = .ok ms
  | [], _ => rfl
  | m :: ms, h => by
    obtain ⟨x, rfl, hx, hdom⟩ := h m (by simp)
    obtain ⟨s, hunc, _, hconv⟩ := laws.round inner ireq x hdom hx
    have ih := el_args_back laws inner ireq ms (fun y hy => h y (by simp [hy]))
    have hraw : rawEl S cv esc inner ireq (.val x) = .val (.str (esc s)) := by simp [rawEl, Node.toVal, hunc]
    rw [List.map_cons, List.mapM_cons, hraw, ih]
    simp [Node.toVal, hconv, Except.map, bind, Except.bind, pure, Except.pure]

theorem applyArgs_rt (laws : ConvLaws cv S.enums esc Dom) (c : Cls) (items : List Node) (wf : ClsWF S c)
    (hit : c.elementList = false → ∀ m ∈ items, ItemOk S cv esc c m)
    (hels : c.elementList = true → ∀ a ∈ c.spec, ∀ inner ireq, a.kind = .listElem inner ireq →
      ∀ m ∈ items, ∃ x, m = .val x ∧ x ≠ .none ∧ Dom inner ireq x) :
    applyArgs S cv c (rawItemsOf S cv esc c items) = .ok items := by
  cases hel : c.elementList with
  | false =>
    rw [rawItemsOf_plain S cv esc c items hel]
    exact applyArgs_rt_plain S cv esc c items hel (hit hel)
  | true =>
    obtain ⟨a, inner, ireq, hfilt, hk, _⟩ := wf.elOk hel
    have ha : a ∈ c.spec := by
      have : a ∈ c.spec.filter (fun a => a.kind.isListElem) := by rw [hfilt]; simp
      exact (List.mem_filter.mp this).1
    simp only [applyArgs, rawItemsOf, hel, if_true, hfilt, hk]
    exact el_args_back S cv esc Dom laws inner ireq items (hels hel a ha inner ireq hk)

theorem rawKwOf_keys (fields : List (Str × Node)) :
    ∀ (L : List Attr) (k : Str), k ∈ (rawKwOf S cv esc fields L).map (·.1) →
    ∃ a ∈ L, a.name = k ∧ a.kind.isList = false
  | [], k, h => by simp [rawKwOf] at h
  | b :: L, k, h => by
    simp only [rawKwOf] at h
    split at h
    · obtain ⟨a, ha, hk, hl⟩ := rawKwOf_keys fields L k h
      exact ⟨a, by simp [ha], hk, hl⟩
    · rename_i hb
      have hbl : b.kind.isList = false := by
        cases hx : b.kind.isList <;> simp_all
      split at h
      · split at h
        · simp only [List.map_cons, List.mem_cons] at h
          rcases h with rfl | h
          · exact ⟨b, by simp, rfl, hbl⟩
          · obtain ⟨a, ha, hk, hl⟩ := rawKwOf_keys fields L k h
            exact ⟨a, by simp [ha], hk, hl⟩
        · obtain ⟨a, ha, hk, hl⟩ := rawKwOf_keys fields L k h
          exact ⟨a, by simp [ha], hk, hl⟩
      · obtain ⟨a, ha, hk, hl⟩ := rawKwOf_keys fields L k h
        exact ⟨a, by simp [ha], hk, hl⟩

theorem applyResidual_rt (c : Cls) (fields : List (Str × Node)) :
    applyResidual c (rawKwOf S cv esc fields c.spec) = .ok () := by
  have : residualKeys c (rawKwOf S cv esc fields c.spec) = [] := by
    simp only [residualKeys, List.filter_eq_nil_iff]
    intro k hk
    obtain ⟨a, ha, hak, hl⟩ := rawKwOf_keys S cv esc fields c.spec k hk
    simp only [Bool.not_eq_true, Bool.not_eq_false', List.contains_eq_mem, decide_eq_true_eq, List.mem_map]
    exact ⟨a, by simp [specNoList, ha, hl], hak⟩
  simp [applyResidual, this]


end

end Ofx.Agg
