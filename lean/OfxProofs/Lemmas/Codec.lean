/-
Lemmas about `OfxModel/Py/Codec.lean`: for each of the four codecs, decoding what was encoded gives the
text back (`decode_encode`), and ASCII text decodes from its bytes under every codec.
-/
import OfxModel.Py.Codec

namespace Ofx.Codec
open Ofx

theorem chr?_toNat (c : Char) : chr? c.toNat = some c := by
  have h : c.toNat.isValidChar := c.valid
  have := Char.ofNat_toNat c
  unfold Char.ofNat at this
  unfold chr?
  simp only [h, dite_true] at this ⊢
  rw [this]

theorem chr?_eq (c : Char) (n : Nat) (h : n = c.toNat) : chr? n = some c := by
  subst h; exact chr?_toNat c

theorem byteOf_toNat (n : Nat) (h : n < 256) : (byteOf n).toNat = n := by
  simp [byteOf]; omega

theorem byteChar_byteOf (c : Char) (h : c.toNat < 256) : byteChar (byteOf c.toNat) = c := by
  simp [byteChar, byteOf_toNat _ h, Char.ofNat_toNat]

/-- a `Char` is a Unicode scalar value -/
theorem char_scalar (c : Char) : c.toNat < 0xD800 ∨ (0xDFFF < c.toNat ∧ c.toNat < 0x110000) := c.valid

/-- `do let r ← x; pure (c :: r)` -/
def consM (c : Char) (x : PyM Str) : PyM Str := do
  let r ← x
  pure (c :: r)

/-! ### UTF-8, one character -/

theorem chrM_eq (c : Char) (n : Nat) (h : n = c.toNat) : chrM n = .ok c := by
  simp [chrM, chr?_eq c n h, pure, Except.pure]

theorem decodeUtf8_1 (b0 : UInt8) (rest : Bytes) (c : Char) (h0 : b0.toNat < 0x80) (hc : b0.toNat = c.toNat) :
    decodeUtf8Go (b0 :: rest) none = consM c (decodeUtf8Go rest none) := by
  rw [decodeUtf8Go]
  have : byteChar b0 = c := by simp [byteChar, hc, Char.ofNat_toNat]
  simp [h0, this, consM]

theorem decodeUtf8_2 (b0 b1 : UInt8) (rest : Bytes) (c : Char)
    (h0 : 0xC2 ≤ b0.toNat ∧ b0.toNat ≤ 0xDF) (h1 : 0x80 ≤ b1.toNat ∧ b1.toNat ≤ 0xBF)
    (hc : (b0.toNat - 0xC0) * 64 + (b1.toNat - 0x80) = c.toNat) :
    decodeUtf8Go (b0 :: b1 :: rest) none = consM c (decodeUtf8Go rest none) := by
  have n0 : ¬ b0.toNat < 0x80 := by omega
  rw [decodeUtf8Go, if_neg n0, if_pos h0, decodeUtf8Go, if_pos h1, if_pos (Nat.le_refl 1), chrM_eq c _ hc]
  rfl

theorem decodeUtf8_3 (b0 b1 b2 : UInt8) (rest : Bytes) (c : Char)
    (h0 : 0xE0 ≤ b0.toNat ∧ b0.toNat ≤ 0xEF)
    (h1 : (if b0.toNat = 0xE0 then 0xA0 else 0x80) ≤ b1.toNat ∧ b1.toNat ≤ (if b0.toNat = 0xED then 0x9F else 0xBF))
    (h2 : 0x80 ≤ b2.toNat ∧ b2.toNat ≤ 0xBF)
    (hc : (b0.toNat - 0xE0) * 4096 + (b1.toNat - 0x80) * 64 + (b2.toNat - 0x80) = c.toNat) :
    decodeUtf8Go (b0 :: b1 :: b2 :: rest) none = consM c (decodeUtf8Go rest none) := by
  have n0 : ¬ b0.toNat < 0x80 := by omega
  have n1 : ¬ (0xC2 ≤ b0.toNat ∧ b0.toNat ≤ 0xDF) := by omega
  have hc' : ((b0.toNat - 0xE0) * 64 + (b1.toNat - 0x80)) * 64 + (b2.toNat - 0x80) = c.toNat := by omega
  rw [decodeUtf8Go, if_neg n0, if_neg n1, if_pos h0, decodeUtf8Go, if_pos h1, if_neg (by omega),
    decodeUtf8Go, if_pos h2, if_pos (by omega), chrM_eq c _ hc']
  rfl

theorem decodeUtf8_4 (b0 b1 b2 b3 : UInt8) (rest : Bytes) (c : Char)
    (h0 : 0xF0 ≤ b0.toNat ∧ b0.toNat ≤ 0xF4)
    (h1 : (if b0.toNat = 0xF0 then 0x90 else 0x80) ≤ b1.toNat ∧ b1.toNat ≤ (if b0.toNat = 0xF4 then 0x8F else 0xBF))
    (h2 : 0x80 ≤ b2.toNat ∧ b2.toNat ≤ 0xBF) (h3 : 0x80 ≤ b3.toNat ∧ b3.toNat ≤ 0xBF)
    (hc : (b0.toNat - 0xF0) * 262144 + (b1.toNat - 0x80) * 4096 + (b2.toNat - 0x80) * 64 + (b3.toNat - 0x80)
            = c.toNat) :
    decodeUtf8Go (b0 :: b1 :: b2 :: b3 :: rest) none = consM c (decodeUtf8Go rest none) := by
  have n0 : ¬ b0.toNat < 0x80 := by omega
  have n1 : ¬ (0xC2 ≤ b0.toNat ∧ b0.toNat ≤ 0xDF) := by omega
  have n2 : ¬ (0xE0 ≤ b0.toNat ∧ b0.toNat ≤ 0xEF) := by omega
  have hc' : (((b0.toNat - 0xF0) * 64 + (b1.toNat - 0x80)) * 64 + (b2.toNat - 0x80)) * 64 + (b3.toNat - 0x80)
      = c.toNat := by omega
  rw [decodeUtf8Go, if_neg n0, if_neg n1, if_neg n2, if_pos h0, decodeUtf8Go, if_pos h1, if_neg (by omega),
    decodeUtf8Go, if_pos h2, if_neg (by omega), decodeUtf8Go, if_pos h3, if_pos (by omega), chrM_eq c _ hc']
  rfl

/-- decoding the UTF-8 encoding of one character, in front of anything -/
theorem decodeUtf8_encodeChar (c : Char) (bs rest : Bytes) (h : encodeCharUtf8 c = some bs) :
    decodeUtf8Go (bs ++ rest) none = consM c (decodeUtf8Go rest none) := by
  have hv := char_scalar c
  unfold encodeCharUtf8 at h
  simp only at h
  split at h
  · rename_i h1
    cases h
    exact decodeUtf8_1 _ _ c (by rw [byteOf_toNat _ (by omega)]; exact h1) (byteOf_toNat _ (by omega))
  · split at h
    · rename_i h1 h2
      cases h
      have e0 := byteOf_toNat (0xC0 + c.toNat / 64) (by omega)
      have e1 := byteOf_toNat (0x80 + c.toNat % 64) (by omega)
      apply decodeUtf8_2 <;> (simp only [e0, e1]; omega)
    · split at h
      · rename_i h1 h2 h3
        cases h
        have e0 := byteOf_toNat (0xE0 + c.toNat / 4096) (by omega)
        have e1 := byteOf_toNat (0x80 + c.toNat / 64 % 64) (by omega)
        have e2 := byteOf_toNat (0x80 + c.toNat % 64) (by omega)
        apply decodeUtf8_3
        · simp only [e0]; omega
        · simp only [e0, e1]; split <;> split <;> omega
        · simp only [e2]; omega
        · simp only [e0, e1, e2]; omega
      · rename_i h1 h2 h3
        cases h
        have e0 := byteOf_toNat (0xF0 + c.toNat / 262144) (by omega)
        have e1 := byteOf_toNat (0x80 + c.toNat / 4096 % 64) (by omega)
        have e2 := byteOf_toNat (0x80 + c.toNat / 64 % 64) (by omega)
        have e3 := byteOf_toNat (0x80 + c.toNat % 64) (by omega)
        apply decodeUtf8_4
        · simp only [e0]; omega
        · simp only [e0, e1]; split <;> split <;> omega
        · simp only [e2]; omega
        · simp only [e3]; omega
        · simp only [e0, e1, e2, e3]; omega

/-! ### the single-byte codecs, one character -/

theorem decodeAscii_encodeChar (c : Char) (bs rest : Bytes) (h : encodeCharAscii c = some bs) :
    decodeAscii (bs ++ rest) = consM c (decodeAscii rest) := by
  unfold encodeCharAscii at h
  split at h
  · rename_i h1
    cases h
    simp [decodeAscii, byteOf_toNat _ (show c.toNat < 256 by omega), h1, byteChar_byteOf c (by omega), consM]
  · cases h

theorem decodeLatin1_encodeChar (c : Char) (bs rest : Bytes) (h : encodeCharLatin1 c = some bs) :
    decodeLatin1 (bs ++ rest) = consM c (decodeLatin1 rest) := by
  unfold encodeCharLatin1 at h
  split at h
  · rename_i h1
    cases h
    simp [decodeLatin1, byteChar_byteOf c h1, consM]
  · cases h

theorem cpIndex_spec (n : Nat) (tbl : List (Option Nat)) (k i : Nat) (h : cpIndex n tbl k = some i) :
    k ≤ i ∧ tbl[i - k]? = some (some n) := by
  induction tbl generalizing k with
  | nil => simp [cpIndex] at h
  | cons e es ih =>
    unfold cpIndex at h
    split at h
    · rename_i he
      cases h
      simp [he]
    · have := ih (k + 1) h
      refine ⟨by omega, ?_⟩
      have e : i - k = (i - (k + 1)) + 1 := by omega
      rw [e, List.getElem?_cons_succ]
      exact this.2

theorem decodeCp1252_encodeChar (tbl : List (Option Nat)) (c : Char) (bs rest : Bytes)
    (h : encodeCharCp1252 tbl c = some bs) :
    decodeCp1252 tbl (bs ++ rest) = consM c (decodeCp1252 tbl rest) := by
  unfold encodeCharCp1252 at h
  split at h
  · rename_i h1
    cases h
    have hb : c.toNat < 256 := by omega
    have : cp1252Char tbl (byteOf c.toNat) = some c := by
      simp only [cp1252Char, byteOf_toNat _ hb, byteChar_byteOf c hb]
      rw [if_pos (by omega)]
    simp [decodeCp1252, this, consM]
  · rename_i h1
    split at h
    · rename_i i hi
      split at h
      · rename_i h32
        cases h
        have hs := cpIndex_spec _ _ _ _ hi
        have hb := byteOf_toNat (0x80 + i) (by omega)
        have : cp1252Char tbl (byteOf (0x80 + i)) = some c := by
          simp only [cp1252Char, hb]
          rw [if_neg (by omega)]
          have e : 128 + i - 128 = i - 0 := by omega
          rw [e, hs.2]
          exact chr?_toNat c
        simp [decodeCp1252, this, consM]
      · cases h
    · cases h

theorem decode_encodeChar (tbl : List (Option Nat)) (cs : Name) (c : Char) (bs rest : Bytes)
    (h : encodeChar tbl cs c = some bs) :
    decode tbl cs (bs ++ rest) = consM c (decode tbl cs rest) := by
  cases cs
  · exact decodeAscii_encodeChar c bs rest h
  · exact decodeLatin1_encodeChar c bs rest h
  · exact decodeCp1252_encodeChar tbl c bs rest h
  · exact decodeUtf8_encodeChar c bs rest h

theorem decode_nil (tbl : List (Option Nat)) (cs : Name) : decode tbl cs [] = .ok [] := by
  cases cs <;> rfl

/-- **round trip**: for every codec (and every cp1252 table), decoding the encoding of a text gives the text -/
theorem decode_encode (tbl : List (Option Nat)) (cs : Name) (s : Str) (bs : Bytes)
    (h : encode tbl cs s = .ok bs) : decode tbl cs bs = .ok s := by
  induction s generalizing bs with
  | nil =>
    simp [encode, pure, Except.pure] at h
    subst h
    exact decode_nil tbl cs
  | cons c rest ih =>
    unfold encode at h
    split at h
    · rename_i cb hc
      cases hr : encode tbl cs rest with
      | error e => simp [hr, bind, Except.bind] at h
      | ok rb =>
        simp [hr, bind, Except.bind, pure, Except.pure] at h
        subst h
        rw [decode_encodeChar tbl cs c cb rb hc, ih rb hr]
        rfl
    · simp [throw, throwThe, MonadExceptOf.throw] at h

/-! ### ASCII text -/

theorem asciiBytes_append (a b : Str) : asciiBytes (a ++ b) = asciiBytes a ++ asciiBytes b := by
  simp [asciiBytes]

theorem asciiBytes_length (a : Str) : (asciiBytes a).length = a.length := by
  simp [asciiBytes]

/-- all characters below 128 -/
def isAscii (s : Str) : Prop := ∀ c ∈ s, c.toNat < 128

theorem isAscii_append {a b : Str} : isAscii (a ++ b) ↔ isAscii a ∧ isAscii b := by
  simp [isAscii, or_imp, forall_and]

theorem isAscii_cons {c : Char} {s : Str} : isAscii (c :: s) ↔ c.toNat < 128 ∧ isAscii s := by
  simp [isAscii]

theorem decodeAscii_asciiBytes_append (s : Str) (hs : isAscii s) (rest : Bytes) :
    decodeAscii (asciiBytes s ++ rest) = (decodeAscii rest).map (s ++ ·) := by
  induction s with
  | nil => cases h : decodeAscii rest <;> simp [asciiBytes, Except.map, h]
  | cons c cs ih =>
    have hc := (isAscii_cons.1 hs).1
    have ih := ih (isAscii_cons.1 hs).2
    simp only [asciiBytes, List.map_cons, List.cons_append] at ih ⊢
    rw [decodeAscii, byteOf_toNat _ (show c.toNat < 256 by omega), if_pos hc, ih, byteChar_byteOf c (by omega)]
    cases decodeAscii rest <;> rfl

theorem decodeAscii_asciiBytes (s : Str) (hs : isAscii s) : decodeAscii (asciiBytes s) = .ok s := by
  have := decodeAscii_asciiBytes_append s hs []
  simpa [decodeAscii, Except.map, pure, Except.pure] using this

theorem decodeUtf8_asciiBytes_append (s : Str) (hs : isAscii s) (rest : Bytes) :
    decodeUtf8 (asciiBytes s ++ rest) = (decodeUtf8 rest).map (s ++ ·) := by
  induction s with
  | nil => cases h : decodeUtf8 rest <;> simp [asciiBytes, Except.map, h]
  | cons c cs ih =>
    have hc := (isAscii_cons.1 hs).1
    have ih := ih (isAscii_cons.1 hs).2
    simp only [asciiBytes, List.map_cons, List.cons_append] at ih ⊢
    unfold decodeUtf8 at ih ⊢
    rw [decodeUtf8_1 _ _ c (by rw [byteOf_toNat _ (by omega)]; exact hc) (byteOf_toNat _ (by omega)), ih]
    cases decodeUtf8Go rest none <;> rfl

end Ofx.Codec
