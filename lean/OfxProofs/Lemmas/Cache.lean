/-
Helper lemmas for C15: the closed form of one `request_profile` call on a good disk, the refinement
of sequential histories, and facts about `newest`.
-/
import OfxModel.Ofx.Cache
import OfxModel.Spec.CacheSpec

namespace Ofx.Cache
open Ofx Ofx.Spec.Cache

/-! ### serialisation and parsing -/

theorem ser_ne_nil (p : Profile) : ser p ≠ [] := by
  simp [ser]

theorem ser_cons (p : Profile) : ∃ t, ser p = ⟨p, 0⟩ :: t := by
  refine ⟨(List.range p.pad).map (fun i => Cell.mk p (i + 1)), ?_⟩
  simp [ser, List.range_succ_eq_map, List.map_map, Function.comp_def]

@[simp] theorem parse_ser (p : Profile) : parse (ser p) = some p := by
  obtain ⟨t, ht⟩ := ser_cons p
  rw [parse.eq_def]
  simp only [ht]
  simp

theorem parse_some {c : Content} {p : Profile} (h : parse c = some p) : c = ser p := by
  unfold parse at h
  split at h
  · cases h
  · split at h
    · rename_i heq; cases h; exact heq
    · cases h

@[simp] theorem overlay_nil (c : Content) : overlay [] c = c := by simp [overlay]

theorem toDisk_ne_empty (h : Abs) : toDisk h ≠ some [] := by
  cases h with
  | none => simp [toDisk]
  | some p => simpa [toDisk] using ser_ne_nil p

theorem toDisk_inj {h h' : Abs} (e : toDisk h = toDisk h') : h = h' := by
  cases h <;> cases h' <;> simp [toDisk] at e ⊢
  rename_i p q
  have := congrArg parse e
  simpa using this

@[simp] theorem view_toDisk_none : view (toDisk none) = .absent := rfl

theorem view_toDisk_some (p : Profile) : view (toDisk (some p)) = .complete p := by
  obtain ⟨t, ht⟩ := ser_cons p
  have hp := parse_ser p
  simp only [toDisk, view, ht] at hp ⊢
  simp [hp]

@[simp] theorem held_toDisk (h : Abs) : held (toDisk h) = .ok h := by
  cases h <;> simp [held, toDisk]

/-! ### one call on a good disk -/

/-- what a call answers, by cases (error kinds included) -/
def resOf (h : Abs) : Beh → Except Err Ret
  | .profile p => if accepts h p then .ok (.prof p) else .error .assert
  | .upToDate => match h with | some q => .ok (.prof q) | none => .error .assert
  | .errorStatus => .error .assert
  | .noProfrs => .error .attr
  | .garbage => .error .header
  | .transportError => .error .other

/-- Closed form of the eleven-action machine run to completion by one process on a disk that is
    absent or holds one complete profile. -/
theorem call_eq (h : Abs) (b : Beh) :
    call (toDisk h) b = ⟨toDisk (specStep h b).1, resOf h b, some (h.map Profile.date)⟩ := by
  cases h with
  | none =>
    cases b <;> simp [call, fuel, runProc, stepProc, Proc.init, Proc.isDone, toDisk, specStep, resOf, accepts]
  | some q =>
    cases b with
    | profile p =>
      by_cases hd : q.date ≤ p.date <;>
        simp [call, fuel, runProc, stepProc, Proc.init, Proc.isDone, toDisk, specStep, resOf, accepts, hd]
    | _ => simp [call, fuel, runProc, stepProc, Proc.init, Proc.isDone, toDisk, specStep, resOf]

/-- a dry run reads the cache and stops before the POST -/
theorem call_dry (h : Abs) (b : Beh) :
    call (toDisk h) b true = ⟨toDisk h, .ok .dryRequest, none⟩ := by
  cases h <;> simp [call, fuel, runProc, stepProc, Proc.init, Proc.isDone, toDisk]

theorem resOf_some {h : Abs} {b : Beh} {p : Profile} (e : (specStep h b).2 = some p) :
    resOf h b = .ok (.prof p) := by
  cases b with
  | profile q =>
    by_cases ha : accepts h q <;> simp [specStep, resOf, ha] at e ⊢
    exact e
  | upToDate => cases h <;> simp [specStep, resOf] at e ⊢; exact e
  | _ => simp [specStep] at e

theorem resOf_none {h : Abs} {b : Beh} (e : (specStep h b).2 = none) : ∃ err, resOf h b = .error err := by
  cases b with
  | profile q => by_cases ha : accepts h q <;> simp [specStep, resOf, ha] at e ⊢
  | upToDate => cases h <;> simp [specStep, resOf] at e ⊢
  | _ => simp [resOf]

theorem resOf_ok {h : Abs} {b : Beh} {r : Ret} (e : resOf h b = .ok r) :
    ∃ p, r = .prof p ∧ (specStep h b).2 = some p := by
  cases hs : (specStep h b).2 with
  | none => obtain ⟨err, he⟩ := resOf_none hs; rw [he] at e; cases e
  | some p => rw [resOf_some hs] at e; cases e; exact ⟨p, rfl, rfl⟩

/-- a call that must fail leaves the abstract state as it was -/
theorem specStep_fail {h : Abs} {b : Beh} (e : (specStep h b).2 = none) : (specStep h b).1 = h := by
  cases b with
  | profile q => by_cases ha : accepts h q <;> simp [specStep, ha] at e ⊢
  | _ => simp [specStep]

/-- a call that succeeds returns what the cache holds afterwards -/
theorem specStep_ok {h : Abs} {b : Beh} {p : Profile} (e : (specStep h b).2 = some p) :
    (specStep h b).1 = some p := by
  cases b with
  | profile q => by_cases ha : accepts h q <;> simp [specStep, ha] at e ⊢; exact e
  | upToDate => simpa [specStep] using e
  | _ => simp [specStep] at e

/-! ### `newest` -/

theorem specStep_state (h : Abs) (b : Beh) : (specStep h b).1 = newest h (sentOf [b]) := by
  cases b with
  | profile q => by_cases ha : accepts h q <;> simp [specStep, newest, sentOf, put, ha]
  | _ => simp [specStep, newest, sentOf]

theorem sentOf_cons (b : Beh) (bs : List Beh) : sentOf (b :: bs) = sentOf [b] ++ sentOf bs := by
  cases b <;> simp [sentOf]

theorem sentOf_append (as bs : List Beh) : sentOf (as ++ bs) = sentOf as ++ sentOf bs := by
  induction as with
  | nil => simp [sentOf]
  | cons a as ih => rw [List.cons_append, sentOf_cons, sentOf_cons a as, ih, List.append_assoc]

theorem newest_append (h : Abs) (xs ys : List Profile) : newest h (xs ++ ys) = newest (newest h xs) ys := by
  simp [newest, List.foldl_append]

theorem put_some_ge (q p : Profile) : ∃ r, put (some q) p = some r ∧ q.date ≤ r.date ∧ p.date ≤ r.date := by
  by_cases hd : q.date ≤ p.date
  · exact ⟨p, by simp [put, accepts, hd], hd, Nat.le_refl _⟩
  · exact ⟨q, by simp [put, accepts, hd], Nat.le_refl _, by omega⟩

theorem put_ge (h : Abs) (p : Profile) : ∃ r, put h p = some r ∧ p.date ≤ r.date := by
  cases h with
  | none => exact ⟨p, by simp [put, accepts], Nat.le_refl _⟩
  | some q => obtain ⟨r, hr, _, h2⟩ := put_some_ge q p; exact ⟨r, hr, h2⟩

/-- the cache never goes back: whatever is sent afterwards, it holds something at least as new -/
theorem newest_some_ge (q : Profile) (xs : List Profile) : ∃ r, newest (some q) xs = some r ∧ q.date ≤ r.date := by
  induction xs generalizing q with
  | nil => exact ⟨q, rfl, Nat.le_refl _⟩
  | cons x xs ih =>
    obtain ⟨r0, hr0, hq, _⟩ := put_some_ge q x
    obtain ⟨r, hr, hle⟩ := ih r0
    refine ⟨r, ?_, by omega⟩
    simp only [newest, List.foldl_cons] at hr ⊢
    rw [hr0]; exact hr

/-- `newest` is at least as new as every profile sent -/
theorem newest_ge (h : Abs) (xs : List Profile) (p : Profile) (hp : p ∈ xs) :
    ∃ r, newest h xs = some r ∧ p.date ≤ r.date := by
  induction xs generalizing h with
  | nil => cases hp
  | cons x xs ih =>
    have hstep : newest h (x :: xs) = newest (put h x) xs := by simp [newest]
    rw [hstep]
    rcases List.mem_cons.mp hp with rfl | hin
    · obtain ⟨r0, hr0, hle0⟩ := put_ge h p
      obtain ⟨r, hr, hle⟩ := newest_some_ge r0 xs
      exact ⟨r, by rw [hr0]; exact hr, by omega⟩
    · exact ih (put h x) hin

/-- `newest` is the initial profile or one that was sent -/
theorem newest_mem (h : Abs) (xs : List Profile) : newest h xs = h ∨ ∃ p ∈ xs, newest h xs = some p := by
  induction xs generalizing h with
  | nil => exact .inl rfl
  | cons x xs ih =>
    have hstep : newest h (x :: xs) = newest (put h x) xs := by simp [newest]
    rw [hstep]
    rcases ih (put h x) with e | ⟨p, hp, e⟩
    · rw [e]
      by_cases ha : accepts h x
      · exact .inr ⟨x, List.mem_cons_self, by simp [put, ha]⟩
      · exact .inl (by simp [put, ha])
    · exact .inr ⟨p, List.mem_cons_of_mem _ hp, e⟩

/-- monotone along a history: what is held after a longer prefix is at least as new -/
theorem newest_mono (h : Abs) (xs ys : List Profile) (q : Profile) (hq : newest h xs = some q) :
    ∃ r, newest h (xs ++ ys) = some r ∧ q.date ≤ r.date := by
  rw [newest_append, hq]; exact newest_some_ge q ys

/-! ### sequential histories -/

/-- what one step record must look like, given what was held -/
def Ok1 (h : Abs) (b : Beh) (r : StepRec) : Prop :=
  r.disk = toDisk (specStep h b).1 ∧ r.sent = some (h.map Profile.date) ∧ r.res = resOf h b

def SeqOK : Abs → List Beh → List StepRec → Prop
  | _, [], [] => True
  | h, b :: bs, r :: rs => Ok1 h b r ∧ SeqOK (specStep h b).1 bs rs
  | _, _, _ => False

/-- refinement: the machine run over any history is the specification run -/
theorem runSeq_ok (h : Abs) (hist : List Beh) : SeqOK h hist (runSeq (toDisk h) hist) := by
  induction hist generalizing h with
  | nil => simp [runSeq, SeqOK]
  | cons b bs ih =>
    simp only [runSeq, SeqOK, call_eq]
    exact ⟨⟨rfl, rfl, rfl⟩, ih _⟩

/-- what is held before call `k` of a history: the newest of the initial profile and everything sent before -/
def heldAt (h0 : Abs) (hist : List Beh) (k : Nat) : Abs := newest h0 (sentOf (hist.take k))

theorem heldAt_succ (h0 : Abs) (b : Beh) (bs : List Beh) (k : Nat) :
    heldAt h0 (b :: bs) (k + 1) = heldAt (specStep h0 b).1 bs k := by
  simp only [heldAt, List.take_succ_cons]
  rw [sentOf_cons, newest_append, specStep_state]

theorem heldAt_step (h0 : Abs) (hist : List Beh) (k : Nat) (b : Beh) (hb : hist[k]? = some b) :
    heldAt h0 hist (k + 1) = (specStep (heldAt h0 hist k) b).1 := by
  have ht : hist.take (k + 1) = hist.take k ++ [b] := by
    rw [List.take_add_one, hb]; rfl
  simp only [heldAt, ht, sentOf_append, newest_append, specStep_state]

theorem seqOK_get {h : Abs} {hist : List Beh} {recs : List StepRec} (hs : SeqOK h hist recs)
    (k : Nat) (b : Beh) (hb : hist[k]? = some b) :
    ∃ r, recs[k]? = some r ∧ Ok1 (heldAt h hist k) b r := by
  induction hist generalizing h recs k with
  | nil => simp at hb
  | cons b0 bs ih =>
    cases recs with
    | nil => simp [SeqOK] at hs
    | cons r rs =>
      obtain ⟨h1, h2⟩ := hs
      cases k with
      | zero =>
        simp at hb; subst hb
        exact ⟨r, rfl, by simpa [heldAt, newest, sentOf] using h1⟩
      | succ k =>
        simp at hb
        obtain ⟨r', hr', hok⟩ := ih h2 k hb
        exact ⟨r', by simpa using hr', by rw [heldAt_succ]; exact hok⟩

/-! ### one process, action by action -/

/-- `n` actions of one process -/
def iter : Nat → Disk × Proc → Disk × Proc
  | 0, x => x
  | n + 1, x => iter n (stepProc x.1 x.2)

theorem stepProc_done (d : Disk) (p : Proc) (h : p.isDone = true) : stepProc d p = (d, p) := by
  obtain ⟨pc, beh, dry, sent, tmp⟩ := p
  cases pc <;> simp [Proc.isDone] at h
  simp [stepProc]

theorem iter_done (n : Nat) (d : Disk) (p : Proc) (h : p.isDone = true) : iter n (d, p) = (d, p) := by
  induction n with
  | zero => rfl
  | succ n ih => simp only [iter, stepProc_done d p h]; exact ih

theorem runProc_eq_iter (n : Nat) (d : Disk) (p : Proc) : runProc n d p = iter n (d, p) := by
  induction n generalizing d p with
  | zero => rfl
  | succ n ih =>
    simp only [runProc, iter]
    by_cases hd : p.isDone = true
    · simp only [hd, if_true, stepProc_done d p hd]; exact (iter_done n d p hd).symm
    · simp only [hd]; exact ih _ _

theorem sys1_run (d : Disk) (p : Proc) (n : Nat) :
    (Sys.mk d [p]).run (List.replicate n (.step 0)) = ⟨(iter n (d, p)).1, [(iter n (d, p)).2]⟩ := by
  induction n generalizing d p with
  | zero => rfl
  | succ n ih =>
    simp only [List.replicate_succ, Sys.run, List.foldl_cons]
    have : (Sys.mk d [p]).act (.step 0) = ⟨(stepProc d p).1, [(stepProc d p).2]⟩ := by
      simp [Sys.act]
    rw [this]
    exact ih _ _

theorem sys2_run0 (d : Disk) (p0 p1 : Proc) (n : Nat) :
    (Sys.mk d [p0, p1]).run (List.replicate n (.step 0)) = ⟨(iter n (d, p0)).1, [(iter n (d, p0)).2, p1]⟩ := by
  induction n generalizing d p0 with
  | zero => rfl
  | succ n ih =>
    simp only [List.replicate_succ, Sys.run, List.foldl_cons]
    have : (Sys.mk d [p0, p1]).act (.step 0) = ⟨(stepProc d p0).1, [(stepProc d p0).2, p1]⟩ := by
      simp [Sys.act]
    rw [this]
    exact ih _ _

theorem sys2_run1 (d : Disk) (p0 p1 : Proc) (n : Nat) :
    (Sys.mk d [p0, p1]).run (List.replicate n (.step 1)) = ⟨(iter n (d, p1)).1, [p0, (iter n (d, p1)).2]⟩ := by
  induction n generalizing d p1 with
  | zero => rfl
  | succ n ih =>
    simp only [List.replicate_succ, Sys.run, List.foldl_cons]
    have : (Sys.mk d [p0, p1]).act (.step 1) = ⟨(stepProc d p1).1, [p0, (stepProc d p1).2]⟩ := by
      simp [Sys.act]
    rw [this]
    exact ih _ _

theorem iter_fuel_disk (h : Abs) (b : Beh) : (iter fuel (toDisk h, Proc.init b)).1 = toDisk (specStep h b).1 := by
  have := congrArg CallOut.disk (call_eq h b)
  simpa [call, runProc_eq_iter] using this

/-- The relation between program counter and disk that holds at every point of a call made by one process
    alone on a good disk `toDisk h` against server behaviour `b`. -/
def CallInv (h : Abs) (b : Beh) (d : Disk) (pr : Proc) : Prop :=
  pr.beh = b ∧ pr.dry = false ∧
  match pr.pc with
  | .start => d = toDisk h
  | .readCache => d = toDisk h
  | .mkdir => d = toDisk h ∧ h = none
  | .post held => d = toDisk h ∧ held = h
  | .parseResp held b' => d = toDisk h ∧ held = h ∧ b' = b
  | .assertCached _ => d = toDisk h
  | .assertCode0 held _ p => d = toDisk h ∧ held = h ∧ (∀ q, p = some q → b = .profile q)
  | .serverDate held p => d = toDisk h ∧ held = h ∧ (∀ q, p = some q → b = .profile q)
  | .assertDate held q => d = toDisk h ∧ held = h ∧ b = .profile q
  | .mkstemp q => d = toDisk h ∧ (specStep h b).1 = some q
  | .write q => d = toDisk h ∧ (specStep h b).1 = some q ∧ pr.tmp = some []
  | .close q => d = toDisk h ∧ (specStep h b).1 = some q ∧ pr.tmp = some (ser q)
  | .replace q => d = toDisk h ∧ (specStep h b).1 = some q ∧ pr.tmp = some (ser q)
  | .done _ => d = toDisk h ∨ d = toDisk (specStep h b).1

theorem callInv_init (h : Abs) (b : Beh) : CallInv h b (toDisk h) (Proc.init b) := by
  simp [CallInv, Proc.init]

theorem callInv_step (h : Abs) (b : Beh) (d : Disk) (pr : Proc) (hi : CallInv h b d pr) :
    CallInv h b (stepProc d pr).1 (stepProc d pr).2 := by
  obtain ⟨pc, beh, dry, sent, tmp⟩ := pr
  obtain ⟨hb, hd, hpc⟩ := hi
  simp only at hb hd
  subst hb hd
  cases pc with
  | start =>
    simp only [CallInv] at hpc ⊢
    subst hpc
    cases h <;> simp [stepProc, toDisk]
  | readCache =>
    simp only [CallInv] at hpc ⊢
    subst hpc
    cases h <;> simp [stepProc, toDisk]
  | mkdir =>
    simp only [CallInv] at hpc ⊢
    obtain ⟨rfl, rfl⟩ := hpc
    simp [stepProc]
  | post held =>
    simp only [CallInv] at hpc ⊢
    obtain ⟨rfl, rfl⟩ := hpc
    cases beh <;> simp [stepProc]
  | parseResp held b' =>
    simp only [CallInv] at hpc ⊢
    obtain ⟨rfl, rfl, rfl⟩ := hpc
    cases b' <;> simp [stepProc]
  | assertCached held =>
    simp only [CallInv] at hpc ⊢
    subst hpc
    cases held <;> simp [stepProc]
  | assertCode0 held is0 p =>
    simp only [CallInv] at hpc ⊢
    obtain ⟨rfl, rfl, hp⟩ := hpc
    cases is0 <;> simp [stepProc]
    exact hp
  | serverDate held p =>
    simp only [CallInv] at hpc ⊢
    obtain ⟨rfl, rfl, hp⟩ := hpc
    cases p with
    | none => simp [stepProc]
    | some q => simpa [stepProc] using hp q rfl
  | assertDate held q =>
    simp only [CallInv] at hpc ⊢
    obtain ⟨rfl, rfl, rfl⟩ := hpc
    cases held with
    | none => simp [stepProc, specStep, accepts]
    | some r =>
      by_cases hle : r.date ≤ q.date <;> simp [stepProc, specStep, accepts, hle]
  | mkstemp q =>
    simp only [CallInv] at hpc ⊢
    simpa [stepProc] using hpc
  | write q =>
    simp only [CallInv] at hpc ⊢
    obtain ⟨rfl, hq, rfl⟩ := hpc
    simpa [stepProc] using hq
  | close q =>
    simp only [CallInv] at hpc ⊢
    simpa [stepProc] using hpc
  | replace q =>
    simp only [CallInv] at hpc ⊢
    obtain ⟨rfl, hq, rfl⟩ := hpc
    simp [stepProc, hq, toDisk]
  | done r =>
    simp only [CallInv] at hpc ⊢
    simpa [stepProc] using hpc

theorem callInv_iter (h : Abs) (b : Beh) (n : Nat) (d : Disk) (pr : Proc) (hi : CallInv h b d pr) :
    CallInv h b (iter n (d, pr)).1 (iter n (d, pr)).2 := by
  induction n generalizing d pr with
  | zero => exact hi
  | succ n ih => exact ih _ _ (callInv_step h b d pr hi)

/-! ### any number of processes, any schedule, crashes anywhere -/

/-- what a process knows at each point about the profile it is going to store: it is the one its server sent,
    and from `close` on its private temporary file holds exactly that profile, complete -/
def ProcOK (pr : Proc) : Prop :=
  match pr.pc with
  | .parseResp _ b' => b' = pr.beh
  | .assertCode0 _ _ p => ∀ q, p = some q → pr.beh = .profile q
  | .serverDate _ p => ∀ q, p = some q → pr.beh = .profile q
  | .assertDate _ q => pr.beh = .profile q
  | .mkstemp q => pr.beh = .profile q
  | .write q => pr.beh = .profile q ∧ pr.tmp = some []
  | .close q => pr.beh = .profile q ∧ pr.tmp = some (ser q)
  | .replace q => pr.beh = .profile q ∧ pr.tmp = some (ser q)
  | .done r => r ≠ .error .parse
  | _ => True

/-- the cache file is absent or one complete profile: the one held initially or one a server sent to one of the
    processes (`allowed`) -/
def DiskOK (allowed : Profile → Prop) (h : Abs) (d : Disk) : Prop :=
  ∃ h', d = toDisk h' ∧ (h' = h ∨ ∃ p, h' = some p ∧ allowed p)

theorem procOK_step (allowed : Profile → Prop) (h : Abs) (d : Disk) (pr : Proc)
    (hd : DiskOK allowed h d) (hp : ProcOK pr) (ha : ∀ q, pr.beh = .profile q → allowed q) :
    ProcOK (stepProc d pr).2 ∧ DiskOK allowed h (stepProc d pr).1 ∧ (stepProc d pr).2.beh = pr.beh := by
  obtain ⟨pc, beh, dry, sent, tmp⟩ := pr
  obtain ⟨h', rfl, hh'⟩ := hd
  have hdisk : DiskOK allowed h (toDisk h') := ⟨h', rfl, hh'⟩
  cases pc with
  | start => cases h' <;> simp [stepProc, toDisk, ProcOK] <;> exact hdisk
  | readCache => cases h' <;> simp [stepProc, toDisk, ProcOK] <;> exact hdisk
  | mkdir => simp [stepProc, ProcOK]; exact hdisk
  | post held => cases dry <;> cases beh <;> simp [stepProc, ProcOK] <;> exact hdisk
  | parseResp held b' =>
    simp only [ProcOK] at hp; subst hp
    cases b' <;> simp [stepProc, ProcOK] <;> exact hdisk
  | assertCached held => cases held <;> simp [stepProc, ProcOK] <;> exact hdisk
  | assertCode0 held is0 p =>
    simp only [ProcOK] at hp
    cases is0 <;> simp [stepProc, ProcOK]
    · exact hdisk
    · exact ⟨hp, hdisk⟩
  | serverDate held p =>
    simp only [ProcOK] at hp
    cases p with
    | none => simp [stepProc, ProcOK]; exact hdisk
    | some q => simp [stepProc, ProcOK]; exact ⟨hp q rfl, hdisk⟩
  | assertDate held q =>
    simp only [ProcOK] at hp
    cases held with
    | none => simp [stepProc, ProcOK]; exact ⟨hp, hdisk⟩
    | some r =>
      by_cases hle : r.date ≤ q.date <;> simp [stepProc, ProcOK, hle]
      · exact ⟨hp, hdisk⟩
      · exact hdisk
  | mkstemp q =>
    simp only [ProcOK] at hp
    simp [stepProc, ProcOK]; exact ⟨hp, hdisk⟩
  | write q =>
    simp only [ProcOK] at hp
    obtain ⟨hb, rfl⟩ := hp
    simp [stepProc, ProcOK]; exact ⟨hb, hdisk⟩
  | close q =>
    simp only [ProcOK] at hp
    simp [stepProc, ProcOK]; exact ⟨hp, hdisk⟩
  | replace q =>
    simp only [ProcOK] at hp
    obtain ⟨hb, rfl⟩ := hp
    simp [stepProc, ProcOK]
    exact ⟨some q, rfl, .inr ⟨q, rfl, ha q hb⟩⟩
  | done r =>
    simp only [ProcOK] at hp
    simp [stepProc, ProcOK]; exact ⟨hp, hdisk⟩

/-- invariant of a system of processes sharing the cache file -/
def SysOK (h : Abs) (behs : List Beh) (s : Sys) : Prop :=
  DiskOK (fun p => Beh.profile p ∈ behs) h s.disk ∧ ∀ pr ∈ s.procs, ProcOK pr ∧ pr.beh ∈ behs

theorem sysOK_init (h : Abs) (behs : List Beh) : SysOK h behs ⟨toDisk h, behs.map (Proc.init ·)⟩ := by
  refine ⟨⟨h, rfl, .inl rfl⟩, ?_⟩
  intro pr hpr
  simp only [List.mem_map] at hpr
  obtain ⟨b, hb, rfl⟩ := hpr
  exact ⟨by simp [ProcOK, Proc.init], by simpa [Proc.init] using hb⟩

theorem sysOK_act (h : Abs) (behs : List Beh) (s : Sys) (a : Act) (hs : SysOK h behs s) : SysOK h behs (s.act a) := by
  obtain ⟨hd, hp⟩ := hs
  cases a with
  | step i =>
    simp only [Sys.act]
    cases hi : s.procs[i]? with
    | none => exact ⟨hd, hp⟩
    | some pr =>
      have hmem : pr ∈ s.procs := List.mem_of_getElem? hi
      obtain ⟨hok, hbeh⟩ := hp pr hmem
      obtain ⟨h1, h2, h3⟩ := procOK_step _ h s.disk pr hd hok (fun q hq => by rw [← hq]; exact hbeh)
      refine ⟨h2, ?_⟩
      intro x hx
      rcases List.mem_or_eq_of_mem_set hx with hx | rfl
      · exact hp x hx
      · exact ⟨h1, by rw [h3]; exact hbeh⟩
  | crash i =>
    simp only [Sys.act]
    cases hi : s.procs[i]? with
    | none => exact ⟨hd, hp⟩
    | some pr =>
      have hmem : pr ∈ s.procs := List.mem_of_getElem? hi
      refine ⟨hd, ?_⟩
      intro x hx
      rcases List.mem_or_eq_of_mem_set hx with hx | rfl
      · exact hp x hx
      · exact ⟨by simp [crashed, ProcOK], by simpa [crashed] using (hp pr hmem).2⟩

theorem sysOK_run (h : Abs) (behs : List Beh) (sched : List Act) (s : Sys) (hs : SysOK h behs s) :
    SysOK h behs (s.run sched) := by
  induction sched generalizing s with
  | nil => exact hs
  | cons a rest ih => exact ih _ (sysOK_act h behs s a hs)

/-! ### the file name -/

theorem split_unique {α} [DecidableEq α] (c : α) (a a' b b' : List α) (ha : c ∉ a) (ha' : c ∉ a')
    (h : a ++ c :: b = a' ++ c :: b') : a = a' ∧ b = b' := by
  induction a generalizing a' with
  | nil =>
    cases a' with
    | nil => simpa using h
    | cons x xs =>
      simp only [List.mem_cons, not_or] at ha'
      simp at h
      exact absurd h.1 ha'.1
  | cons y ys ih =>
    simp only [List.mem_cons, not_or] at ha
    cases a' with
    | nil =>
      simp at h
      exact absurd h.1.symm ha.1
    | cons x xs =>
      simp only [List.mem_cons, not_or] at ha'
      simp at h
      obtain ⟨rfl, h2⟩ := h
      obtain ⟨r1, r2⟩ := ih xs ha.2 ha'.2 h2
      exact ⟨by rw [r1], r2⟩

end Ofx.Cache
