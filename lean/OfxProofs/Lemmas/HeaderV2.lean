/-
C05, v2 files: the XML declaration on the first line, the search for the OFX declaration, the body.
-/
import OfxProofs.Lemmas.HeaderV1
namespace Ofx.Header
open Ofx Ofx.Codec Ofx.Spec.HeaderLayout

/-! ### matcher steps for quotes, and captures that end at a non-class character -/

theorem step_openq (q : Char) (s : Str) (k : St → Str → Option Res) (st : St) (hq : q = '"' ∨ q = '\'') :
    stepItem .openq k st (q :: s) = k { st with quote := some q } s := by
  simp [stepItem, hq]

theorem step_closeq (q : Char) (s : Str) (k : St → Str → Option Res) (st : St) (hq : st.quote = some q) :
    stepItem .closeq k st (q :: s) = k st s := by
  simp [stepItem, hq]

/-- a capture whose value is followed by a character outside the class -/
theorem step_cap_stop (p : Char → Bool) (k : St → Str → Option Res) (st : St) (v s : Str) (r : Res)
    (hv : v ≠ []) (hp : ∀ c ∈ v, p c = true) (hs : ∀ c ∈ s.head?, p c = false)
    (hok : k { st with caps := some v :: st.caps } s = some r) :
    stepItem (.cap p) k st (v ++ s) = some r := by
  apply step_cap p k st v s r hv hp _ hok
  intro j hj hj2
  cases s with
  | nil => simp at hj2; omega
  | cons c cs => simp [List.takeWhile, hs c (by simp)] at hj2; omega

/-! ### `reSearch` skips text in which the pattern cannot start -/

theorem v2_nomatch (s : Str) (h : ¬ "<?O".toList.isPrefixOf s = true) : reMatch v2Regex s = none := by
  have e : "<?OFX".toList = "<?O".toList ++ "FX".toList := by decide
  have : "<?OFX".toList.isPrefixOf s = false := by
    cases hp : "<?OFX".toList.isPrefixOf s with
    | false => rfl
    | true =>
      exfalso; apply h
      rw [List.isPrefixOf_iff_prefix] at hp ⊢
      obtain ⟨t, ht⟩ := hp
      exact ⟨"FX".toList ++ t, by rw [← ht, e]; simp⟩
  show stepItem (.lit "<?OFX".toList) _ _ s = none
  simp only [stepItem, this]
  rfl

theorem reSearch_skip_noLt (pre s : Str) (h : '<' ∉ pre) : reSearch v2Regex (pre ++ s) = reSearch v2Regex s := by
  induction pre with
  | nil => rfl
  | cons c cs ih =>
    have hc : c ≠ '<' := fun e => h (by simp [e])
    have : reMatch v2Regex (c :: (cs ++ s)) = none := by
      apply v2_nomatch
      have e : "<?O".toList = '<' :: "?O".toList := by decide
      rw [e]
      simp [List.isPrefixOf]
      intro e2; exact absurd e2.symm hc
    simp only [List.cons_append, reSearch, this]
    exact ih (fun hm => h (by simp [hm]))

theorem reSearch_skip_xml (X' s : Str) : reSearch v2Regex ('<' :: '?' :: 'x' :: (X' ++ s)) =
    reSearch v2Regex ('?' :: 'x' :: (X' ++ s)) := by
  have : reMatch v2Regex ('<' :: '?' :: 'x' :: (X' ++ s)) = none := by
    apply v2_nomatch
    have e : "<?O".toList = ['<', '?', 'O'] := by decide
    rw [e]
    simp [List.isPrefixOf]
  simp only [reSearch, this]

/-! ### "it matches" propagated through the items -/

section some
variable (k : St → Str → Option Res) (st : St) (s : Str)

theorem items_lit_some (l : Str) (is : List Item) (h : (matchItems is k st s).isSome = true) :
    (matchItems (.lit l :: is) k st (l ++ s)).isSome = true := by
  show (stepItem (.lit l) (matchItems is k) st (l ++ s)).isSome = true
  rw [step_lit]; exact h

theorem items_openq_some (q : Char) (is : List Item) (hq : q = '"' ∨ q = '\'')
    (h : (matchItems is k { st with quote := some q } s).isSome = true) :
    (matchItems (.openq :: is) k st (q :: s)).isSome = true := by
  show (stepItem .openq (matchItems is k) st (q :: s)).isSome = true
  rw [step_openq _ _ _ _ hq]; exact h

theorem items_closeq_some (q : Char) (is : List Item) (hq : st.quote = some q)
    (h : (matchItems is k st s).isSome = true) :
    (matchItems (.closeq :: is) k st (q :: s)).isSome = true := by
  show (stepItem .closeq (matchItems is k) st (q :: s)).isSome = true
  rw [step_closeq _ _ _ _ hq]; exact h

theorem items_cap_some (p : Char → Bool) (v : Str) (is : List Item) (hv : v ≠ []) (hp : ∀ c ∈ v, p c = true)
    (hs : ∀ c ∈ s.head?, p c = false)
    (h : (matchItems is k { st with caps := some v :: st.caps } s).isSome = true) :
    (matchItems (.cap p :: is) k st (v ++ s)).isSome = true := by
  show (stepItem (.cap p) (matchItems is k) st (v ++ s)).isSome = true
  obtain ⟨r, hr⟩ := Option.isSome_iff_exists.1 h
  rw [step_cap_stop p _ st v s r hv hp hs hr]; rfl

theorem segs_lit_some (l : Str) (segs : List Seg) (h : (matchSegs segs st s).isSome = true) :
    (matchSegs (.item (.lit l) :: segs) st (l ++ s)).isSome = true := by
  rw [matchSegs_item, step_lit]; exact h

theorem segs_ws0_some (w : Str) (segs : List Seg) (hw : allSpace w) (hs : ∀ c ∈ s.head?, isSpace c = false)
    (h : (matchSegs segs st s).isSome = true) :
    (matchSegs (.item .ws0 :: segs) st (w ++ s)).isSome = true := by
  rw [matchSegs_item, step_ws0 w s _ _ hw hs]; exact h

theorem segs_ws1_some (w : Str) (segs : List Seg) (hne : w ≠ []) (hw : allSpace w)
    (hs : ∀ c ∈ s.head?, isSpace c = false) (h : (matchSegs segs st s).isSome = true) :
    (matchSegs (.item .ws1 :: segs) st (w ++ s)).isSome = true := by
  rw [matchSegs_item, step_ws1 w s _ _ hne hw hs]; exact h

theorem segs_opt_some (is : List Item) (segs : List Seg)
    (h : (matchItems is (matchSegs segs) st s).isSome = true) :
    (matchSegs (.opt is :: segs) st s).isSome = true := by
  rw [matchSegs_opt]
  obtain ⟨r, hr⟩ := Option.isSome_iff_exists.1 h
  rw [hr]; rfl

end some

/-! ### the XML declaration (all three pseudo-attributes present) -/

theorem quote_cases (q : Quote) : q.ch = '"' ∨ q.ch = '\'' := by cases q <;> simp [Quote.ch]

/-- the XML declaration in normal form -/
def xmlNF (xs1 xs2 xs3 xs4 rest : Str) (qv qe qs : Char) : Str :=
  "<?xml".toList ++ (xs1 ++ ("version=".toList ++ (qv :: ("1.0".toList ++ (qv :: (xs2 ++
    ("encoding=".toList ++ (qe :: ("UTF-8".toList ++ (qe :: (xs3 ++ ("standalone=".toList ++ (qs ::
    ("no".toList ++ (qs :: (xs4 ++ ("?>".toList ++ rest)))))))))))))))))

theorem xml_match (xs1 xs2 xs3 xs4 rest : Str) (qv qe qs : Quote) (h1 : xs1 ≠ []) (a1 : allSpace xs1)
    (a2 : allSpace xs2) (a3 : allSpace xs3) (a4 : allSpace xs4) :
    (reMatch xmlRegex (xmlNF xs1 xs2 xs3 xs4 rest qv.ch qe.ch qs.ch)).isSome = true := by
  have nsq : ∀ q : Quote, isSpace q.ch = false := by intro q; cases q <;> decide
  have qdd : ∀ q : Quote, isDigitDot q.ch = false := by intro q; cases q <;> decide
  have qwd : ∀ q : Quote, isWordDash q.ch = false := by intro q; cases q <;> decide
  have qw : ∀ q : Quote, isWord q.ch = false := by intro q; cases q <;> decide
  have hd : ∀ (c0 : Char) (r : Str), isSpace c0 = false → ∀ c ∈ (c0 :: r).head?, isSpace c = false := by
    intro c0 r h c hc; simp at hc; subst hc; exact h
  unfold reMatch xmlRegex xmlNF L W0 W1
  apply segs_lit_some
  apply segs_ws1_some (hne := h1) (hw := a1) (hs := hd _ _ (by decide))
  apply segs_opt_some
  apply items_lit_some
  apply items_openq_some (hq := quote_cases qv)
  apply items_cap_some (hv := by decide) (hp := by decide) (hs := by simp [qdd])
  apply items_closeq_some (hq := rfl)
  show (matchSegs _ _ _).isSome = true
  apply segs_ws0_some (hw := a2) (hs := hd _ _ (by decide))
  apply segs_opt_some
  apply items_lit_some
  apply items_openq_some (hq := quote_cases qe)
  apply items_cap_some (hv := by decide) (hp := by decide) (hs := by simp [qwd])
  apply items_closeq_some (hq := rfl)
  show (matchSegs _ _ _).isSome = true
  apply segs_ws0_some (hw := a3) (hs := hd _ _ (by decide))
  apply segs_opt_some
  apply items_lit_some
  apply items_openq_some (hq := quote_cases qs)
  apply items_cap_some (hv := by decide) (hp := by decide) (hs := by simp [qw])
  apply items_closeq_some (hq := rfl)
  show (matchSegs _ _ _).isSome = true
  apply segs_ws0_some (hw := a4) (hs := hd _ _ (by decide))
  apply segs_lit_some
  rfl

section eqs
variable (st : St) (s : Str) (r : Res)

theorem segs_lit_eq (l : Str) (segs : List Seg) (h : matchSegs segs st s = some r) :
    matchSegs (.item (.lit l) :: segs) st (l ++ s) = some r := by
  rw [matchSegs_item, step_lit]; exact h

theorem segs_ws0_eq (w : Str) (segs : List Seg) (hw : allSpace w) (hs : ∀ c ∈ s.head?, isSpace c = false)
    (h : matchSegs segs st s = some r) : matchSegs (.item .ws0 :: segs) st (w ++ s) = some r := by
  rw [matchSegs_item, step_ws0 w s _ _ hw hs]; exact h

theorem segs_ws1_eq (w : Str) (segs : List Seg) (hne : w ≠ []) (hw : allSpace w)
    (hs : ∀ c ∈ s.head?, isSpace c = false) (h : matchSegs segs st s = some r) :
    matchSegs (.item .ws1 :: segs) st (w ++ s) = some r := by
  rw [matchSegs_item, step_ws1 w s _ _ hne hw hs]; exact h

theorem segs_cap_eq (p : Char → Bool) (v : Str) (segs : List Seg) (hv : v ≠ []) (hp : ∀ c ∈ v, p c = true)
    (hs : ∀ c ∈ s.head?, p c = false)
    (h : matchSegs segs { st with caps := some v :: st.caps } s = some r) :
    matchSegs (.item (.cap p) :: segs) st (v ++ s) = some r := by
  rw [matchSegs_item]; exact step_cap_stop p _ st v s r hv hp hs h
theorem segs_openq_eq (q : Char) (segs : List Seg) (hq : q = '"' ∨ q = '\'')
    (h : matchSegs segs { st with quote := some q } s = some r) :
    matchSegs (.item .openq :: segs) st (q :: s) = some r := by
  rw [matchSegs_item, step_openq _ _ _ _ hq]; exact h

theorem segs_closeq_eq (q : Char) (segs : List Seg) (hq : st.quote = some q)
    (h : matchSegs segs st s = some r) : matchSegs (.item .closeq :: segs) st (q :: s) = some r := by
  rw [matchSegs_item, step_closeq _ _ _ _ hq]; exact h
end eqs

/-- the OFX declaration in normal form, each value between two copies of its quote character -/
def ofxNF (s0 v1 s1 v2 s2 v3 s3 v4 s4 v5 bc gap R : Str) (q0 q1 q2 q3 q4 : Char) : Str :=
  "<?OFX".toList ++ (s0 ++ ("OFXHEADER=".toList ++ (q0 :: (v1 ++ (q0 :: (s1 ++ ("VERSION=".toList ++ (q1 :: (v2 ++
    (q1 :: (s2 ++ ("SECURITY=".toList ++ (q2 :: (v3 ++ (q2 :: (s3 ++ ("OLDFILEUID=".toList ++ (q3 :: (v4 ++
    (q3 :: (s4 ++ ("NEWFILEUID=".toList ++ (q4 :: (v5 ++ (q4 :: (bc ++ ("?>".toList ++
    (gap ++ R))))))))))))))))))))))))))))

theorem v2_match (s0 v1 s1 v2 s2 v3 s3 v4 s4 v5 bc gap R : Str) (q0 q1 q2 q3 q4 : Quote)
    (n0 : s0 ≠ []) (a0 : allSpace s0) (n1 : s1 ≠ []) (a1 : allSpace s1) (n2 : s2 ≠ []) (a2 : allSpace s2)
    (n3 : s3 ≠ []) (a3 : allSpace s3) (n4 : s4 ≠ []) (a4 : allSpace s4) (abc : allSpace bc) (ag : allSpace gap)
    (c1 : inClass isDigit v1) (c2 : inClass isDigit v2) (c3 : inClass isWord v3) (c4 : inClass isWordDash v4)
    (c5 : inClass isWordDash v5) (hR : ∀ c ∈ R.head?, isSpace c = false) :
    reMatch v2Regex (ofxNF s0 v1 s1 v2 s2 v3 s3 v4 s4 v5 bc gap R q0.ch q1.ch q2.ch q3.ch q4.ch) =
      some ([some v1, some v2, some v3, some v4, some v5], R) := by
  have hd : ∀ (c0 : Char) (r : Str), isSpace c0 = false → ∀ c ∈ (c0 :: r).head?, isSpace c = false := by
    intro c0 r h c hc; simp at hc; subst hc; exact h
  have hq : ∀ (p : Char → Bool) (q : Quote) (r : Str), p '"' = false → p '\'' = false →
      ∀ c ∈ (q.ch :: r).head?, p c = false := by
    intro p q r h1 h2 c hc; simp at hc; subst hc; cases q <;> assumption
  unfold reMatch v2Regex ofxNF L W0 W1 C Q Q'
  apply segs_lit_eq
  apply segs_ws1_eq (hne := n0) (hw := a0) (hs := hd _ _ (by decide))
  apply segs_lit_eq
  apply segs_openq_eq (hq := quote_cases q0)
  apply segs_cap_eq (hv := c1.1) (hp := c1.2) (hs := hq _ _ _ (by decide) (by decide))
  apply segs_closeq_eq (hq := rfl)
  apply segs_ws1_eq (hne := n1) (hw := a1) (hs := hd _ _ (by decide))
  apply segs_lit_eq
  apply segs_openq_eq (hq := quote_cases q1)
  apply segs_cap_eq (hv := c2.1) (hp := c2.2) (hs := hq _ _ _ (by decide) (by decide))
  apply segs_closeq_eq (hq := rfl)
  apply segs_ws1_eq (hne := n2) (hw := a2) (hs := hd _ _ (by decide))
  apply segs_lit_eq
  apply segs_openq_eq (hq := quote_cases q2)
  apply segs_cap_eq (hv := c3.1) (hp := c3.2) (hs := hq _ _ _ (by decide) (by decide))
  apply segs_closeq_eq (hq := rfl)
  apply segs_ws1_eq (hne := n3) (hw := a3) (hs := hd _ _ (by decide))
  apply segs_lit_eq
  apply segs_openq_eq (hq := quote_cases q3)
  apply segs_cap_eq (hv := c4.1) (hp := c4.2) (hs := hq _ _ _ (by decide) (by decide))
  apply segs_closeq_eq (hq := rfl)
  apply segs_ws1_eq (hne := n4) (hw := a4) (hs := hd _ _ (by decide))
  apply segs_lit_eq
  apply segs_openq_eq (hq := quote_cases q4)
  apply segs_cap_eq (hv := c5.1) (hp := c5.2) (hs := hq _ _ _ (by decide) (by decide))
  apply segs_closeq_eq (hq := rfl)
  apply segs_ws0_eq (hw := abc) (hs := hd _ _ (by decide))
  apply segs_lit_eq
  apply segs_ws0_eq (hw := ag) (hs := hR)
  rfl

/-- the fields of a v2 header lie in their domains -/
structure ValidV2 (p : V2P) (h : V2) : Prop where
  oh0 : 0 ≤ h.ofxheader ∧ h.ofxheader < 1000
  oh : pyStrInt h.ofxheader ∈ p.ofxheader
  ver0 : 0 ≤ h.version ∧ h.version < 1000
  ver : pyStrInt h.version ∈ p.version
  sec : h.security ∈ p.security ∧ inClass isWord h.security
  old : inClass isWordDash h.oldfileuid ∧ ∀ n, p.oldLen = some n → h.oldfileuid.length ≤ n
  new : inClass isWordDash h.newfileuid ∧ ∀ n, p.newLen = some n → h.newfileuid.length ≤ n

theorem ctorV2_valid (p : V2P) (h : V2) (hv : ValidV2 p h) :
    ctorV2 p (.str (pyStrInt h.version)) (.str (pyStrInt h.ofxheader)) (some h.security)
      (some h.oldfileuid) (some h.newfileuid) = .ok h := by
  obtain ⟨hoc, hoi⟩ := pyStrInt_small _ hv.oh0.1 hv.oh0.2
  obtain ⟨hvc, hvi⟩ := pyStrInt_small _ hv.ver0.1 hv.ver0.2
  unfold ctorV2
  simp only [orElse_str _ _ hoc.1, toInt, hoi, hvi, oneOfInt, hv.oh, hv.ver, if_true,
    oneOfStr, orStr_some _ _ hv.sec.2.1, hv.sec.1,
    orStr_some _ _ hv.old.1.1, orStr_some _ _ hv.new.1.1, stringConv_uid _ _ hv.old.1.2 hv.old.2,
    stringConv_uid _ _ hv.new.1.2 hv.new.2, bind, Except.bind, pure, Except.pure, wrapValueError]

/-- ASCII, not a line feed, not `<` -/
def plain (c : Char) : Prop := c.toNat < 128 ∧ c ≠ '\n' ∧ c ≠ '<'

theorem plain_ws (w : Str) (h : wsNoLF w = true) : ∀ c ∈ w, plain c := by
  obtain ⟨hs, ha, hn⟩ := wsNoLF_spec w h
  intro c hc
  refine ⟨ha c hc, ?_, ?_⟩
  · intro e; subst e
    simp only [hasLF, List.any_eq_false, beq_iff_eq] at hn
    exact hn _ hc rfl
  · intro e; subst e
    exact absurd (hs _ hc) (by decide)

theorem plain_quote (q : Quote) : plain q.ch := by cases q <;> exact ⟨by decide, by decide, by decide⟩

theorem xmlNF_shape (xs1 xs2 xs3 xs4 : Str) (qv qe qs : Quote) (w1 : wsNoLF xs1 = true) (w2 : wsNoLF xs2 = true)
    (w3 : wsNoLF xs3 = true) (w4 : wsNoLF xs4 = true) :
    ∃ X', (∀ rest, xmlNF xs1 xs2 xs3 xs4 rest qv.ch qe.ch qs.ch = '<' :: '?' :: 'x' :: (X' ++ rest)) ∧
      ∀ c ∈ X', plain c := by
  refine ⟨"ml".toList ++ (xs1 ++ ("version=".toList ++ (qv.ch :: ("1.0".toList ++ (qv.ch :: (xs2 ++
    ("encoding=".toList ++ (qe.ch :: ("UTF-8".toList ++ (qe.ch :: (xs3 ++ ("standalone=".toList ++ (qs.ch ::
    ("no".toList ++ (qs.ch :: (xs4 ++ "?>".toList)))))))))))))))), ?_, ?_⟩
  · intro rest
    have : "<?xml".toList = '<' :: '?' :: 'x' :: "ml".toList := by decide
    simp [xmlNF, this]
  · have l0 : ∀ c ∈ "ml".toList, plain c := by unfold plain; decide
    have l1 : ∀ c ∈ "version=".toList, plain c := by unfold plain; decide
    have l2 : ∀ c ∈ "1.0".toList, plain c := by unfold plain; decide
    have l3 : ∀ c ∈ "encoding=".toList, plain c := by unfold plain; decide
    have l4 : ∀ c ∈ "UTF-8".toList, plain c := by unfold plain; decide
    have l5 : ∀ c ∈ "standalone=".toList, plain c := by unfold plain; decide
    have l6 : ∀ c ∈ "no".toList, plain c := by unfold plain; decide
    have l7 : ∀ c ∈ "?>".toList, plain c := by unfold plain; decide
    intro c hc
    simp only [List.mem_append, List.mem_cons] at hc
    rcases hc with h | h | h | h | h | h | h | h | h | h | h | h | h | h | h | h | h
    · exact l0 c h
    · exact plain_ws _ w1 c h
    · exact l1 c h
    · subst h; exact plain_quote qv
    · exact l2 c h
    · subst h; exact plain_quote qv
    · exact plain_ws _ w2 c h
    · exact l3 c h
    · subst h; exact plain_quote qe
    · exact l4 c h
    · subst h; exact plain_quote qe
    · exact plain_ws _ w3 c h
    · exact l5 c h
    · subst h; exact plain_quote qs
    · exact l6 c h
    · subst h; exact plain_quote qs
    · rcases h with h | h
      · exact plain_ws _ w4 c h
      · exact l7 c h

theorem v2Xml_nf (lay : V2Lay) (qv qe qs : Quote) (h1 : lay.xmlVersion = some qv) (h2 : lay.xmlEncoding = some qe)
    (h3 : lay.xmlStandalone = some qs) (rest : Str) :
    v2Xml lay ++ rest = xmlNF lay.xs1 lay.xs2 lay.xs3 lay.xs4 rest qv.ch qe.ch qs.ch := by
  simp [v2Xml, pseudo, xmlNF, h1, h2, h3, show "version=".toList = "version".toList ++ ['='] by decide,
    show "encoding=".toList = "encoding".toList ++ ['='] by decide,
    show "standalone=".toList = "standalone".toList ++ ['='] by decide]

theorem v2Ofx_nf (lay : V2Lay) (h : V2) (R : Str) :
    v2Ofx lay h ++ R = ofxNF lay.s0 (pyStrInt h.ofxheader) lay.s1 (pyStrInt h.version) lay.s2 h.security lay.s3
      h.oldfileuid lay.s4 h.newfileuid lay.beforeClose lay.gap R lay.q0.ch lay.q1.ch lay.q2.ch lay.q3.ch lay.q4.ch := by
  simp [v2Ofx, qattr, ofxNF,
    show "OFXHEADER=".toList = "OFXHEADER".toList ++ ['='] by decide,
    show "VERSION=".toList = "VERSION".toList ++ ['='] by decide,
    show "SECURITY=".toList = "SECURITY".toList ++ ['='] by decide,
    show "OLDFILEUID=".toList = "OLDFILEUID".toList ++ ['='] by decide,
    show "NEWFILEUID=".toList = "NEWFILEUID".toList ++ ['='] by decide]


theorem dropWhile_ws (w T : Str) (hw : allSpace w) : (w ++ T).dropWhile isSpace = T.dropWhile isSpace := by
  induction w with
  | nil => rfl
  | cons c cs ih =>
    simp only [List.cons_append, List.dropWhile, hw c (by simp)]
    exact ih (fun x hx => hw x (by simp [hx]))

theorem dropWhile_idem (T : Str) : (T.dropWhile isSpace).dropWhile isSpace = T.dropWhile isSpace := by
  induction T with
  | nil => rfl
  | cons c cs ih =>
    cases h : isSpace c with
    | true => simp only [List.dropWhile, h]; exact ih
    | false => simp [List.dropWhile, h]

theorem ws0_def (k : St → Str → Option Res) (st : St) (s : Str) :
    stepItem .ws0 k st s = k st (s.dropWhile isSpace) := rfl

theorem ws0_absorb (k : St → Str → Option Res) (st : St) (w s : Str) (hw : allSpace w) :
    stepItem .ws0 k st (w ++ s) = stepItem .ws0 k st s := by
  simp only [ws0_def, dropWhile_ws w s hw]

theorem ws1_to_ws0 (k : St → Str → Option Res) (st : St) (w s : Str) (hne : w ≠ []) (hw : allSpace w) :
    stepItem .ws1 k st (w ++ s) = stepItem .ws0 k st s := by
  cases w with
  | nil => exact absurd rfl hne
  | cons c cs =>
    simp only [stepItem, List.cons_append, hw c (by simp), if_true]
    rw [dropWhile_ws cs s (fun x hx => hw x (by simp [hx]))]

theorem lit_head_fail (l s : Str) (k : St → Str → Option Res) (st : St) (c0 : Char) (l' : Str) (hl : l = c0 :: l')
    (hs : ∀ c ∈ s.head?, c ≠ c0) : stepItem (.lit l) k st s = none := by
  subst hl
  cases s with
  | nil => simp [stepItem, List.isPrefixOf]
  | cons c cs =>
    have : (c0 == c) = false := by simpa using fun e => hs c (by simp) e.symm
    simp [stepItem, List.isPrefixOf, this]

def pseudoS (nm v : Str) : Option Quote → Str
  | some q => nm ++ '=' :: q.ch :: (v ++ [q.ch])
  | none => []

theorem pseudo_eq (name v : String) (oq : Option Quote) : pseudo name v oq = pseudoS name.toList v.toList oq := by
  cases oq <;> rfl

theorem dropWhile_q (s : Str) : ('?' :: s).dropWhile isSpace = '?' :: s := by
  simp [List.dropWhile, show isSpace '?' = false by decide]

/-- one optional pseudo-attribute, present or not, with a pending `\\s*` in front -/
theorem xml_stage (nm : Str) (c0 : Char) (nm' : Str) (v : Str) (p : Char → Bool) (oq : Option Quote) (xs T : Str)
    (more : List Seg) (st : St) (hnm : nm = c0 :: nm') (hc0 : isSpace c0 = false)
    (hv : v ≠ []) (hp : ∀ c ∈ v, p c = true) (hpq : ∀ q : Quote, p q.ch = false) (hxs : allSpace xs)
    (habs : oq = none → ∀ c ∈ (T.dropWhile isSpace).head?, c ≠ c0)
    (hnext : ∀ st', (stepItem .ws0 (matchSegs more) st' T).isSome = true) :
    (stepItem .ws0 (matchSegs (.opt [.lit (nm ++ ['=']), .openq, .cap p, .closeq] :: W0 :: more)) st
      (pseudoS nm v oq ++ (xs ++ T))).isSome = true := by
  cases oq with
  | some q =>
    simp only [pseudoS]
    have e : nm ++ '=' :: q.ch :: (v ++ [q.ch]) ++ (xs ++ T) = (nm ++ ['=']) ++ (q.ch :: (v ++ (q.ch :: (xs ++ T)))) := by
      simp
    rw [e, ws0_def]
    have hd : ((nm ++ ['=']) ++ (q.ch :: (v ++ (q.ch :: (xs ++ T))))).dropWhile isSpace =
        (nm ++ ['=']) ++ (q.ch :: (v ++ (q.ch :: (xs ++ T)))) := by
      subst hnm
      simp [List.dropWhile, hc0]
    rw [hd]
    apply segs_opt_some
    apply items_lit_some
    apply items_openq_some (hq := quote_cases q)
    apply items_cap_some (hv := hv) (hp := hp) (hs := by intro c hc; simp at hc; subst hc; exact hpq q)
    apply items_closeq_some (hq := rfl)
    show (matchSegs (W0 :: more) _ (xs ++ T)).isSome = true
    rw [W0, matchSegs_item, ws0_absorb _ _ _ _ hxs]
    exact hnext _
  | none =>
    simp only [pseudoS, List.nil_append]
    rw [ws0_absorb _ _ _ _ hxs, ws0_def, matchSegs_opt]
    have hfail : matchItems [.lit (nm ++ ['=']), .openq, .cap p, .closeq] (matchSegs (W0 :: more)) st
        (T.dropWhile isSpace) = none := by
      show stepItem (.lit (nm ++ ['='])) _ st _ = none
      exact lit_head_fail _ _ _ _ c0 (nm' ++ ['=']) (by subst hnm; rfl) (habs rfl)
    rw [hfail]
    simp only
    rw [W0, matchSegs_item, ws0_def, dropWhile_idem]
    have := hnext { st with caps := List.replicate (capCount [.lit (nm ++ ['=']), .openq, .cap p, .closeq]) none ++ st.caps }
    rw [ws0_def] at this
    exact this

theorem nh_stage (nm : Str) (c0 : Char) (nm' v : Str) (oq : Option Quote) (xs T : Str) (hnm : nm = c0 :: nm')
    (hc0 : isSpace c0 = false) (hxs : allSpace xs) :
    ((pseudoS nm v oq ++ (xs ++ T)).dropWhile isSpace).head? =
      match oq with
      | some _ => some c0
      | none => (T.dropWhile isSpace).head? := by
  cases oq with
  | some q => subst hnm; simp [pseudoS, List.dropWhile, hc0]
  | none => simp only [pseudoS, List.nil_append]; rw [dropWhile_ws xs T hxs]

theorem xmlRegex_eq : xmlRegex =
    [ L "<?xml", W1,
      .opt [.lit ("version".toList ++ ['=']), .openq, .cap isDigitDot, .closeq], W0,
      .opt [.lit ("encoding".toList ++ ['=']), .openq, .cap isWordDash, .closeq], W0,
      .opt [.lit ("standalone".toList ++ ['=']), .openq, .cap isWord, .closeq], W0,
      L "?>", W0 ] := by rfl

/-- **`XML_REGEX` matches every XML declaration of the layout family**: each pseudo-attribute present (either
    quote) or absent, any whitespace -/
theorem xml_match_gen (lay : V2Lay) (rest : Str) (h1 : lay.xs1 ≠ []) (a1 : allSpace lay.xs1) (a2 : allSpace lay.xs2)
    (a3 : allSpace lay.xs3) (a4 : allSpace lay.xs4) :
    (reMatch xmlRegex (v2Xml lay ++ rest)).isSome = true := by
  have qdd : ∀ q : Quote, isDigitDot q.ch = false := by intro q; cases q <;> decide
  have qwd : ∀ q : Quote, isWordDash q.ch = false := by intro q; cases q <;> decide
  have qw : ∀ q : Quote, isWord q.ch = false := by intro q; cases q <;> decide
  have etext : v2Xml lay ++ rest = "<?xml".toList ++ (lay.xs1 ++ (pseudo "version" "1.0" lay.xmlVersion ++ (lay.xs2 ++
      (pseudo "encoding" "UTF-8" lay.xmlEncoding ++ (lay.xs3 ++ (pseudo "standalone" "no" lay.xmlStandalone ++
      (lay.xs4 ++ ("?>".toList ++ rest)))))))) := by
    simp [v2Xml]
  have hfin : ∀ st', (stepItem .ws0 (matchSegs [L "?>", W0]) st' ("?>".toList ++ rest)).isSome = true := by
    intro st'
    rw [ws0_def]
    have : ("?>".toList ++ rest).dropWhile isSpace = "?>".toList ++ rest := by
      have : "?>".toList = ['?', '>'] := by decide
      rw [this]; exact dropWhile_q _
    rw [this]
    unfold L W0
    apply segs_lit_some
    rfl
  have hq : (("?>".toList ++ rest).dropWhile isSpace).head? = some '?' := by
    have : "?>".toList = ['?', '>'] := by decide
    rw [this]; simp only [List.cons_append, List.nil_append, dropWhile_q]; rfl
  rw [etext, xmlRegex_eq]
  simp only [pseudo_eq]
  unfold reMatch
  unfold L W1
  apply segs_lit_some
  rw [matchSegs_item, ws1_to_ws0 _ _ _ _ h1 a1]
  apply xml_stage _ 'v' "ersion".toList _ _ _ _ _ _ _ (by decide) (by decide) (by decide) (by decide) qdd a2
  · intro _ c hc
    rw [nh_stage _ 'e' "ncoding".toList _ _ _ _ (by decide) (by decide) a3,
      nh_stage _ 's' "tandalone".toList _ _ _ _ (by decide) (by decide) a4, hq] at hc
    revert hc
    cases lay.xmlEncoding <;> cases lay.xmlStandalone <;> intro hc <;> simp at hc <;> subst hc <;> decide
  intro st1
  apply xml_stage _ 'e' "ncoding".toList _ _ _ _ _ _ _ (by decide) (by decide) (by decide) (by decide) qwd a3
  · intro _ c hc
    rw [nh_stage _ 's' "tandalone".toList _ _ _ _ (by decide) (by decide) a4, hq] at hc
    revert hc
    cases lay.xmlStandalone <;> intro hc <;> simp at hc <;> subst hc <;> decide
  intro st2
  apply xml_stage _ 's' "tandalone".toList _ _ _ _ _ _ _ (by decide) (by decide) (by decide) (by decide) qw a4
  · intro _ c hc
    rw [hq] at hc
    simp at hc; subst hc; decide
  exact hfin

theorem plain_pseudo (name v : String) (oq : Option Quote) (hn : ∀ c ∈ name.toList, plain c)
    (hv : ∀ c ∈ v.toList, plain c) : ∀ c ∈ pseudo name v oq, plain c := by
  cases oq with
  | none => intro c hc; simp [pseudo] at hc
  | some q =>
    intro c hc
    simp only [pseudo, List.mem_append, List.mem_cons, List.mem_singleton] at hc
    rcases hc with h | h | h | h | h
    · exact hn c h
    · subst h; exact ⟨by decide, by decide, by decide⟩
    · subst h; exact plain_quote q
    · exact hv c h
    · rcases h with h | h
      · subst h; exact plain_quote q
      · cases h

theorem v2Xml_shape (lay : V2Lay) (w1 : wsNoLF lay.xs1 = true) (w2 : wsNoLF lay.xs2 = true)
    (w3 : wsNoLF lay.xs3 = true) (w4 : wsNoLF lay.xs4 = true) :
    ∃ X', (∀ rest, v2Xml lay ++ rest = '<' :: '?' :: 'x' :: (X' ++ rest)) ∧ ∀ c ∈ X', plain c := by
  refine ⟨"ml".toList ++ (lay.xs1 ++ (pseudo "version" "1.0" lay.xmlVersion ++ (lay.xs2 ++
    (pseudo "encoding" "UTF-8" lay.xmlEncoding ++ (lay.xs3 ++ (pseudo "standalone" "no" lay.xmlStandalone ++
    (lay.xs4 ++ "?>".toList))))))), ?_, ?_⟩
  · intro rest
    have : "<?xml".toList = '<' :: '?' :: 'x' :: "ml".toList := by decide
    simp [v2Xml, this]
  · have l0 : ∀ c ∈ "ml".toList, plain c := by unfold plain; decide
    have l7 : ∀ c ∈ "?>".toList, plain c := by unfold plain; decide
    have p1 := plain_pseudo "version" "1.0" lay.xmlVersion (by unfold plain; decide) (by unfold plain; decide)
    have p2 := plain_pseudo "encoding" "UTF-8" lay.xmlEncoding (by unfold plain; decide) (by unfold plain; decide)
    have p3 := plain_pseudo "standalone" "no" lay.xmlStandalone (by unfold plain; decide) (by unfold plain; decide)
    intro c hc
    simp only [List.mem_append] at hc
    rcases hc with h | h | h | h | h | h | h | h | h
    · exact l0 c h
    · exact plain_ws _ w1 c h
    · exact p1 c h
    · exact plain_ws _ w2 c h
    · exact p2 c h
    · exact plain_ws _ w3 c h
    · exact p3 c h
    · exact plain_ws _ w4 c h
    · exact l7 c h

theorem nonEmptyWs_spec (s : Str) (h : nonEmptyWs s = true) : s ≠ [] ∧ allSpace s ∧ isAscii s := by
  simp only [nonEmptyWs, Bool.and_eq_true, Bool.not_eq_true', List.isEmpty_eq_false_iff] at h
  exact ⟨h.1, asciiSpace_spec s h.2⟩

theorem noLt_space (w : Str) (h : allSpace w) : '<' ∉ w := fun hm => absurd (h _ hm) (by decide)

theorem quote_ascii (q : Quote) : q.ch.toNat < 128 := by cases q <;> decide

theorem isAscii_ofxNF (s0 v1 s1 v2 s2 v3 s3 v4 s4 v5 bc gap : Str) (q0 q1 q2 q3 q4 : Quote) (h0 : isAscii s0)
    (h1 : isAscii s1) (h2 : isAscii s2) (h3 : isAscii s3) (h4 : isAscii s4) (hbc : isAscii bc) (hg : isAscii gap)
    (a1 : isAscii v1) (a2 : isAscii v2) (a3 : isAscii v3) (a4 : isAscii v4) (a5 : isAscii v5) :
    isAscii (ofxNF s0 v1 s1 v2 s2 v3 s3 v4 s4 v5 bc gap [] q0.ch q1.ch q2.ch q3.ch q4.ch) := by
  have l : ∀ x : String, x.toList.all (fun c => decide (c.toNat < 128)) = true → isAscii x.toList := by
    intro x hx c hc
    simpa using List.all_eq_true.1 hx c hc
  unfold ofxNF
  simp only [isAscii_append, isAscii_cons]
  refine ⟨l _ (by decide), h0, l _ (by decide), quote_ascii q0, a1, quote_ascii q0, h1, l _ (by decide), quote_ascii q1, a2,
    quote_ascii q1, h2, l _ (by decide), quote_ascii q2, a3, quote_ascii q2, h3, l _ (by decide), quote_ascii q3, a4,
    quote_ascii q3, h4, l _ (by decide), quote_ascii q4, a5, quote_ascii q4, hbc, l _ (by decide), hg, isAscii_nil⟩

/-- v2 files, any payload that starts with `<` (nothing is stripped) -/
theorem parse_v2_gen (p1 : V1P) (p2 : V2P) (tbl : List (Option Nat)) (lay : V2Lay) (h : V2) (body : Str) (bb : Bytes)
    (hv : ValidV2 p2 h) (henc : encode tbl .utf8 body = .ok bb)
    (hb0 : body.head? = some '<')
    (htol : lay.tolerated = true) :
    parseHeader p1 p2 tbl (renderV2 lay h bb) = .ok (.v2 h, body) := by
  -- unpack the layout conditions
  simp only [V2Lay.tolerated, Bool.and_eq_true, decide_eq_true_eq, Bool.not_eq_true', List.isEmpty_eq_false_iff] at htol
  obtain ⟨⟨⟨⟨⟨⟨⟨⟨⟨⟨⟨⟨⟨⟨tlen, tlead⟩, x1ne⟩, tx1⟩, tx2⟩, tx3⟩, tx4⟩, taft⟩, ts0⟩, ts1⟩, ts2⟩, ts3⟩, ts4⟩, tbc⟩, tgap⟩ := htol
  have tlead' : ∀ l ∈ lay.leading, wsNoLF l = true := by simpa [List.all_eq_true] using tlead
  obtain ⟨n0, a0, i0⟩ := nonEmptyWs_spec _ ts0
  obtain ⟨n1, a1, i1⟩ := nonEmptyWs_spec _ ts1
  obtain ⟨n2, a2, i2⟩ := nonEmptyWs_spec _ ts2
  obtain ⟨n3, a3, i3⟩ := nonEmptyWs_spec _ ts3
  obtain ⟨n4, a4, i4⟩ := nonEmptyWs_spec _ ts4
  obtain ⟨abc, ibc⟩ := asciiSpace_spec _ tbc
  obtain ⟨ag, ig⟩ := asciiSpace_spec _ tgap
  obtain ⟨aaft, iaft⟩ := asciiSpace_spec _ taft
  obtain ⟨c1, _⟩ := pyStrInt_small _ hv.oh0.1 hv.oh0.2
  obtain ⟨c2, _⟩ := pyStrInt_small _ hv.ver0.1 hv.ver0.2
  obtain ⟨X', hXml, hX'⟩ := v2Xml_shape lay tx1 tx2 tx3 tx4
  obtain ⟨brest, hbody⟩ : ∃ r, body = '<' :: r := by
    cases body with
    | nil => simp at hb0
    | cons c r => simp at hb0; exact ⟨r, by rw [hb0]⟩
  -- the text after the leading blank lines
  let O : Str := ofxNF lay.s0 (pyStrInt h.ofxheader) lay.s1 (pyStrInt h.version) lay.s2 h.security lay.s3
      h.oldfileuid lay.s4 h.newfileuid lay.beforeClose lay.gap [] lay.q0.ch lay.q1.ch lay.q2.ch lay.q3.ch lay.q4.ch
  have hO : v2Ofx lay h = O := by have := v2Ofx_nf lay h []; simpa using this
  have hOR : ∀ R, O ++ R = ofxNF lay.s0 (pyStrInt h.ofxheader) lay.s1 (pyStrInt h.version) lay.s2 h.security lay.s3
      h.oldfileuid lay.s4 h.newfileuid lay.beforeClose lay.gap R lay.q0.ch lay.q1.ch lay.q2.ch lay.q3.ch lay.q4.ch := by
    intro R; rw [← hO]; exact v2Ofx_nf lay h R
  have hT : v2Xml lay ++ (lay.afterXml ++ v2Ofx lay h) = '<' :: '?' :: 'x' :: (X' ++ (lay.afterXml ++ O)) := by
    rw [hXml, hO]
  have iX' : isAscii X' := fun c hc => (hX' c hc).1
  have iO : isAscii O := isAscii_ofxNF _ _ _ _ _ _ _ _ _ _ _ _ _ _ _ _ _ i0 i1 i2 i3 i4 ibc ig
    (isAscii_class _ digit_wordDash _ c1.2) (isAscii_class _ digit_wordDash _ c2.2)
    (isAscii_class _ word_wordDash _ hv.sec.2.2) (isAscii_class _ (fun _ h => h) _ hv.old.1.2)
    (isAscii_class _ (fun _ h => h) _ hv.new.1.2)
  let T : Str := '<' :: '?' :: 'x' :: (X' ++ (lay.afterXml ++ O))
  have iT : isAscii T := by
    refine isAscii_cons.2 ⟨by decide, isAscii_cons.2 ⟨by decide, isAscii_cons.2 ⟨by decide, ?_⟩⟩⟩
    exact isAscii_append.2 ⟨iX', isAscii_append.2 ⟨iaft, iO⟩⟩
  have hLA : isAscii (leadingText lay.leading) := by
    have : ∀ ls : List Str, (∀ l ∈ ls, wsNoLF l = true) → isAscii (leadingText ls) := by
      intro ls
      induction ls with
      | nil => intro _; exact isAscii_nil
      | cons l ls ih =>
        intro h
        refine isAscii_append.2 ⟨(wsNoLF_spec l (h l (by simp))).2.1, isAscii_cons.2 ⟨by decide, ?_⟩⟩
        exact ih (fun x hx => h x (by simp [hx]))
    exact this _ tlead'
  have hLlt : '<' ∉ leadingText lay.leading := by
    have : ∀ ls : List Str, (∀ l ∈ ls, wsNoLF l = true) → '<' ∉ leadingText ls := by
      intro ls
      induction ls with
      | nil => intro _; simp [leadingText]
      | cons l ls ih =>
        intro h hm
        simp only [leadingText, List.mem_append, List.mem_cons] at hm
        rcases hm with hm | hm | hm
        · exact noLt_space l (wsNoLF_spec l (h l (by simp))).1 hm
        · exact absurd hm (by decide)
        · exact ih (fun x hx => h x (by simp [hx])) hm
    exact this _ tlead'
  let F : Bytes := asciiBytes T ++ bb
  have hfile : renderV2 lay h bb = asciiBytes (leadingText lay.leading) ++ F := by
    simp only [renderV2, v2Text, hT, asciiBytes_append, List.append_assoc, F, T]
  obtain ⟨hs, hsdef⟩ : ∃ hs, (leadingText lay.leading).length = hs := ⟨_, rfl⟩
  have hdropF : (renderV2 lay h bb).drop hs = F := by
    rw [hfile, ← hsdef]
    exact List.drop_left' (asciiBytes_length _)
  -- the first line
  have hXlf : hasLF ('<' :: '?' :: 'x' :: X') = false := by
    simp only [hasLF, List.any_eq_false, beq_iff_eq, List.mem_cons]
    intro c hc
    rcases hc with e | e | e | e
    · subst e; decide
    · subst e; decide
    · subst e; decide
    · exact (hX' c e).2.1
  have iX : isAscii ('<' :: '?' :: 'x' :: X') :=
    isAscii_cons.2 ⟨by decide, isAscii_cons.2 ⟨by decide, isAscii_cons.2 ⟨by decide, iX'⟩⟩⟩
  have hline1 : chars (splitLine F) =
      ('<' :: '?' :: 'x' :: X') ++ chars (splitLine (asciiBytes (lay.afterXml ++ O) ++ bb)) := by
    have e : F = asciiBytes ('<' :: '?' :: 'x' :: X') ++ (asciiBytes (lay.afterXml ++ O) ++ bb) := by
      have : ('<' :: '?' :: 'x' :: (X' ++ (lay.afterXml ++ O))) =
          ('<' :: '?' :: 'x' :: X') ++ (lay.afterXml ++ O) := by simp
      simp only [F, T]
      rw [this, asciiBytes_append, List.append_assoc]
    rw [e, splitLine_noLF _ _ iX hXlf, chars_append, chars_asciiBytes _ iX]
  have hfind : findHeader (renderV2 lay h bb) 8 0 =
      .ok (hs, chars (splitLine F), hs + (splitLine F).length) := by
    rw [findHeader_leading _ lay.leading tlead' 8 0 F (by rw [List.drop_zero, hfile]) (by omega)]
    obtain ⟨k, hk⟩ : ∃ k, 8 - lay.leading.length = k + 1 := ⟨7 - lay.leading.length, by omega⟩
    rw [hk, findHeader]
    simp only [readline, Nat.zero_add, hsdef, hdropF]
    have : strip (chars (splitLine F)) ≠ [] :=
      strip_ne_nil_of_mem _ '<' (by rw [hline1]; simp) (by decide)
    cases hst : strip (chars (splitLine F)) with
    | nil => exact absurd hst this
    | cons c cs => simp [chars] at hst ⊢; simp [hst]; rfl
  obtain ⟨xr, hxml⟩ := Option.isSome_iff_exists.1 (by
    have := xml_match_gen lay (chars (splitLine (asciiBytes (lay.afterXml ++ O) ++ bb)))
      x1ne (wsNoLF_spec _ tx1).1 (wsNoLF_spec _ tx2).1 (wsNoLF_spec _ tx3).1 (wsNoLF_spec _ tx4).1
    rw [hXml] at this
    simpa [hline1] using this : (reMatch xmlRegex (chars (splitLine F))).isSome = true)
  -- the whole file decoded as UTF-8
  have hdec : decodeUtf8 (renderV2 lay h bb) = .ok (leadingText lay.leading ++ (T ++ body)) := by
    rw [hfile]
    simp only [F]
    rw [decodeUtf8_asciiBytes_append _ hLA, decodeUtf8_asciiBytes_append _ iT]
    have := decode_encode tbl .utf8 body bb henc
    simp only [decode] at this
    rw [this]
    rfl
  -- the search finds the OFX declaration
  have hsearch : reSearch v2Regex (leadingText lay.leading ++ (T ++ body)) =
      some ([some (pyStrInt h.ofxheader), some (pyStrInt h.version), some h.security, some h.oldfileuid,
        some h.newfileuid], body) := by
    rw [reSearch_skip_noLt _ _ hLlt]
    have e : T ++ body = '<' :: '?' :: 'x' :: ((X' ++ lay.afterXml) ++ (O ++ body)) := by simp [T]
    rw [e, reSearch_skip_xml]
    have e2 : '?' :: 'x' :: ((X' ++ lay.afterXml) ++ (O ++ body)) = ('?' :: 'x' :: (X' ++ lay.afterXml)) ++ (O ++ body) := by
      simp
    rw [e2, reSearch_skip_noLt _ _ (by
      intro hm
      simp only [List.mem_cons, List.mem_append] at hm
      rcases hm with hm | hm | hm | hm
      · exact absurd hm (by decide)
      · exact absurd hm (by decide)
      · exact (hX' _ hm).2.2 rfl
      · exact noLt_space _ aaft hm)]
    apply reSearch_of_match
    rw [hOR]
    exact v2_match _ _ _ _ _ _ _ _ _ _ _ _ _ _ _ _ _ _ n0 a0 n1 a1 n2 a2 n3 a3 n4 a4 abc ag c1 c2 hv.sec.2 hv.old.1 hv.new.1
      (by rw [hbody]; intro c hc; simp at hc; subst hc; decide)
  have hparse : parseV2 p2 (leadingText lay.leading ++ (T ++ body)) =
      .ok (h, (leadingText lay.leading ++ T).length) := by
    unfold parseV2
    rw [hsearch]
    simp only [ctorV2_valid p2 h hv, bind, Except.bind, pure, Except.pure]
    congr 2
    simp only [List.length_append]
    omega
  unfold parseHeader
  simp only [hfind, bind, Except.bind, hxml, hdec, hparse, pure, Except.pure]
  congr 2
  rw [← List.append_assoc, List.drop_left]

/-- **C05 for v2 files**: every tolerated layout -/
theorem parse_v2 (p1 : V1P) (p2 : V2P) (tbl : List (Option Nat)) (lay : V2Lay) (h : V2) (body : Str) (bb : Bytes)
    (hv : ValidV2 p2 h) (henc : encode tbl .utf8 body = .ok bb)
    (hb0 : body.head? = some '<') (_hb1 : body.getLast? = some '>') (htol : lay.tolerated = true) :
    parseHeader p1 p2 tbl (renderV2 lay h bb) = .ok (.v2 h, body) :=
  parse_v2_gen p1 p2 tbl lay h body bb hv henc hb0 htol

end Ofx.Header
